package main

// P-bounds: obligations for every index / slice expression of a function set, discharged by dominating comparisons
// (exact must-pass-through on the CFG), by loop-counter induction, by a few library facts, or by a reviewed
// invariant table (one reason per entry, printed in the evidence). Anything else is reported.

import (
	"fmt"
	"go/token"
	"go/types"
	"os"
	"strings"

	"golang.org/x/tools/go/ssa"
)

// ---------- structural equality with identity leaves ----------

func sameVal(a, b ssa.Value) bool {
	if a == b {
		return true
	}
	if a == nil || b == nil {
		return false
	}
	switch x := a.(type) {
	case *ssa.Const:
		y, ok := b.(*ssa.Const)
		if ok && x.Value == nil && y.Value == nil {
			return types.Identical(x.Type(), y.Type()) // two nil (zero) constants of one type
		}
		if !ok || x.Value == nil || y.Value == nil {
			return false
		}
		return x.Value.ExactString() == y.Value.ExactString()
	case *ssa.UnOp:
		y, ok := b.(*ssa.UnOp)
		return ok && x.Op == y.Op && sameVal(x.X, y.X)
	case *ssa.FieldAddr:
		y, ok := b.(*ssa.FieldAddr)
		return ok && x.Field == y.Field && types.Identical(x.X.Type(), y.X.Type()) && sameVal(x.X, y.X)
	case *ssa.Field:
		y, ok := b.(*ssa.Field)
		return ok && x.Field == y.Field && sameVal(x.X, y.X)
	case *ssa.IndexAddr:
		y, ok := b.(*ssa.IndexAddr)
		return ok && sameVal(x.X, y.X) && sameVal(x.Index, y.Index)
	case *ssa.BinOp:
		y, ok := b.(*ssa.BinOp)
		return ok && x.Op == y.Op && sameVal(x.X, y.X) && sameVal(x.Y, y.Y)
	case *ssa.Convert:
		y, ok := b.(*ssa.Convert)
		return ok && types.Identical(x.Type(), y.Type()) && sameVal(x.X, y.X)
	case *ssa.ChangeType:
		y, ok := b.(*ssa.ChangeType)
		return ok && sameVal(x.X, y.X)
	case *ssa.Call:
		y, ok := b.(*ssa.Call)
		if !ok {
			return false
		}
		nx, ny := calleeName(&x.Call), calleeName(&y.Call)
		if nx != ny || !pureCallee(nx) || len(x.Call.Args) != len(y.Call.Args) {
			return false
		}
		for i := range x.Call.Args {
			if !sameVal(x.Call.Args[i], y.Call.Args[i]) {
				return false
			}
		}
		return true
	}
	return false
}

func pureCallee(name string) bool {
	switch name {
	case "builtin len", "builtin cap", "(rt/middleware/denco.baseCheck).Base", "rt/middleware/denco.nextIndex":
		return true
	}
	return false
}

// render gives a register-name-free rendering used for obligation keys and the invariant table.
func render(v ssa.Value) string {
	return renderD(v, 0)
}

func renderD(v ssa.Value, d int) string {
	if v == nil {
		return ""
	}
	if d > 10 {
		return "…"
	}
	switch x := v.(type) {
	case *ssa.Parameter:
		return x.Name()
	case *ssa.FreeVar:
		return x.Name()
	case *ssa.Const:
		if x.Value == nil {
			return "nil"
		}
		return x.Value.ExactString()
	case *ssa.Global:
		return x.Name()
	case *ssa.FieldAddr:
		nn, st := structOf(x.X.Type())
		fn := "?"
		if st != nil {
			fn = fieldNameOf(nn, st, x.Field)
		}
		return "&" + renderD(x.X, d+1) + "." + fn
	case *ssa.Field:
		nn, st := structOf(x.X.Type())
		fn := "?"
		if st != nil {
			fn = fieldNameOf(nn, st, x.Field)
		}
		return renderD(x.X, d+1) + "." + fn
	case *ssa.UnOp:
		if x.Op == token.MUL {
			s := renderD(x.X, d+1)
			if strings.HasPrefix(s, "&") {
				return s[1:]
			}
			return "*" + s
		}
		return x.Op.String() + renderD(x.X, d+1)
	case *ssa.BinOp:
		// a loop counter and its increment render alike, so that `for i := range` and `for i := 0; i < n; i++` give the same key
		if _, isPhi := x.X.(*ssa.Phi); isPhi && x.Op == token.ADD {
			if _, isK := constInt(x.Y); isK {
				return "φ"
			}
		}
		return "(" + renderD(x.X, d+1) + x.Op.String() + renderD(x.Y, d+1) + ")"
	case *ssa.Call:
		n := calleeName(&x.Call)
		n = strings.TrimPrefix(n, "builtin ")
		var as []string
		for _, a := range x.Call.Args {
			if d >= 6 {
				as = []string{"…"}
				break
			}
			as = append(as, renderD(a, d+1))
		}
		if x.Call.IsInvoke() {
			return renderD(x.Call.Value, d+1) + "." + x.Call.Method.Name() + "(" + strings.Join(as, ",") + ")"
		}
		if i := strings.LastIndex(n, "."); i >= 0 && !strings.HasPrefix(n, "(") {
			n = n[strings.LastIndex(n[:i], "/")+1:]
		}
		return n + "(" + strings.Join(as, ",") + ")"
	case *ssa.Phi:
		return "φ"
	case *ssa.Alloc:
		return "&" + x.Comment
	case *ssa.Extract:
		return renderD(x.Tuple, d+1) + "#" + fmt.Sprint(x.Index)
	case *ssa.Convert:
		return renderD(x.X, d+1)
	case *ssa.ChangeType:
		return renderD(x.X, d+1)
	case *ssa.IndexAddr:
		return "&" + renderD(x.X, d+1) + "[" + renderD(x.Index, d+1) + "]"
	case *ssa.Index:
		return renderD(x.X, d+1) + "[" + renderD(x.Index, d+1) + "]"
	case *ssa.Lookup:
		return renderD(x.X, d+1) + "[" + renderD(x.Index, d+1) + "]"
	case *ssa.Slice:
		return renderD(x.X, d+1) + "[" + renderD(x.Low, d+1) + ":" + renderD(x.High, d+1) + "]"
	case *ssa.MakeSlice:
		return "make(" + renderD(x.Len, d+1) + ")"
	case *ssa.TypeAssert:
		return renderD(x.X, d+1) + ".(" + typeStr(x.AssertedType) + ")"
	case *ssa.Next:
		return "next"
	}
	return strings.TrimPrefix(fmt.Sprintf("%T", v), "*ssa.")
}

// renderShape renders an expression with every local name (parameter, loop variable, captured variable) replaced by
// "_" and callees reduced to their base names: the key under which invariant-table entries and known findings are
// matched, so that they survive renames and the move of the expression into another function.
func renderShape(v ssa.Value) string { return shapeD(v, 0) }

func shapeD(v ssa.Value, d int) string {
	if v == nil {
		return ""
	}
	if d > 16 {
		return "…"
	}
	switch x := v.(type) {
	case *ssa.Parameter, *ssa.FreeVar, *ssa.Phi, *ssa.Alloc:
		return "_"
	case *ssa.Const:
		if x.Value == nil {
			return "nil"
		}
		return x.Value.ExactString()
	case *ssa.Global:
		return x.Name()
	case *ssa.FieldAddr:
		nn, st := structOf(x.X.Type())
		fn := "?"
		if st != nil {
			fn = fieldNameOf(nn, st, x.Field)
		}
		return "&" + shapeD(x.X, d+1) + "." + fn
	case *ssa.Field:
		nn, st := structOf(x.X.Type())
		fn := "?"
		if st != nil {
			fn = fieldNameOf(nn, st, x.Field)
		}
		return shapeD(x.X, d+1) + "." + fn
	case *ssa.UnOp:
		if x.Op == token.MUL {
			s := shapeD(x.X, d+1)
			if strings.HasPrefix(s, "&") {
				return s[1:]
			}
			if s == "_" {
				return "_"
			}
			return "*" + s
		}
		return x.Op.String() + shapeD(x.X, d+1)
	case *ssa.BinOp:
		if _, isPhi := x.X.(*ssa.Phi); isPhi && x.Op == token.ADD {
			if _, isK := constInt(x.Y); isK {
				return "_"
			}
		}
		return "(" + shapeD(x.X, d+1) + x.Op.String() + shapeD(x.Y, d+1) + ")"
	case *ssa.Call:
		n := baseName(strings.TrimPrefix(calleeName(&x.Call), "builtin "))
		var as []string
		for _, a := range x.Call.Args {
			if d >= 6 {
				as = []string{"…"}
				break
			}
			as = append(as, shapeD(a, d+1))
		}
		if x.Call.IsInvoke() {
			return shapeD(x.Call.Value, d+1) + "." + x.Call.Method.Name() + "(" + strings.Join(as, ",") + ")"
		}
		// a helper that is looked through contributes nothing stable
		if transparentCallee(x) != nil {
			return "_"
		}
		full := calleeName(&x.Call)
		if (strings.Contains(full, "rt/") || strings.HasPrefix(full, "rt.")) && !pureCallee(full) && full != "rt/middleware/denco.NextSeparator" {
			return n + "(…)" // results of repository functions: arguments are not part of the shape
		}
		return n + "(" + strings.Join(as, ",") + ")"
	case *ssa.Extract:
		s := shapeD(x.Tuple, d+1)
		if s == "_" {
			return "_"
		}
		return s + "#" + fmt.Sprint(x.Index)
	case *ssa.Convert:
		return shapeD(x.X, d+1)
	case *ssa.ChangeType:
		return shapeD(x.X, d+1)
	case *ssa.IndexAddr:
		if d > 0 && shapeD(x.X, d+1) == "_" {
			// an element of a LOCAL slice read inside a larger expression: which element it is does not matter to a
			// belief about "an element of that slice" (that the read itself is in range is an obligation of its own)
			return "&_[_]"
		}
		return "&" + shapeD(x.X, d+1) + "[" + shapeD(x.Index, d+1) + "]"
	case *ssa.Index:
		if d > 0 && shapeD(x.X, d+1) == "_" {
			return "_[_]"
		}
		return shapeD(x.X, d+1) + "[" + shapeD(x.Index, d+1) + "]"
	case *ssa.Lookup:
		return shapeD(x.X, d+1) + "[" + shapeD(x.Index, d+1) + "]"
	case *ssa.Slice:
		return shapeD(x.X, d+1) + "[" + shapeD(x.Low, d+1) + ":" + shapeD(x.High, d+1) + "]"
	case *ssa.MakeSlice:
		return "make(" + shapeD(x.Len, d+1) + ")"
	case *ssa.TypeAssert:
		return shapeD(x.X, d+1) + ".(" + typeStr(x.AssertedType) + ")"
	}
	return "_"
}

// ---------- relations ----------

// lenOf: v is len(Y) (or cap(Y)); returns Y.
func lenOf(v ssa.Value) (ssa.Value, bool) {
	c := asCall(v)
	if c == nil {
		return nil, false
	}
	n := calleeName(&c.Call)
	if (n == "builtin len" || n == "builtin cap") && len(c.Call.Args) == 1 {
		if cv, ok := c.Call.Args[0].(*ssa.Convert); ok && n == "builtin len" && isBytesOrString(cv.Type()) && isBytesOrString(cv.X.Type()) {
			return cv.X, true // len([]byte(s)) == len(s): `for i := range []byte(s)` bounds indexes of s
		}
		return c.Call.Args[0], true
	}
	return nil, false
}

// lenOperand: the value whose length equals len(X): []byte(s) and string(b) have the length of their operand.
func lenOperand(X ssa.Value) ssa.Value {
	if cv, ok := X.(*ssa.Convert); ok && isBytesOrString(cv.Type()) && isBytesOrString(cv.X.Type()) {
		return cv.X
	}
	return X
}

func isBytesOrString(t types.Type) bool {
	switch u := t.Underlying().(type) {
	case *types.Basic:
		return u.Info()&types.IsString != 0
	case *types.Slice:
		b, ok := u.Elem().Underlying().(*types.Basic)
		return ok && b.Kind() == types.Uint8
	}
	return false
}

type bctx struct {
	c     *Ctx
	fn    *ssa.Function
	depth int
	// assumptions for summary analysis: parameter i <= len(parameter j), parameter nonneg
	assumeLE     map[[2]*ssa.Parameter]bool
	assumeNonNeg map[*ssa.Parameter]bool
	assumeLT     map[ltAssume]bool // parameter < len(expression over the function's own parameters)
	ltVisiting   map[ssa.Value]bool
}

type ltAssume struct {
	p *ssa.Parameter
	x ssa.Value
}

// A boundsAssumption is a stated precondition of a function of the never-panics set (a caller obligation):
// parameter #Param is >= 0 and, when LenOfField != "", < len(<receiver>.<LenOfField>).
type boundsAssumption struct {
	Fn         string
	Param      int    // index among fn.Params (receiver included)
	LenOfField string // field of the receiver (Params[0]) whose length bounds the parameter; "" = only non-negativity
	Reason     string
}

// lessFact: the edge establishes a < b (strict) or a <= b (!strict), a and b matched structurally.
func lessFact(a, b ssa.Value, strict bool) EdgePred {
	return func(cond ssa.Value, branch bool) bool {
		c, br := stripNot(cond, branch)
		bo, ok := c.(*ssa.BinOp)
		if !ok {
			return false
		}
		op := bo.Op
		x, y := bo.X, bo.Y
		if !br { // negate
			switch op {
			case token.LSS:
				op = token.GEQ
			case token.LEQ:
				op = token.GTR
			case token.GTR:
				op = token.LEQ
			case token.GEQ:
				op = token.LSS
			case token.EQL:
				op = token.NEQ
			case token.NEQ:
				op = token.EQL
			default:
				return false
			}
		}
		// normalise to x OP y with OP in {<, <=, ==}
		switch op {
		case token.GTR:
			x, y, op = y, x, token.LSS
		case token.GEQ:
			x, y, op = y, x, token.LEQ
		}
		if !sameVal(x, a) || !sameVal(y, b) {
			if op == token.EQL && ((sameVal(x, a) && sameVal(y, b)) || (sameVal(x, b) && sameVal(y, a))) {
				return !strict
			}
			return false
		}
		switch op {
		case token.LSS:
			return true
		case token.LEQ, token.EQL:
			return !strict
		}
		return false
	}
}

// lenGTFact: the edge establishes len(X) > k.
func lenGTFact(X ssa.Value, k int64) EdgePred {
	isLenX := func(v ssa.Value) bool {
		y, ok := lenOf(v)
		return ok && sameVal(y, X)
	}
	return func(cond ssa.Value, branch bool) bool {
		c, br := stripNot(cond, branch)
		switch x := c.(type) {
		case *ssa.Call:
			n := calleeName(&x.Call)
			if (n == "strings.HasPrefix" || n == "strings.HasSuffix" || n == "bytes.HasPrefix" || n == "bytes.HasSuffix") && br && sameVal(x.Call.Args[0], X) {
				if s, ok := constString(x.Call.Args[1]); ok {
					return int64(len(s)) > k
				}
			}
			return false
		case *ssa.BinOp:
			op := x.Op
			l, r := x.X, x.Y
			if !br {
				switch op {
				case token.LSS:
					op = token.GEQ
				case token.LEQ:
					op = token.GTR
				case token.GTR:
					op = token.LEQ
				case token.GEQ:
					op = token.LSS
				case token.EQL:
					op = token.NEQ
				case token.NEQ:
					op = token.EQL
				default:
					return false
				}
			}
			// string comparisons with "": X != ""
			if s, ok := constString(r); ok && s == "" && sameVal(l, X) {
				return op == token.NEQ && k == 0
			}
			if s, ok := constString(l); ok && s == "" && sameVal(r, X) {
				return op == token.NEQ && k == 0
			}
			if isLenX(r) {
				l, r = r, l
				switch op {
				case token.LSS:
					op = token.GTR
				case token.GTR:
					op = token.LSS
				case token.LEQ:
					op = token.GEQ
				case token.GEQ:
					op = token.LEQ
				}
			}
			if !isLenX(l) {
				return false
			}
			kk, ok := constInt(r)
			if !ok {
				// len(X) > len(Y)-style facts are not used
				return false
			}
			switch op {
			case token.GTR:
				return kk >= k
			case token.GEQ:
				return kk >= k+1
			case token.EQL:
				return kk > k
			case token.NEQ:
				return kk == 0 && k == 0
			}
		}
		return false
	}
}

// memStable: the fact `pred` about memory-reading expressions still holds at `use`: for every store of the function
// that may change a local variable read by the expressions, the fact is re-established between that store and use.
func (b *bctx) holds(use ssa.Instruction, pred EdgePred, exprs ...ssa.Value) bool {
	if !guardedBy(use, nil, pred) {
		return false
	}
	for _, al := range allocRoots(exprs...) {
		for _, st := range storesToCell(al) {
			if st.Parent() != b.fn && !(isTransparent(st.Parent()) && st.Parent() == use.Parent()) {
				return false // (a store in another function; a helper the code was moved into is judged like the function itself)
			}
			if !guardedBy(use, st, pred) {
				return false
			}
		}
		// stores to fields of the local
		for _, in := range instrs(b.fn) {
			st, ok := in.(*ssa.Store)
			if !ok {
				continue
			}
			root, _, _, _ := chainRoot(st.Addr)
			if root == ssa.Value(al) && st.Addr != ssa.Value(al) {
				if !guardedBy(use, st, pred) {
					return false
				}
			}
		}
	}
	// heap memory reached through parameters: require that the function does not store to the same field at all
	for _, fa := range fieldReads(exprs...) {
		for _, in := range instrs(b.fn) {
			st, ok := in.(*ssa.Store)
			if !ok {
				continue
			}
			if sfa, ok := st.Addr.(*ssa.FieldAddr); ok && sfa.Field == fa.Field && types.Identical(sfa.X.Type(), fa.X.Type()) {
				if _, isAl := rootOf(fa).(*ssa.Alloc); isAl {
					continue // handled above
				}
				return false
			}
		}
	}
	return true
}

func rootOf(v ssa.Value) ssa.Value {
	r, _, _, _ := chainRoot(v)
	return r
}

func allocRoots(exprs ...ssa.Value) []*ssa.Alloc {
	var out []*ssa.Alloc
	seen := map[ssa.Value]bool{}
	var walk func(v ssa.Value, d int)
	walk = func(v ssa.Value, d int) {
		if v == nil || seen[v] || d > 12 {
			return
		}
		seen[v] = true
		switch x := v.(type) {
		case *ssa.Alloc:
			out = append(out, x)
		case *ssa.UnOp:
			walk(x.X, d+1)
		case *ssa.FieldAddr:
			walk(x.X, d+1)
		case *ssa.Field:
			walk(x.X, d+1)
		case *ssa.BinOp:
			walk(x.X, d+1)
			walk(x.Y, d+1)
		case *ssa.Convert:
			walk(x.X, d+1)
		case *ssa.IndexAddr:
			walk(x.X, d+1)
			walk(x.Index, d+1)
		case *ssa.Call:
			if pureCallee(calleeName(&x.Call)) {
				for _, a := range x.Call.Args {
					walk(a, d+1)
				}
			}
		}
	}
	for _, e := range exprs {
		walk(e, 0)
	}
	return out
}

func fieldReads(exprs ...ssa.Value) []*ssa.FieldAddr {
	var out []*ssa.FieldAddr
	seen := map[ssa.Value]bool{}
	var walk func(v ssa.Value, d int)
	walk = func(v ssa.Value, d int) {
		if v == nil || seen[v] || d > 12 {
			return
		}
		seen[v] = true
		switch x := v.(type) {
		case *ssa.UnOp:
			walk(x.X, d+1)
		case *ssa.FieldAddr:
			out = append(out, x)
			walk(x.X, d+1)
		case *ssa.BinOp:
			walk(x.X, d+1)
			walk(x.Y, d+1)
		case *ssa.Convert:
			walk(x.X, d+1)
		case *ssa.IndexAddr:
			walk(x.X, d+1)
			walk(x.Index, d+1)
		case *ssa.Call:
			if pureCallee(calleeName(&x.Call)) {
				for _, a := range x.Call.Args {
					walk(a, d+1)
				}
			}
		}
	}
	for _, e := range exprs {
		walk(e, 0)
	}
	return out
}

// ---------- derivations ----------

type visit map[ssa.Value]bool

// nonNeg: v >= 0 at use.
func (b *bctx) nonNeg(v ssa.Value, use ssa.Instruction, seen visit) bool {
	if v == nil {
		return true
	}
	if seen[v] {
		return true // optimistic on cycles (induction over loop-carried values)
	}
	seen[v] = true
	defer delete(seen, v)
	switch x := v.(type) {
	case *ssa.Const:
		k, ok := constInt(x)
		return ok && k >= 0
	case *ssa.Parameter:
		if b.assumeNonNeg[x] {
			return true
		}
	case *ssa.Call:
		n := calleeName(&x.Call)
		switch n {
		case "builtin len", "builtin cap", "builtin copy", "builtin min":
			if n == "builtin min" {
				for _, a := range x.Call.Args {
					if !b.nonNeg(a, use, seen) {
						return false
					}
				}
			}
			return true
		}
		if callee := x.Call.StaticCallee(); callee != nil && callee.Blocks != nil && isRepoPath(fnPkgPath(callee)) && b.depth < 3 {
			// summary: result >= 0 whenever the arguments that are >= 0 here are assumed >= 0 there
			sub := &bctx{c: b.c, fn: callee, depth: b.depth + 1, assumeNonNeg: map[*ssa.Parameter]bool{}}
			for i, a := range x.Call.Args {
				if i < len(callee.Params) && isIntegerType(a.Type()) && b.nonNeg(a, use, seen) {
					sub.assumeNonNeg[callee.Params[i]] = true
				}
			}
			ok := len(returnsOf(callee)) > 0
			for _, r := range returnsOf(callee) {
				if len(r.Results) != 1 || !sub.nonNeg(r.Results[0], r, visit{}) {
					ok = false
				}
			}
			if ok {
				return true
			}
		}
	case *ssa.Phi:
		all := true
		for i, e := range x.Edges {
			if incrementOf(e, x) {
				continue // phi + k (k >= 0): not smaller than the phi itself
			}
			if !b.nonNeg(e, lastInstr(x.Block().Preds[i]), seen) {
				all = false
				break
			}
		}
		if all {
			return true
		}
	case *ssa.BinOp:
		switch x.Op {
		case token.ADD:
			// (phi + k) with every non-increment edge of phi >= -k  (range loops: phi starts at -1, index is phi+1)
			if lb, okk := b.lowerBound(x, visit{}); okk && lb >= 0 {
				return true
			}
			if b.nonNeg(x.X, use, seen) && b.nonNeg(x.Y, use, seen) {
				return true
			}
		case token.MUL, token.XOR, token.OR, token.QUO, token.REM:
			return b.nonNeg(x.X, use, seen) && b.nonNeg(x.Y, use, seen)
		case token.AND:
			return b.nonNeg(x.X, use, seen) || b.nonNeg(x.Y, use, seen)
		case token.SHR:
			return b.nonNeg(x.X, use, seen)
		case token.SUB:
			// a - k >= 0 when a >= k: a = len(Y) with len(Y) > k-1; or a guarded k <= a
			if k, ok := constInt(x.Y); ok && k >= 0 {
				if Y, isLen := lenOf(x.X); isLen {
					if k == 0 || b.lenGT(Y, k-1, use) {
						return true
					}
				}
			}
			if b.holds(use, lessFact(x.Y, x.X, false), x.X, x.Y) {
				return true
			}
			if A, okA := lenOf(x.X); okA {
				if B, okB := lenOf(x.Y); okB && b.holds(use, suffixFact(A, B), A, B) {
					return true
				}
			}
			// loop counters decremented under a `> 0` / `>= 1` guard are handled by the guard on the phi below
		}
	case *ssa.Convert:
		if bt, ok := x.X.Type().Underlying().(*types.Basic); ok && bt.Info()&types.IsUnsigned != 0 {
			// widening from an unsigned type that fits in int
			if bt.Kind() == types.Uint8 || bt.Kind() == types.Uint16 || bt.Kind() == types.Uint32 && false {
				return true
			}
			if bt.Kind() == types.Uint32 {
				// int(uint32 >> k), k >= 1 always fits
				if sh, ok := x.X.(*ssa.BinOp); ok && sh.Op == token.SHR {
					if k, ok := constInt(sh.Y); ok && k >= 1 {
						return true
					}
				}
			}
			return false
		}
		return b.nonNeg(x.X, use, seen)
	case *ssa.ChangeType:
		return b.nonNeg(x.X, use, seen)
	case *ssa.Extract:
		// (strings.Index etc.) guarded by >= 0
	}
	// a dominating guard 0 <= v  /  v >= 0  /  !(v < 0)
	zero := ssa.NewConst(constantInt(0), v.Type())
	if b.holds(use, lessFact(zero, v, false), v) {
		return true
	}
	return false
}

func isIntegerType(t types.Type) bool {
	bt, ok := t.Underlying().(*types.Basic)
	return ok && bt.Info()&types.IsInteger != 0
}

// lenGT: len(X) > k at use.
func (b *bctx) lenGT(X ssa.Value, k int64, use ssa.Instruction) bool {
	X = lenOperand(X)
	if k < 0 {
		return true
	}
	// library facts
	for _, o := range originsOf(X) {
		_ = o
	}
	if c := asCall(X); c != nil {
		switch calleeName(&c.Call) {
		case "strings.Split", "strings.SplitN":
			// a non-zero n and a non-empty separator give at least one element
			if k == 0 {
				sep, ok := constString(c.Call.Args[1])
				okN := true
				if len(c.Call.Args) == 3 {
					n, isK := constInt(c.Call.Args[2])
					okN = isK && n != 0
				}
				if ok && sep != "" && okN {
					return true
				}
			}
		}
	}
	if ms, ok := X.(*ssa.MakeSlice); ok {
		if n, ok := constInt(ms.Len); ok && n > k {
			return true
		}
	}
	if sl, ok := X.(*ssa.Slice); ok {
		if al, ok := sl.X.(*ssa.Alloc); ok && sl.Low == nil && sl.High == nil {
			if pt, ok := al.Type().Underlying().(*types.Pointer); ok {
				if at, ok := pt.Elem().Underlying().(*types.Array); ok && at.Len() > k {
					return true
				}
			}
		}
	}
	return b.holds(use, lenGTFact(X, k), X)
}

// lt: v < len(X) at use.
func (b *bctx) lt(v, X ssa.Value, use ssa.Instruction) bool {
	X = lenOperand(X)
	if k, ok := constInt(v); ok {
		return b.lenGT(X, k, use)
	}
	// X = f(A) with len(f(A)) == len(A) (an element-wise "map" function of the library): v < len(A) suffices
	if call := asCall(X); call != nil {
		if A, ok := lengthPreservingArg(call); ok && b.lt(v, A, use) {
			return true
		}
	}
	// len(X) - k with k >= 1
	if bo, ok := v.(*ssa.BinOp); ok && bo.Op == token.SUB {
		if Y, isLen := lenOf(bo.X); isLen && sameVal(Y, X) {
			if k, ok := constInt(bo.Y); ok && k >= 1 {
				return true
			}
		}
	}
	// direct guard v < len(X)
	for _, L := range lenValues(b.fn, X) {
		if b.holds(use, lessFact(v, L, true), v, X) {
			return true
		}
	}
	switch x := v.(type) {
	case *ssa.Parameter:
		for pr := range b.assumeLT {
			if pr.p == x && sameVal(pr.x, X) {
				return true
			}
		}
	case *ssa.BinOp:
		if x.Op == token.SUB {
			if k, ok := constInt(x.Y); ok {
				if k >= 1 && b.le(x.X, X, use, visit{}) {
					return true
				}
				if k >= 0 && b.ltSeen(x.X, X, use) {
					return true
				}
			}
		}
	case *ssa.Phi:
		if b.ltVisiting == nil {
			b.ltVisiting = map[ssa.Value]bool{}
		}
		if b.ltVisiting[x] {
			return true // induction hypothesis
		}
		b.ltVisiting[x] = true
		defer delete(b.ltVisiting, x)
		for i, e := range x.Edges {
			if edgeExcludedByFlag(x, i, use) {
				continue
			}
			if !b.lt(e, X, lastInstr(x.Block().Preds[i])) {
				if os.Getenv("RTDEBUG") != "" {
					fmt.Fprintf(os.Stderr, "lt phi %s edge %d (%s) fails at use %v\n", x.Name(), i, e.Name(), use)
				}
				return false
			}
		}
		return true
	case *ssa.Convert:
		return b.lt(x.X, X, use)
	}
	return false
}

// edgeExcludedByFlag: the merged value x is used at `use` under a test of a boolean FLAG merged in the same block
// (`ok := true; for … { if bad { ok = false; break } }; if ok { use(x) }`): when no path that ENTERS x's block through
// incoming edge i reaches the use — the flag test right there, whose outcome is a constant on that edge, leads
// elsewhere — that edge cannot be the one the use is reached through.
func edgeExcludedByFlag(x *ssa.Phi, i int, use ssa.Instruction) bool {
	if use == nil || !condIsOwnPhi(x.Block()) || use.Block() == x.Block() {
		return false
	}
	blk := x.Block()
	// a later visit of the block (a loop) re-assigns x: only claim the exclusion when the use cannot come back to it
	if reachableFrom(use.Block(), blk) {
		return false
	}
	type bp struct{ b, pred *ssa.BasicBlock }
	seen := map[bp]bool{}
	work := []bp{{blk, blk.Preds[i]}}
	for len(work) > 0 {
		w := work[len(work)-1]
		work = work[:len(work)-1]
		for _, in := range w.b.Instrs {
			if in == use {
				return false
			}
		}
		var succs []*ssa.BasicBlock
		if iff, ok := lastInstr(w.b).(*ssa.If); ok {
			cond := condOnEdge(iff, w.pred)
			for k, br := range []bool{true, false} {
				if c, isK := constBool(cond); isK && c != br {
					continue
				}
				succs = append(succs, w.b.Succs[k])
			}
		} else {
			succs = w.b.Succs
		}
		for _, s2 := range succs {
			k := bp{s2, nil}
			if condIsOwnPhi(s2) {
				k.pred = w.b
			}
			if !seen[k] {
				seen[k] = true
				work = append(work, bp{s2, w.b})
			}
		}
	}
	return true
}

func (b *bctx) ltSeen(v, X ssa.Value, use ssa.Instruction) bool { return b.lt(v, X, use) }

// incrementOf: e is phi + k with k >= 0 (possibly through conversions).
func incrementOf(e ssa.Value, phi *ssa.Phi) bool {
	if e == ssa.Value(phi) {
		return true
	}
	bo, ok := e.(*ssa.BinOp)
	if !ok || bo.Op != token.ADD || bo.X != ssa.Value(phi) {
		return false
	}
	k, ok := constInt(bo.Y)
	return ok && k >= 0
}

// lowerBound: a constant L with v >= L on every path (phis: minimum over the non-increment edges).
func (b *bctx) lowerBound(v ssa.Value, seen visit) (int64, bool) {
	if seen[v] {
		return 0, false
	}
	seen[v] = true
	defer delete(seen, v)
	switch x := v.(type) {
	case *ssa.Const:
		return constInt(x)
	case *ssa.Parameter:
		if b.assumeNonNeg[x] {
			return 0, true
		}
	case *ssa.Call:
		n := calleeName(&x.Call)
		if n == "builtin len" && len(x.Call.Args) == 1 {
			// len(fmt.Sprintf("{%s}", …)) is at least the number of literal bytes of the constant format
			if sp := asCall(x.Call.Args[0]); sp != nil && calleeName(&sp.Call) == "fmt.Sprintf" {
				if fm, isK := constString(sp.Call.Args[0]); isK {
					lit := int64(0)
					for i := 0; i < len(fm); i++ {
						if fm[i] == '%' && i+1 < len(fm) {
							if fm[i+1] == '%' {
								lit++
							}
							// (a verb: flags / width characters are not counted as literal text either way)
							j := i + 1
							for j < len(fm) && !(fm[j] >= 'a' && fm[j] <= 'z' || fm[j] >= 'A' && fm[j] <= 'Z' || fm[j] == '%') {
								j++
							}
							i = j
							continue
						}
						lit++
					}
					return lit, true
				}
			}
			// len("{" + name + "}")
			if lb, ok := concatLiteralLen(x.Call.Args[0]); ok {
				return lb, true
			}
		}
		if n == "builtin len" || n == "builtin cap" || n == "builtin copy" {
			return 0, true
		}
		if n == "strings.Index" || n == "strings.IndexByte" || n == "strings.LastIndex" || n == "strings.IndexRune" || n == "bytes.Index" {
			return -1, true
		}
	case *ssa.Phi:
		var lb int64
		first := true
		for _, e := range x.Edges {
			if incrementOf(e, x) {
				continue
			}
			l, ok := b.lowerBound(e, seen)
			if !ok {
				return 0, false
			}
			if first || l < lb {
				lb, first = l, false
			}
		}
		if first {
			return 0, false
		}
		return lb, true
	case *ssa.BinOp:
		if x.Op == token.ADD {
			l1, ok1 := b.lowerBound(x.X, seen)
			l2, ok2 := b.lowerBound(x.Y, seen)
			if ok1 && ok2 {
				return l1 + l2, true
			}
		}
	case *ssa.Convert:
		return b.lowerBound(x.X, seen)
	}
	return 0, false
}

// suffixFact: the edge establishes len(B) <= len(A) through strings.HasSuffix/HasPrefix(A, B).
func suffixFact(A, B ssa.Value) EdgePred {
	return func(cond ssa.Value, branch bool) bool {
		c, br := stripNot(cond, branch)
		call := asCall(c)
		if call == nil || !br {
			return false
		}
		n := calleeName(&call.Call)
		if n != "strings.HasSuffix" && n != "strings.HasPrefix" {
			return false
		}
		return sameVal(call.Call.Args[0], A) && sameVal(call.Call.Args[1], B)
	}
}

// lenValues lists the SSA values len(Y) of the function with Y the same as X.
func lenValues(fn *ssa.Function, X ssa.Value) []ssa.Value {
	X = lenOperand(X)
	var out []ssa.Value
	for _, in := range instrs(fn) {
		if c, ok := in.(*ssa.Call); ok {
			if Y, isLen := lenOf(c); isLen && sameVal(Y, X) {
				out = append(out, c)
			}
		}
	}
	return out
}

// le: v <= len(X) at use.
func (b *bctx) le(v, X ssa.Value, use ssa.Instruction, seen visit) bool {
	X = lenOperand(X)
	if v == nil {
		return true
	}
	if seen[v] {
		return true
	}
	seen[v] = true
	defer delete(seen, v)
	if k, ok := constInt(v); ok {
		return k <= 0 || b.lenGT(X, k-1, use)
	}
	if Y, isLen := lenOf(v); isLen && sameVal(Y, X) {
		return true
	}
	if b.lt(v, X, use) {
		return true
	}
	for _, L := range lenValues(b.fn, X) {
		if b.holds(use, lessFact(v, L, false), v, X) {
			return true
		}
	}
	switch x := v.(type) {
	case *ssa.Parameter:
		for pr := range b.assumeLE {
			if pr[0] == x && sameVal(pr[1], X) {
				return true
			}
		}
	case *ssa.BinOp:
		switch x.Op {
		case token.SUB:
			if Y, isLen := lenOf(x.X); isLen && sameVal(Y, X) {
				if k, ok := constInt(x.Y); ok && k >= 0 {
					return true
				}
			}
			if Y, isLen := lenOf(x.X); isLen && sameVal(Y, X) && b.nonNeg(x.Y, use, visit{}) {
				return true
			}
			// w - k <= len when w <= len and k >= 0
			if k, ok := constInt(x.Y); ok && k >= 0 && b.le(x.X, X, use, seen) {
				return true
			}
		case token.ADD:
			// w + 1 <= len(X) when w < len(X) holds where the sum is computed
			if k, ok := constInt(x.Y); ok && k == 1 {
				if b.lt(x.X, X, x) {
					return true
				}
			}
			// w + len(lit) <= len(X) when w = strings.Index(X, lit) >= 0
			if ix := asCall(x.X); ix != nil && calleeName(&ix.Call) == "strings.Index" && sameVal(ix.Call.Args[0], X) {
				if L, isLen := lenOf(x.Y); isLen && sameVal(L, ix.Call.Args[1]) {
					zero := ssa.NewConst(constantInt(0), x.X.Type())
					if b.holds(use, lessFact(zero, x.X, false), x.X) {
						return true
					}
				}
			}
		}
	case *ssa.Phi:
		// induction: every incoming value is <= len(X) at the end of its predecessor
		for i, e := range x.Edges {
			pred := x.Block().Preds[i]
			if !b.le(e, X, lastInstr(pred), seen) {
				return false
			}
		}
		return true
	case *ssa.Call:
		n := calleeName(&x.Call)
		if n == "strings.Index" || n == "strings.IndexByte" || n == "strings.LastIndex" {
			if sameVal(x.Call.Args[0], X) {
				return true // an index into X (or -1) is < len(X)
			}
		}
		if n == "builtin copy" && sameVal(x.Call.Args[0], X) {
			return true
		}
		if n == "builtin min" {
			for _, a := range x.Call.Args {
				if b.le(a, X, use, seen) {
					return true
				}
			}
		}
		if callee := x.Call.StaticCallee(); callee != nil && callee.Blocks != nil && isRepoPath(fnPkgPath(callee)) && b.depth < 3 {
			// summary: result <= len(param i) provided every int argument that is <= len(X) here is assumed so there
			for i, a := range x.Call.Args {
				if i >= len(callee.Params) || !sameVal(a, X) {
					continue
				}
				sub := &bctx{c: b.c, fn: callee, depth: b.depth + 1, assumeLE: map[[2]*ssa.Parameter]bool{}, assumeNonNeg: map[*ssa.Parameter]bool{}, assumeLT: map[ltAssume]bool{}}
				for j, aj := range x.Call.Args {
					if j < len(callee.Params) && isIntegerType(aj.Type()) && b.le(aj, X, use, seen) {
						sub.assumeLE[[2]*ssa.Parameter{callee.Params[j], callee.Params[i]}] = true
					}
				}
				ok := len(returnsOf(callee)) > 0
				for _, r := range returnsOf(callee) {
					if len(r.Results) != 1 || !sub.le(r.Results[0], callee.Params[i], r, visit{}) {
						ok = false
					}
				}
				if ok {
					return true
				}
			}
		}
	case *ssa.Convert:
		return b.le(x.X, X, use, seen)
	}
	return false
}

// leq: a <= b2 at use, for plain values (used for low <= high of slice expressions).
func (b *bctx) leq(a, b2 ssa.Value, X ssa.Value, use ssa.Instruction) bool {
	X = lenOperand(X)
	if a == nil {
		return true
	}
	if sameVal(a, b2) {
		return true
	}
	ka, oka := constInt(a)
	kb, okb := constInt(b2)
	if oka && okb {
		return ka <= kb
	}
	if oka && ka == 0 {
		return b.nonNeg(b2, use, visit{})
	}
	if b.holds(use, lessFact(a, b2, false), a, b2) {
		return true
	}
	// b2 = a + nonneg
	if bo, ok := b2.(*ssa.BinOp); ok && bo.Op == token.ADD {
		if sameVal(bo.X, a) && b.nonNeg(bo.Y, use, visit{}) {
			return true
		}
		if sameVal(bo.Y, a) && b.nonNeg(bo.X, use, visit{}) {
			return true
		}
	}
	// b2 = len(Y)-k and a < len(Y)-k … handled by holds above when written so.
	// b2 = f(X, a) with summary result >= a
	if call := asCall(b2); call != nil {
		if callee := call.Call.StaticCallee(); callee != nil && callee.Blocks != nil && isRepoPath(fnPkgPath(callee)) && b.depth < 3 {
			for j, aj := range call.Call.Args {
				if j >= len(callee.Params) || !sameVal(aj, a) {
					continue
				}
				sub := &bctx{c: b.c, fn: callee, depth: b.depth + 1}
				ok := len(returnsOf(callee)) > 0
				for _, r := range returnsOf(callee) {
					if len(r.Results) != 1 || !sub.geParam(r.Results[0], callee.Params[j], visit{}) {
						ok = false
					}
				}
				if ok {
					return true
				}
			}
		}
	}
	// a const k, b2 = len(Y)  … k <= len(Y)
	if Y, isLen := lenOf(b2); isLen {
		return b.le(a, Y, use, visit{})
	}
	return false
}

// geParam: v >= parameter p on every path (v is p, or a phi of such, or such + nonneg).
func (b *bctx) geParam(v ssa.Value, p *ssa.Parameter, seen visit) bool {
	if v == ssa.Value(p) {
		return true
	}
	if seen[v] {
		return true
	}
	seen[v] = true
	defer delete(seen, v)
	switch x := v.(type) {
	case *ssa.Phi:
		for _, e := range x.Edges {
			if !b.geParam(e, p, seen) {
				return false
			}
		}
		return true
	case *ssa.BinOp:
		if x.Op == token.ADD {
			if k, ok := constInt(x.Y); ok && k >= 0 {
				return b.geParam(x.X, p, seen)
			}
		}
	}
	return false
}

// ---------- the rule ----------

type boundsResult struct {
	obligations int
	auto        int
}

// checkBounds emits one obligation per index/slice expression of every function in fns.
// table: invariant table, key "<function>: <expr>" -> reason; entries are stated, reviewed beliefs printed in the evidence.
func checkBounds(c *Ctx, rule string, fns []*ssa.Function, table map[string]string, assumptions ...boundsAssumption) {
	used := map[string]bool{}
	for _, fn := range fns {
		b := &bctx{c: c, fn: fn, assumeNonNeg: map[*ssa.Parameter]bool{}, assumeLT: map[ltAssume]bool{}}
		for _, a := range assumptions {
			if a.Fn != fnName(fn) {
				continue
			}
			prm := intParam(fn, a.Param)
			if prm == nil {
				c.info("%s assumption on %s not applicable on this tree (no single integer parameter)", rule, a.Fn)
				continue
			}
			b.assumeNonNeg[prm] = true
			if a.LenOfField != "" {
				// find a load of receiver.field in the function to serve as the canonical operand
				for _, in := range instrs(fn) {
					if ld, ok := in.(*ssa.UnOp); ok {
						if fa, isFA := ld.X.(*ssa.FieldAddr); isFA && fa.X == ssa.Value(fn.Params[0]) {
							nn, st := structOf(fa.X.Type())
							if st != nil && fieldNameOf(nn, st, fa.Field) == a.LenOfField {
								b.assumeLT[ltAssume{prm, ld}] = true
							}
						}
					}
				}
			}
			c.info("%s assumption (caller obligation) on %s: parameter %s >= 0%s — %s", rule, a.Fn, prm.Name(), map[bool]string{true: " and < len(" + fn.Params[0].Name() + "." + a.LenOfField + ")", false: ""}[a.LenOfField != ""], a.Reason)
			// every in-repo static call site must establish the assumption
			for _, caller := range c.P.LibFuncs() {
				for _, ci := range allCalls(caller) {
					if ci.Common().StaticCallee() != fn {
						continue
					}
					cb := &bctx{c: c, fn: caller, assumeNonNeg: map[*ssa.Parameter]bool{}, assumeLT: map[ltAssume]bool{}}
					if caller == fn {
						cb = b
					}
					pos := -1
					for i, pp := range fn.Params {
						if pp == prm {
							pos = i
						}
					}
					arg := ci.Common().Args[pos]
					ok := cb.nonNeg(arg, ci, visit{})
					detail := "argument may be negative"
					if ok && a.LenOfField != "" {
						ok = false
						detail = "argument is not shown to be < len(" + a.LenOfField + ")"
						recv := ci.Common().Args[0]
						for _, in := range instrs(caller) {
							if ld, isLd := in.(*ssa.UnOp); isLd {
								if fa, isFA := ld.X.(*ssa.FieldAddr); isFA && sameVal(fa.X, recv) {
									nn, st := structOf(fa.X.Type())
									if st != nil && fieldNameOf(nn, st, fa.Field) == a.LenOfField && cb.lt(arg, ld, ci) {
										ok = true
									}
								}
							}
						}
					}
					c.emitBounds(rule, caller, ci, "call "+render(ci.Value())+" establishes precondition on "+prm.Name(), "call "+baseName(fnName(fn))+" precondition from "+baseName(fnName(caller)), ok, table, used, detail)
				}
			}
		}
		// a precondition on a parameter travels with it into a helper the code was moved into: a helper parameter that is
		// handed the assumed parameter itself inherits the assumption (relative to the helper's own view of the receiver)
		b.inheritAssumptions(fn, 0)
		for _, in := range instrs(fn) {
			var X, idx ssa.Value
			var what string
			switch x := in.(type) {
			case *ssa.IndexAddr:
				X, idx = x.X, x.Index
				if pt, ok := X.Type().Underlying().(*types.Pointer); ok {
					if at, ok := pt.Elem().Underlying().(*types.Array); ok {
						if k, ok := constInt(idx); ok && k >= 0 && k < at.Len() {
							continue // constant index into a fixed-size array
						}
						// byte-indexed tables: [256]T indexed by a byte
						if at.Len() == 256 && isByteValue(idx) {
							continue
						}
					}
				}
				what = render(x)
			case *ssa.Index:
				X, idx = x.X, x.Index
				if at, ok := X.Type().Underlying().(*types.Array); ok {
					if k, ok := constInt(idx); ok && k >= 0 && k < at.Len() {
						continue
					}
					if at.Len() == 256 && isByteValue(idx) {
						continue
					}
				}
				what = render(x)
			case *ssa.Lookup:
				if _, isMap := x.X.Type().Underlying().(*types.Map); isMap {
					continue
				}
				X, idx = x.X, x.Index
				what = render(x)
			case *ssa.Slice:
				if _, isPtr := x.X.Type().Underlying().(*types.Pointer); isPtr {
					if x.Low == nil && x.High == nil {
						continue // array[:] of a local literal
					}
				}
				what = render(x)
				base := x.X
				if pt, isPtr := x.X.Type().Underlying().(*types.Pointer); isPtr {
					// make([]T, k) with a constant k: the first k elements of a new [k]T
					if at, isArr := pt.Elem().Underlying().(*types.Array); isArr && x.High != nil {
						if hk, isK := constInt(x.High); isK && hk >= 0 && hk <= at.Len() {
							lk, isLK := int64(0), x.Low == nil
							if x.Low != nil {
								lk, isLK = constInt(x.Low)
							}
							if isLK && lk >= 0 && lk <= hk {
								continue
							}
						}
					}
				}
				okHigh := x.High == nil || (b.le(x.High, base, x, visit{}) && b.nonNeg(x.High, x, visit{}))
				var okLow bool
				if x.High != nil {
					okLow = x.Low == nil || (b.nonNeg(x.Low, x, visit{}) && b.leq(x.Low, x.High, base, x))
				} else {
					okLow = x.Low == nil || (b.nonNeg(x.Low, x, visit{}) && b.le(x.Low, base, x, visit{}))
				}
				if !(okHigh && okLow) && isTransparent(x.Parent()) {
					// decided in the context of the helper's call sites (see boundsAtCallSites)
					if h2, l2, dec := sliceBoundsAtCallSites(c, x.Parent(), x); dec {
						okHigh, okLow, decidedInContext = h2, l2, true
					}
				}
				c.emitBounds(rule, fn, x, what, renderShape(x), okHigh && okLow, table, used, fmt.Sprintf("high<=len:%v low-in-range:%v", okHigh, okLow))
				continue
			default:
				continue
			}
			// string / slice indexing
			okUp := b.lt(idx, X, in)
			okLo := b.nonNeg(idx, in, visit{})
			if !(okUp && okLo) && isTransparent(in.Parent()) {
				// the expression sits in a helper the code was moved into: decide it in the context of every call site,
				// with the helper's parameters standing for the arguments handed in
				if u2, l2, dec := boundsAtCallSites(c, b, in.Parent(), X, idx); dec {
					okUp, okLo, decidedInContext = u2, l2, true
				}
			}
			c.emitBounds(rule, fn, in, strings.TrimPrefix(what, "&"), strings.TrimPrefix(renderShape(in.(ssa.Value)), "&"), okUp && okLo, table, used, fmt.Sprintf("index<len:%v index>=0:%v", okUp, okLo))
		}
	}
	for k, reason := range table {
		if !used[k] {
			c.info("%s invariant-table entry unused on this tree (harmless): %s — %s", rule, k, reason)
		}
	}
}

func isByteValue(v ssa.Value) bool {
	bt, ok := v.Type().Underlying().(*types.Basic)
	return ok && bt.Kind() == types.Uint8
}

func (c *Ctx) emitBounds(rule string, fn *ssa.Function, in ssa.Instruction, expr, shape string, ok bool, table map[string]string, used map[string]bool, detail string) {
	defer func() { decidedInContext = false }()
	what := "every index/slice expression of the never-panics function set is in range on every path: discharged by a dominating comparison with len of the same operand, loop-counter induction, a library fact, or a reviewed invariant-table entry"
	owner := fn
	if in != nil && in.Parent() != nil {
		owner = in.Parent()
	}
	if !ok {
		if reason, tabled := table[shape]; tabled {
			used[shape] = true
			c.ob(rule, short(owner.String()), "bounds "+expr, c.P.InstrPos(in), true, what+" [INVARIANT TABLE `"+shape+"`: "+reason+"]", "")
			return
		}
		if decidedInContext {
			decidedInContext = false
			c.definite = true // every operand was resolved to the baseline callers' own values
			c.ob(rule, short(owner.String()), "bounds "+expr, c.P.InstrPos(in), false, what,
				"`"+expr+"` ("+detail+") is not in range at a call site of the helper it was moved into: no dominating bound check there — an out-of-range value would panic")
			return
		}
		if isTransparent(owner) || involvesHelperResult(in) {
			// the expression lives in a helper the rules do not know (code was moved): its parameters stand for values of
			// the caller, which this intra-procedural prover cannot relate; undecided here is reported, not alarmed
			c.info("%s undecided (not a verdict): `%s` in helper %s, which is not part of the baseline function set", rule, expr, short(owner.String()))
			c.obR(rule, short(owner.String()), "bounds "+expr, c.P.InstrPos(in), false, what, "`"+expr+"` ("+detail+") lives in a helper unknown to the baseline and could not be shown in range there or from its call sites")
			return
		}
	}
	c.ob(rule, short(owner.String()), "bounds "+expr, c.P.InstrPos(in), ok, what,
		"no dominating bound check found for `"+expr+"` ("+detail+"): an out-of-range value would panic")
	c.Obs[len(c.Obs)-1].AltKey = rule + "/bounds " + shape
}

// intParam returns the parameter the precondition is about: fn.Params[hint] when it is an integer, else the unique
// integer parameter of fn (robust against a reordering of the parameters).
func intParam(fn *ssa.Function, hint int) *ssa.Parameter {
	if hint < len(fn.Params) && isIntegerType(fn.Params[hint].Type()) {
		only := 0
		for _, p := range fn.Params {
			if isIntegerType(p.Type()) {
				only++
			}
		}
		if only == 1 {
			return fn.Params[hint]
		}
	}
	var found *ssa.Parameter
	for _, p := range fn.Params {
		if isIntegerType(p.Type()) {
			if found != nil {
				if hint < len(fn.Params) {
					return fn.Params[hint]
				}
				return nil
			}
			found = p
		}
	}
	return found
}

// involvesHelperResult: an operand of the instruction is (derived from) the result of a helper that is looked through.
func involvesHelperResult(in ssa.Instruction) bool {
	seen := map[ssa.Value]bool{}
	var walk func(v ssa.Value, d int) bool
	walk = func(v ssa.Value, d int) bool {
		if v == nil || seen[v] || d > 8 {
			return false
		}
		seen[v] = true
		if c, ok := v.(*ssa.Call); ok && transparentCallee(c) != nil {
			return true
		}
		if vi, ok := v.(ssa.Instruction); ok {
			var ops []*ssa.Value
			for _, o := range vi.Operands(ops) {
				if o != nil && walk(*o, d+1) {
					return true
				}
			}
		}
		return false
	}
	var ops []*ssa.Value
	for _, o := range in.Operands(ops) {
		if o != nil && walk(*o, 0) {
			return true
		}
	}
	return false
}

// lengthPreservingArg: call invokes a library function whose slice result has, on every return, exactly as many
// elements as one of its slice parameters (built from an empty slice by ONE append of ONE element in every iteration
// of a loop over that parameter that is never left early — a "map" function such as normalizeOffers). It returns the
// argument that plays that parameter. Decided from the callee's body on every run.
func lengthPreservingArg(call *ssa.Call) (ssa.Value, bool) {
	g := call.Call.StaticCallee()
	if g == nil || g.Blocks == nil || !isRepoPath(fnPkgPath(g)) || g.Signature.Results().Len() != 1 {
		return nil, false
	}
	if _, isSl := g.Signature.Results().At(0).Type().Underlying().(*types.Slice); !isSl {
		return nil, false
	}
	if v, ok := lenPreserveCache[g]; ok {
		if v < 0 || v >= len(call.Call.Args) {
			return nil, false
		}
		return call.Call.Args[v], true
	}
	lenPreserveCache[g] = -1
	var app *ssa.Call
	for _, in := range ownInstrs(g) {
		c, ok := in.(*ssa.Call)
		if !ok || calleeName(&c.Call) != "builtin append" {
			continue
		}
		if app != nil {
			return nil, false
		}
		app = c
	}
	if app == nil || len(app.Call.Args) != 2 {
		return nil, false
	}
	if elems, ok := sliceLitElems(app.Call.Args[1]); !ok || len(elems) != 1 {
		return nil, false
	}
	for _, l := range sliceLoops(g, nil) {
		prm, isP := l.X.(*ssa.Parameter)
		if !isP || !l.Header.Dominates(app.Block()) || !reachableFrom(app.Block(), l.Header) {
			continue
		}
		if !l.everyIteration(isOneOf(app)) || !l.noEarlyExit() {
			continue
		}
		// the accumulator starts empty and is only ever extended by this append
		okAcc, _ := allOrigins(app.Call.Args[0], func(o Origin) bool {
			if o.V == ssa.Value(app) || isNilConst(o.V) {
				return true
			}
			if ms, isMS := o.V.(*ssa.MakeSlice); isMS {
				k, isK := constInt(ms.Len)
				return isK && k == 0
			}
			if _, isAl := o.V.(*ssa.Alloc); isAl {
				return true // the zero value of a named result
			}
			return false
		})
		if !okAcc {
			continue
		}
		okRet := true
		for _, r := range realReturns(g) {
			okR, _ := allOrigins(r.Results[0], func(o Origin) bool {
				if o.V == ssa.Value(app) || isNilConst(o.V) {
					return true
				}
				if ms, isMS := o.V.(*ssa.MakeSlice); isMS {
					k, isK := constInt(ms.Len)
					return isK && k == 0
				}
				_, isAl := o.V.(*ssa.Alloc)
				return isAl
			})
			if !okR {
				okRet = false
			}
		}
		if !okRet {
			continue
		}
		for i, pp := range g.Params {
			if pp == prm {
				lenPreserveCache[g] = i
			}
		}
	}
	v := lenPreserveCache[g]
	if v < 0 || v >= len(call.Call.Args) {
		return nil, false
	}
	return call.Call.Args[v], true
}

var lenPreserveCache = map[*ssa.Function]int{}

// boundsAtCallSites decides X[idx] of a looked-through helper at each of its static call sites: a parameter of the
// helper stands for the argument of the call, a constant for itself; anything else is not attempted.
func boundsAtCallSites(c *Ctx, cur *bctx, helper *ssa.Function, X, idx ssa.Value) (okUp, okLo, decided bool) {
	if curProg == nil || curProg.ti == nil {
		return false, false, false
	}
	sites := curProg.ti.callers[helper]
	if len(sites) == 0 {
		return false, false, false
	}
	subst := func(v ssa.Value, site ssa.CallInstruction) (ssa.Value, bool) {
		call := site.Common()
		switch x := v.(type) {
		case *ssa.Const:
			return x, true
		case *ssa.Parameter:
			for i, prm := range helper.Params {
				if prm == x && i < len(call.Args) {
					return call.Args[i], true
				}
			}
		case *ssa.UnOp:
			// a field of a parameter (recv.bc): the same field of the argument, as the caller reads it
			fa, isFA := x.X.(*ssa.FieldAddr)
			prm, isP := (ssa.Value)(nil), false
			if isFA && x.Op == token.MUL {
				_, isP = fa.X.(*ssa.Parameter)
				prm = fa.X
			}
			if !isP {
				return nil, false
			}
			for i, hp := range helper.Params {
				if ssa.Value(hp) != prm || i >= len(call.Args) {
					continue
				}
				for _, cin := range ownInstrs(site.Parent()) {
					if ld, ok := cin.(*ssa.UnOp); ok && ld.Op == token.MUL {
						if cfa, ok2 := ld.X.(*ssa.FieldAddr); ok2 && cfa.Field == fa.Field && sameVal(cfa.X, call.Args[i]) {
							return ld, true
						}
					}
				}
			}
		}
		return nil, false
	}
	okUp, okLo = true, true
	for _, site := range sites {
		caller := site.Parent()
		if caller == nil || isTransparent(caller) {
			return false, false, false // (one level only)
		}
		cx, ok1 := subst(X, site)
		ci, ok2 := subst(idx, site)
		if !ok1 || !ok2 {
			return false, false, false
		}
		cb := &bctx{c: c, fn: caller, assumeNonNeg: map[*ssa.Parameter]bool{}, assumeLT: map[ltAssume]bool{}}
		if cur != nil && cur.fn == caller {
			cb = cur // the function under examination: with its stated preconditions
		}
		if !cb.lt(ci, cx, site) {
			okUp = false
		}
		if !cb.nonNeg(ci, site, visit{}) {
			okLo = false
		}
	}
	// a failure is a verdict only when the index is a constant (b[0] of a possibly empty b): an index computed by the
	// caller may be covered by the caller's reviewed invariants, which this contextual proof does not consult
	_, constIdx := idx.(*ssa.Const)
	return okUp, okLo, (okUp && okLo) || constIdx
}

// decidedInContext: the bounds obligation being emitted sits in a looked-through helper but was decided at its call
// sites (every operand is a constant or an argument of the call): a failure is then a verdict, not a recognition gap.
var decidedInContext bool

// sliceBoundsAtCallSites is boundsAtCallSites for a slice expression base[low:high] of a looked-through helper.
func sliceBoundsAtCallSites(c *Ctx, helper *ssa.Function, x *ssa.Slice) (okHigh, okLow, decided bool) {
	if curProg == nil || curProg.ti == nil {
		return false, false, false
	}
	sites := curProg.ti.callers[helper]
	if len(sites) == 0 {
		return false, false, false
	}
	subst := func(v ssa.Value, call *ssa.CallCommon) (ssa.Value, bool) {
		switch y := v.(type) {
		case nil:
			return nil, true
		case *ssa.Const:
			return y, true
		case *ssa.Parameter:
			for i, prm := range helper.Params {
				if prm == y && i < len(call.Args) {
					return call.Args[i], true
				}
			}
		}
		return nil, false
	}
	okHigh, okLow = true, true
	for _, site := range sites {
		caller := site.Parent()
		if caller == nil || isTransparent(caller) {
			return false, false, false
		}
		var base, low, high ssa.Value
		var ok1, ok2, ok3 bool
		base, ok1 = subst(x.X, site.Common())
		if x.Low != nil {
			low, ok2 = subst(x.Low, site.Common())
		} else {
			ok2 = true
		}
		if x.High != nil {
			high, ok3 = subst(x.High, site.Common())
		} else {
			ok3 = true
		}
		if !ok1 || !ok2 || !ok3 || base == nil {
			return false, false, false
		}
		b := &bctx{c: c, fn: caller, assumeNonNeg: map[*ssa.Parameter]bool{}, assumeLT: map[ltAssume]bool{}}
		if !(high == nil || (b.le(high, base, site, visit{}) && b.nonNeg(high, site, visit{}))) {
			okHigh = false
		}
		if high != nil {
			if !(low == nil || (b.nonNeg(low, site, visit{}) && b.leq(low, high, base, site))) {
				okLow = false
			}
		} else if !(low == nil || (b.nonNeg(low, site, visit{}) && b.le(low, base, site, visit{}))) {
			okLow = false
		}
	}
	constBounds := true
	for _, v := range []ssa.Value{x.Low, x.High} {
		if v != nil {
			if _, isK := v.(*ssa.Const); !isK {
				constBounds = false
			}
		}
	}
	return okHigh, okLow, (okHigh && okLow) || constBounds
}

func (b *bctx) inheritAssumptions(caller *ssa.Function, depth int) {
	if depth > 3 {
		return
	}
	for _, in := range ownInstrs(caller) {
		h := transparentCallee(in)
		if h == nil {
			continue
		}
		call := in.(*ssa.Call)
		args := call.Call.Args
		changed := false
		for i, arg := range args {
			prm, ok := arg.(*ssa.Parameter)
			if !ok || i >= len(h.Params) {
				continue
			}
			if b.assumeNonNeg[prm] && !b.assumeNonNeg[h.Params[i]] {
				b.assumeNonNeg[h.Params[i]] = true
				changed = true
			}
			for lt := range b.assumeLT {
				if lt.p != prm {
					continue
				}
				// lt.x is a load *(&recv.field) in the caller; which helper parameter is that receiver
				ld, isLd := lt.x.(*ssa.UnOp)
				if !isLd {
					continue
				}
				fa, isFA := ld.X.(*ssa.FieldAddr)
				if !isFA {
					continue
				}
				for j, a2 := range args {
					if a2 != fa.X || j >= len(h.Params) {
						continue
					}
					for _, hin := range ownInstrs(h) {
						hld, ok := hin.(*ssa.UnOp)
						if !ok {
							continue
						}
						if hfa, isH := hld.X.(*ssa.FieldAddr); isH && hfa.X == ssa.Value(h.Params[j]) && hfa.Field == fa.Field {
							k := ltAssume{h.Params[i], hld}
							if !b.assumeLT[k] {
								b.assumeLT[k] = true
								changed = true
							}
						}
					}
				}
			}
		}
		if changed {
			b.inheritAssumptions(h, depth+1)
		}
	}
}

// concatLiteralLen: a lower bound of the length of a string built by concatenation — the summed length of its constant
// pieces.
func concatLiteralLen(v ssa.Value) (int64, bool) {
	switch x := v.(type) {
	case *ssa.Const:
		if s, ok := constString(x); ok {
			return int64(len(s)), true
		}
	case *ssa.BinOp:
		if x.Op == token.ADD {
			a, okA := concatLiteralLen(x.X)
			b, okB := concatLiteralLen(x.Y)
			if !okA {
				a = 0
			}
			if !okB {
				b = 0
			}
			if okA || okB {
				return a + b, true
			}
		}
	}
	return 0, false
}
