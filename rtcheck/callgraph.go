package main

import (
	"sort"

	"golang.org/x/tools/go/callgraph"
	"golang.org/x/tools/go/callgraph/cha"
	"golang.org/x/tools/go/callgraph/vta"
	"golang.org/x/tools/go/ssa"
	"golang.org/x/tools/go/ssa/ssautil"
)

// CallGraph returns the VTA call graph (seeded with CHA) of the loaded program, built once per Prog.
func (p *Prog) CallGraph() *callgraph.Graph {
	if p.cg != nil {
		return p.cg
	}
	all := ssautil.AllFunctions(p.SSA)
	p.cg = vta.CallGraph(all, cha.CallGraph(p.SSA))
	return p.cg
}

// Reach computes the set of repo library functions reachable from the entries through the call graph
// (static calls, resolved interface/func-value calls) and through closure creation.
func (p *Prog) Reach(entries []*ssa.Function) map[*ssa.Function]bool {
	cg := p.CallGraph()
	seen := map[*ssa.Function]bool{}
	var work []*ssa.Function
	push := func(f *ssa.Function) {
		if f == nil || seen[f] || f.Blocks == nil {
			return
		}
		if !isRepoPath(fnPkgPath(f)) {
			return
		}
		seen[f] = true
		work = append(work, f)
	}
	for _, e := range entries {
		push(e)
	}
	for len(work) > 0 {
		f := work[len(work)-1]
		work = work[:len(work)-1]
		if n := cg.Nodes[f]; n != nil {
			for _, e := range n.Out {
				push(e.Callee.Func)
			}
		}
		for _, in := range instrs(f) {
			switch x := in.(type) {
			case *ssa.MakeClosure:
				if fn, ok := x.Fn.(*ssa.Function); ok {
					push(fn)
				}
			case ssa.CallInstruction:
				if callee := x.Common().StaticCallee(); callee != nil {
					push(callee)
				}
			}
		}
	}
	return seen
}

func sortedFuncNames(m map[*ssa.Function]bool) []string {
	var out []string
	for f := range m {
		out = append(out, short(f.String()))
	}
	sort.Strings(out)
	return out
}
