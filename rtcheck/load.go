package main

// Loading of /repo's current working tree into type-checked syntax + SSA form.
// Nothing of the analysed program is ever executed.

import (
	"fmt"
	"go/ast"
	"go/token"
	"go/types"
	"os"
	"sort"
	"strings"

	"golang.org/x/tools/go/callgraph"
	"golang.org/x/tools/go/packages"
	"golang.org/x/tools/go/ssa"
	"golang.org/x/tools/go/ssa/ssautil"
)

const modPath = "github.com/go-openapi/runtime"

// Prog is the loaded program.
type Prog struct {
	Dir        string
	Fset       *token.FileSet
	Pkgs       []*packages.Package
	ByPath     map[string]*packages.Package
	SSA        *ssa.Program
	SPkg       map[string]*ssa.Package
	allTy      map[string]*types.Package // every types.Package reachable through imports
	Cfg        string                    // description of the build configuration
	fnIdx      map[string]*ssa.Function  // short name -> function (repo functions incl. anonymous)
	ntStores   map[string][]ssa.Value
	novelty    map[*ssa.Function]bool
	noveltyWhy map[*ssa.Function]string
	allFns     []*ssa.Function // every repo function with a body (incl. anonymous, incl. instantiations)
	astFn      map[*ssa.Function]ast.Node
	cg         *callgraph.Graph
	ti         *transInfo
}

type toolError struct{ msg string }

func (e toolError) Error() string { return e.msg }

// fatalf aborts the run with exit status 2 (tool error: never a verdict).
func fatalf(format string, args ...interface{}) {
	panic(toolError{fmt.Sprintf(format, args...)})
}

// LoadConfig describes one build configuration to analyse.
type LoadConfig struct {
	Dir    string
	Tests  bool
	GOOS   string
	GOARCH string
	Tags   string
}

func (c LoadConfig) String() string {
	s := fmt.Sprintf("dir=%s tests=%v", c.Dir, c.Tests)
	if c.GOOS != "" {
		s += " GOOS=" + c.GOOS
	}
	if c.GOARCH != "" {
		s += " GOARCH=" + c.GOARCH
	}
	if c.Tags != "" {
		s += " tags=" + c.Tags
	}
	return s
}

func cleanEnv(extra ...string) []string {
	var env []string
	for _, e := range os.Environ() {
		if strings.HasPrefix(e, "GOWORK=") || strings.HasPrefix(e, "GOFLAGS=") || strings.HasPrefix(e, "GOPROXY=") ||
			strings.HasPrefix(e, "GOSUMDB=") || strings.HasPrefix(e, "GOTOOLCHAIN=") || strings.HasPrefix(e, "GOOS=") || strings.HasPrefix(e, "GOARCH=") {
			continue
		}
		env = append(env, e)
	}
	env = append(env, "GOWORK=off", "GOFLAGS=-mod=mod", "GOPROXY=off", "GOSUMDB=off", "GOTOOLCHAIN=local", "CGO_ENABLED=0")
	env = append(env, extra...)
	return env
}

// Load type-checks every package of the repository and builds SSA for them.
func Load(c LoadConfig) *Prog {
	var extra []string
	if c.GOOS != "" {
		extra = append(extra, "GOOS="+c.GOOS)
	}
	if c.GOARCH != "" {
		extra = append(extra, "GOARCH="+c.GOARCH)
	}
	cfg := &packages.Config{
		Mode:  packages.LoadSyntax,
		Dir:   c.Dir,
		Env:   cleanEnv(extra...),
		Tests: c.Tests,
	}
	if c.Tags != "" {
		cfg.BuildFlags = []string{"-tags=" + c.Tags}
	}
	pkgs, err := packages.Load(cfg, "./...")
	if err != nil {
		fatalf("load %s: %v", c, err)
	}
	if len(pkgs) == 0 {
		fatalf("load %s: zero packages", c)
	}
	p := &Prog{Dir: c.Dir, ByPath: map[string]*packages.Package{}, SPkg: map[string]*ssa.Package{}, allTy: map[string]*types.Package{}, Cfg: c.String()}
	var errs []string
	for _, pk := range pkgs {
		for _, e := range pk.Errors {
			errs = append(errs, pk.PkgPath+": "+e.Error())
		}
	}
	if len(errs) > 0 {
		sort.Strings(errs)
		if len(errs) > 10 {
			errs = errs[:10]
		}
		fatalf("load %s: the tree does not type-check:\n  %s", c, strings.Join(errs, "\n  "))
	}
	p.Pkgs = pkgs
	p.Fset = pkgs[0].Fset
	prog, spkgs := ssautil.Packages(pkgs, ssa.InstantiateGenerics)
	prog.Build()
	p.SSA = prog
	for i, pk := range pkgs {
		if spkgs[i] == nil {
			fatalf("no SSA package for %s", pk.PkgPath)
		}
		// with Tests:true a package appears several times (plain, [pkg.test], _test); prefer the variant with most files
		if old, ok := p.ByPath[pk.PkgPath]; !ok || len(pk.Syntax) > len(old.Syntax) {
			p.ByPath[pk.PkgPath] = pk
			p.SPkg[pk.PkgPath] = spkgs[i]
		}
	}
	var walk func(tp *types.Package)
	walk = func(tp *types.Package) {
		if tp == nil || p.allTy[tp.Path()] != nil {
			return
		}
		p.allTy[tp.Path()] = tp
		for _, im := range tp.Imports() {
			walk(im)
		}
	}
	for _, pk := range p.ByPath {
		walk(pk.Types)
	}
	p.computeTypeRenames() // before anything is named: every name goes through short()
	p.index()
	curProg = p
	p.initTransparency()
	return p
}

func isRepoPath(path string) bool {
	return path == modPath || strings.HasPrefix(path, modPath+"/")
}

// short abbreviates the module path to "rt" in a qualified name.
func short(s string) string {
	s = strings.ReplaceAll(s, modPath, "rt")
	if len(typeRenames) > 0 {
		s = applyTypeRenames(s)
	}
	return s
}

// typeRenames maps the qualified name of a named type that is new to the baseline onto the baseline type it replaces
// (same package, same shape, and the baseline name is gone): an unexported type was renamed. Computed once per loaded
// program by (*Prog).computeTypeRenames; every name the rules see (types, methods, fields) goes through short().
var typeRenames map[string]string

func applyTypeRenames(s string) string {
	for nw, old := range typeRenames {
		for i := strings.Index(s, nw); i >= 0; {
			end := i + len(nw)
			isID := func(b byte) bool {
				return b == '_' || b >= '0' && b <= '9' || b >= 'a' && b <= 'z' || b >= 'A' && b <= 'Z'
			}
			if (end < len(s) && isID(s[end])) || (i > 0 && (isID(s[i-1]) || s[i-1] == '/')) {
				j := strings.Index(s[end:], nw)
				if j < 0 {
					break
				}
				i = end + j
				continue
			}
			s = s[:i] + old + s[end:]
			j := strings.Index(s[i+len(old):], nw)
			if j < 0 {
				break
			}
			i = i + len(old) + j
		}
	}
	return s
}

// canonType renders a type without parameter names (so that a renamed parameter of a func type does not matter), with
// the library's named types under their short qualified names.
func canonType(t types.Type, depth int) string {
	if depth > 6 {
		return "…"
	}
	switch x := t.(type) {
	case *types.Basic:
		return x.Name()
	case *types.Named:
		if x.Obj() == nil {
			return "?"
		}
		if x.Obj().Pkg() == nil {
			return x.Obj().Name()
		}
		return strings.ReplaceAll(x.Obj().Pkg().Path(), modPath, "rt") + "." + x.Obj().Name()
	case *types.Alias:
		return canonType(types.Unalias(x), depth)
	case *types.Pointer:
		return "*" + canonType(x.Elem(), depth+1)
	case *types.Slice:
		return "[]" + canonType(x.Elem(), depth+1)
	case *types.Array:
		return fmt.Sprintf("[%d]%s", x.Len(), canonType(x.Elem(), depth+1))
	case *types.Map:
		return "map[" + canonType(x.Key(), depth+1) + "]" + canonType(x.Elem(), depth+1)
	case *types.Chan:
		return "chan " + canonType(x.Elem(), depth+1)
	case *types.Signature:
		var ps, rs []string
		for i := 0; i < x.Params().Len(); i++ {
			ps = append(ps, canonType(x.Params().At(i).Type(), depth+1))
		}
		for i := 0; i < x.Results().Len(); i++ {
			rs = append(rs, canonType(x.Results().At(i).Type(), depth+1))
		}
		v := ""
		if x.Variadic() {
			v = "..."
		}
		return "func(" + strings.Join(ps, ",") + v + ")(" + strings.Join(rs, ",") + ")"
	case *types.Struct:
		var fs []string
		for i := 0; i < x.NumFields(); i++ {
			f := x.Field(i)
			n := f.Name()
			if f.Embedded() {
				n = "~"
			}
			fs = append(fs, n+" "+canonType(f.Type(), depth+1))
		}
		return "struct{" + strings.Join(fs, ";") + "}"
	case *types.Interface:
		var ms []string
		for i := 0; i < x.NumMethods(); i++ {
			ms = append(ms, x.Method(i).Name()+canonType(x.Method(i).Type(), depth+1))
		}
		sort.Strings(ms)
		return "interface{" + strings.Join(ms, ";") + "}"
	}
	return types.TypeString(t, nil)
}

// typeShapeLines lists, for the baseline inventory, every named type of the library with the canonical rendering of
// its underlying type.
func (p *Prog) typeShapeLines() []string {
	var out []string
	for _, pkg := range p.SSA.AllPackages() {
		if pkg.Pkg == nil || !isRepoPath(pkg.Pkg.Path()) || isFixturePkg(pkg.Pkg.Path()) {
			continue
		}
		sc := pkg.Pkg.Scope()
		for _, name := range sc.Names() {
			tn, ok := sc.Lookup(name).(*types.TypeName)
			if !ok || strings.HasSuffix(p.Fset.Position(tn.Pos()).Filename, "_test.go") {
				continue
			}
			out = append(out, fmt.Sprintf("\t%q: %q,", strings.ReplaceAll(pkg.Pkg.Path(), modPath, "rt")+"."+name, canonType(tn.Type().Underlying(), 0)))
		}
	}
	sort.Strings(out)
	return out
}

// computeTypeRenames fills typeRenames: a baseline type whose name no longer exists and exactly one new named type of
// the same package whose underlying type has the same shape once every vanished / new type name is blanked out.
func (p *Prog) computeTypeRenames() {
	typeRenames = nil
	if len(typeShapeInventory) == 0 {
		return
	}
	cur := map[string]string{} // qualified name -> shape
	pkgOf := map[string]string{}
	for _, pkg := range p.SSA.AllPackages() {
		if pkg.Pkg == nil || !isRepoPath(pkg.Pkg.Path()) || isFixturePkg(pkg.Pkg.Path()) {
			continue
		}
		sc := pkg.Pkg.Scope()
		pp := strings.ReplaceAll(pkg.Pkg.Path(), modPath, "rt")
		for _, name := range sc.Names() {
			tn, ok := sc.Lookup(name).(*types.TypeName)
			if !ok || strings.HasSuffix(p.Fset.Position(tn.Pos()).Filename, "_test.go") {
				continue
			}
			cur[pp+"."+name] = canonType(tn.Type().Underlying(), 0)
			pkgOf[pp+"."+name] = pp
		}
	}
	var gone, fresh []string
	for n := range typeShapeInventory {
		if _, ok := cur[n]; !ok {
			gone = append(gone, n)
		}
	}
	for n := range cur {
		if _, ok := typeShapeInventory[n]; !ok {
			fresh = append(fresh, n)
		}
	}
	if len(gone) == 0 || len(fresh) == 0 {
		return
	}
	sort.Strings(gone)
	sort.Strings(fresh)
	blank := func(s string, names []string) string {
		byLen := append([]string{}, names...)
		sort.Slice(byLen, func(i, j int) bool { return len(byLen[i]) > len(byLen[j]) }) // (a name may be a prefix of another)
		for _, n := range byLen {
			s = strings.ReplaceAll(s, n, "?")
		}
		return s
	}
	pkgPart := func(n string) string { return n[:strings.LastIndex(n, ".")] }
	out := map[string]string{}
	for _, g := range gone {
		gs := blank(typeShapeInventory[g], gone)
		var cands []string
		for _, f := range fresh {
			if pkgPart(f) == pkgPart(g) && blank(cur[f], fresh) == gs {
				cands = append(cands, f)
			}
		}
		if len(cands) != 1 {
			continue
		}
		// the candidate must not be claimed by another vanished type
		claimed := 0
		for _, g2 := range gone {
			if pkgPart(g2) == pkgPart(g) && blank(typeShapeInventory[g2], gone) == gs {
				claimed++
			}
		}
		if claimed == 1 {
			out[cands[0]] = g
		}
	}
	if len(out) > 0 {
		typeRenames = out
	}
}

func (p *Prog) index() {
	p.fnIdx = map[string]*ssa.Function{}
	p.astFn = map[*ssa.Function]ast.Node{}
	seen := map[*ssa.Function]bool{}
	var add func(f *ssa.Function)
	add = func(f *ssa.Function) {
		if f == nil || seen[f] {
			return
		}
		seen[f] = true
		if f.Blocks == nil {
			return
		}
		p.allFns = append(p.allFns, f)
		p.fnIdx[short(f.String())] = f
		for _, a := range f.AnonFuncs {
			add(a)
		}
	}
	for path, sp := range p.SPkg {
		if !isRepoPath(path) {
			continue
		}
		for _, m := range sp.Members {
			switch m := m.(type) {
			case *ssa.Function:
				add(m)
			case *ssa.Type:
				t := m.Type()
				for _, tt := range []types.Type{t, types.NewPointer(t)} {
					ms := p.SSA.MethodSets.MethodSet(tt)
					for i := 0; i < ms.Len(); i++ {
						fn := p.SSA.MethodValue(ms.At(i))
						if fn != nil && fn.Pkg == sp && fn.Synthetic == "" {
							add(fn)
						}
					}
				}
			}
		}
	}
	sort.Slice(p.allFns, func(i, j int) bool { return p.allFns[i].String() < p.allFns[j].String() })
}

// Fn resolves a repo function by its short qualified name, e.g.
// "rt/middleware.NewRouter", "(*rt/middleware.Context).Respond", "rt/middleware.NewRouter$1".
// An unresolved anchor is a tool error (undecided), never a verdict.
func (p *Prog) Fn(name string) *ssa.Function {
	if p.ti != nil {
		if g := p.ti.delegate[name]; g != nil {
			return g // the function the baseline body was moved into
		}
	}
	f := p.fnIdx[name]
	if f == nil && p.ti != nil {
		f = p.ti.byOldName[name]
	}
	if f == nil {
		f = p.lenientFn(name)
	}
	if f == nil {
		fatalf("anchor function %q not found in %s", name, p.Cfg)
	}
	return f
}

// FnOpt is Fn without the failure.
func (p *Prog) FnOpt(name string) *ssa.Function {
	if p.ti != nil {
		if g := p.ti.delegate[name]; g != nil {
			return g
		}
	}
	if f := p.fnIdx[name]; f != nil {
		return f
	}
	if p.ti != nil {
		return p.ti.byOldName[name]
	}
	return nil
}

// TypesPkg returns the types.Package of any package reachable through imports.
func (p *Prog) TypesPkg(path string) *types.Package {
	path = strings.Replace(path, "rt", modPath, 1)
	if strings.HasPrefix(path, modPath) || true {
		if tp := p.allTy[path]; tp != nil {
			return tp
		}
	}
	fatalf("anchor package %q not found (not imported by the repository?)", path)
	return nil
}

// Named returns a named type "pkgpath.Name".
func (p *Prog) Named(pkg, name string) *types.Named {
	o := p.TypesPkg(pkg).Scope().Lookup(name)
	if o == nil {
		fatalf("anchor type %s.%s not found", pkg, name)
	}
	n, ok := o.Type().(*types.Named)
	if !ok {
		fatalf("anchor %s.%s is not a named type", pkg, name)
	}
	return n
}

// FieldIndex returns the index of a struct field by name; failing to find it is a tool error.
func (p *Prog) FieldIndex(pkg, typ, field string) int {
	st, ok := p.Named(pkg, typ).Underlying().(*types.Struct)
	if !ok {
		fatalf("anchor type %s.%s is not a struct", pkg, typ)
	}
	nn := p.Named(pkg, typ)
	for i := 0; i < st.NumFields(); i++ {
		if st.Field(i).Name() == field || fieldNameOf(nn, st, i) == field {
			return i
		}
	}
	fatalf("anchor field %s.%s.%s not found", pkg, typ, field)
	return -1
}

// ConstVal returns the constant value of a package-level constant as a string (exact representation).
func (p *Prog) ConstVal(pkg, name string) string {
	o := p.TypesPkg(pkg).Scope().Lookup(name)
	c, ok := o.(*types.Const)
	if !ok {
		fatalf("anchor constant %s.%s not found", pkg, name)
	}
	return c.Val().ExactString()
}

// Pos renders a position relative to the repository root.
func (p *Prog) Pos(pos token.Pos) string {
	if !pos.IsValid() {
		return "-"
	}
	ps := p.Fset.Position(pos)
	f := strings.TrimPrefix(ps.Filename, p.Dir+"/")
	return fmt.Sprintf("%s:%d", f, ps.Line)
}

// InstrPos finds a usable position for an instruction (falling back to operands / the function).
func (p *Prog) InstrPos(in ssa.Instruction) string {
	if in == nil {
		return "-"
	}
	if in.Pos().IsValid() {
		return p.Pos(in.Pos())
	}
	var ops []*ssa.Value
	for _, o := range in.Operands(ops) {
		if o != nil && *o != nil && (*o).Pos().IsValid() {
			return p.Pos((*o).Pos())
		}
	}
	if in.Parent() != nil {
		return p.Pos(in.Parent().Pos())
	}
	return "-"
}

// RepoFuncs returns every function with a body defined in the given repo packages (short paths, e.g. "rt/middleware");
// with no argument, of all repo packages. Test-file functions are included only when the load had Tests.
func (p *Prog) RepoFuncs(pkgs ...string) []*ssa.Function {
	var out []*ssa.Function
	for _, f := range p.allFns {
		if f.Pkg == nil && f.Parent() == nil {
			continue
		}
		pk := fnPkgPath(f)
		if len(pkgs) == 0 {
			out = append(out, f)
			continue
		}
		for _, want := range pkgs {
			if short(pk) == want {
				out = append(out, f)
				break
			}
		}
	}
	return out
}

func fnPkgPath(f *ssa.Function) string {
	for f != nil {
		if f.Pkg != nil {
			return f.Pkg.Pkg.Path()
		}
		if f.Parent() != nil {
			f = f.Parent()
			continue
		}
		if f.Origin() != nil {
			f = f.Origin()
			continue
		}
		break
	}
	return ""
}

// isTestFile reports whether the function is declared in a _test.go file.
func (p *Prog) isTestFn(f *ssa.Function) bool {
	for f.Parent() != nil {
		f = f.Parent()
	}
	if !f.Pos().IsValid() {
		return false
	}
	return strings.HasSuffix(p.Fset.Position(f.Pos()).Filename, "_test.go")
}

// isFixture reports whether the function lives under internal/testing (fixtures, not library code).
func isFixturePkg(path string) bool {
	return strings.Contains(path, "/internal/testing")
}

// LibFuncs = repo functions outside _test.go files and outside the internal/testing fixtures.
func (p *Prog) LibFuncs(pkgs ...string) []*ssa.Function {
	var out []*ssa.Function
	for _, f := range p.RepoFuncs(pkgs...) {
		if p.isTestFn(f) || isFixturePkg(fnPkgPath(f)) {
			continue
		}
		out = append(out, f)
	}
	return out
}

// structFieldLines renders "T.field": "type" for every field of every named struct type declared in library packages.
func (p *Prog) structFieldLines() []string {
	var out []string
	seen := map[string]bool{}
	for _, pkg := range p.SSA.AllPackages() {
		if pkg.Pkg == nil || !isRepoPath(pkg.Pkg.Path()) || isFixturePkg(pkg.Pkg.Path()) {
			continue
		}
		sc := pkg.Pkg.Scope()
		for _, name := range sc.Names() {
			tn, ok := sc.Lookup(name).(*types.TypeName)
			if !ok {
				continue
			}
			if strings.HasSuffix(p.Fset.Position(tn.Pos()).Filename, "_test.go") {
				continue
			}
			named, ok := tn.Type().(*types.Named)
			if !ok {
				continue
			}
			st, ok := named.Underlying().(*types.Struct)
			if !ok {
				continue
			}
			for i := 0; i < st.NumFields(); i++ {
				k := typeFullName(named) + "." + st.Field(i).Name()
				if seen[k] {
					continue
				}
				seen[k] = true
				out = append(out, fmt.Sprintf("\t%q: %q,", k, typeStr(st.Field(i).Type())))
			}
		}
	}
	return out
}

// fieldNameOf returns the name under which the rules know field #idx of struct type n: its own name, or — when the
// field is unknown to the baseline and exactly one baseline field of the same type has disappeared from the struct —
// that baseline field's name (an unexported field was renamed).
func fieldNameOf(n *types.Named, st *types.Struct, idx int) string {
	name := st.Field(idx).Name()
	if n == nil || len(fieldInventory) == 0 {
		return name
	}
	tn := typeFullName(n)
	if _, known := fieldInventory[tn+"."+name]; known {
		return name
	}
	ft := typeStr(st.Field(idx).Type())
	// current fields unknown to the baseline with this type
	cur := 0
	have := map[string]bool{}
	for i := 0; i < st.NumFields(); i++ {
		have[st.Field(i).Name()] = true
		if _, known := fieldInventory[tn+"."+st.Field(i).Name()]; !known && typeStr(st.Field(i).Type()) == ft {
			cur++
		}
	}
	var gone []string
	for k, t := range fieldInventory {
		if strings.HasPrefix(k, tn+".") && t == ft && !have[strings.TrimPrefix(k, tn+".")] && !strings.Contains(strings.TrimPrefix(k, tn+"."), ".") {
			gone = append(gone, strings.TrimPrefix(k, tn+"."))
		}
	}
	if cur == 1 && len(gone) == 1 {
		return gone[0]
	}
	// renamed AND re-typed (e.g. io.ReadCloser narrowed to io.Closer): the one unknown field of a struct that lost
	// exactly one baseline field
	var goneAny, curAny []string
	for k := range fieldInventory {
		if strings.HasPrefix(k, tn+".") {
			f := strings.TrimPrefix(k, tn+".")
			if !strings.Contains(f, ".") && !have[f] {
				goneAny = append(goneAny, f)
			}
		}
	}
	for i := 0; i < st.NumFields(); i++ {
		if _, known := fieldInventory[tn+"."+st.Field(i).Name()]; !known {
			curAny = append(curAny, st.Field(i).Name())
		}
	}
	if len(goneAny) == 1 && len(curAny) == 1 && curAny[0] == name {
		return goneAny[0]
	}
	return name
}

// flatSig renders a function's signature with the receiver as first parameter (so that a method and the function it
// was turned into compare equal).
func flatSig(f *ssa.Function) string {
	var ps []string
	for _, p := range f.Params {
		ps = append(ps, typeStr(p.Type()))
	}
	var rs []string
	res := f.Signature.Results()
	for i := 0; i < res.Len(); i++ {
		rs = append(rs, typeStr(res.At(i).Type()))
	}
	v := ""
	if f.Signature.Variadic() {
		v = "..."
	}
	return "(" + strings.Join(ps, ", ") + v + ") (" + strings.Join(rs, ", ") + ")"
}

// isNewType: the named struct type does not exist in the baseline (none of its fields is in the field inventory).
func isNewType(n *types.Named) bool {
	if n == nil || len(fieldInventory) == 0 || n.Obj() == nil || n.Obj().Pkg() == nil || !isRepoPath(n.Obj().Pkg().Path()) || isFixturePkg(n.Obj().Pkg().Path()) {
		return false
	}
	prefix := typeFullName(n) + "."
	for k := range fieldInventory {
		if strings.HasPrefix(k, prefix) {
			return false
		}
	}
	return true
}

// methodOf returns the SSA function of method name on *n (or n).
func (p *Prog) methodOf(n *types.Named, name string) *ssa.Function {
	for _, t := range []types.Type{types.NewPointer(n), n} {
		ms := p.SSA.MethodSets.MethodSet(t)
		for i := 0; i < ms.Len(); i++ {
			if ms.At(i).Obj().Name() == name {
				return p.SSA.MethodValue(ms.At(i))
			}
		}
	}
	return nil
}

// newTypeFieldStores: the values stored into field `field` of the new (non-baseline) struct type tn anywhere in the
// library — the flow-insensitive meaning of "a load of that field" for types that replaced a function literal's
// captured variables.
func (p *Prog) newTypeFieldStores(tn, field string) []ssa.Value {
	if p.ntStores == nil {
		p.ntStores = map[string][]ssa.Value{}
		for _, f := range p.LibFuncs() {
			for _, b := range f.Blocks {
				for _, in := range b.Instrs {
					st, ok := in.(*ssa.Store)
					if !ok {
						continue
					}
					fa, ok := st.Addr.(*ssa.FieldAddr)
					if !ok {
						continue
					}
					n, stt := structOf(fa.X.Type())
					if n == nil || stt == nil || !isNewType(n) {
						continue
					}
					k := typeFullName(n) + "." + stt.Field(fa.Field).Name()
					p.ntStores[k] = append(p.ntStores[k], st.Val)
				}
			}
		}
	}
	return p.ntStores[tn+"."+field]
}

func (p *Prog) namedTypeLines() []string {
	var out []string
	for _, pkg := range p.SSA.AllPackages() {
		if pkg.Pkg == nil || !isRepoPath(pkg.Pkg.Path()) || isFixturePkg(pkg.Pkg.Path()) {
			continue
		}
		sc := pkg.Pkg.Scope()
		for _, name := range sc.Names() {
			tn, ok := sc.Lookup(name).(*types.TypeName)
			if !ok || strings.HasSuffix(p.Fset.Position(tn.Pos()).Filename, "_test.go") {
				continue
			}
			out = append(out, fmt.Sprintf("\t%q: true,", short(pkg.Pkg.Path())+"."+name))
		}
	}
	sort.Strings(out)
	return out
}

func (p *Prog) globalLines() []string {
	var out []string
	for _, pkg := range p.SSA.AllPackages() {
		if pkg.Pkg == nil || !isRepoPath(pkg.Pkg.Path()) || isFixturePkg(pkg.Pkg.Path()) {
			continue
		}
		sc := pkg.Pkg.Scope()
		for _, name := range sc.Names() {
			v, ok := sc.Lookup(name).(*types.Var)
			if !ok || strings.HasSuffix(p.Fset.Position(v.Pos()).Filename, "_test.go") {
				continue
			}
			out = append(out, fmt.Sprintf("\t%q: true,", short(pkg.Pkg.Path())+"."+name))
		}
	}
	sort.Strings(out)
	return out
}

// involvesNovelty: f (with the helpers it is looked through into, and its function literals) is, calls, or mentions a
// function, named type or package-level variable of the library that the baseline inventory does not know.
func (p *Prog) involvesNovelty(f *ssa.Function) bool {
	if len(inventory) == 0 || len(typeInventory) == 0 {
		return false
	}
	if p.novelty == nil {
		p.novelty = map[*ssa.Function]bool{}
		p.noveltyWhy = map[*ssa.Function]string{}
	}
	if v, ok := p.novelty[f]; ok {
		return v
	}
	p.novelty[f] = false
	why := ""
	novelFn := func(g *ssa.Function) bool {
		wasInstance := false
		if g != nil && g.Origin() != nil {
			g, wasInstance = g.Origin(), true // an instantiation of a generic function is as novel as the generic function
		}
		if g == nil || (g.Blocks == nil && !wasInstance) || g.Synthetic != "" || !isRepoPath(fnPkgPath(g)) || isFixturePkg(fnPkgPath(g)) || p.isTestFn(g) {
			return false
		}
		// function literals are numbered, not named: one more or one less literal in a function renumbers them all,
		// so a literal is as novel as the named function it sits in
		for g.Parent() != nil {
			g = g.Parent()
		}
		if p.ti != nil {
			if old, renamed := p.ti.alias[g]; renamed {
				// a baseline function under a new name — unless its signature changed on the way
				if sig, ok := sigInventory[old]; ok && sig != flatSig(g) {
					return true
				}
				return false
			}
		}
		name := short(g.String())
		if !inventory[name] {
			return true
		}
		// same name, different signature: what it takes and hands back is not what the rules were confirmed against
		if sig, ok := sigInventory[name]; ok && sig != flatSig(g) {
			return true
		}
		return false
	}
	var novelType func(t types.Type, depth int) string
	novelType = func(t types.Type, depth int) string {
		if t == nil || depth > 3 {
			return ""
		}
		switch x := t.(type) {
		case *types.Named:
			if x.Obj() != nil && x.Obj().Pkg() != nil && isRepoPath(x.Obj().Pkg().Path()) && !isFixturePkg(x.Obj().Pkg().Path()) {
				if n := typeFullName(x); !typeInventory[n] {
					return n
				}
			}
		case *types.Pointer:
			return novelType(x.Elem(), depth+1)
		case *types.Slice:
			return novelType(x.Elem(), depth+1)
		case *types.Array:
			return novelType(x.Elem(), depth+1)
		case *types.Map:
			if s := novelType(x.Key(), depth+1); s != "" {
				return s
			}
			return novelType(x.Elem(), depth+1)
		}
		return ""
	}
	root := f
	for root.Parent() != nil {
		root = root.Parent()
	}
	if novelFn(f) || novelFn(root) {
		why = "function " + short(f.String())
	}
	fns := withClosures(f)
	if root != f {
		// a function literal works on what the function around it prepared (captured variables): novelty there counts
		fns = append(fns, root)
	}
	for _, g := range fns {
		if why != "" {
			break
		}
		for _, in := range instrs(g) {
			if ci, ok := in.(ssa.CallInstruction); ok {
				if sc := ci.Common().StaticCallee(); novelFn(sc) {
					why = "function " + short(sc.String())
					break
				}
				if ci.Common().IsInvoke() {
					if s := novelType(ci.Common().Value.Type(), 0); s != "" {
						why = "type " + s
						break
					}
				}
			}
			if v, ok := in.(ssa.Value); ok {
				if s := novelType(v.Type(), 0); s != "" {
					why = "type " + s
					break
				}
			}
			for _, op := range in.Operands(nil) {
				if op == nil || *op == nil {
					continue
				}
				if gl, ok := (*op).(*ssa.Global); ok && gl.Pkg != nil && isRepoPath(gl.Pkg.Pkg.Path()) && !isFixturePkg(gl.Pkg.Pkg.Path()) && !strings.HasPrefix(gl.Name(), "init$") {
					if !globalInventory[short(gl.Pkg.Pkg.Path())+"."+gl.Name()] {
						why = "package variable " + short(gl.Pkg.Pkg.Path()) + "." + gl.Name()
						break
					}
				}
				if fn2, ok := (*op).(*ssa.Function); ok && novelFn(fn2) && fn2.Parent() == nil {
					why = "function " + short(fn2.String())
					break
				}
			}
			if why != "" {
				break
			}
		}
	}
	p.novelty[f] = why != ""
	p.noveltyWhy[f] = why
	return why != ""
}
