package main

// rtcheck — repository-specific static checker for go-openapi/runtime.
//
//	rtcheck -property C07 -tier quick|thorough [-repo /repo] [-verif /verif]
//
// Exit status: 0 property's decided clauses hold (known findings are printed as KNOWN-FINDING lines),
// 1 with a line "VIOLATION property=<id> replay=<path>" when an obligation fails that the known-findings file does
// not list, 2 on a tool error (load failure, unresolved anchor, internal panic): undecided is never a pass.

import (
	"encoding/json"
	"flag"
	"fmt"
	"go/token"
	"os"
	"path/filepath"
	"runtime/debug"
	"sort"
	"strconv"
	"strings"
	"time"

	"golang.org/x/tools/go/ssa"
)

// Obligation is one decided proof obligation of a rule.
type Obligation struct {
	Rule   string `json:"rule"`
	Key    string `json:"key"` // rule/function/construct — never a line number
	Pos    string `json:"pos"` // file:line, for diagnosis only
	What   string `json:"what"`
	OK     bool   `json:"ok"`
	Detail string `json:"detail,omitempty"`
	Config string `json:"config,omitempty"`
	AltKey string `json:"alt_key,omitempty"`     // function-agnostic key (bounds obligations): matches known findings when code moved
	Recog  bool   `json:"recognition,omitempty"` // a recognition obligation: its failure means "the mechanism could not be found", not "the property is broken"
}

// Ctx is the state of one property run over one loaded configuration.
type Ctx struct {
	P        *Prog
	Property string
	Tier     string
	Obs      []Obligation
	Info     []string
	counts   map[string]int // rule -> instances analysed
	keys     map[string]bool
	recog    bool // the obligation being recorded is a recognition obligation
	definite bool // the obligation being recorded is a definite contradiction when it fails (never demoted)
}

func (c *Ctx) ob(rule, fn, construct string, pos string, ok bool, what, detail string) {
	stripEnv = nil // (bindings set up by the last condition matched do not outlive the step that asked)
	key := rule + "/" + fn + "/" + construct
	if c.keys == nil {
		c.keys = map[string]bool{}
	}
	// keys must be unique: disambiguate repeated constructs by occurrence order within the function
	k := key
	for i := 2; c.keys[k]; i++ {
		k = key + "#" + strconv.Itoa(i)
	}
	c.keys[k] = true
	if c.counts == nil {
		c.counts = map[string]int{}
	}
	c.counts[rule]++
	o := Obligation{Rule: rule, Key: k, Pos: pos, What: what, OK: ok, Config: c.P.Cfg, Recog: c.recog}
	if !ok {
		o.Detail = detail
		// a failure inside code that involves entities unknown to the baseline (new helper functions, types, package
		// variables) cannot be told from "the rule does not recognise the restructured mechanism": it is reported as
		// UNDECIDED, never as a violation
		definite := c.definite || (lastBadOrigin != nil && definiteOrigin(c.P, lastBadOrigin))
		if !o.Recog && !definite {
			if f := c.P.FnOpt(fn); f != nil && c.P.involvesNovelty(f) {
				o.Recog = true
				o.Detail += " [not a verdict: " + c.P.noveltyWhy[f] + " is unknown to the baseline the rules were confirmed against]"
			}
		}
	}
	c.Obs = append(c.Obs, o)
	c.definite = false
	lastBadOrigin = nil
}

// obD records a property obligation whose failure is a definite contradiction whatever else changed around it (a write
// to shared state, a call of a function the rule forbids …): it is never demoted to "undecided" on account of new code.
func (c *Ctx) obD(rule string, in ssa.Instruction, construct string, ok bool, what, detail string) {
	c.definite = true
	c.obI(rule, in, construct, ok, what, detail)
}

// lastBadOrigin is the origin that made the most recent allOrigins query fail (consumed by the next obligation).
var lastBadOrigin *Origin

// definiteOrigin: the offending origin is a hard fact that does not depend on code unknown to the baseline — the result
// of a standard-library / dependency function, a constant, or a parameter of a baseline function.
func definiteOrigin(p *Prog, o *Origin) bool {
	switch x := o.V.(type) {
	case *ssa.Const:
		return os.Getenv("RT_CONST_DEFINITE") != ""
	case *ssa.Global:
		return x.Pkg != nil && !isRepoPath(x.Pkg.Pkg.Path())
	case *ssa.UnOp:
		// the value of a package-level variable of the standard library or a dependency (http.DefaultTransport …)
		if g, ok := x.X.(*ssa.Global); ok && x.Op == token.MUL {
			return g.Pkg != nil && !isRepoPath(g.Pkg.Pkg.Path())
		}
		// a field of a standard-library / dependency struct (request.RequestURI, url.Path …): which field is read does
		// not depend on code unknown to the baseline
		if fa, ok := x.X.(*ssa.FieldAddr); ok && x.Op == token.MUL {
			if n, _ := structOf(fa.X.Type()); n != nil && n.Obj() != nil && n.Obj().Pkg() != nil {
				return !isRepoPath(n.Obj().Pkg().Path())
			}
		}
		return false
	case *ssa.Parameter:
		f := x.Parent()
		return f != nil && !isTransparent(f) && inventory[short(f.String())]
	case *ssa.Call:
		if x.Call.IsInvoke() {
			return false
		}
		sc := x.Call.StaticCallee()
		return sc != nil && !isRepoPath(fnPkgPath(sc))
	}
	return false
}

// obI is ob positioned at an instruction.
func (c *Ctx) obI(rule string, in ssa.Instruction, construct string, ok bool, what, detail string) {
	fn := "?"
	if in != nil && in.Parent() != nil {
		fn = obFnName(in.Parent())
	}
	c.ob(rule, fn, construct, c.P.InstrPos(in), ok, what, detail)
}

// obF is ob positioned at a function.
func (c *Ctx) obF(rule string, f *ssa.Function, construct string, ok bool, what, detail string) {
	c.ob(rule, obFnName(f), construct, c.P.Pos(f.Pos()), ok, what, detail)
}

// obFnName names a function in obligation keys: under its baseline name when the function (or, for a function
// literal, the named function it sits in) was merely renamed — keys, and with them the known findings, are stable
// under renames.
func obFnName(f *ssa.Function) string {
	s := short(f.String())
	root := f
	for root.Parent() != nil {
		root = root.Parent()
	}
	if curProg != nil && curProg.ti != nil {
		if a, ok := curProg.ti.alias[root]; ok {
			return a + strings.TrimPrefix(s, short(root.String()))
		}
	}
	return s
}

// obRF / obRI / obR record RECOGNITION obligations: "the rule found the mechanism it is about" (a call, a loop, a
// store, n instances of it). When one fails the rule cannot say anything about the property on this tree: the run is
// UNDECIDED (exit 2, no VIOLATION line) unless some property obligation fails as well.
func (c *Ctx) obRF(rule string, f *ssa.Function, construct string, ok bool, what, detail string) {
	c.recog = true
	defer func() { c.recog = false }()
	c.obF(rule, f, construct, ok, what, detail)
}

func (c *Ctx) obRI(rule string, in ssa.Instruction, construct string, ok bool, what, detail string) {
	c.recog = true
	defer func() { c.recog = false }()
	c.obI(rule, in, construct, ok, what, detail)
}

func (c *Ctx) obR(rule, fn, construct string, pos string, ok bool, what, detail string) {
	c.recog = true
	defer func() { c.recog = false }()
	c.ob(rule, fn, construct, pos, ok, what, detail)
}

func (c *Ctx) info(format string, args ...interface{}) {
	c.Info = append(c.Info, fmt.Sprintf(format, args...))
}

// min asserts that a rule analysed at least n instances (a rule matching nothing must not pass vacuously).
func (c *Ctx) min(rule string, n int) {
	if c.counts[rule] < n {
		c.obR(rule, "-", "instance-count", "-", false,
			fmt.Sprintf("rule %s must find at least %d instances of its mechanism", rule, n),
			fmt.Sprintf("only %d instance(s) found: the mechanism this rule checks is missing or no longer recognisable", c.counts[rule]))
		c.counts[rule]-- // do not count the synthetic obligation
	}
}

// Property is one property's rule set.
type Property struct {
	ID          string
	Explanation string   // which clauses are decided, which are not
	Assumptions []string // trusted base
	Run         func(c *Ctx)
	Mutants     []string // thorough tier: patches under /verif/mutants that the rules must report
}

var registry = map[string]*Property{}

func register(p *Property) { registry[p.ID] = p }

type knownFinding struct {
	Property string `json:"property"`
	Key      string `json:"key"`
	What     string `json:"what"`
}

type knownFile struct {
	Findings []knownFinding `json:"findings"`
	Fixed    []string       `json:"fixed"`
}

func loadKnown(verif string) knownFile {
	var k knownFile
	b, err := os.ReadFile(filepath.Join(verif, "known-findings.json"))
	if err != nil {
		return k
	}
	if err := json.Unmarshal(b, &k); err != nil {
		fatalf("known-findings.json: %v", err)
	}
	return k
}

func main() {
	prop := flag.String("property", "", "property id (C01..C20)")
	tier := flag.String("tier", "quick", "quick|thorough")
	repo := flag.String("repo", "/repo", "repository root")
	verif := flag.String("verif", "", "verif root (default: parent of the executable's directory)")
	noEvidence := flag.Bool("no-evidence", false, "do not write the evidence file (used by self-validation)")
	listRules := flag.Bool("list", false, "list properties")
	dumpInv := flag.Bool("dump-inventory", false, "print the library functions of the tree (used to regenerate inventory_gen.go from the baseline)")
	flag.Parse()
	if *dumpInv {
		saved := inventory
		inventory = nil
		prog := Load(LoadConfig{Dir: *repo})
		inventory = saved
		var names []string
		for _, f := range prog.LibFuncs() {
			names = append(names, short(f.String()))
		}
		sort.Strings(names)
		fmt.Println("// Code generated by `rtcheck -dump-inventory`; DO NOT EDIT.")
		fmt.Println("// Library functions of the baseline tree: the anchors the rules know. Functions outside this set are helpers and are looked through.")
		fmt.Println("package main\n\nvar inventory = map[string]bool{")
		for _, n := range names {
			fmt.Printf("\t%q: true,\n", n)
		}
		fmt.Println("}")
		// flattened signatures (receiver first), so that a renamed unexported function is still recognised
		fmt.Println("\nvar sigInventory = map[string]string{")
		for _, f := range prog.LibFuncs() {
			_ = f
		}
		var sl []string
		for _, f := range prog.LibFuncs() {
			if f.Parent() != nil || f.Synthetic != "" {
				continue
			}
			sl = append(sl, fmt.Sprintf("\t%q: %q,", short(f.String()), flatSig(f)))
		}
		sort.Strings(sl)
		for _, ln := range sl {
			fmt.Println(ln)
		}
		fmt.Println("}")
		// named types and package-level variables of the library: what is not listed here is NOVEL to the baseline
		fmt.Println("\nvar typeInventory = map[string]bool{")
		for _, ln := range prog.namedTypeLines() {
			fmt.Println(ln)
		}
		fmt.Println("}")
		fmt.Println("\nvar typeShapeInventory = map[string]string{")
		for _, ln := range prog.typeShapeLines() {
			fmt.Println(ln)
		}
		fmt.Println("}")
		fmt.Println("\nvar globalInventory = map[string]bool{")
		for _, ln := range prog.globalLines() {
			fmt.Println(ln)
		}
		fmt.Println("}")
		// straight-line library functions the library itself never calls (accessors offered to API users): a call to one
		// of them that appears in library code later is looked through like a call to a new helper
		fmt.Println("\nvar uncalledInventory = map[string]bool{")
		{
			called := map[*ssa.Function]bool{}
			for _, f := range prog.LibFuncs() {
				for _, b := range f.Blocks {
					for _, in := range b.Instrs {
						if ci, ok := in.(ssa.CallInstruction); ok {
							if sc := ci.Common().StaticCallee(); sc != nil {
								called[sc] = true
							}
						}
						for _, op := range in.Operands(nil) {
							if op != nil && *op != nil {
								if g, ok := (*op).(*ssa.Function); ok {
									called[g] = true // used as a value: may be called anywhere
								}
							}
						}
					}
				}
			}
			var ul []string
			for _, f := range prog.LibFuncs() {
				if f.Parent() != nil || f.Synthetic != "" || called[f] || len(f.Blocks) != 1 {
					continue
				}
				ul = append(ul, fmt.Sprintf("\t%q: true,", short(f.String())))
			}
			sort.Strings(ul)
			for _, ln := range ul {
				fmt.Println(ln)
			}
		}
		fmt.Println("}")
		// the fields of the library's struct types (name and type), so that a renamed unexported field is still recognised
		fmt.Println("\nvar fieldInventory = map[string]string{")
		var fl []string
		for _, ln := range prog.structFieldLines() {
			fl = append(fl, ln)
		}
		sort.Strings(fl)
		for _, ln := range fl {
			fmt.Println(ln)
		}
		fmt.Println("}")
		return
	}
	if *listRules {
		var ids []string
		for id := range registry {
			ids = append(ids, id)
		}
		sort.Strings(ids)
		fmt.Println(strings.Join(ids, " "))
		return
	}
	if *verif == "" {
		exe, err := os.Executable()
		if err == nil {
			*verif = filepath.Dir(filepath.Dir(exe))
		} else {
			*verif = "/verif"
		}
	}
	if t := os.Getenv("VERIF_TIER"); t != "" && !flagSet("tier") {
		*tier = t
	}
	os.Exit(run(*prop, *tier, *repo, *verif, !*noEvidence))
}

func flagSet(name string) bool {
	set := false
	flag.Visit(func(f *flag.Flag) {
		if f.Name == name {
			set = true
		}
	})
	return set
}

type runResult struct {
	obs   []Obligation
	info  []string
	cfgs  []string
	funcs int
}

func runConfig(p *Property, tier string, lc LoadConfig) (res runResult) {
	prog := Load(lc)
	c := &Ctx{P: prog, Property: p.ID, Tier: tier}
	p.Run(c)
	res.obs = c.Obs
	res.info = c.Info
	res.cfgs = []string{prog.Cfg}
	res.funcs = len(prog.LibFuncs())
	return
}

func run(id, tier, repo, verif string, writeEvidence bool) (status int) {
	start := time.Now()
	p := registry[id]
	if p == nil {
		fmt.Fprintf(os.Stderr, "rtcheck: unknown property %q\n", id)
		return 2
	}
	if tier != "quick" && tier != "thorough" {
		fmt.Fprintf(os.Stderr, "rtcheck: unknown tier %q\n", tier)
		return 2
	}
	defer func() {
		if r := recover(); r != nil {
			if te, ok := r.(toolError); ok {
				fmt.Fprintf(os.Stderr, "rtcheck: TOOL ERROR (undecided, not a verdict): %s\n", te.msg)
				if strings.HasPrefix(te.msg, "anchor") || strings.Contains(te.msg, "has no parameter") || strings.Contains(te.msg, "not found") {
					// an anchor of the rules is gone or has another shape: the code was restructured beyond recognition
					fmt.Printf("  UNRECOGNISED anchor: %s\nUNDECIDED property=%s: an anchor of the rules could not be resolved on this tree (this is not a verdict)\n", te.msg, id)
				}
			} else {
				fmt.Fprintf(os.Stderr, "rtcheck: INTERNAL ERROR (undecided, not a verdict): %v\n%s\n", r, debug.Stack())
			}
			status = 2
		}
	}()

	configs := []LoadConfig{{Dir: repo}}
	if tier == "thorough" {
		configs = []LoadConfig{
			{Dir: repo},
			{Dir: repo, Tests: true},
			{Dir: repo, GOOS: "windows", GOARCH: "amd64"},
			{Dir: repo, GOOS: "darwin", GOARCH: "arm64"},
			{Dir: repo, GOOS: "linux", GOARCH: "386"},
		}
	}
	var all []Obligation
	var infos, cfgs []string
	funcs := 0
	for i, lc := range configs {
		r := runConfig(p, tier, lc)
		if i == 0 {
			infos = r.info
			funcs = r.funcs
		}
		cfgs = append(cfgs, r.cfgs...)
		all = append(all, r.obs...)
	}

	known := loadKnown(verif)
	knownKeys := map[string]knownFinding{}
	for _, k := range known.Findings {
		if k.Property == id {
			knownKeys[normKey(k.Key)] = k
		}
	}
	// merge identical keys across configurations (report each failing key once)
	type agg struct {
		o    Obligation
		cfgs []string
	}
	byKey := map[string]*agg{}
	var order []string
	for _, o := range all {
		a := byKey[o.Key]
		if a == nil {
			a = &agg{o: o}
			byKey[o.Key] = a
			order = append(order, o.Key)
		}
		if !o.OK {
			a.o.OK = false
			if a.o.Detail == "" {
				a.o.Detail = o.Detail
				a.o.Pos = o.Pos
			}
		}
		a.cfgs = append(a.cfgs, o.Config)
	}
	var violations, knownHit, undecided []Obligation
	discharged := 0
	for _, k := range order {
		a := byKey[k]
		if a.o.OK {
			discharged++
			continue
		}
		if _, ok := knownKeys[normKey(k)]; ok {
			knownHit = append(knownHit, a.o)
			continue
		}
		if kf, ok := knownKeys[a.o.AltKey]; ok && a.o.AltKey != "" {
			knownKeys[normKey(k)] = kf
			knownHit = append(knownHit, a.o)
			continue
		}
		if a.o.Recog {
			undecided = append(undecided, a.o)
			continue
		}
		violations = append(violations, a.o)
	}

	// self-validation (thorough, and only when the tree itself is clean of violations): each stored mutant must be reported
	var mutantReport []map[string]interface{}
	if tier == "thorough" && len(violations) == 0 && len(undecided) == 0 {
		mutantReport = selfValidate(p, repo, verif)
	}

	// report
	fmt.Printf("rtcheck property=%s tier=%s repo=%s configs=%d functions=%d obligations=%d discharged=%d known=%d violations=%d undecided=%d\n",
		id, tier, repo, len(cfgs), funcs, len(order), discharged, len(knownHit), len(violations), len(undecided))
	ruleCount := map[string][2]int{}
	for _, k := range order {
		a := byKey[k]
		rc := ruleCount[a.o.Rule]
		rc[0]++
		if a.o.OK {
			rc[1]++
		}
		ruleCount[a.o.Rule] = rc
	}
	var rules []string
	for r := range ruleCount {
		rules = append(rules, r)
	}
	sort.Strings(rules)
	for _, r := range rules {
		fmt.Printf("  rule %-7s obligations=%d discharged=%d\n", r, ruleCount[r][0], ruleCount[r][1])
	}
	for _, s := range infos {
		fmt.Printf("  info: %s\n", s)
	}
	for _, o := range knownHit {
		fmt.Printf("KNOWN-FINDING: property=%s %s at %s: %s\n", id, o.Key, o.Pos, knownKeys[normKey(o.Key)].What)
	}
	for _, o := range violations {
		fmt.Printf("  FAILED %s at %s\n    rule: %s\n    why : %s\n", o.Key, o.Pos, o.What, o.Detail)
		if o.AltKey != "" {
			fmt.Printf("    shape-key: %s\n", o.AltKey)
		}
	}

	for _, o := range undecided {
		fmt.Printf("  UNRECOGNISED %s at %s\n    rule: %s\n    why : %s\n", o.Key, o.Pos, o.What, o.Detail)
	}

	evDir := filepath.Join(verif, "evidence")
	replay := filepath.Join(evDir, id+".violations.json")
	if writeEvidence {
		_ = os.MkdirAll(evDir, 0o755)
		if len(violations) > 0 {
			b, _ := json.MarshalIndent(map[string]interface{}{"property_id": id, "tier": tier, "violations": violations}, "", " ")
			_ = os.WriteFile(replay, append(b, '\n'), 0o644)
		} else {
			_ = os.Remove(replay)
		}
		writeEvidenceFile(filepath.Join(evDir, id+".json"), p, tier, cfgs, funcs, order, func(k string) Obligation { return byKey[k].o },
			discharged, knownHit, violations, infos, mutantReport, time.Since(start), ruleCount)
	}
	if len(violations) > 0 {
		fmt.Printf("VIOLATION property=%s replay=%s\n", id, replay)
		return 1
	}
	if len(undecided) > 0 {
		// the rules could not find (all of) the mechanism they are about: no verdict on the property for this tree
		fmt.Printf("UNDECIDED property=%s: %d recognition obligation(s) failed - the code was restructured beyond what the rules recognise; they have to be re-confirmed against it (this is not a verdict)\n", id, len(undecided))
		return 2
	}
	return 0
}

func writeEvidenceFile(path string, p *Property, tier string, cfgs []string, funcs int, order []string, get func(string) Obligation,
	discharged int, known, violations []Obligation, infos []string, mutants []map[string]interface{}, wall time.Duration, ruleCount map[string][2]int) {
	seed := 0
	if s := os.Getenv("VERIF_SEED"); s != "" {
		if n, err := strconv.Atoi(s); err == nil {
			seed = n
		}
	}
	var samples []interface{}
	perRule := map[string]int{}
	for _, k := range order {
		o := get(k)
		if perRule[o.Rule] >= 3 && o.OK {
			continue
		}
		perRule[o.Rule]++
		samples = append(samples, map[string]interface{}{"key": o.Key, "pos": o.Pos, "rule_applied": o.What, "discharged": o.OK})
	}
	rules := map[string]interface{}{}
	for r, rc := range ruleCount {
		rules[r] = map[string]int{"obligations": rc[0], "discharged": rc[1]}
	}
	var knownKeys []string
	for _, o := range known {
		knownKeys = append(knownKeys, o.Key)
	}
	cov := map[string]interface{}{
		"explanation":        p.Explanation,
		"obligations":        len(order),
		"discharged":         discharged,
		"known_findings":     knownKeys,
		"checker_cmd":        "bin/rtcheck -property " + p.ID + " -tier " + tier,
		"trusted_base":       append([]string{"go/types, go/ssa (golang.org/x/tools v0.29.0) model the program faithfully", "behaviour of dependencies (net/http, mime, encoding/csv, reflect, go-openapi/*) as documented"}, p.Assumptions...),
		"samples":            samples,
		"configurations":     cfgs,
		"functions_analysed": funcs,
		"per_rule":           rules,
		"notes":              infos,
		"exhaustive":         false,
	}
	if mutants != nil {
		cov["self_validation_mutants"] = mutants
	}
	assumptions := append([]string{"the analysed tree type-checks and is modelled faithfully by go/ssa"}, p.Assumptions...)
	ev := map[string]interface{}{
		"property_id": p.ID,
		"tier":        tier,
		"seed":        seed,
		"level":       "other",
		"coverage":    cov,
		"assumptions": assumptions,
		"wall_s":      wall.Seconds(),
		"violations":  len(violations),
	}
	b, _ := json.MarshalIndent(ev, "", " ")
	if err := os.WriteFile(path, append(b, '\n'), 0o644); err != nil {
		fatalf("write evidence: %v", err)
	}
}

// normKey normalises an obligation key for matching against the known-findings file: the function segment
// (rule/FUNCTION/construct) is reduced to its base name, so that a finding stays the same finding when its function is
// moved to another receiver or turned into a plain function.
func normKey(k string) string {
	parts := strings.SplitN(k, "/", 2)
	if len(parts) != 2 {
		return k
	}
	rest := parts[1]
	// the function segment may itself contain slashes (package paths): it ends at the last "/" before the construct,
	// and constructs never start with a package path; find the segment boundary by scanning for ")." or the last dot
	idx := -1
	depth := 0
	for i := 0; i < len(rest); i++ {
		switch rest[i] {
		case '(':
			depth++
		case ')':
			depth--
		case '/':
			if depth == 0 {
				// candidate boundary: what precedes must end with an identifier (function name)
				idx = i
			}
		}
		if idx >= 0 && depth == 0 && rest[i] == '/' {
			// take the first boundary at depth 0 whose left side contains a '.'
			if strings.Contains(rest[:i], ".") {
				idx = i
				break
			}
		}
	}
	if idx < 0 {
		return k
	}
	fn, construct := rest[:idx], rest[idx+1:]
	fn = strings.TrimSuffix(fn, ")")
	if j := strings.LastIndex(fn, "."); j >= 0 {
		fn = fn[j+1:]
	}
	return parts[0] + "/" + fn + "/" + construct
}
