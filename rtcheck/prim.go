package main

// Shared primitives over SSA: resolved callee names, condition facts and
// must-pass-through ("guard") checks, backward value provenance.

import (
	"go/constant"
	"go/token"
	"go/types"
	"strings"

	"golang.org/x/tools/go/ssa"
)

// ---------- resolved callees ----------

// calleeName returns the type-resolved qualified name of what a call invokes:
//
//	"net/url.PathUnescape", "(*net/url.URL).EscapedPath", "(net/http.Handler).ServeHTTP" (interface method),
//	"rt/middleware.normalizeOffer", "builtin len", "" for a dynamic call of a function value.
func calleeName(c *ssa.CallCommon) string {
	if c.IsInvoke() {
		return short(c.Method.FullName())
	}
	switch v := c.Value.(type) {
	case *ssa.Builtin:
		return "builtin " + v.Name()
	case *ssa.Function:
		return fnName(v)
	case *ssa.MakeClosure:
		if f, ok := v.Fn.(*ssa.Function); ok {
			return fnName(f)
		}
	}
	return ""
}

func fnName(f *ssa.Function) string {
	if f.Origin() != nil { // instantiation of a generic
		f = f.Origin()
	}
	if curProg != nil && curProg.ti != nil {
		if a, ok := curProg.ti.alias[f]; ok {
			return a
		}
	}
	if o := f.Object(); o != nil {
		if fo, ok := o.(*types.Func); ok {
			return short(fo.FullName())
		}
	}
	s := short(f.String())
	// bound method wrappers: "(*T).M$bound"
	s = strings.TrimSuffix(s, "$bound")
	return s
}

// asCall returns the call instruction behind a value (a *ssa.Call), or nil.
func asCall(v ssa.Value) *ssa.Call {
	c, _ := v.(*ssa.Call)
	return c
}

// isCallTo reports whether v is a call whose resolved callee is one of names.
func isCallTo(v ssa.Value, names ...string) bool {
	c := asCall(v)
	if c == nil {
		return false
	}
	n := calleeName(&c.Call)
	for _, w := range names {
		if n == w {
			return true
		}
	}
	return false
}

// callsIn lists the call instructions (Call, Go, Defer) of f whose resolved callee is one of names.
func callsIn(f *ssa.Function, names ...string) []ssa.CallInstruction {
	var out []ssa.CallInstruction
	for _, in := range instrs(f) {
		ci, ok := in.(ssa.CallInstruction)
		if !ok {
			continue
		}
		n := calleeName(ci.Common())
		for _, w := range names {
			if n == w {
				out = append(out, ci)
			}
		}
	}
	return out
}

// allCalls lists every call instruction of f.
func allCalls(f *ssa.Function) []ssa.CallInstruction {
	var out []ssa.CallInstruction
	for _, in := range instrs(f) {
		if ci, ok := in.(ssa.CallInstruction); ok {
			if transparentCallee(in) != nil {
				continue // the call of a helper is represented by the helper's own instructions
			}
			out = append(out, ci)
		}
	}
	return out
}

// callArgs returns receiver (nil if none) and the ordinary arguments of a call.
func callArgs(c *ssa.CallCommon) (recv ssa.Value, args []ssa.Value) {
	if c.IsInvoke() {
		return c.Value, c.Args
	}
	if f, ok := c.Value.(*ssa.Function); ok && f.Signature.Recv() != nil && len(c.Args) > 0 {
		return c.Args[0], c.Args[1:]
	}
	return nil, c.Args
}

// withClosures returns f and, transitively, the anonymous functions declared in it.
func withClosures(f *ssa.Function) []*ssa.Function {
	out := []*ssa.Function{f}
	for _, a := range f.AnonFuncs {
		out = append(out, withClosures(a)...)
	}
	return out
}

// ---------- constants ----------

func isNilConst(v ssa.Value) bool {
	c, ok := v.(*ssa.Const)
	return ok && c.Value == nil && !isBasicNonPointer(c.Type())
}

func isBasicNonPointer(t types.Type) bool {
	b, ok := t.Underlying().(*types.Basic)
	if !ok {
		return false
	}
	return b.Kind() != types.UntypedNil && b.Kind() != types.UnsafePointer
}

func constString(v ssa.Value) (string, bool) {
	c, ok := v.(*ssa.Const)
	if !ok || c.Value == nil || c.Value.Kind() != constant.String {
		return "", false
	}
	return constant.StringVal(c.Value), true
}

func constInt(v ssa.Value) (int64, bool) {
	c, ok := v.(*ssa.Const)
	if !ok || c.Value == nil {
		return 0, false
	}
	if c.Value.Kind() != constant.Int {
		if c.Value.Kind() == constant.Float {
			f, _ := constant.Float64Val(c.Value)
			if f == float64(int64(f)) {
				return int64(f), true
			}
		}
		return 0, false
	}
	i, ok := constant.Int64Val(c.Value)
	return i, ok
}

func constBool(v ssa.Value) (bool, bool) {
	c, ok := v.(*ssa.Const)
	if !ok || c.Value == nil || c.Value.Kind() != constant.Bool {
		return false, false
	}
	return constant.BoolVal(c.Value), true
}

// ---------- condition facts ----------

// A VPred recognises a value.
type VPred func(ssa.Value) bool

// An EdgePred says whether taking the given branch of an If whose condition is cond establishes the fact of interest.
type EdgePred func(cond ssa.Value, branch bool) bool

func stripNot(cond ssa.Value, branch bool) (ssa.Value, bool) {
	stripEnv = nil
	for i := 0; i < 8; i++ {
		if u, ok := cond.(*ssa.UnOp); ok && u.Op == token.NOT {
			cond, branch = u.X, !branch
			continue
		}
		// a boolean helper that is looked through (`if p.isClosed()`): the condition is what the helper returned
		if c, ok := cond.(*ssa.Call); ok {
			callee := transparentCallee(c)
			if callee == nil && lookThroughBaselinePredicates {
				// a library predicate of the baseline whose whole body is `return <condition>` is matched as that condition too
				if sc := c.Call.StaticCallee(); sc != nil && sc.Blocks != nil && isRepoPath(fnPkgPath(sc)) && sc != c.Parent() && isBoolResult(sc) {
					callee = sc
				}
			}
			if callee != nil && callee.Signature.Results().Len() == 1 {
				var rets []*ssa.Return
				if only, bound := resultEnv[c]; bound && only != nil {
					rets = []*ssa.Return{only}
				} else {
					for _, r := range returnsOf(callee) {
						if !isRecoverReturn(r) {
							rets = append(rets, r)
						}
					}
				}
				if len(rets) == 1 {
					if rv := resOf(rets[0], 0); rv != nil {
						if _, isConst := rv.(*ssa.Const); !isConst {
							// the helper's parameters stand for this call's arguments while the condition is matched
							env := map[*ssa.Parameter]ssa.Value{}
							for k, v := range stripEnv {
								env[k] = v
							}
							for k, prm := range callee.Params {
								if k < len(c.Call.Args) {
									env[prm] = c.Call.Args[k]
								}
							}
							stripEnv = env
							cond = rv
							continue
						}
					}
				}
			}
		}
		return cond, branch
	}
	return cond, branch
}

// factTrue: the edge establishes that a boolean value recognised by m is true (false when want is false).
func factBool(m VPred, want bool) EdgePred {
	return func(cond ssa.Value, branch bool) bool {
		c, b := stripNot(cond, branch)
		if m(c) || m(envValue(c)) {
			return b == want
		}
		// comparisons with boolean constants: x == true etc.
		if bo, ok := c.(*ssa.BinOp); ok && (bo.Op == token.EQL || bo.Op == token.NEQ) {
			for i, side := range []ssa.Value{bo.X, bo.Y} {
				other := bo.Y
				if i == 1 {
					other = bo.X
				}
				if k, ok := constBool(other); ok && m(side) {
					eq := b == (bo.Op == token.EQL) // side == k holds
					if eq {
						return k == want
					}
					return k != want
				}
			}
		}
		return false
	}
}

// factNil: the edge establishes v == nil (isNil) or v != nil (!isNil) for a value recognised by m.
func factNil(m VPred, isNil bool) EdgePred {
	return func(cond ssa.Value, branch bool) bool {
		c, b := stripNot(cond, branch)
		bo, ok := c.(*ssa.BinOp)
		if !ok || (bo.Op != token.EQL && bo.Op != token.NEQ) {
			return false
		}
		var side ssa.Value
		switch {
		case isNilConst(bo.Y):
			side = bo.X
		case isNilConst(bo.X):
			side = bo.Y
		default:
			return false
		}
		if !m(side) {
			return false
		}
		holdsNil := b == (bo.Op == token.EQL)
		return holdsNil == isNil
	}
}

// factEqString: edge establishes v == s (eq) or v != s (!eq), v recognised by m.
func factEqString(m VPred, s string, eq bool) EdgePred {
	return func(cond ssa.Value, branch bool) bool {
		c, b := stripNot(cond, branch)
		bo, ok := c.(*ssa.BinOp)
		if !ok {
			return false
		}
		if s == "" {
			// the idioms len(x) == 0, len(x) != 0, len(x) > 0, len(x) < 1 ... say the same about x as x == ""
			isLenOfM := func(v ssa.Value) bool {
				call := asCall(v)
				return call != nil && calleeName(&call.Call) == "builtin len" && len(call.Call.Args) == 1 && m(call.Call.Args[0])
			}
			if isLenOfM(bo.X) || isLenOfM(bo.Y) {
				if factLenPositive(m, !eq)(cond, branch) {
					return true
				}
				return false
			}
		}
		if bo.Op != token.EQL && bo.Op != token.NEQ {
			return false
		}
		var side ssa.Value
		if k, ok := constString(envValue(bo.Y)); ok && k == s {
			side = bo.X
		} else if k, ok := constString(envValue(bo.X)); ok && k == s {
			side = bo.Y
		} else {
			return false
		}
		if !m(side) {
			return false
		}
		holds := b == (bo.Op == token.EQL)
		return holds == eq
	}
}

// envValue replaces a parameter of a looked-through helper by the argument bound to it in the current calling context
// (so that `x == wanted` inside containsX(list, "https") is matched as `x == "https"`).
func envValue(v ssa.Value) ssa.Value {
	for i := 0; i < 4; i++ {
		prm, ok := v.(*ssa.Parameter)
		if !ok {
			return v
		}
		if b, bound := paramEnv[prm]; bound {
			v = b
			continue
		}
		if b, bound := stripEnv[prm]; bound {
			v = b
			continue
		}
		if k := uniformConstArg(prm); k != nil {
			return k
		}
		return v
	}
	return v
}

// uniformConstArg: prm is a parameter of an unexported library function all of whose call sites (it has some, all in
// the library) pass one and the same constant for it — `selectScheme(list, schemeHTTPS)` everywhere: inside the
// function the parameter IS that constant.
func uniformConstArg(prm *ssa.Parameter) *ssa.Const {
	f := prm.Parent()
	if f == nil || curProg == nil || curProg.ti == nil || f.Object() == nil || f.Object().Exported() {
		return nil
	}
	pos := -1
	for i, pp := range f.Params {
		if pp == prm {
			pos = i
		}
	}
	sites := curProg.ti.callers[f]
	if pos < 0 || len(sites) == 0 {
		return nil
	}
	var k *ssa.Const
	for _, cs := range sites {
		a := cs.Common().Args
		if pos >= len(a) {
			return nil
		}
		c, ok := a[pos].(*ssa.Const)
		if !ok || c.Value == nil {
			return nil
		}
		if k != nil && !constant.Compare(k.Value, token.EQL, c.Value) {
			return nil
		}
		k = c
	}
	// the function value must not escape (be called through a variable with other arguments)
	if refs := f.Referrers(); refs != nil {
		for _, r := range *refs {
			if ci, isCall := r.(ssa.CallInstruction); !isCall || ci.Common().Value != ssa.Value(f) {
				return nil
			}
		}
	}
	return k
}

// factEqInt: edge establishes v == k (eq) / v != k.
func factEqInt(m VPred, k int64, eq bool) EdgePred {
	return func(cond ssa.Value, branch bool) bool {
		c, b := stripNot(cond, branch)
		bo, ok := c.(*ssa.BinOp)
		if !ok || (bo.Op != token.EQL && bo.Op != token.NEQ) {
			return false
		}
		var side ssa.Value
		if x, ok := constInt(envValue(bo.Y)); ok && x == k {
			side = bo.X
		} else if x, ok := constInt(envValue(bo.X)); ok && x == k {
			side = bo.Y
		} else {
			return false
		}
		if !m(side) {
			return false
		}
		holds := b == (bo.Op == token.EQL)
		return holds == eq
	}
}

// factNotPositive: edge establishes v <= 0 (v == 0, !(v > 0), v < 1 … in either operand order).
func factNotPositive(m VPred) EdgePred {
	return func(cond ssa.Value, branch bool) bool {
		c, b := stripNot(cond, branch)
		bo, ok := c.(*ssa.BinOp)
		if !ok {
			return false
		}
		op, x, y := bo.Op, bo.X, bo.Y
		if _, isK := constInt(envValue(x)); isK {
			// k OP v  ==  v OP' k
			x, y = y, x
			switch op {
			case token.LSS:
				op = token.GTR
			case token.GTR:
				op = token.LSS
			case token.LEQ:
				op = token.GEQ
			case token.GEQ:
				op = token.LEQ
			}
		}
		k, isK := constInt(envValue(y))
		if !isK || !m(x) {
			return false
		}
		if !b {
			switch op {
			case token.EQL:
				op = token.NEQ
			case token.NEQ:
				op = token.EQL
			case token.LSS:
				op = token.GEQ
			case token.GEQ:
				op = token.LSS
			case token.GTR:
				op = token.LEQ
			case token.LEQ:
				op = token.GTR
			default:
				return false
			}
		}
		switch op {
		case token.EQL, token.LEQ:
			return k <= 0
		case token.LSS:
			return k <= 1
		}
		return false
	}
}

// factNegative: edge establishes v < 0 (v < 0, !(v >= 0), v <= -1 … in either operand order).
func factNegative(m VPred) EdgePred {
	return func(cond ssa.Value, branch bool) bool {
		c, b := stripNot(cond, branch)
		bo, ok := c.(*ssa.BinOp)
		if !ok {
			return false
		}
		op, x, y := bo.Op, bo.X, bo.Y
		if _, isK := constInt(envValue(x)); isK {
			// k OP v  ==  v OP' k
			x, y = y, x
			switch op {
			case token.LSS:
				op = token.GTR
			case token.GTR:
				op = token.LSS
			case token.LEQ:
				op = token.GEQ
			case token.GEQ:
				op = token.LEQ
			}
		}
		k, isK := constInt(envValue(y))
		if !isK || !m(x) {
			return false
		}
		if !b {
			switch op {
			case token.EQL:
				op = token.NEQ
			case token.NEQ:
				op = token.EQL
			case token.LSS:
				op = token.GEQ
			case token.GEQ:
				op = token.LSS
			case token.GTR:
				op = token.LEQ
			case token.LEQ:
				op = token.GTR
			default:
				return false
			}
		}
		switch op {
		case token.EQL, token.LEQ:
			return k < 0
		case token.LSS:
			return k <= 0
		}
		return false
	}
}

// factLenPositive: edge establishes len(x) > 0 (pos) or len(x) == 0 (!pos) where x is recognised by m.
func factLenPositive(m VPred, pos bool) EdgePred {
	isLen := func(v ssa.Value) bool {
		c := asCall(v)
		if c == nil || calleeName(&c.Call) != "builtin len" || len(c.Call.Args) != 1 {
			return false
		}
		return m(c.Call.Args[0])
	}
	return func(cond ssa.Value, branch bool) bool {
		c, b := stripNot(cond, branch)
		bo, ok := c.(*ssa.BinOp)
		if !ok {
			return false
		}
		x, y, op := bo.X, bo.Y, bo.Op
		// normalise to len OP const
		if isLen(y) {
			x, y = y, x
			switch op {
			case token.LSS:
				op = token.GTR
			case token.GTR:
				op = token.LSS
			case token.LEQ:
				op = token.GEQ
			case token.GEQ:
				op = token.LEQ
			}
		}
		if !isLen(x) {
			return false
		}
		k, ok := constInt(y)
		if !ok {
			return false
		}
		// value of "len > 0" implied when the comparison is true / false
		var whenTrue, whenFalse *bool
		t, f := true, false
		switch {
		case op == token.GTR && k == 0, op == token.GEQ && k == 1, op == token.NEQ && k == 0:
			whenTrue, whenFalse = &t, &f
		case op == token.EQL && k == 0, op == token.LSS && k == 1, op == token.LEQ && k == 0:
			whenTrue, whenFalse = &f, &t
		case op == token.GTR && k > 0, op == token.GEQ && k > 1, op == token.EQL && k > 0:
			whenTrue = &t
		default:
			return false
		}
		var got *bool
		if b {
			got = whenTrue
		} else {
			got = whenFalse
		}
		return got != nil && *got == pos
	}
}

func anyFact(ps ...EdgePred) EdgePred {
	return func(cond ssa.Value, branch bool) bool {
		for _, p := range ps {
			if p(cond, branch) {
				return true
			}
		}
		return false
	}
}

// ---------- must-pass-through ----------

// blockIndexOf returns the index of instr within its block.
func instrIndex(in ssa.Instruction) int {
	for i, x := range in.Block().Instrs {
		if x == in {
			return i
		}
	}
	return -1
}

// pathExists decides, exactly on the CFG, whether some path leads from just after instruction `from` (from the
// function entry when from is nil) to instruction `to` that takes no If edge accepted by cutEdge and executes no
// instruction accepted by cutInstr. Either cut may be nil.
func pathExists(fn *ssa.Function, from, to ssa.Instruction, cutEdge EdgePred, cutInstr func(ssa.Instruction) bool) bool {
	if len(fn.Blocks) == 0 {
		return false
	}
	if curProg != nil && curProg.ti != nil {
		// helpers unknown to the rules are looked through; a query rooted in a helper is asked from every real root
		any := false
		for _, root := range rootsOf(fn) {
			if viPathExists(root, from, to, cutEdge, cutInstr) {
				any = true
			}
		}
		return any
	}
	type bp struct{ b, pred *ssa.BasicBlock }
	seen := map[bp]bool{}
	var work []bp
	// scan runs through a block from index i; returns true when `to` is met; pushes successors when the end is reached
	scan := func(b, pred *ssa.BasicBlock, i int) bool {
		for ; i < len(b.Instrs); i++ {
			in := b.Instrs[i]
			if in == to {
				return true
			}
			if cutInstr != nil && cutInstr(in) {
				return false
			}
		}
		var succs []*ssa.BasicBlock
		if iff, ok := b.Instrs[len(b.Instrs)-1].(*ssa.If); ok {
			cond := condOnEdge(iff, pred)
			for i, br := range []bool{true, false} {
				if k, isK := constBool(cond); isK && k != br {
					continue // the condition is a boolean phi whose value on this incoming edge is a constant
				}
				if applyCut(cutEdge, cond, br) {
					continue
				}
				succs = append(succs, b.Succs[i])
			}
		} else {
			succs = b.Succs
		}
		for _, s := range succs {
			k := bp{s, nil}
			if condIsOwnPhi(s) {
				k.pred = b
			}
			if !seen[k] {
				seen[k] = true
				work = append(work, bp{s, b})
			}
		}
		return false
	}
	if from == nil {
		seen[bp{fn.Blocks[0], nil}] = true
		if scan(fn.Blocks[0], nil, 0) {
			return true
		}
	} else {
		if scan(from.Block(), nil, instrIndex(from)+1) {
			return true
		}
	}
	for len(work) > 0 {
		w := work[len(work)-1]
		work = work[:len(work)-1]
		if scan(w.b, w.pred, 0) {
			return true
		}
	}
	return false
}

// condIsOwnPhi: the block ends in an If whose condition is a phi of this very block (`x := a && b; if x {…}`).
func condIsOwnPhi(b *ssa.BasicBlock) bool {
	if len(b.Instrs) == 0 {
		return false
	}
	iff, ok := b.Instrs[len(b.Instrs)-1].(*ssa.If)
	if !ok {
		return false
	}
	c := iff.Cond
	for i := 0; i < 4; i++ {
		if u, ok := c.(*ssa.UnOp); ok && u.Op == token.NOT {
			c = u.X
			continue
		}
		break
	}
	phi, ok := c.(*ssa.Phi)
	return ok && phi.Block() == b
}

// condOnEdge returns the condition of iff as seen when its block was entered from pred: a boolean phi of the same
// block is replaced by its operand for that edge (a constant, or the comparison computed on that path).
func condOnEdge(iff *ssa.If, pred *ssa.BasicBlock) ssa.Value {
	if pred == nil || !condIsOwnPhi(iff.Block()) {
		return iff.Cond
	}
	c := iff.Cond
	neg := false
	for i := 0; i < 4; i++ {
		if u, ok := c.(*ssa.UnOp); ok && u.Op == token.NOT {
			c, neg = u.X, !neg
			continue
		}
		break
	}
	phi := c.(*ssa.Phi)
	for i, p := range phi.Block().Preds {
		if p == pred {
			e := phi.Edges[i]
			if !neg {
				return e
			}
			if k, isK := constBool(e); isK {
				return ssa.NewConst(constant.MakeBool(!k), e.Type())
			}
			return iff.Cond // negated non-constant operand: keep the phi
		}
	}
	return iff.Cond
}

// guardedBy reports whether every path from the function entry (from == nil) or from just after instruction `from`
// to the instruction target takes at least one If edge accepted by pred.
func guardedBy(target ssa.Instruction, from ssa.Instruction, pred EdgePred) bool {
	fn := target.Parent()
	if from != nil && from.Parent() != fn && !isTransparent(from.Parent()) {
		fn = from.Parent() // the query starts in the real root
	}
	return !pathExists(fn, from, target, pred, nil)
}

// guardedOn is guardedBy for a fact about the SSA value v: every path from v's definition to target crosses an
// accepted edge (so the fact concerns the very dynamic instance of v that is live at target).
func guardedOn(target ssa.Instruction, v ssa.Value, pred EdgePred) bool {
	def, ok := v.(ssa.Instruction)
	if !ok || def.Block() == nil || def.Parent() != target.Parent() {
		return guardedBy(target, nil, pred) // parameters, constants, free variables: defined at entry
	}
	return guardedBy(target, def, pred)
}

// reachableFrom reports whether block `to` can be reached from the end of block `from` (ignoring no edges).
func reachableFrom(from, to *ssa.BasicBlock) bool {
	seen := map[*ssa.BasicBlock]bool{}
	work := []*ssa.BasicBlock{from}
	for len(work) > 0 {
		b := work[len(work)-1]
		work = work[:len(work)-1]
		for _, s := range b.Succs {
			if s == to {
				return true
			}
			if !seen[s] {
				seen[s] = true
				work = append(work, s)
			}
		}
	}
	return false
}

// precedes reports whether every path from entry to instruction b passes through instruction a (a dominates b).
func dominates(a, b ssa.Instruction) bool {
	if a.Parent() != b.Parent() {
		if isTransparent(a.Parent()) || isTransparent(b.Parent()) {
			// a helper shared by several callers is entered from the caller that contains a
			n := 0
			for _, root := range rootsOf(b.Parent()) {
				if !isTransparent(a.Parent()) {
					ra := a.Parent()
					for ra.Parent() != nil {
						ra = ra.Parent()
					}
					rr := root
					for rr.Parent() != nil {
						rr = rr.Parent()
					}
					if ra != rr {
						continue
					}
				}
				n++
				if viPathExists(root, nil, b, nil, isOneOf(a)) {
					return false
				}
			}
			return n > 0
		}
		return false
	}
	if a.Block() == b.Block() {
		return instrIndex(a) < instrIndex(b)
	}
	return a.Block().Dominates(b.Block())
}

// canFollow reports whether instruction b can execute after instruction a on some path.
func canFollow(a, b ssa.Instruction) bool {
	if a.Parent() != b.Parent() {
		if isTransparent(a.Parent()) || isTransparent(b.Parent()) {
			for _, root := range rootsOf(a.Parent()) {
				if viPathExists(root, a, b, nil, nil) {
					return true
				}
			}
		}
		return false
	}
	if a.Block() == b.Block() && instrIndex(a) < instrIndex(b) {
		return true
	}
	return reachableFrom(a.Block(), b.Block())
}

// returnsOf lists the Return instructions of f.
func returnsOf(f *ssa.Function) []*ssa.Return {
	var out []*ssa.Return
	for _, b := range f.Blocks {
		if len(b.Instrs) == 0 {
			continue
		}
		if r, ok := b.Instrs[len(b.Instrs)-1].(*ssa.Return); ok {
			out = append(out, r)
		}
	}
	return out
}

// ---------- provenance ----------

// Origin is a terminal of backward value flow.
type Origin struct {
	V     ssa.Value // the terminal value: *ssa.Call, *ssa.Parameter, *ssa.Const, *ssa.Global, *ssa.Alloc, *ssa.FreeVar, field load...
	Index int       // for a tuple-returning call: the extracted result index; -1 otherwise
	// Env is the parameter binding under which the origin was reached when it lies inside a helper that is being looked
	// through: predicates that inspect the origin's operands evaluate them under this binding.
	Env map[*ssa.Parameter]ssa.Value
}

func (o Origin) same(p Origin) bool { return o.V == p.V && o.Index == p.Index }

type provCtx struct {
	depthNT int // nesting of new-type field look-throughs
	seen    map[ssa.Value]bool
	out     []Origin
	depth   int // remaining interprocedural (parameter -> call sites) budget; not used by default
}

// originsOf follows a value backwards through phis, conversions, interface boxing, type assertions, slicing,
// loads of local variables (through all their stores, including stores made by closures that capture them) and
// free variables (to their binding). Loads of struct fields, map/slice elements and globals are terminals.
func originsOf(v ssa.Value) []Origin {
	c := &provCtx{seen: map[ssa.Value]bool{}}
	c.walk(v, -1)
	return c.out
}

func (c *provCtx) emit(v ssa.Value, idx int) {
	c.out = append(c.out, Origin{V: v, Index: idx, Env: paramEnv})
}

func (c *provCtx) walk(v ssa.Value, idx int) {
	if v == nil {
		return
	}
	if idx < 0 {
		if c.seen[v] {
			return
		}
		c.seen[v] = true
	}
	switch x := v.(type) {
	case *ssa.Phi:
		for _, e := range x.Edges {
			c.walk(e, idx)
		}
	case *ssa.Extract:
		c.walk(x.Tuple, x.Index)
	case *ssa.ChangeType:
		c.walk(x.X, idx)
	case *ssa.ChangeInterface:
		c.walk(x.X, idx)
	case *ssa.MakeInterface:
		c.walk(x.X, idx)
	case *ssa.Convert:
		c.walk(x.X, idx)
	case *ssa.SliceToArrayPointer:
		c.walk(x.X, idx)
	case *ssa.TypeAssert:
		if x.CommaOk {
			if idx == 0 {
				c.walk(x.X, -1)
			} else {
				c.emit(v, idx)
			}
		} else {
			c.walk(x.X, idx)
		}
	case *ssa.Slice:
		c.walk(x.X, idx)
	case *ssa.UnOp:
		if x.Op == token.MUL {
			switch a := x.X.(type) {
			case *ssa.Alloc:
				sts := reachingStores(storesToCell(a), x)
				if len(sts) == 0 {
					c.emit(v, idx) // zero value of the variable
				}
				for _, s := range sts {
					c.walk(s.Val, idx)
				}
				return
			case *ssa.UnOp:
				// *(b.ptr) where b.ptr always points at one local cell
				if cell := cellOf(a); cell != nil {
					sts := storesToCell(cell)
					if len(sts) == 0 {
						c.emit(v, idx)
					}
					for _, s := range sts {
						c.walk(s.Val, idx)
					}
					return
				}
			case *ssa.FieldAddr:
				// field of a struct type unknown to the baseline (it replaced the captured variables of a function
				// literal): whatever was stored into that field anywhere
				regrouped := false
				if inner, isIn := a.X.(*ssa.FieldAddr); isIn {
					if nOut, _ := structOf(inner.X.Type()); nOut != nil {
						if _, st0 := structOf(a.X.Type()); st0 != nil && a.Field < st0.NumFields() {
							_, regrouped = regroupedField(a, typeFullName(nOut), st0.Field(a.Field).Name())
						}
					}
				}
				if n, st := structOf(a.X.Type()); !regrouped && n != nil && st != nil && isNewType(n) && c.depthNT < 3 {
					vals := curProg.newTypeFieldStores(typeFullName(n), st.Field(a.Field).Name())
					if len(vals) > 0 {
						c.depthNT++
						for _, ev := range vals {
							c.walk(ev, idx)
						}
						c.depthNT--
						return
					}
				}
			case *ssa.IndexAddr:
				// element of a local array that is only ever filled element-wise (a candidate list literal):
				// the value may be any of the stored elements
				if al, isAl := a.X.(*ssa.Alloc); isAl {
					if vals, ok := localArrayElems(al); ok {
						for _, ev := range vals {
							c.walk(ev, idx)
						}
						return
					}
				}
				// element of a slice literal (an ordered candidate table)
				if elems, ok := sliceLitElems(a.X); ok && len(elems) > 0 {
					for _, ev := range elems {
						c.walk(ev, idx)
					}
					return
				}
			case *ssa.FreeVar:
				if cell := freeVarCell(a); cell != nil {
					sts := storesToCell(cell)
					if len(sts) == 0 {
						c.emit(v, idx)
					}
					for _, s := range sts {
						c.walk(s.Val, idx)
					}
					return
				}
			}
		}
		c.emit(v, idx)
	case *ssa.Index:
		// element of a local array VALUE (range over an array literal copies it first)
		if ld, ok := x.X.(*ssa.UnOp); ok && ld.Op == token.MUL {
			if al, isAl := ld.X.(*ssa.Alloc); isAl {
				if vals, okA := localArrayElems(al); okA {
					for _, ev := range vals {
						c.walk(ev, idx)
					}
					return
				}
			}
		}
		c.emit(v, idx)
	case *ssa.FreeVar:
		// a captured value (not a cell): follow to the binding
		if b := freeVarBinding(x); b != nil {
			c.walk(b, idx)
			return
		}
		c.emit(v, idx)
	case *ssa.Parameter:
		if b, ok := paramEnv[x]; ok {
			c.walk(b, idx)
			return
		}
		if b, ok := stripEnv[x]; ok {
			c.walk(b, idx)
			return
		}
		if isTransparent(x.Parent()) {
			// context-insensitive fallback: the union over every call site of the helper
			pos := -1
			for i, pp := range x.Parent().Params {
				if pp == x {
					pos = i
				}
			}
			sites := curProg.ti.callers[x.Parent()]
			if pos >= 0 && len(sites) > 0 {
				for _, cs := range sites {
					if pos < len(cs.Common().Args) {
						c.walk(cs.Common().Args[pos], idx)
					}
				}
				return
			}
		}
		if sites := localClosureCalls(x.Parent()); len(sites) > 0 {
			// a function literal bound to a local and only ever called by name (`choose := func(candidate string…)`):
			// the parameter stands for the arguments of those calls
			pos := -1
			for i, pp := range x.Parent().Params {
				if pp == x {
					pos = i
				}
			}
			if pos >= 0 {
				for _, cs := range sites {
					if pos < len(cs.Call.Args) {
						c.walk(cs.Call.Args[pos], idx)
					}
				}
				return
			}
		}
		c.emit(v, idx)
	case *ssa.Call:
		if callee := transparentCallee(x); callee != nil && c.depth < 4 {
			// look through the helper: its returned values with its parameters bound to this call's arguments
			saved := paramEnv
			env := map[*ssa.Parameter]ssa.Value{}
			for k, vv := range saved {
				env[k] = vv
			}
			for i, prm := range callee.Params {
				if i < len(x.Call.Args) {
					env[prm] = x.Call.Args[i]
				}
			}
			paramEnv = env
			c.depth++
			ri := idx
			if ri < 0 {
				ri = 0
			}
			n := 0
			rets := returnsOf(callee)
			if only, ok := resultEnv[x]; ok && only != nil {
				rets = []*ssa.Return{only} // on the path being explored the helper came back through this return
			}
			for _, r := range rets {
				if isRecoverReturn(r) {
					continue
				}
				if siblingExcludes(x, ri, r) {
					continue // (value, ok) helper: this return answers ok == false, and the value is only used behind ok == true
				}
				if rv := resOf(r, ri); rv != nil {
					// results are fresh values of another function: do not let the seen-set of this walk hide them
					c.walk(rv, -1)
					n++
				}
			}
			c.depth--
			paramEnv = saved
			if n > 0 {
				return
			}
		}
		c.emit(v, idx)
	default:
		c.emit(v, idx)
	}
}

// localClosureCalls: when fn is a function literal whose closure value is used for nothing but direct calls in the
// enclosing function, the list of those calls (nil otherwise: a literal stored, passed on or deferred has unknown callers).
func localClosureCalls(fn *ssa.Function) []*ssa.Call {
	if fn == nil || fn.Parent() == nil {
		return nil
	}
	var out []*ssa.Call
	for _, b := range fn.Parent().Blocks {
		for _, in := range b.Instrs {
			mc, ok := in.(*ssa.MakeClosure)
			var fv ssa.Value
			if ok {
				if mc.Fn != ssa.Value(fn) {
					continue
				}
				fv = mc
			} else {
				continue
			}
			refs := fv.Referrers()
			if refs == nil {
				return nil
			}
			for _, r := range *refs {
				switch u := r.(type) {
				case *ssa.DebugRef:
				case *ssa.Call:
					if u.Call.Value != fv {
						return nil // handed to another function
					}
					out = append(out, u)
				default:
					return nil
				}
			}
		}
	}
	return out
}

// paramEnv binds the parameters of a callee to the caller's arguments while a wrapper call is being expanded
// (interprocedural provenance, depth bound 2). The analysis is single-threaded.
var paramEnv = map[*ssa.Parameter]ssa.Value{}

// stripEnv binds the parameters of a boolean helper to the arguments of the call whose result is being matched as a
// condition (set by stripNot, valid until the next condition is matched).
var stripEnv map[*ssa.Parameter]ssa.Value
var expandDepth = 0

// expandCall: when an origin is the result of a call to a small repository function (a wrapper/helper), its origins
// are those of the callee's returned values with the callee's parameters bound to the call's arguments.
func expandCall(o Origin) ([]Origin, func(), bool) {
	call := asCall(o.V)
	if call == nil || expandDepth >= 2 {
		return nil, nil, false
	}
	callee := call.Call.StaticCallee()
	if callee == nil || callee.Blocks == nil || !isRepoPath(fnPkgPath(callee)) || len(callee.Blocks) > 12 {
		return nil, nil, false
	}
	if len(call.Call.Args) != len(callee.Params) {
		return nil, nil, false
	}
	saved := paramEnv
	env := map[*ssa.Parameter]ssa.Value{}
	for k, v := range saved {
		env[k] = v
	}
	for i, p := range callee.Params {
		env[p] = call.Call.Args[i]
	}
	paramEnv = env
	expandDepth++
	restore := func() { paramEnv = saved; expandDepth-- }
	idx := o.Index
	if idx < 0 {
		idx = 0
	}
	var out []Origin
	for _, r := range returnsOf(callee) {
		if isRecoverReturn(r) {
			continue
		}
		v := resOf(r, idx)
		if v == nil {
			restore()
			return nil, nil, false
		}
		out = append(out, originsOf(v)...)
	}
	if len(out) == 0 {
		restore()
		return nil, nil, false
	}
	return out, restore, true
}

// freeVarBinding returns the value bound to a free variable at the (unique) MakeClosure of its function.
func freeVarBinding(fv *ssa.FreeVar) ssa.Value {
	fn := fv.Parent()
	parent := fn.Parent()
	if parent == nil {
		return nil
	}
	pos := -1
	for i, f := range fn.FreeVars {
		if f == fv {
			pos = i
		}
	}
	if pos < 0 {
		return nil
	}
	var found ssa.Value
	n := 0
	for _, in := range instrs(parent) {
		if mc, ok := in.(*ssa.MakeClosure); ok && mc.Fn == fn && pos < len(mc.Bindings) {
			found = mc.Bindings[pos]
			n++
		}
	}
	if n != 1 {
		return nil
	}
	return found
}

// freeVarCell resolves a free variable holding the address of a captured local to the *ssa.Alloc of that local.
func freeVarCell(fv *ssa.FreeVar) *ssa.Alloc {
	var v ssa.Value = fv
	for i := 0; i < 8; i++ {
		switch x := v.(type) {
		case *ssa.Alloc:
			return x
		case *ssa.FreeVar:
			v = freeVarBinding(x)
			if v == nil {
				return nil
			}
		default:
			return nil
		}
	}
	return nil
}

// storesToCell lists every Store to a local variable cell, in its function and in all closures (transitively)
// that capture the cell.
func storesToCell(a *ssa.Alloc) []*ssa.Store {
	var out []*ssa.Store
	root := a.Parent()
	fns := withClosures(root)
	if curProg != nil && len(fieldInventory) > 0 {
		for _, m := range curProg.newTypeMethods() {
			fns = append(fns, withClosures(m)...)
		}
	}
	for _, f := range fns {
		for _, in := range instrs(f) {
			st, ok := in.(*ssa.Store)
			if !ok {
				continue
			}
			switch ad := st.Addr.(type) {
			case *ssa.Alloc:
				if ad == a {
					out = append(out, st)
				}
			case *ssa.FreeVar:
				if freeVarCell(ad) == a {
					out = append(out, st)
				}
			case *ssa.UnOp:
				if cellOf(ad) == a {
					out = append(out, st)
				}
			}
		}
	}
	return out
}

// ---------- origin predicates ----------

// OPred recognises an origin.
type OPred func(Origin) bool

// allOrigins: v has at least one origin and every origin satisfies one of preds.
func allOrigins(v ssa.Value, preds ...OPred) (bool, *Origin) {
	os := originsOf(v)
	if len(os) == 0 {
		return false, nil
	}
	savedEnv := paramEnv
	defer func() { paramEnv = savedEnv }()
	for i := range os {
		ok := false
		if os[i].Env != nil {
			paramEnv = os[i].Env
		} else {
			paramEnv = savedEnv
		}
		for _, p := range preds {
			if p(os[i]) {
				ok = true
				break
			}
		}
		paramEnv = savedEnv
		if !ok {
			// a wrapper/helper of the repository: look through it
			if sub, restore, can := expandCall(os[i]); can {
				all := true
				for j := range sub {
					okj := false
					for _, p := range preds {
						if p(sub[j]) {
							okj = true
							break
						}
					}
					if !okj {
						all = false
						break
					}
				}
				restore()
				if all {
					continue
				}
			}
			return false, &os[i]
		}
	}
	return true, nil
}

// someOrigin: some origin satisfies p.
func someOrigin(v ssa.Value, p OPred) bool {
	savedEnv := paramEnv
	defer func() { paramEnv = savedEnv }()
	for _, o := range originsOf(v) {
		if o.Env != nil {
			paramEnv = o.Env
		}
		if p(o) {
			return true
		}
		paramEnv = savedEnv
	}
	return false
}

// oCall: origin is result idx (-1: single result / any) of a call to one of names.
func oCall(idx int, names ...string) OPred {
	return func(o Origin) bool {
		if !isCallTo(o.V, names...) {
			return false
		}
		return idx < 0 || o.Index == idx || (o.Index < 0 && idx == 0)
	}
}

// oCallT: origin is the result of a call to one of names whose TYPE is typ (robust against a reordered result tuple).
func oCallT(typ string, names ...string) OPred {
	return func(o Origin) bool {
		call := asCall(o.V)
		if call == nil || !isCallTo(o.V, names...) {
			return false
		}
		res := call.Call.Signature().Results()
		if o.Index < 0 {
			return res.Len() == 1 && typeStr(res.At(0).Type()) == typ
		}
		return o.Index < res.Len() && typeStr(res.At(o.Index).Type()) == typ
	}
}

// baseName strips package/receiver qualification from a resolved callee name: "(*p.T).m" and "p.m" both give "m".
func baseName(full string) string {
	if i := strings.LastIndex(full, "."); i >= 0 {
		return full[i+1:]
	}
	return full
}

// oCallBase: origin is a call to a repository function with one of the given base names, whatever its receiver
// (robust against a method becoming a function or moving to another receiver).
func oCallBase(idx int, names ...string) OPred {
	return func(o Origin) bool {
		c := asCall(o.V)
		if c == nil {
			return false
		}
		n := calleeName(&c.Call)
		if !strings.Contains(n, "rt/") && !strings.HasPrefix(n, "rt.") && !strings.HasPrefix(n, "(rt.") && !strings.HasPrefix(n, "(*rt.") {
			return false
		}
		b := baseName(n)
		for _, w := range names {
			if b == w {
				return idx < 0 || o.Index == idx || (o.Index < 0 && idx == 0)
			}
		}
		return false
	}
}

// oCallWhere: like oCall plus a predicate on the call.
func oCallWhere(idx int, name string, where func(*ssa.Call) bool) OPred {
	return func(o Origin) bool {
		if !oCall(idx, name)(o) {
			return false
		}
		return where(asCall(o.V))
	}
}

func oNil() OPred { return func(o Origin) bool { return isNilConst(o.V) } }

func oConstString(ss ...string) OPred {
	return func(o Origin) bool {
		s, ok := constString(o.V)
		if !ok {
			return false
		}
		if len(ss) == 0 {
			return true
		}
		for _, w := range ss {
			if s == w {
				return true
			}
		}
		return false
	}
}

func oConst() OPred {
	return func(o Origin) bool { _, ok := o.V.(*ssa.Const); return ok }
}

func oParam(fn *ssa.Function, i int) OPred {
	return func(o Origin) bool {
		p, ok := o.V.(*ssa.Parameter)
		return ok && p.Parent() == fn && i < len(fn.Params) && fn.Params[i] == p
	}
}

// oParamNamed matches a parameter by position among the declared (non-receiver) parameters.
func paramOf(fn *ssa.Function, i int) *ssa.Parameter {
	off := 0
	if fn.Signature.Recv() != nil {
		off = 1
		if curProg != nil && curProg.ti != nil && curProg.ti.recvIsParam[fn] {
			off = 0
		}
	}
	if i+off >= len(fn.Params) {
		fatalf("function %s has no parameter #%d", fn, i)
	}
	return fn.Params[i+off]
}

// oIsValue: the origin is the value v itself (for an Extract: that result of that call).
func oIsValue(v ssa.Value) OPred {
	if ex, ok := v.(*ssa.Extract); ok {
		return func(o Origin) bool { return o.V == ex.Tuple && o.Index == ex.Index }
	}
	return func(o Origin) bool { return o.V == v }
}

// oFieldLoad: origin is a load of field `field` of struct type named (pkg.typ) - either *(&x.f) or x.f.
func oFieldLoad(typeName, field string, base VPred) OPred {
	return func(o Origin) bool {
		b, ok := fieldLoad(o.V, typeName, field)
		if !ok {
			return false
		}
		return base == nil || base(b)
	}
}

// fieldLoad recognises a read of struct field typeName.field and returns the base (pointer or struct value).
func fieldLoad(v ssa.Value, typeName, field string) (ssa.Value, bool) {
	switch x := v.(type) {
	case *ssa.UnOp:
		if x.Op != token.MUL {
			return nil, false
		}
		fa, ok := x.X.(*ssa.FieldAddr)
		if !ok {
			return nil, false
		}
		if fieldIs(fa.X.Type(), fa.Field, typeName, field) {
			return fa.X, true
		}
		if outer, ok := regroupedField(fa, typeName, field); ok {
			return outer, true
		}
	case *ssa.Field:
		if fieldIs(x.X.Type(), x.Field, typeName, field) {
			return x.X, true
		}
	}
	return nil, false
}

// structOf returns the named struct type behind t (through one pointer) and its struct.
func structOf(t types.Type) (*types.Named, *types.Struct) {
	if p, ok := t.Underlying().(*types.Pointer); ok {
		t = p.Elem()
	}
	n, _ := t.(*types.Named)
	if n == nil {
		if a, ok := t.(*types.Alias); ok {
			n, _ = types.Unalias(a).(*types.Named)
		}
	}
	st, _ := t.Underlying().(*types.Struct)
	return n, st
}

func typeFullName(n *types.Named) string {
	if n == nil || n.Obj() == nil {
		return ""
	}
	if n.Obj().Pkg() == nil {
		return n.Obj().Name()
	}
	return short(n.Obj().Pkg().Path() + "." + n.Obj().Name())
}

// fieldIs reports whether field #idx of the struct behind t is typeName.field.
// A promoted field of an embedded struct is matched on the embedded type's own name.
func fieldIs(t types.Type, idx int, typeName, field string) bool {
	n, st := structOf(t)
	if st == nil || idx >= st.NumFields() {
		return false
	}
	if fieldNameOf(n, st, idx) != field {
		return false
	}
	return typeName == "" || typeFullName(n) == typeName
}

// fieldAddrOf recognises &x.f for typeName.field.
func fieldAddrOf(v ssa.Value, typeName, field string) (*ssa.FieldAddr, bool) {
	fa, ok := v.(*ssa.FieldAddr)
	if !ok {
		return nil, false
	}
	if fieldIs(fa.X.Type(), fa.Field, typeName, field) {
		return fa, true
	}
	_, ok = regroupedField(fa, typeName, field)
	return fa, ok
}

// regroupedField: the baseline field typeName.field now lives in a struct type unknown to the baseline that typeName
// embeds (fields regrouped into an embedded struct, reached through promotion): fa is &(&x.<embedded>).field. It
// returns x.
func regroupedField(fa *ssa.FieldAddr, typeName, field string) (ssa.Value, bool) {
	if typeName == "" || len(fieldInventory) == 0 {
		return nil, false
	}
	if _, was := fieldInventory[typeName+"."+field]; !was {
		return nil, false
	}
	inner, ok := fa.X.(*ssa.FieldAddr)
	if !ok {
		return nil, false
	}
	nIn, stIn := structOf(fa.X.Type())
	if nIn == nil || stIn == nil || !isNewType(nIn) || fa.Field >= stIn.NumFields() || stIn.Field(fa.Field).Name() != field {
		return nil, false
	}
	nOut, stOut := structOf(inner.X.Type())
	if nOut == nil || stOut == nil || typeFullName(nOut) != typeName || inner.Field >= stOut.NumFields() || !stOut.Field(inner.Field).Embedded() {
		return nil, false
	}
	// the field must be gone from the outer struct itself
	for i := 0; i < stOut.NumFields(); i++ {
		if stOut.Field(i).Name() == field {
			return nil, false
		}
	}
	return inner.X, true
}

// vOrigins lifts origin predicates to a value predicate: all origins of the value satisfy one of preds.
func vOrigins(preds ...OPred) VPred {
	return func(v ssa.Value) bool {
		ok, _ := allOrigins(v, preds...)
		return ok
	}
}

func vIs(w ssa.Value) VPred {
	return func(v ssa.Value) bool {
		if v == w {
			return true
		}
		// a parameter captured by a function literal lives in a cell: every use is a load of that cell
		if prm, isP := w.(*ssa.Parameter); isP {
			if ad, isLd := derefLoad(v); isLd {
				if al, isAl := ad.(*ssa.Alloc); isAl && al.Parent() == prm.Parent() {
					sts := storesToCell(al)
					return len(sts) == 1 && sts[0].Val == w && sts[0].Parent() == prm.Parent()
				}
			}
		}
		return false
	}
}

// vSame: the value is w, or both have exactly the same single origin.
func vSame(w ssa.Value) VPred {
	return func(v ssa.Value) bool {
		if v == w {
			return true
		}
		a, b := originsOf(v), originsOf(w)
		if len(a) != 1 || len(b) != 1 {
			return false
		}
		return a[0].same(b[0])
	}
}

// describe renders a value for diagnostics.
func describe(v ssa.Value) string {
	if v == nil {
		return "<nil>"
	}
	switch x := v.(type) {
	case *ssa.Call:
		return "call " + calleeName(&x.Call)
	case *ssa.Const:
		return "const " + x.String()
	case *ssa.Parameter:
		return "parameter " + x.Name()
	case *ssa.Global:
		return "global " + short(x.String())
	}
	s := v.String()
	if len(s) > 80 {
		s = s[:80]
	}
	return short(s)
}

func describeOrigin(o *Origin) string {
	lastBadOrigin = o // the offending origin the obligation being built is about (see definiteOrigin)

	if o == nil {
		return "<no origin>"
	}
	if o.Index >= 0 {
		return describe(o.V) + " result#" + string(rune('0'+o.Index))
	}
	return describe(o.V)
}

func isBoolResult(f *ssa.Function) bool {
	if f.Signature.Results().Len() != 1 {
		return false
	}
	b, ok := f.Signature.Results().At(0).Type().Underlying().(*types.Basic)
	return ok && b.Kind() == types.Bool
}

// lookThroughBaselinePredicates is set while a guard is given its second chance (applyCut): the condition `if v.ok()`
// is then matched as the expression the baseline predicate ok returns.
var lookThroughBaselinePredicates bool

// applyCut evaluates an edge fact on a condition: first on the condition as written, then — when the condition is the
// call of a library predicate — on the expression that predicate returns.
func applyCut(cut EdgePred, cond ssa.Value, br bool) bool {
	if cut == nil {
		return false
	}
	// (the parameter bindings a predicate sets up while it looks through a boolean helper end with the predicate)
	defer func() { stripEnv = nil }()
	if cut(cond, br) {
		return true
	}
	if lookThroughBaselinePredicates {
		return false
	}
	lookThroughBaselinePredicates = true
	defer func() { lookThroughBaselinePredicates = false }()
	return cut(cond, br)
}

// localArrayElems returns the values stored into the elements of a local array variable, provided the array is only
// accessed through element addresses and whole-array loads (it does not escape).
func localArrayElems(al *ssa.Alloc) ([]ssa.Value, bool) {
	if _, isArr := al.Type().Underlying().(*types.Pointer).Elem().Underlying().(*types.Array); !isArr {
		return nil, false
	}
	var vals []ssa.Value
	for _, ref := range *al.Referrers() {
		switch r := ref.(type) {
		case *ssa.IndexAddr:
			for _, rr := range *r.Referrers() {
				switch u := rr.(type) {
				case *ssa.Store:
					if u.Addr == ssa.Value(r) {
						vals = append(vals, u.Val)
					} else {
						return nil, false
					}
				case *ssa.UnOp:
					// load of an element
				default:
					return nil, false
				}
			}
		case *ssa.UnOp:
			// whole-array load (range over the array)
		case *ssa.DebugRef:
		default:
			return nil, false
		}
	}
	return vals, len(vals) > 0
}

// paramOfType returns the (last) parameter of fn whose type is typ — for anchors whose parameter order may change.
func paramOfType(fn *ssa.Function, typ string) *ssa.Parameter {
	var out *ssa.Parameter
	for _, prm := range fn.Params {
		if typeStr(prm.Type()) == typ {
			out = prm
		}
	}
	if out == nil {
		fatalf("function %s has no parameter of type %s", fn, typ)
	}
	return out
}

// cellOf resolves an address to the local variable cell it denotes: the Alloc itself, a free variable bound to it, or
// a pointer held in a field of a struct type unknown to the baseline (the captured variables of a function literal
// that was turned into a method) when every value stored into that field is the address of one and the same cell.
func cellOf(addr ssa.Value) *ssa.Alloc {
	switch a := addr.(type) {
	case *ssa.Alloc:
		return a
	case *ssa.FreeVar:
		return freeVarCell(a)
	case *ssa.UnOp:
		if a.Op != token.MUL {
			return nil
		}
		fa, ok := a.X.(*ssa.FieldAddr)
		if !ok {
			return nil
		}
		n, st := structOf(fa.X.Type())
		if n == nil || st == nil || !isNewType(n) {
			return nil
		}
		var cell *ssa.Alloc
		for _, v := range curProg.newTypeFieldStores(typeFullName(n), st.Field(fa.Field).Name()) {
			al, isAl := v.(*ssa.Alloc)
			if !isAl || (cell != nil && cell != al) {
				return nil
			}
			cell = al
		}
		return cell
	}
	return nil
}

// newTypeMethods lists the methods of struct types unknown to the baseline.
func (p *Prog) newTypeMethods() []*ssa.Function {
	var out []*ssa.Function
	for _, f := range p.LibFuncs() {
		if f.Signature.Recv() == nil || f.Parent() != nil {
			continue
		}
		if n, _ := structOf(f.Signature.Recv().Type()); n != nil && isNewType(n) {
			out = append(out, f)
		}
	}
	return out
}

// siblingExcludes: call is a call of a looked-through helper returning several results, ret one of the helper's
// returns. It reports whether the value ret yields for result idx can never reach a use: ret answers a constant
// boolean b for a sibling result, while every use of the call's result idx in the caller lies behind a test of that
// sibling result being !b (the `v, ok := helper(); if ok { use(v) }` idiom).
// siblingDepth guards siblingExcludes against re-entering itself through the path search it asks (a guard query
// evaluates edge predicates, which ask for origins, which ask siblingExcludes …): nested, it answers "not excluded".
var siblingDepth int

func siblingExcludes(call *ssa.Call, idx int, ret *ssa.Return) bool {
	if len(ret.Results) < 2 || call.Referrers() == nil {
		return false
	}
	if siblingDepth >= 2 {
		return false
	}
	siblingDepth++
	defer func() { siblingDepth-- }()
	var val ssa.Value
	sib := map[int]ssa.Value{}
	for _, ref := range *call.Referrers() {
		if ex, ok := ref.(*ssa.Extract); ok {
			if ex.Index == idx {
				val = ex
			} else {
				sib[ex.Index] = ex
			}
		}
	}
	if val == nil || val.Referrers() == nil {
		return false
	}
	for j, res := range ret.Results {
		if j == idx {
			continue
		}
		b, isB := constBool(res)
		sv := sib[j]
		if sv == nil {
			continue
		}
		var want EdgePred // what every use of the value must lie behind for this return to be excluded
		switch {
		case isB:
			want = factBool(vIs(sv), !b)
		case typeStr(res.Type()) == "error" && !isNilConst(res) && (definitelyNonNilError(res) || guardedOn(ret, res, factNil(vIs(res), false))):
			// `return zero, err` on the failure path, the value used only behind `err == nil`
			want = factNil(vIs(sv), true)
		default:
			continue
		}
		all, n := true, 0
		for _, ref := range *val.Referrers() {
			if _, isDbg := ref.(*ssa.DebugRef); isDbg {
				continue
			}
			n++
			if phi, isPhi := ref.(*ssa.Phi); isPhi {
				for i, e := range phi.Edges {
					if e == val && !edgeGuarded(phi.Block().Preds[i], phi.Block(), call, want) {
						all = false
					}
				}
				continue
			}
			if !guardedBy(ref, call, want) {
				all = false
			}
		}
		if all && n > 0 {
			return true
		}
	}
	return false
}

// reachingStores keeps, of the stores to a local cell, those that can be the last one executed before the load: a
// store of the load's own function is dropped when every path from it to the load passes another store of that
// function to the cell (`req = build(); ...; req = req.WithContext(ctx); use(req)`: only the second reaches the use).
// Stores made elsewhere (in function literals sharing the variable) are always kept.
func reachingStores(sts []*ssa.Store, load *ssa.UnOp) []*ssa.Store {
	if len(sts) < 2 || load.Block() == nil {
		return sts
	}
	f := load.Parent()
	var local []ssa.Instruction
	for _, s := range sts {
		if s.Parent() == f {
			local = append(local, s)
		}
	}
	if len(local) < 2 {
		return sts
	}
	key := reachKey{load, len(sts)}
	if r, ok := reachCache[key]; ok {
		return r
	}
	var out []*ssa.Store
	for _, s := range sts {
		if s.Parent() != f {
			out = append(out, s)
			continue
		}
		var others []ssa.Instruction
		for _, o := range local {
			if o != ssa.Instruction(s) {
				others = append(others, o)
			}
		}
		if plainPathExists(f, s, load, others) {
			out = append(out, s)
		}
	}
	if len(out) == 0 {
		out = sts
	}
	reachCache[key] = out
	return out
}

type reachKey struct {
	load *ssa.UnOp
	n    int
}

var reachCache = map[reachKey][]*ssa.Store{}

// plainPathExists: a CFG path inside f from just after `from` to `to` that executes none of the stop instructions.
func plainPathExists(f *ssa.Function, from, to ssa.Instruction, stop []ssa.Instruction) bool {
	isStop := map[ssa.Instruction]bool{}
	for _, s := range stop {
		isStop[s] = true
	}
	scan := func(b *ssa.BasicBlock, start int) (found, stopped bool) {
		for i := start; i < len(b.Instrs); i++ {
			if b.Instrs[i] == to {
				return true, false
			}
			if isStop[b.Instrs[i]] {
				return false, true
			}
		}
		return false, false
	}
	if found, stopped := scan(from.Block(), instrIndex(from)+1); found {
		return true
	} else if stopped {
		return false
	}
	seen := map[*ssa.BasicBlock]bool{}
	work := append([]*ssa.BasicBlock{}, from.Block().Succs...)
	for len(work) > 0 {
		b := work[len(work)-1]
		work = work[:len(work)-1]
		if seen[b] {
			continue
		}
		seen[b] = true
		found, stopped := scan(b, 0)
		if found {
			return true
		}
		if stopped {
			continue
		}
		work = append(work, b.Succs...)
	}
	return false
}
