package main

import (
	"go/token"
	"go/types"

	"golang.org/x/tools/go/ssa"
)

// fieldStores lists the stores in f whose address is &x.field for the struct type typeName.
func fieldStores(f *ssa.Function, typeName, field string) []*ssa.Store {
	var out []*ssa.Store
	for _, in := range instrs(f) {
		st, ok := in.(*ssa.Store)
		if !ok {
			continue
		}
		if _, ok := fieldAddrOf(st.Addr, typeName, field); ok {
			out = append(out, st)
		}
	}
	return out
}

// isFieldStore: in is a Store to typeName.field.
func isFieldStore(typeName, field string) func(ssa.Instruction) bool {
	return func(in ssa.Instruction) bool {
		st, ok := in.(*ssa.Store)
		if !ok {
			return false
		}
		_, ok = fieldAddrOf(st.Addr, typeName, field)
		return ok
	}
}

// vFieldLoad: value is a load of typeName.field whose base satisfies base (nil: any).
func vFieldLoad(typeName, field string, base VPred) VPred {
	return func(v ssa.Value) bool {
		b, ok := fieldLoad(v, typeName, field)
		if !ok {
			return false
		}
		return base == nil || base(b)
	}
}

// vFieldLoadO: every origin of the value is a load of typeName.field.
func vFieldLoadO(typeName, field string) VPred {
	return vOrigins(oFieldLoad(typeName, field, nil))
}

// resOf returns result #i of a return, looking through the result-cell spilling that go/ssa performs for functions
// with defers (`*r0 = v; rundefers; return *r0`): the value is the last store to the cell in the return's block.
func resOf(r *ssa.Return, i int) ssa.Value {
	if i >= len(r.Results) {
		return nil
	}
	v := r.Results[i]
	ld, ok := v.(*ssa.UnOp)
	if !ok || ld.Op != token.MUL {
		return v
	}
	al, ok := ld.X.(*ssa.Alloc)
	if !ok {
		return v
	}
	blk := r.Block()
	for j := len(blk.Instrs) - 1; j >= 0; j-- {
		if st, ok := blk.Instrs[j].(*ssa.Store); ok && st.Addr == ssa.Value(al) {
			return st.Val
		}
	}
	return v
}

// successReturns lists the returns of f whose result #errIdx is the nil constant.
func successReturns(f *ssa.Function, errIdx int) []*ssa.Return {
	var out []*ssa.Return
	for _, r := range returnsOf(f) {
		if isRecoverReturn(r) {
			continue
		}
		if errIdx < len(r.Results) && isNilConst(resOf(r, errIdx)) {
			out = append(out, r)
		}
	}
	return out
}

// isRecoverReturn: the synthetic return of the recover block of a function with defers.
func isRecoverReturn(r *ssa.Return) bool {
	return r.Parent().Recover != nil && r.Block() == r.Parent().Recover
}

// realReturns lists the returns of f except the synthetic recover-block return.
func realReturns(f *ssa.Function) []*ssa.Return {
	var out []*ssa.Return
	for _, r := range returnsOf(f) {
		if !isRecoverReturn(r) {
			out = append(out, r)
		}
	}
	return out
}

// errorResultIndex returns the index of the (last) result of error type in a signature, or -1.
func errorResultIndex(sig *types.Signature) int {
	idx := -1
	for i := 0; i < sig.Results().Len(); i++ {
		if isErrorType(sig.Results().At(i).Type()) {
			idx = i
		}
	}
	return idx
}

func isErrorType(t types.Type) bool {
	n, ok := t.(*types.Named)
	return ok && n.Obj().Pkg() == nil && n.Obj().Name() == "error"
}

// errValueOf returns the SSA value of the error result of a call (an Extract for tuples, the call itself otherwise).
func errValueOf(c *ssa.Call) ssa.Value {
	sig := c.Call.Signature()
	idx := errorResultIndex(sig)
	if idx < 0 {
		return nil
	}
	if sig.Results().Len() == 1 {
		return c
	}
	for _, r := range *c.Referrers() {
		if ex, ok := r.(*ssa.Extract); ok && ex.Index == idx {
			return ex
		}
	}
	return nil // error result dropped
}

// extractOf returns the Extract #idx of a tuple-valued call (nil if the result is not used).
func extractOf(c ssa.Value, idx int) ssa.Value {
	refs := c.Referrers()
	if refs == nil {
		return nil
	}
	for _, r := range *refs {
		if ex, ok := r.(*ssa.Extract); ok && ex.Index == idx {
			return ex
		}
	}
	return nil
}

// resultOf returns the value of result #idx of a call whatever its arity.
func resultOf(c *ssa.Call, idx int) ssa.Value {
	if c.Call.Signature().Results().Len() == 1 {
		if idx == 0 {
			return c
		}
		return nil
	}
	return extractOf(c, idx)
}

// sliceLitElems: for a value that is a slice of a freshly allocated array (a composite literal []T{...}), the values
// stored into its elements.
func sliceLitElems(v ssa.Value) ([]ssa.Value, bool) {
	sl, ok := v.(*ssa.Slice)
	if !ok {
		return nil, false
	}
	al, ok := sl.X.(*ssa.Alloc)
	if !ok {
		return nil, false
	}
	var out []ssa.Value
	for _, r := range *al.Referrers() {
		ia, ok := r.(*ssa.IndexAddr)
		if !ok {
			continue
		}
		for _, rr := range *ia.Referrers() {
			if st, ok := rr.(*ssa.Store); ok && st.Addr == ia {
				out = append(out, st.Val)
			}
		}
	}
	return out, true
}

// derefLoad: v is *(x) ; returns x.
func derefLoad(v ssa.Value) (ssa.Value, bool) {
	u, ok := v.(*ssa.UnOp)
	if !ok || u.Op != token.MUL {
		return nil, false
	}
	return u.X, true
}

// anonFuncsConvertedTo lists the function literals of f (transitively) whose signature matches sigOf.
func closuresWithSig(f *ssa.Function, match func(*types.Signature) bool) []*ssa.Function {
	var out []*ssa.Function
	for _, a := range f.AnonFuncs {
		if match(a.Signature) {
			out = append(out, a)
		}
		out = append(out, closuresWithSig(a, match)...)
	}
	return out
}

// isHandlerSig: func(http.ResponseWriter, *http.Request).
func isHandlerSig(s *types.Signature) bool {
	if s.Params().Len() != 2 || s.Results().Len() != 0 {
		return false
	}
	return types.TypeString(s.Params().At(0).Type(), nil) == "net/http.ResponseWriter" &&
		types.TypeString(s.Params().At(1).Type(), nil) == "*net/http.Request"
}

// theHandlerClosure returns the single func(ResponseWriter,*Request) literal directly inside f.
func (c *Ctx) theHandlerClosure(f *ssa.Function) *ssa.Function {
	var hs []*ssa.Function
	for _, a := range f.AnonFuncs {
		if isHandlerSig(a.Signature) {
			hs = append(hs, a)
		}
	}
	if len(hs) == 0 {
		// the literal was moved into a constructor helper unknown to the baseline: look through it
		seen := map[*ssa.Function]bool{}
		for _, in := range instrs(f) {
			if callee := transparentCallee(in); callee != nil && !seen[callee] {
				seen[callee] = true
				for _, a := range callee.AnonFuncs {
					if isHandlerSig(a.Signature) {
						hs = append(hs, a)
					}
				}
			}
		}
	}
	if len(hs) == 0 {
		// the literal was turned into a named handler type: a struct the constructor allocates, unknown to the
		// baseline, whose ServeHTTP has the handler signature
		seenT := map[string]bool{}
		for _, in := range instrs(f) {
			al, ok := in.(*ssa.Alloc)
			if !ok {
				continue
			}
			n, st := structOf(al.Type())
			if n == nil || st == nil || n.Obj().Pkg() == nil || !isRepoPath(n.Obj().Pkg().Path()) || !isNewType(n) || seenT[typeFullName(n)] {
				continue
			}
			seenT[typeFullName(n)] = true
			if m := curProg.methodOf(n, "ServeHTTP"); m != nil && m.Signature.Params().Len() == 2 && m.Signature.Results().Len() == 0 {
				hs = append(hs, m)
			}
		}
	}
	if len(hs) != 1 {
		fatalf("anchor: expected exactly one http handler literal in %s, found %d", f, len(hs))
	}
	return hs[0]
}

// typeStr renders a type with the module path abbreviated.
func typeStr(t types.Type) string { return short(types.TypeString(t, nil)) }

// codecFuncOf returns the function implementing a codec built by constructor outer: the func literal with nParams
// parameters and nResults results declared in it, or — when the literal was turned into a named function — the named
// function of that signature which outer converts to the codec's func type.
func codecFuncOf(outer *ssa.Function, nParams, nResults int) *ssa.Function {
	var f *ssa.Function
	for _, a := range outer.AnonFuncs {
		if a.Signature.Params().Len() == nParams && a.Signature.Results().Len() == nResults {
			f = a
		}
	}
	if f != nil {
		return f
	}
	for _, in := range ownInstrs(outer) {
		var x ssa.Value
		switch v := in.(type) {
		case *ssa.ChangeType:
			x = v.X
		case *ssa.MakeInterface:
			x = v.X
		}
		if ct, ok := x.(*ssa.ChangeType); ok {
			x = ct.X
		}
		if fn, ok := x.(*ssa.Function); ok && fn.Blocks != nil && fn.Signature.Params().Len() == nParams && fn.Signature.Results().Len() == nResults {
			f = fn
		}
	}
	return f
}

// hRW / hReq: the ResponseWriter and Request parameters of a handler function (literal or ServeHTTP method).
func hRW(f *ssa.Function) *ssa.Parameter  { return f.Params[len(f.Params)-2] }
func hReq(f *ssa.Function) *ssa.Parameter { return f.Params[len(f.Params)-1] }

// literalElemsByIndex returns the elements stored into a local array / slice literal, by constant index.
func literalElemsByIndex(al *ssa.Alloc) map[int64]ssa.Value {
	out := map[int64]ssa.Value{}
	for _, r := range *al.Referrers() {
		ia, ok := r.(*ssa.IndexAddr)
		if !ok {
			continue
		}
		k, isK := constInt(ia.Index)
		if !isK {
			continue
		}
		for _, rr := range *ia.Referrers() {
			if st, ok := rr.(*ssa.Store); ok && st.Addr == ssa.Value(ia) {
				out[k] = st.Val
			}
		}
	}
	return out
}

// candidateTableOrder looks, in f, for a local array or slice literal that lists both a value accepted by first and
// one accepted by second (an ordered table of candidates). found: such a table exists; ok: in every such table the
// `first` element has the smaller index.
func candidateTableOrder(f *ssa.Function, first, second VPred) (found, ok bool) {
	ok = true
	for _, in := range instrs(f) {
		al, isAl := in.(*ssa.Alloc)
		if !isAl {
			continue
		}
		if _, isArr := al.Type().Underlying().(*types.Pointer).Elem().Underlying().(*types.Array); !isArr {
			continue
		}
		elems := literalElemsByIndex(al)
		fi, si := int64(-1), int64(-1)
		for k, v := range elems {
			if first(v) {
				fi = k
			}
			if second(v) {
				si = k
			}
		}
		if fi >= 0 && si >= 0 {
			found = true
			if fi > si {
				ok = false
			}
		}
	}
	return
}
