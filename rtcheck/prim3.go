package main

import (
	"go/constant"
	"go/token"

	"golang.org/x/tools/go/ssa"
)

// A sliceLoop is a `for ... range <slice>` loop as lowered by go/ssa: the element address &X[i] with
// i = phi + 1, the header block holding that phi and ending in the loop test.
type sliceLoop struct {
	X      ssa.Value      // the ranged slice
	Elem   *ssa.IndexAddr // &X[i] in the body
	Header *ssa.BasicBlock
	Test   ssa.Instruction // the If terminating the header
}

// sliceLoops finds the range-over-slice loops of f whose ranged value satisfies over (nil: all).
func sliceLoops(f *ssa.Function, over VPred) []sliceLoop {
	var out []sliceLoop
	for _, in := range instrs(f) {
		ia, ok := in.(*ssa.IndexAddr)
		if !ok {
			continue
		}
		bo, ok := ia.Index.(*ssa.BinOp)
		if !ok || bo.Op != token.ADD {
			continue
		}
		phi, ok := bo.X.(*ssa.Phi)
		if !ok {
			continue
		}
		if k, ok := constInt(bo.Y); !ok || k != 1 {
			continue
		}
		hb := phi.Block()
		if len(hb.Instrs) == 0 {
			continue
		}
		iff, ok := hb.Instrs[len(hb.Instrs)-1].(*ssa.If)
		if !ok {
			continue
		}
		if over != nil && !over(ia.X) {
			continue
		}
		out = append(out, sliceLoop{X: ia.X, Elem: ia, Header: hb, Test: iff})
	}
	return out
}

// everyIteration reports whether every path from the start of an iteration's body back to the loop test executes
// an instruction accepted by is (i.e. no iteration can skip it, whether by `continue`, by a guard, or otherwise).
// Iterations that leave the loop (return/break) are not constrained.
func (l sliceLoop) everyIteration(is func(ssa.Instruction) bool) bool {
	return !pathExists(l.Elem.Parent(), l.Elem, l.Test, nil, is)
}

// A mapLoop is a `for k, v := range <map>` loop: Range/Next.
type mapLoop struct {
	X      ssa.Value
	Next   *ssa.Next
	Header *ssa.BasicBlock
	Test   ssa.Instruction
}

func mapLoops(f *ssa.Function, over VPred) []mapLoop {
	var out []mapLoop
	for _, in := range instrs(f) {
		nx, ok := in.(*ssa.Next)
		if !ok || nx.IsString {
			continue
		}
		rg, ok := nx.Iter.(*ssa.Range)
		if !ok {
			continue
		}
		if over != nil && !over(rg.X) {
			continue
		}
		hb := nx.Block()
		iff, ok := hb.Instrs[len(hb.Instrs)-1].(*ssa.If)
		if !ok {
			continue
		}
		out = append(out, mapLoop{X: rg.X, Next: nx, Header: hb, Test: iff})
	}
	return out
}

// everyIteration: every path from the first instruction of the loop body back to the Next executes `is`.
func (l mapLoop) everyIteration(is func(ssa.Instruction) bool) bool {
	body := l.Header.Succs[0]
	if len(body.Instrs) == 0 {
		return false
	}
	first := body.Instrs[0]
	if is(first) {
		return true
	}
	return !pathExists(l.Next.Parent(), first, l.Next, nil, is)
}

// hasBreakOrContinue is not needed: everyIteration is decided on paths.

// isInstr builds an instruction predicate from a set.
func isOneOf(ins ...ssa.Instruction) func(ssa.Instruction) bool {
	return func(in ssa.Instruction) bool {
		for _, x := range ins {
			if x == in {
				return true
			}
		}
		return false
	}
}

func isCallInstrTo(names ...string) func(ssa.Instruction) bool {
	return func(in ssa.Instruction) bool {
		ci, ok := in.(ssa.CallInstruction)
		if !ok {
			return false
		}
		n := calleeName(ci.Common())
		for _, w := range names {
			if n == w {
				return true
			}
		}
		return false
	}
}

// lastInstr returns the terminator of a block.
func lastInstr(b *ssa.BasicBlock) ssa.Instruction { return b.Instrs[len(b.Instrs)-1] }

// phiEdgesFrom lists, for every phi of f, the (phi, predecessor block) pairs whose incoming value is exactly v.
func phiEdgesFrom(f *ssa.Function, v ssa.Value) [][2]interface{} {
	var out [][2]interface{}
	for _, in := range instrs(f) {
		phi, ok := in.(*ssa.Phi)
		if !ok {
			continue
		}
		for i, e := range phi.Edges {
			if e == v {
				out = append(out, [2]interface{}{phi, phi.Block().Preds[i]})
			}
		}
	}
	return out
}

// ctxKeyConst: v is `make any <- contextKey(k)` (or the constant itself) of the named key type; returns k.
func ctxKeyConst(v ssa.Value, keyType string) (int64, bool) {
	if mi, ok := v.(*ssa.MakeInterface); ok {
		v = mi.X
	}
	c, ok := v.(*ssa.Const)
	if !ok {
		return 0, false
	}
	if typeStr(c.Type()) != keyType {
		return 0, false
	}
	return constInt(c)
}

// vCtxValue: value is ctx.Value(key) for the given key constant (of keyType).
func vCtxValue(keyType string, key int64) VPred {
	return func(v ssa.Value) bool {
		c := asCall(v)
		if c == nil || calleeName(&c.Call) != "(context.Context).Value" || len(c.Call.Args) != 1 {
			return false
		}
		k, ok := ctxKeyConst(c.Call.Args[0], keyType)
		return ok && k == key
	}
}

// withValueCalls lists the context.WithValue calls of f with their constant key of keyType.
func withValueCalls(f *ssa.Function, keyType string) map[*ssa.Call]int64 {
	out := map[*ssa.Call]int64{}
	for _, ci := range callsIn(f, "context.WithValue") {
		c, ok := ci.(*ssa.Call)
		if !ok {
			continue
		}
		if k, ok := ctxKeyConst(c.Call.Args[1], keyType); ok {
			out[c] = k
		}
	}
	return out
}

// edgeGuarded reports whether the CFG edge pred->succ is only ever taken when the fact holds: either the edge itself
// is an If branch establishing it, or every path from `from` (entry when nil) to the end of pred crosses such a branch.
func edgeGuarded(pred, succ *ssa.BasicBlock, from ssa.Instruction, fact EdgePred) bool {
	term := lastInstr(pred)
	if iff, ok := term.(*ssa.If); ok && pred.Succs[0] != pred.Succs[1] {
		if pred.Succs[0] == succ && fact(iff.Cond, true) {
			return true
		}
		if pred.Succs[1] == succ && fact(iff.Cond, false) {
			return true
		}
	}
	return guardedBy(term, from, fact)
}

func constantInt(k int64) constant.Value { return constant.MakeInt64(k) }
