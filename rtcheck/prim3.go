package main

import (
	"fmt"
	"go/constant"
	"go/token"
	"go/types"
	"os"
	"sort"
	"strings"

	"golang.org/x/tools/go/ssa"
)

// A sliceLoop is a loop over the elements of a slice: `for ... range <slice>` as lowered by go/ssa (element address
// &X[i] with i = phi + 1) or the hand-written form `for i := 0; i < len(X); i++ { ... X[i] ... }` (i = phi).
type sliceLoop struct {
	X      ssa.Value       // the ranged slice
	Elem   *ssa.IndexAddr  // the first element access &X[i] of the body
	Header *ssa.BasicBlock // block holding the loop counter phi and ending in the loop test
	Test   ssa.Instruction // the If terminating the header
	Body   ssa.Instruction // first instruction of the loop body
}

// sliceLoops finds the loops over slices of f whose ranged value satisfies over (nil: all).
func sliceLoops(f *ssa.Function, over VPred) []sliceLoop {
	var out []sliceLoop
	seen := map[string]bool{}
	for _, in := range instrs(f) {
		ia, ok := in.(*ssa.IndexAddr)
		if !ok {
			continue
		}
		var phi *ssa.Phi
		switch x := ia.Index.(type) {
		case *ssa.BinOp:
			if x.Op != token.ADD {
				continue
			}
			p, ok := x.X.(*ssa.Phi)
			if !ok {
				continue
			}
			if k, ok := constInt(x.Y); !ok || k != 1 {
				continue
			}
			phi = p
		case *ssa.Phi:
			// hand-written counter: some incoming edge is phi + 1 and the header tests the counter
			inc := false
			for _, e := range x.Edges {
				if incrementOf(e, x) && e != ssa.Value(x) {
					inc = true
				}
			}
			if !inc {
				continue
			}
			phi = x
		default:
			continue
		}
		hb := phi.Block()
		if len(hb.Instrs) == 0 {
			continue
		}
		iff, ok := hb.Instrs[len(hb.Instrs)-1].(*ssa.If)
		if !ok {
			continue
		}
		if over != nil && !over(ia.X) {
			continue
		}
		// the body is the successor of the header from which the element access is reached
		var body *ssa.BasicBlock
		for _, sc := range hb.Succs {
			if sc != hb && hb.Dominates(sc) && (sc == ia.Block() || sc.Dominates(ia.Block())) {
				body = sc
			}
		}
		if body == nil || len(body.Instrs) == 0 {
			continue
		}
		key := itoa(hb.Index) + "/" + hb.Parent().String() + "/" + ia.X.Name()
		if seen[key] {
			continue
		}
		seen[key] = true
		out = append(out, sliceLoop{X: ia.X, Elem: ia, Header: hb, Test: iff, Body: body.Instrs[0]})
	}
	return out
}

// everyIteration reports whether every path from the start of an iteration's body back to the loop test executes
// an instruction accepted by is (i.e. no iteration can skip it, whether by `continue`, by a guard, or otherwise).
// Iterations that leave the loop (return/break) are not constrained.
func (l sliceLoop) everyIteration(is func(ssa.Instruction) bool) bool {
	if is(l.Body) {
		return true
	}
	if os.Getenv("RTDEBUG") != "" {
		fmt.Fprintf(os.Stderr, "everyIteration: body=%v (%T) elem=%v test=%v hdr=%d\n", l.Body, l.Body, l.Elem, l.Test, l.Header.Index)
	}
	return !pathExists(l.Elem.Parent(), l.Body, l.Test, nil, is)
}

// noEarlyExit reports whether the loop is left only through its test (elements exhausted): no path from the body
// reaches a return of the function without going back through the loop test (no break, no return from the body).
func (l sliceLoop) noEarlyExit() bool {
	f := l.Elem.Parent()
	for _, r := range realReturns(f) {
		if pathExists(f, l.Body, r, nil, isOneOf(l.Test)) {
			return false
		}
	}
	return true
}

// noEarlyExitExcept: like noEarlyExit, but returns accepted by okReturn may leave the loop from its body.
func (l sliceLoop) noEarlyExitExcept(okReturn func(*ssa.Return) bool) bool {
	f := l.Elem.Parent()
	for _, r := range realReturns(f) {
		if okReturn(r) {
			continue
		}
		if pathExists(f, l.Body, r, nil, isOneOf(l.Test)) {
			return false
		}
	}
	return true
}

// A mapLoop is a `for k, v := range <map>` loop: Range/Next.
type mapLoop struct {
	X      ssa.Value
	Next   *ssa.Next
	Header *ssa.BasicBlock
	Test   ssa.Instruction
}

func mapLoops(f *ssa.Function, over VPred) []mapLoop {
	var out []mapLoop
	for _, in := range instrs(f) {
		nx, ok := in.(*ssa.Next)
		if !ok || nx.IsString {
			continue
		}
		rg, ok := nx.Iter.(*ssa.Range)
		if !ok {
			continue
		}
		if over != nil && !over(rg.X) {
			continue
		}
		hb := nx.Block()
		iff, ok := hb.Instrs[len(hb.Instrs)-1].(*ssa.If)
		if !ok {
			continue
		}
		out = append(out, mapLoop{X: rg.X, Next: nx, Header: hb, Test: iff})
	}
	return out
}

// everyIteration: every path from the first instruction of the loop body back to the Next executes `is`.
func (l mapLoop) everyIteration(is func(ssa.Instruction) bool) bool {
	body := l.Header.Succs[0]
	if len(body.Instrs) == 0 {
		return false
	}
	first := body.Instrs[0]
	if is(first) {
		return true
	}
	return !pathExists(l.Next.Parent(), first, l.Next, nil, is)
}

// everyIterationUnless is everyIteration with iterations excused when they take an edge accepted by excuse.
func (l mapLoop) everyIterationUnless(excuse EdgePred, is func(ssa.Instruction) bool) bool {
	body := l.Header.Succs[0]
	if len(body.Instrs) == 0 {
		return false
	}
	first := body.Instrs[0]
	if is(first) {
		return true
	}
	return !pathExists(l.Next.Parent(), first, l.Next, excuse, is)
}

// hasBreakOrContinue is not needed: everyIteration is decided on paths.

// isInstr builds an instruction predicate from a set.
func isOneOf(ins ...ssa.Instruction) func(ssa.Instruction) bool {
	return func(in ssa.Instruction) bool {
		for _, x := range ins {
			if x == in {
				return true
			}
		}
		return false
	}
}

func isCallInstrTo(names ...string) func(ssa.Instruction) bool {
	return func(in ssa.Instruction) bool {
		ci, ok := in.(ssa.CallInstruction)
		if !ok {
			return false
		}
		n := calleeName(ci.Common())
		for _, w := range names {
			if n == w {
				return true
			}
		}
		return false
	}
}

// lastInstr returns the terminator of a block.
func lastInstr(b *ssa.BasicBlock) ssa.Instruction { return b.Instrs[len(b.Instrs)-1] }

// phiEdgesFrom lists, for every phi of f, the (phi, predecessor block) pairs whose incoming value is exactly v.
func phiEdgesFrom(f *ssa.Function, v ssa.Value) [][2]interface{} {
	var out [][2]interface{}
	for _, in := range instrs(f) {
		phi, ok := in.(*ssa.Phi)
		if !ok {
			continue
		}
		for i, e := range phi.Edges {
			if e == v {
				out = append(out, [2]interface{}{phi, phi.Block().Preds[i]})
			}
		}
	}
	return out
}

// ctxKeyConst: v is `make any <- contextKey(k)` (or the constant itself) of the named key type; returns k.
func ctxKeyConst(v ssa.Value, keyType string) (int64, bool) {
	if mi, ok := v.(*ssa.MakeInterface); ok {
		v = mi.X
	}
	c, ok := v.(*ssa.Const)
	if !ok {
		return 0, false
	}
	if typeStr(c.Type()) != keyType {
		return 0, false
	}
	return constInt(c)
}

// vCtxValue: value is ctx.Value(key) for the given key constant (of keyType).
func vCtxValue(keyType string, key int64) VPred {
	direct := func(v ssa.Value) bool {
		c := asCall(v)
		if c == nil || calleeName(&c.Call) != "(context.Context).Value" || len(c.Call.Args) != 1 {
			return false
		}
		k, ok := ctxKeyConst(c.Call.Args[0], keyType)
		return ok && k == key
	}
	return func(v ssa.Value) bool {
		if direct(v) {
			return true
		}
		// read through an accessor that is looked through (SecurityPrincipalFrom(r), a new helper): what it returns
		if c := asCall(v); c != nil && transparentCallee(c) != nil {
			ok, _ := allOrigins(v, func(o Origin) bool { return direct(o.V) })
			return ok
		}
		return false
	}
}

// withValueCalls lists the context.WithValue calls of f with their constant key of keyType.
func withValueCalls(f *ssa.Function, keyType string) map[*ssa.Call]int64 {
	out := map[*ssa.Call]int64{}
	wvEnv = map[*ssa.Call]map[*ssa.Parameter]ssa.Value{}
	// per calling context: a helper wrapping WithValue (requestWithValue(r, key, v)) is given the key by its caller
	for _, site := range callSitesUnder(f, "context.WithValue") {
		c, ok := site.In.(*ssa.Call)
		if !ok {
			continue
		}
		site.at(func() {
			wvEnv[c] = site.Fr.env
			if k, ok := ctxKeyConst(c.Call.Args[1], keyType); ok {
				out[c] = k
				return
			}
			os := originsOf(c.Call.Args[1])
			if len(os) == 1 {
				if k, ok := ctxKeyConst(os[0].V, keyType); ok {
					out[c] = k
				}
			}
		})
	}
	return out
}

// edgeGuarded reports whether the CFG edge pred->succ is only ever taken when the fact holds: either the edge itself
// is an If branch establishing it, or every path from `from` (entry when nil) to the end of pred crosses such a branch.
func edgeGuarded(pred, succ *ssa.BasicBlock, from ssa.Instruction, fact EdgePred) bool {
	term := lastInstr(pred)
	if iff, ok := term.(*ssa.If); ok && pred.Succs[0] != pred.Succs[1] {
		if pred.Succs[0] == succ && applyCut(fact, iff.Cond, true) {
			return true
		}
		if pred.Succs[1] == succ && applyCut(fact, iff.Cond, false) {
			return true
		}
	}
	if guardedBy(term, from, fact) {
		return true
	}
	// the edge itself may be guarded although the end of pred is not (the branch taken depends on a boolean computed
	// from the fact: `ok := a && b; if ok {…} else {<here>}`)
	return !pathExistsToEdge(pred.Parent(), from, pred, succ, fact)
}

func constantInt(k int64) constant.Value { return constant.MakeInt64(k) }

// allOriginsAfter is allOrigins restricted to the paths that pass instruction `from`: when v is a phi, only the
// incoming edges whose predecessor can be reached after `from` are considered (the other edges carry the value of
// paths that never executed `from`). Nested phis are resolved the same way.
func allOriginsAfter(f *ssa.Function, from ssa.Instruction, v ssa.Value, preds ...OPred) (bool, *Origin) {
	return allOriginsAfterN(f, from, v, 4, preds...)
}

func allOriginsAfterN(f *ssa.Function, from ssa.Instruction, v ssa.Value, depth int, preds ...OPred) (bool, *Origin) {
	phi, ok := v.(*ssa.Phi)
	if !ok || depth == 0 {
		return allOrigins(v, preds...)
	}
	considered := 0
	for i, e := range phi.Edges {
		pred := phi.Block().Preds[i]
		last := lastInstr(pred)
		after := from.Block() == pred && instrIndex(from) < len(pred.Instrs) || pathExists(f, from, last, nil, nil)
		if !after {
			continue
		}
		if e == ssa.Value(phi) {
			continue
		}
		considered++
		if ok, bad := allOriginsAfterN(f, from, e, depth-1, preds...); !ok {
			return false, bad
		}
	}
	if considered == 0 {
		return allOrigins(v, preds...)
	}
	return true, nil
}

// ctxKeyReadBy returns the context key (value and type) a reader function looks up with ctx.Value(<const>): the key
// is identified by who reads it, not by what the constant is called.
func ctxKeyReadBy(f *ssa.Function) (int64, string) {
	for _, ci := range callsIn(f, "(context.Context).Value") {
		a := ci.Common().Args
		if len(a) != 1 {
			continue
		}
		v := a[0]
		if mi, ok := v.(*ssa.MakeInterface); ok {
			v = mi.X
		}
		if k, ok := v.(*ssa.Const); ok {
			if n, isInt := constInt(k); isInt {
				return n, typeStr(k.Type())
			}
		}
	}
	// the reader may delegate to a helper taking the key (contextString(ctx, key)): the key is the constant it passes
	for _, ci := range allCallsShallow(f) {
		sc := ci.Common().StaticCallee()
		if sc == nil || sc.Blocks == nil || !isRepoPath(fnPkgPath(sc)) {
			continue
		}
		for _, a := range ci.Common().Args {
			v := a
			if mi, ok := v.(*ssa.MakeInterface); ok {
				v = mi.X
			}
			if k, ok := v.(*ssa.Const); ok {
				if n, isInt := constInt(k); isInt && strings.HasPrefix(typeStr(k.Type()), "rt/") {
					return n, typeStr(k.Type())
				}
			}
		}
	}
	fatalf("anchor: %s does not read a constant context key", f)
	return 0, ""
}

// literalsOrBoundMethods lists the function literals of outer matching match, plus the methods outer turns into
// function values (`x.method` as a func: a closure over the bound-method wrapper) that match.
func literalsOrBoundMethods(outer *ssa.Function, match func(*types.Signature) bool) []*ssa.Function {
	var out []*ssa.Function
	for _, a := range outer.AnonFuncs {
		if match(a.Signature) {
			out = append(out, a)
		}
	}
	for _, in := range instrs(outer) {
		mc, ok := in.(*ssa.MakeClosure)
		if !ok {
			continue
		}
		w, ok := mc.Fn.(*ssa.Function)
		if !ok || !strings.HasSuffix(w.Name(), "$bound") {
			continue
		}
		if obj, isFn := w.Object().(*types.Func); isFn {
			if m := curProg.SSA.FuncValue(obj); m != nil && m.Blocks != nil {
				// compare without the receiver
				if match(w.Signature) {
					out = append(out, m)
				}
			}
		}
	}
	return out
}

// wvEnv remembers, for the WithValue calls listed by the latest withValueCalls, the parameter binding of the calling
// context each was found in (a store made by a shared helper gets its key and value from the helper's caller).
var wvEnv = map[*ssa.Call]map[*ssa.Parameter]ssa.Value{}

// wvAt evaluates fn under the calling context of a WithValue call listed by withValueCalls.
func wvAt(call *ssa.Call, fn func()) {
	env, ok := wvEnv[call]
	if !ok {
		fn()
		return
	}
	saved := paramEnv
	paramEnv = env
	defer func() { paramEnv = saved }()
	fn()
}

// wvArg is argument i of a WithValue call listed by withValueCalls, with a helper's parameter replaced by what the
// helper's caller passed.
func wvArg(call *ssa.Call, i int) ssa.Value {
	v := call.Call.Args[i]
	env := wvEnv[call]
	for n := 0; n < 6; n++ {
		prm, ok := v.(*ssa.Parameter)
		if !ok {
			break
		}
		b, bound := env[prm]
		if !bound {
			break
		}
		v = b
	}
	return v
}

// ruleKeyConstantsDistinct: the package-level constants of the context-key type keyT ("rt/pkg.name") of package pkg
// have pairwise distinct values (two values stored under one key overwrite each other: `iota` restarting in a second
// const block is enough).
func ruleKeyConstantsDistinct(c *Ctx, rule, pkg, keyT string) {
	sc := c.P.TypesPkg(pkg).Scope()
	seen := map[string]string{}
	n := 0
	names := sc.Names() // sorted
	for _, name := range names {
		k, ok := sc.Lookup(name).(*types.Const)
		if !ok || typeStr(k.Type()) != keyT {
			continue
		}
		n++
		v := k.Val().ExactString()
		prev, dup := seen[v]
		c.definite = true
		c.ob(rule, pkg, "key-distinct-"+name, "-", !dup, "context keys of type "+keyT+" are pairwise distinct", name+" equals "+prev+" (both "+v+")")
		c.definite = false
		if !dup {
			seen[v] = name
		}
	}
	c.obR(rule, pkg, "has-key-constants-"+keyT, "-", n >= 1, "the context-key type has constants", "")
}

// concatPieces flattens the construction of a string (or byte slice) into the ordered list of pieces it is assembled
// from, whatever the spelling: `a + b`, conversions between string and []byte, a strings.Builder / bytes.Buffer
// declared in the function and written in a straight line before .String() / .Bytes(), and []byte built by appends
// onto an empty slice. Anything else is one opaque piece. ok is false when the assembly cannot be ordered.
func concatPieces(v ssa.Value, depth int) ([]ssa.Value, bool) {
	if depth > 12 {
		return nil, false
	}
	v = resolve1(v)
	switch x := v.(type) {
	case *ssa.Const:
		return []ssa.Value{x}, true
	case *ssa.BinOp:
		if x.Op == token.ADD {
			if bt, ok := x.Type().Underlying().(*types.Basic); ok && bt.Info()&types.IsString != 0 {
				a, ok1 := concatPieces(x.X, depth+1)
				b, ok2 := concatPieces(x.Y, depth+1)
				return append(a, b...), ok1 && ok2
			}
		}
	case *ssa.Convert:
		st, dt := typeStr(x.X.Type()), typeStr(x.Type())
		if (st == "string" && dt == "[]byte") || (st == "[]byte" && dt == "string") {
			return concatPieces(x.X, depth+1)
		}
	case *ssa.Call:
		n := calleeName(&x.Call)
		switch n {
		case "(*strings.Builder).String", "(*bytes.Buffer).String", "(*bytes.Buffer).Bytes":
			al, isAl := x.Call.Args[0].(*ssa.Alloc)
			if !isAl || al.Parent() != x.Parent() {
				return []ssa.Value{x}, true
			}
			var writes []*ssa.Call
			for _, in := range ownInstrs(x.Parent()) {
				w, isCall := in.(*ssa.Call)
				if !isCall || w == x || len(w.Call.Args) == 0 || w.Call.Args[0] != ssa.Value(al) {
					continue
				}
				switch calleeName(&w.Call) {
				case "(*strings.Builder).WriteString", "(*strings.Builder).Write", "(*strings.Builder).WriteByte", "(*strings.Builder).WriteRune",
					"(*bytes.Buffer).WriteString", "(*bytes.Buffer).Write", "(*bytes.Buffer).WriteByte", "(*bytes.Buffer).WriteRune":
					writes = append(writes, w)
				case "(*strings.Builder).Grow", "(*bytes.Buffer).Grow", "(*strings.Builder).Len", "(*bytes.Buffer).Len":
				default:
					return nil, false // reset, truncation, handed elsewhere …
				}
			}
			// straight line: every write dominates the read-out, and the writes are totally ordered by dominance
			sort.SliceStable(writes, func(i, j int) bool { return dominates(writes[i], writes[j]) })
			var out []ssa.Value
			for i, w := range writes {
				if !dominates(w, x) || (i > 0 && !dominates(writes[i-1], w)) {
					return nil, false
				}
				p, ok := concatPieces(w.Call.Args[1], depth+1)
				if !ok {
					return nil, false
				}
				out = append(out, p...)
			}
			return out, true
		case "builtin append":
			if typeStr(x.Type()) != "[]byte" || len(x.Call.Args) != 2 {
				break
			}
			base, ok1 := concatPieces(x.Call.Args[0], depth+1)
			var add []ssa.Value
			ok2 := true
			if elems, isLit := sliceLitElems(x.Call.Args[1]); isLit {
				add = elems
			} else {
				add, ok2 = concatPieces(x.Call.Args[1], depth+1)
			}
			return append(base, add...), ok1 && ok2
		}
	case *ssa.MakeSlice:
		if k, isK := constInt(x.Len); isK && k == 0 && typeStr(x.Type()) == "[]byte" {
			return nil, true
		}
	case *ssa.Slice:
		// make([]byte, 0, n) with a constant capacity is lowered to a slice of a local array
		if al, isAl := x.X.(*ssa.Alloc); isAl && al.Comment == "makeslice" {
			if k, isK := constInt(x.High); isK && k == 0 {
				return nil, true
			}
		}
	}
	return []ssa.Value{v}, true
}

// pieceText renders the constant pieces of an assembly ("\x00" marks an opaque piece), for comparison with a pattern.
func pieceText(ps []ssa.Value) string {
	out := ""
	for _, p := range ps {
		if s, ok := constString(p); ok {
			out += s
			continue
		}
		if k, ok := constInt(p); ok && k >= 0 && k < 256 {
			out += string(rune(k))
			continue
		}
		out += "\x00"
	}
	return out
}

// A vret is one way of leaving a function: a return statement, or — for a single return statement whose results are
// merged values (`return applies, principal, err` at the end of a function that assigned them on different paths) —
// one incoming edge of that merge with the values it carries.
type vret struct {
	R       *ssa.Return
	Res     []ssa.Value
	Guarded func(EdgePred) bool // every path from the entry to this exit takes an edge accepted by the predicate
}

func virtualReturns(f *ssa.Function) []vret {
	var out []vret
	for _, r := range realReturns(f) {
		r := r
		blk := r.Block()
		res := make([]ssa.Value, len(r.Results))
		hasPhi := false
		for i := range r.Results {
			res[i] = resOf(r, i)
			if phi, ok := res[i].(*ssa.Phi); ok && phi.Block() == blk {
				hasPhi = true
			}
		}
		if !hasPhi || len(blk.Preds) < 2 {
			out = append(out, vret{R: r, Res: res, Guarded: func(p EdgePred) bool { return guardedBy(r, nil, p) }})
			continue
		}
		for pi, pred := range blk.Preds {
			pi, pred := pi, pred
			vr := make([]ssa.Value, len(res))
			for i, v := range res {
				vr[i] = v
				if phi, ok := v.(*ssa.Phi); ok && phi.Block() == blk {
					vr[i] = phi.Edges[pi]
				}
			}
			out = append(out, vret{R: r, Res: vr, Guarded: func(p EdgePred) bool { return edgeGuarded(pred, blk, nil, p) }})
		}
	}
	return out
}

// allOriginsAt is allOrigins for a value used by instruction `use`, with one refinement for merged values: an incoming
// edge of a phi is left out when it can only be taken under a condition whose opposite guards the use — the same pure
// test made twice (`if o.X == nil { v = read() }; …; if o.X == nil { use(v) }`: the "not read" edge never reaches the
// use). Conditions are compared structurally (sameVal).
func allOriginsAt(use ssa.Instruction, v ssa.Value, preds ...OPred) (bool, *Origin) {
	phi, isPhi := v.(*ssa.Phi)
	if !isPhi || use == nil {
		return allOrigins(v, preds...)
	}
	for i, e := range phi.Edges {
		if edgeExcludedAt(phi.Block().Preds[i], phi.Block(), use) {
			continue
		}
		if ok, bad := allOriginsAt(use, e, preds...); !ok {
			return false, bad
		}
	}
	return true, nil
}

// edgeExcludedAt: the CFG edge pred->blk lies behind a branch (cond, b) — found by walking up single-predecessor blocks —
// and every path from blk to `use` takes the opposite branch of a structurally identical condition.
func edgeExcludedAt(pred, blk *ssa.BasicBlock, use ssa.Instruction) bool {
	type cb struct {
		c ssa.Value
		b bool
	}
	var conds []cb
	p := pred
	// the edge itself may be a branch of pred's own If
	if iff, ok := lastInstr(p).(*ssa.If); ok && len(p.Succs) == 2 && p.Succs[0] != p.Succs[1] {
		conds = append(conds, cb{iff.Cond, p.Succs[0] == blk})
	}
	for n := 0; n < 6 && len(p.Preds) == 1; n++ {
		q := p.Preds[0]
		if iff, ok := lastInstr(q).(*ssa.If); ok && len(q.Succs) == 2 && q.Succs[0] != q.Succs[1] {
			conds = append(conds, cb{iff.Cond, q.Succs[0] == p})
		}
		p = q
	}
	if len(blk.Instrs) == 0 {
		return false
	}
	for _, k := range conds {
		k := k
		c0, b0 := stripNot(k.c, k.b)
		opposite := func(cond ssa.Value, branch bool) bool {
			c1, b1 := stripNot(cond, branch)
			if sameVal(c0, c1) {
				return b1 == !b0
			}
			// x != y is !(x == y)
			x0, ok0 := c0.(*ssa.BinOp)
			x1, ok1 := c1.(*ssa.BinOp)
			if ok0 && ok1 && ((x0.Op == token.EQL && x1.Op == token.NEQ) || (x0.Op == token.NEQ && x1.Op == token.EQL)) &&
				((sameVal(x0.X, x1.X) && sameVal(x0.Y, x1.Y)) || (sameVal(x0.X, x1.Y) && sameVal(x0.Y, x1.X))) {
				return b1 == b0
			}
			return false
		}
		if guardedBy(use, blk.Instrs[0], opposite) {
			return true
		}
	}
	return false
}

// isFuncValue: v is the named package-level function used as a value.
func isFuncValue(v ssa.Value, name string) bool {
	if ct, ok := v.(*ssa.ChangeType); ok {
		v = ct.X
	}
	f, ok := v.(*ssa.Function)
	return ok && fnName(f) == name
}

// ifaceMethodCalled: the name of the interface method a call dispatches to, either x.M(...) or m := x.M; m(...).
func ifaceMethodCalled(c *ssa.CallCommon) string {
	if c.IsInvoke() {
		return c.Method.Name()
	}
	if mc, ok := c.Value.(*ssa.MakeClosure); ok && len(mc.Bindings) == 1 {
		if f, ok := mc.Fn.(*ssa.Function); ok && strings.HasSuffix(f.Name(), "$bound") && types.IsInterface(mc.Bindings[0].Type()) {
			return strings.TrimSuffix(f.Name(), "$bound")
		}
	}
	return ""
}

// ifaceReceiver: the interface value an interface-method call (direct or through a method value) is made on.
func ifaceReceiver(c *ssa.CallCommon) ssa.Value {
	if c.IsInvoke() {
		return c.Value
	}
	if mc, ok := c.Value.(*ssa.MakeClosure); ok && len(mc.Bindings) == 1 {
		return mc.Bindings[0]
	}
	return nil
}

func debugEnvOn() bool { return len(debugEnvVar) > 0 }

var debugEnvVar = envOf("RTDEBUG")

func envOf(k string) string { return os.Getenv(k) }

// pathExistsAfter is pathExists(f, a, b, …) for paths that CONTINUE an execution which has reached a: the outcomes of
// the tests that dominate a (the branch a sits on) are kept — a later test of the same SSA value (defined outside any
// loop), or of the same pure condition over unmodified state, cannot come out the other way.
func pathExistsAfter(f *ssa.Function, a, b ssa.Instruction) bool {
	type fact struct {
		v    ssa.Value
		want bool
	}
	var byValue []fact
	byKey := map[string]bool{}
	strip := func(c ssa.Value, br bool) (ssa.Value, bool) {
		for i := 0; i < 4; i++ {
			if u, ok := c.(*ssa.UnOp); ok && u.Op == token.NOT {
				c, br = u.X, !br
				continue
			}
			break
		}
		return c, br
	}
	if a.Parent() == f && a.Block() != nil {
		for d := a.Block().Idom(); d != nil; d = d.Idom() {
			iff, ok := lastInstr(d).(*ssa.If)
			if !ok || len(d.Succs) != 2 {
				continue
			}
			on := func(s *ssa.BasicBlock) bool {
				return (s == a.Block() || s.Dominates(a.Block())) && len(s.Preds) == 1
			}
			t, e := on(d.Succs[0]), on(d.Succs[1])
			if t == e {
				continue
			}
			cv, want := strip(iff.Cond, t)
			if in, isIn := cv.(ssa.Instruction); isIn && in.Block() != nil && !reachableFrom(in.Block(), in.Block()) {
				if _, isPhi := cv.(*ssa.Phi); !isPhi {
					byValue = append(byValue, fact{cv, want})
				}
			}
			if key, neg, okK := stableCondKey(iff.Cond); okK {
				byKey[key] = t != neg
			}
		}
	}
	contradicts := func(cond ssa.Value, br bool) bool {
		cv, w := strip(cond, br)
		for _, ft := range byValue {
			if ft.v == cv && ft.want != w {
				return true
			}
		}
		if key, neg, okK := stableCondKey(cond); okK {
			if want, has := byKey[key]; has && want != (br != neg) {
				return true
			}
		}
		return false
	}
	return pathExists(f, a, b, contradicts, nil)
}

// fieldNameAt names the field a FieldAddr selects.
func fieldNameAt(fa *ssa.FieldAddr) string {
	if _, st := structOf(fa.X.Type()); st != nil && fa.Field < st.NumFields() {
		return st.Field(fa.Field).Name()
	}
	return "?"
}
