package main

import (
	"fmt"
	"go/token"
	"go/types"
	"strings"

	"golang.org/x/tools/go/ssa"
)

const (
	dencoParamT = "rt/middleware/denco.Param"
	routeParamT = "rt/middleware.RouteParam"
)

func init() {
	register(&Property{
		ID: "C01",
		Explanation: "Decides the plumbing every dispatch depends on (not the trie's matching semantics): R01.1 both the route lookup and the 405 probe are fed request.Method and request.URL.EscapedPath() (never the decoded path); " +
			"R01.2 both lookups hand path.Clean(path) to the trie and select routers by strings.ToUpper(method), routes are filed under the upper-cased method, one trie per method is built from exactly that method's records; " +
			"R01.3 every path-parameter value handed on is url.PathUnescape of the captured text (the raw text only on its error branch), decoded exactly once, directly or through the composite-placeholder decoder, and names come from the trie or that decoder; " +
			"R01.4 templates are converted by the {name}->:name regexp, every operation of the spec is routed at path.Join(basePath, template) with the handler the API returns for (method, template) and the entry records that handler and template; " +
			"R01.5 the router middleware calls the next handler only when a route matched (with the request carrying it), answers 405 only with the non-empty list of other methods and 404 otherwise, and the operation executor invokes the matched route's handler; " +
			"R01.8 the structural rules of the trie that dispatch relies on (sorted build, reserved bases, static map first, separator set, complete backtracking — shared with C05); R01.6 the reserved-byte workaround (composite placeholders) cannot index or slice out of range; R01.7 the offset used to detect a composite placeholder equals the length of the literal text searched around the name. " +
			"R01.2 also: the raw request path is used for nothing but path.Clean (and debug logging) in Lookup and OtherMethods. " +
			"R01.8 also (shared with C05): the any-parameter flag is asked at every position of the walk and a set flag always registers the position; R01.2 also: Build ranges over the recorded methods themselves. " +
			"NOT decided: which pattern the trie matches, literal-over-parameter preference, exactness of the Allow set (C05 covers the trie's structural part).",
		Run: runC01,
	})
}

var c01Table = map[string]string{
	"decodeCompositParams(…)#1[_]":         "decodeCompositParams appends exactly one value per name at every recursion level, so both result slices have the same length and the index ranges over the names",
	"_[(Index(_,\"{\")+1):Index(_,\"}\")]": "pattern is the tail of a spec path template after a '}' in the same segment: the converter regexp {(.+?)}([^/]*) only leaves tails in which every '{' is followed by a matching '}' (balanced templates are a validity requirement of the spec)",
	"_[(Index(_,\"}\")+1):]":               "same: a '}' exists after the '{' that was found",
}

func runC01(c *Ctx) {
	p := c.P
	ruleCompositeDecoderFits(c, "R01.3")
	// R01.1
	for _, s := range []struct{ fn, callee string }{
		{"(*rt/middleware.Context).LookupRoute", "(rt/middleware.Router).Lookup"},
		{"(*rt/middleware.Context).AllowedMethods", "(rt/middleware.Router).OtherMethods"},
	} {
		f := p.Fn(s.fn)
		req := paramOf(f, 0)
		isReq := vOrigins(oIsValue(req))
		calls := callsIn(f, s.callee)
		c.obRF("R01.1", f, "asks-router", len(calls) == 1, "the context asks the router once", fmt.Sprintf("%d calls", len(calls)))
		for _, ci := range calls {
			_, a := callArgs(ci.Common())
			okM := vFieldLoad("net/http.Request", "Method", isReq)(a[0])
			okP, bad := allOrigins(a[1], oCallWhere(-1, "(*net/url.URL).EscapedPath", func(e *ssa.Call) bool {
				return vFieldLoad("net/http.Request", "URL", isReq)(e.Call.Args[0])
			}))
			c.obI("R01.1", ci, "method-from-request", okM, "the router is asked about the request's own method", "method argument "+describe(a[0]))
			c.obI("R01.1", ci, "escaped-path-is-routed", okP, "the router is asked about request.URL.EscapedPath() — the still percent-encoded path — so that dispatch and the 404/405 decision see the same path and %2F cannot change the segment structure", "path argument originates from "+describeOrigin(bad))
			recv, _ := callArgs(ci.Common())
			c.obI("R01.1", ci, "context-router", vFieldLoadO("rt/middleware.Context", "router")(recv), "the router asked is the context's router", "")
		}
	}
	// the answer handed back is the router's answer to this very question: a route remembered from an earlier
	// request (under whatever key) is a different question's answer
	{
		f := p.Fn("(*rt/middleware.Context).LookupRoute")
		for _, r := range returnsOf(f) {
			if len(r.Results) < 1 {
				continue
			}
			ok, bad := allOrigins(r.Results[0], oNil(), oCall(0, "(rt/middleware.Router).Lookup"))
			c.obI("R01.1", r, "route-is-this-lookups-answer", ok, "the route LookupRoute returns is what the router answered for this request's method and escaped path (not a remembered answer to another request)", "origin "+describeOrigin(bad))
		}
		f = p.Fn("(*rt/middleware.Context).AllowedMethods")
		for _, r := range returnsOf(f) {
			if len(r.Results) < 1 {
				continue
			}
			ok, bad := allOrigins(r.Results[0], oNil(), oCall(0, "(rt/middleware.Router).OtherMethods"))
			c.obI("R01.1", r, "allow-is-this-lookups-answer", ok, "the methods AllowedMethods returns are what the router answered for this request's method and escaped path", "origin "+describeOrigin(bad))
		}
	}
	c.min("R01.1", 10)

	// R01.2
	lk := p.Fn("(*rt/middleware.defaultRouter).Lookup")
	om := p.Fn("(*rt/middleware.defaultRouter).OtherMethods")
	for _, f := range []*ssa.Function{lk, om} {
		method, pth := paramOf(f, 0), paramOf(f, 1)
		calls := callsIn(f, "(*rt/middleware/denco.Router).Lookup")
		c.obRF("R01.2", f, "asks-trie", len(calls) == 1, "one trie lookup", fmt.Sprintf("%d", len(calls)))
		for _, ci := range calls {
			_, a := callArgs(ci.Common())
			ok, bad := allOrigins(a[0], oCallWhere(-1, "path.Clean", func(cl *ssa.Call) bool {
				okk, _ := allOrigins(cl.Call.Args[0], oIsValue(pth))
				return okk
			}))
			c.obI("R01.2", ci, "cleaned-path", ok, "the trie is asked about path.Clean(path) in the route lookup and in the other-methods probe alike", "argument originates from "+describeOrigin(bad))
		}
		// the cleaned path is for the trie alone: no decision (a "sanity check" on what it contains, say) is taken on it
		for _, cl := range callsIn(f, "path.Clean") {
			if cl.Parent() != f || cl.Value() == nil || cl.Value().Referrers() == nil {
				continue
			}
			var visit func(v ssa.Value, d int)
			visit = func(v ssa.Value, d int) {
				if v.Referrers() == nil || d > 3 {
					return
				}
				for _, ref := range *v.Referrers() {
					switch u := ref.(type) {
					case *ssa.DebugRef, *ssa.MakeInterface, *ssa.Store:
					case *ssa.Phi:
						visit(u, d+1)
					case ssa.CallInstruction:
						n := calleeName(u.Common())
						if n != "(*rt/middleware/denco.Router).Lookup" && !strings.HasSuffix(n, "debugLogf") && transparentCallee(ref) == nil {
							c.obI("R01.2", ref, "cleaned-path-only-asked-of-the-trie", false, "the cleaned path is handed to the trie (and to debug logging) and to nothing else: whether a path is routed is the trie's answer alone", "the cleaned path is examined by "+n)
						}
					default:
						c.obI("R01.2", ref, "cleaned-path-only-asked-of-the-trie", false, "the cleaned path is handed to the trie (and to debug logging) and to nothing else: whether a path is routed is the trie's answer alone", "the cleaned path is used by "+describe(refValue(ref)))
					}
				}
			}
			visit(cl.Value(), 0)
		}
		if f == om {
			// every probe scans: no exit of OtherMethods lies in front of the scan over the routers (a method without a
			// router of its own is exactly the case the 405 answer exists for)
			for _, l := range mapLoops(f, vFieldLoad("rt/middleware.defaultRouter", "routers", nil)) {
				for _, r := range realReturns(f) {
					c.obI("R01.2", r, "other-methods-always-scans", !pathExists(f, nil, r, nil, isOneOf(l.Next)), "every return of OtherMethods lies behind the scan of the per-method routers", "OtherMethods can answer without having scanned the routers")
				}
			}
		}
		// the raw path takes part in no decision: it is only cleaned (or logged)
		for _, ref := range *pth.Referrers() {
			okUse, what := false, fmt.Sprintf("%v", ref)
			switch u := ref.(type) {
			case ssa.CallInstruction:
				okUse = calleeName(u.Common()) == "path.Clean"
				what = "call of " + calleeName(u.Common())
			case *ssa.MakeInterface:
				// formatted into a log line
				okUse = true
				n := 0
				for _, ci := range allCalls(f) {
					for _, arg := range ci.Common().Args {
						if elems, isLit := sliceLitElems(arg); isLit {
							for _, e := range elems {
								if e == ssa.Value(u) {
									n++
									isLog := strings.HasSuffix(calleeName(ci.Common()), "debugLogf")
									if ld, isLd := derefLoad(ci.Common().Value); isLd && !isLog {
										if fa, isFA := ld.(*ssa.FieldAddr); isFA {
											if nn, st := structOf(fa.X.Type()); st != nil {
												isLog = fieldNameOf(nn, st, fa.Field) == "debugLogf"
											}
										}
									}
									if !isLog {
										okUse, what = false, "formatted by "+calleeName(ci.Common())
									}
								}
							}
						}
					}
				}
				okUse = okUse && n > 0
			case *ssa.DebugRef:
				okUse = true
			}
			c.obI("R01.2", ref, "raw-path-only-cleaned", okUse, "the raw request path is used for nothing but path.Clean (and debug logging): no routing decision — found, not found, other methods — is taken on the uncleaned path", "the raw path is used by "+what)
		}
		// "the upper-cased method": a value all of whose origins are strings.ToUpper(method) — also through a helper
		// (a helper that hands the method back unchanged on some path contributes the raw parameter as an origin)
		var badUp *Origin
		isUp := func(v ssa.Value) bool {
			ok, bad := allOrigins(v, oCallWhere(0, "strings.ToUpper", func(sc *ssa.Call) bool {
				okA, _ := allOrigins(sc.Call.Args[0], oIsValue(method))
				return okA
			}))
			if !ok {
				badUp = bad
			}
			return ok
		}
		c.obRF("R01.2", f, "method-upper-cased", len(callSitesUnder(f, "strings.ToUpper")) >= 1, "the method is upper-cased before it selects a router", "")
		if f == lk {
			n := 0
			for _, in := range instrs(f) {
				l, ok := in.(*ssa.Lookup)
				if !ok || !vFieldLoad("rt/middleware.defaultRouter", "routers", nil)(l.X) {
					continue
				}
				n++
				okK := isUp(l.Index)
				c.obI("R01.2", l, "router-by-upper-method", okK, "the router is selected by the upper-cased method (in any letter case the same operation is selected)", "key "+describe(l.Index)+": origin "+describeOrigin(badUp))
			}
			c.obRF("R01.2", f, "selects-router", n == 1, "Lookup selects the method's router", "")
		} else {
			loops := mapLoops(f, vFieldLoad("rt/middleware.defaultRouter", "routers", nil))
			if len(loops) == 0 {
				// the scan runs over a fixed list of methods instead: definitely incomplete when it omits a method the
				// description can declare an operation under (a router exists for it, it is never asked)
				for _, sl := range sliceLoops(f, nil) {
					ad, isLoad := derefLoad(sl.X)
					g, isG := ad.(*ssa.Global)
					if !isLoad || !isG {
						continue
					}
					if list, okL := globalConstStrings(g); okL {
						have := map[string]bool{}
						for _, m := range list {
							have[strings.ToUpper(m)] = true
						}
						var missing []string
						for _, m := range []string{"GET", "PUT", "POST", "DELETE", "OPTIONS", "HEAD", "PATCH"} {
							if !have[m] {
								missing = append(missing, m)
							}
						}
						if len(missing) > 0 {
							c.obD("R01.2", sl.Test, "scans-every-declarable-method", false, "OtherMethods asks the router of every method an operation can be declared under (get, put, post, delete, options, head, patch)", "the scan runs over the fixed list "+short(g.String())+", which omits "+strings.Join(missing, ", "))
						}
					}
				}
			}
			c.obRF("R01.2", f, "scans-routers", len(loops) == 1, "OtherMethods scans every method's router", "")
			// the own method is excluded by comparison with the upper-cased method; every other router is probed
			for _, l := range loops {
				key := extractOf(l.Next, 1)
				notOwn := func(cond ssa.Value, branch bool) bool {
					cnd, b := stripNot(cond, branch)
					bo, ok := cnd.(*ssa.BinOp)
					if !ok || (bo.Op != token.EQL && bo.Op != token.NEQ) {
						return false
					}
					if !((bo.X == key && isUp(bo.Y)) || (bo.Y == key && isUp(bo.X))) {
						return false
					}
					return b == (bo.Op == token.NEQ)
				}
				for _, ci := range calls {
					c.obI("R01.2", ci, "own-method-excluded", guardedBy(ci, l.Next, notOwn), "the request's own (upper-cased) method is excluded from the Allow probe", "")
					skip := pathExists(f, l.Next, l.Next, func(cond ssa.Value, branch bool) bool { return notOwn(cond, !branch) }, isOneOf(ci))
					_ = skip
				}
				// appended method is the key under which the trie matched
				for _, in := range instrs(f) {
					call, ok := in.(*ssa.Call)
					if !ok || calleeName(&call.Call) != "builtin append" {
						continue
					}
					elems, _ := sliceLitElems(call.Call.Args[1])
					okA := len(elems) == 1 && elems[0] == key
					okG := len(calls) == 1 && guardedBy(call, calls[0], factBool(vIs(resultOf(calls[0].(*ssa.Call), 2)), true))
					c.obI("R01.2", call, "allow-lists-matching-methods", okA && okG, "a method is listed exactly when its trie matched the cleaned path", "")
				}
			}
		}
	}
	ar := p.Fn("(*rt/middleware.defaultRouteBuilder).AddRoute")
	for _, in := range instrs(ar) {
		mu, ok := in.(*ssa.MapUpdate)
		if !ok || !vFieldLoad("rt/middleware.defaultRouteBuilder", "records", nil)(mu.Map) {
			continue
		}
		okK, _ := allOrigins(mu.Key, oCallWhere(-1, "strings.ToUpper", func(u *ssa.Call) bool {
			okk, _ := allOrigins(u.Call.Args[0], oIsValue(paramOf(ar, 0)))
			return okk
		}))
		c.obI("R01.2", mu, "filed-under-upper-method", okK, "a route is filed under its upper-cased method", "key "+describe(mu.Key))
	}
	bd := p.Fn("(*rt/middleware.defaultRouteBuilder).Build")
	for _, l := range mapLoops(bd, vFieldLoad("rt/middleware.defaultRouteBuilder", "records", nil)) {
		key, val := extractOf(l.Next, 1), extractOf(l.Next, 2)
		// (a method whose record list is empty has nothing to route: skipping it is no loss)
		okEach := l.everyIterationUnless(factLenPositive(vIs(val), false), func(in ssa.Instruction) bool {
			mu, ok := in.(*ssa.MapUpdate)
			return ok && mu.Key == key
		})
		c.obI("R01.2", l.Next, "one-trie-per-method", okEach, "Build creates one trie per method key", "")
		for _, ci := range callsIn(bd, "(*rt/middleware/denco.Router).Build") {
			_, a := callArgs(ci.Common())
			c.obI("R01.2", ci, "trie-from-methods-records", a[0] == val, "each trie is built from exactly its method's records", "")
			recv, _ := callArgs(ci.Common())
			for _, in := range instrs(bd) {
				if mu, ok := in.(*ssa.MapUpdate); ok && mu.Key == key {
					c.obI("R01.2", mu, "stores-built-trie", sameOrigins(mu.Value, recv), "the trie stored for the method is the one built from its records", "")
				}
			}
		}
	}
	ruleEveryRecordedMethodRouted(c, "R01.2")
	c.min("R01.2", 12)

	// R01.3
	rulePathValuesDecodedOnce(c, "R01.3")

	// R01.4
	nr := callsIn(ar, "rt/middleware/denco.NewRecord")
	c.obRF("R01.4", ar, "creates-record", len(nr) == 1, "AddRoute creates one trie record", "")
	pathP := paramOf(ar, 1)
	for _, ci := range nr {
		a := ci.Common().Args
		ok, bad := allOrigins(a[0], oCallWhere(-1, "(*regexp.Regexp).ReplaceAllString", func(r *ssa.Call) bool {
			_, ra := callArgs(&r.Call)
			okS, _ := allOrigins(ra[0], oIsValue(pathP))
			rep, okR := constString(ra[1])
			recv, _ := callArgs(&r.Call)
			okRe := false
			if ld, isLd := derefLoad(recv); isLd {
				if g, isG := ld.(*ssa.Global); isG {
					okRe = g.Name() == "pathConverter"
				}
			}
			return okS && okR && rep == ":$1" && okRe
		}))
		c.obI("R01.4", ci, "template-converted", ok, "the trie key is the template with every {name}… segment converted to :name by pathConverter", "origin "+describeOrigin(bad))
	}
	for _, st := range fieldStores(ar, routeEntryT, "Handler") {
		ok, bad := allOrigins(st.Val, oCall(0, "(rt/middleware.RoutableAPI).HandlerFor"))
		c.obI("R01.4", st, "entry-handler", ok, "the entry's handler is the one the API returned for this operation", "origin "+describeOrigin(bad))
	}
	for _, st := range fieldStores(ar, routeEntryT, "PathPattern") {
		ok, _ := allOrigins(st.Val, oIsValue(pathP))
		c.obI("R01.4", st, "entry-pattern", ok, "the entry records the template it was registered under", "")
	}
	for _, st := range fieldStores(ar, routeEntryT, "Operation") {
		ok, _ := allOrigins(st.Val, oIsValue(paramOf(ar, 2)))
		c.obI("R01.4", st, "entry-operation", ok, "the entry records its operation", "")
	}
	ruleOperationLookedUpByRelativePath(c, "R01.4")
	dr := p.Fn("rt/middleware.DefaultRouter")
	adds := callsIn(dr, "(*rt/middleware.defaultRouteBuilder).AddRoute")
	c.obRF("R01.4", dr, "routes-operations", len(adds) == 1, "DefaultRouter routes the spec's operations", "")
	for _, ci := range adds {
		_, a := callArgs(ci.Common())
		okJ, bad := allOrigins(a[1], oCallWhere(-1, "path.Join", func(j *ssa.Call) bool {
			elems, okk := sliceLitElems(j.Call.Args[0])
			if !okk || len(elems) != 2 {
				return false
			}
			okB, _ := allOrigins(elems[0], oCall(-1, "(*github.com/go-openapi/loads.Document).BasePath"))
			return okB
		}))
		c.obI("R01.4", ci, "base-path-joined", okJ, "every operation is routed at path.Join(basePath, template)", "origin "+describeOrigin(bad))
		for _, l := range mapLoops(dr, nil) {
			if !l.everyIteration(isOneOf(ci)) && pathExists(dr, l.Next, ci, nil, nil) && l.Header.Dominates(ci.Block()) {
				// only the innermost loop must reach AddRoute on every iteration
				inner := true
				for _, l2 := range mapLoops(dr, nil) {
					if l2.Header != l.Header && l.Header.Dominates(l2.Header) {
						inner = false
					}
				}
				if inner {
					c.obI("R01.4", l.Next, "every-operation-routed", false, "every (method, template) of the spec is routed", "an operation can be skipped")
				}
			}
		}
	}
	c.min("R01.4", 7)

	// R01.5
	nrt := p.Fn("rt/middleware.NewRouter")
	h := c.theHandlerClosure(nrt)
	ris := callsIn(h, "(*rt/middleware.Context).RouteInfo")
	c.obRF("R01.5", h, "asks-route", len(ris) == 1, "the router middleware asks for the route once", "")
	if len(ris) == 1 {
		ri := ris[0].(*ssa.Call)
		okv, rctx := resultOf(ri, 2), resultOf(ri, 1)
		for _, n := range callsIn(h, "(net/http.Handler).ServeHTTP") {
			_, a := callArgs(n.Common())
			g := okv != nil && guardedBy(n, ri, factBool(vIs(okv), true))
			okR, _ := allOrigins(a[1], oIsValue(rctx))
			c.obI("R01.5", n, "next-only-when-matched", g, "the next handler runs only when a route matched", "next.ServeHTTP reachable without a match")
			c.obI("R01.5", n, "next-gets-routed-request", okR && rctx != nil, "the next handler receives the request that carries the matched route", "")
		}
		ams := callsIn(h, "(*rt/middleware.Context).AllowedMethods")
		for _, e := range callsIn(h, "github.com/go-openapi/errors.MethodNotAllowed") {
			okA := len(ams) == 1
			if okA {
				okA, _ = allOrigins(e.Common().Args[1], oIsValue(ams[0].Value()))
				okA = okA && guardedBy(e, ams[0], factLenPositive(vIs(ams[0].Value()), true))
			}
			okM := vFieldLoadO("net/http.Request", "Method")(e.Common().Args[0])
			c.obI("R01.5", e, "405-lists-other-methods", okA && okM, "405 is answered only with the non-empty list of methods under which the path does match, for the request's method", "")
			c.obI("R01.5", e, "405-only-unmatched", okv != nil && guardedBy(e, ri, factBool(vIs(okv), false)), "405 is answered only when no route matched under the request's method", "")
		}
		for _, e := range callsIn(h, "github.com/go-openapi/errors.NotFound") {
			okN := len(ams) == 1 && guardedBy(e, ams[0], factLenPositive(vIs(ams[0].Value()), false))
			c.obI("R01.5", e, "404-only-when-no-method-matches", okN && okv != nil && guardedBy(e, ri, factBool(vIs(okv), false)), "404 is answered only when the path matches under no method", "")
		}
		// every request gets exactly one of the three answers
		for _, r := range returnsOf(h) {
			silent := pathExists(h, nil, r, nil, isCallInstrTo("(net/http.Handler).ServeHTTP", "(*rt/middleware.Context).Respond"))
			c.obI("R01.5", r, "always-answers", !silent, "every request is either dispatched or answered 404/405", "")
		}
	}
	oe := p.Fn("rt/middleware.NewOperationExecutor")
	oh := c.theHandlerClosure(oe)
	for _, n := range callsIn(oh, "(net/http.Handler).ServeHTTP") {
		recv, _ := callArgs(n.Common())
		ok := vFieldLoad(routeEntryT, "Handler", nil)(recv)
		okRoute := false
		if ok {
			if ld, isLd := derefLoad(recv); isLd {
				root, _, _, _ := chainRoot(ld)
				okRoute, _ = allOrigins(root, oCall(0, "(*rt/middleware.Context).RouteInfo"))
			}
		}
		c.obI("R01.5", n, "executes-matched-routes-handler", ok && okRoute, "the operation executor invokes the handler of the route matched for this request", "receiver "+describe(recv))
	}
	c.min("R01.5", 9)

	// R01.6 bounds
	checkBounds(c, "R01.6", []*ssa.Function{lk, p.Fn("rt/middleware.decodeCompositParams"), ar, om}, c01Table)
	c.min("R01.6", 8)

	// R01.8 structural rules of the trie the dispatch relies on (shared with C05)
	dencoStructural(c, "R01.8", "R01.8", "R01.8", "R01.8")

	// R01.7 composite detection offset
	for _, ci := range callsIn(lk, "strings.Index") {
		a := ci.Common().Args
		if !vFieldLoad(routeEntryT, "PathPattern", nil)(a[0]) && !vFieldLoadO(routeEntryT, "PathPattern")(a[0]) {
			continue
		}
		lit := -1
		var name ssa.Value
		if sp := asCall(a[1]); sp != nil && calleeName(&sp.Call) == "fmt.Sprintf" {
			fm, ok := constString(sp.Call.Args[0])
			elems, okE := sliceLitElems(sp.Call.Args[1])
			if ok && okE && len(elems) == 1 && strings.Count(fm, "%s") == 1 && strings.Count(fm, "%") == 1 {
				lit = len(fm) - 2
				name = unboxed(elems[0])
			}
		} else {
			lit, name = concatLiteral(a[1])
		}
		okOff := false
		why := "the searched text is not a literal around the parameter name"
		if lit >= 0 && name != nil {
			why = "no `index + len(name) + K` offset found"
			for _, ref := range *ci.Value().Referrers() {
				b1, ok := ref.(*ssa.BinOp)
				if !ok || b1.Op != token.ADD {
					continue
				}
				other := b1.Y
				if b1.Y == ci.Value() {
					other = b1.X
				}
				if l, isLen := lenOf(other); isLen && (l == a[1] || sameVal(l, a[1])) {
					// index + len(<the very text searched>): right after the placeholder by construction
					okOff, why = true, ""
					continue
				}
				if l, isLen := lenOf(other); !isLen || !sameVal(l, name) {
					continue
				}
				for _, ref2 := range *b1.Referrers() {
					b2, ok := ref2.(*ssa.BinOp)
					if !ok || b2.Op != token.ADD {
						continue
					}
					k, okK := constInt(b2.Y)
					if okK {
						okOff = int(k) == lit
						why = fmt.Sprintf("the text searched has %d literal bytes around the name but the offset adds %d", lit, k)
					}
				}
			}
		}
		c.obI("R01.7", ci, "composite-offset-consistent", okOff, "the position after the placeholder is index + len(name) + (number of literal bytes searched around the name): the composite-placeholder test looks at the byte right after the closing brace of THIS placeholder", why)
	}
	c.min("R01.7", 1)
}

// concatLiteral: v is "lit1" + name + "lit2" (either literal optional); returns total literal length and name.
func concatLiteral(v ssa.Value) (int, ssa.Value) {
	lit := 0
	var name ssa.Value
	var walk func(x ssa.Value) bool
	walk = func(x ssa.Value) bool {
		if s, ok := constString(x); ok {
			lit += len(s)
			return true
		}
		if bo, ok := x.(*ssa.BinOp); ok && bo.Op == token.ADD {
			return walk(bo.X) && walk(bo.Y)
		}
		if name != nil {
			return false
		}
		name = x
		return true
	}
	if !walk(v) || name == nil {
		return -1, nil
	}
	return lit, name
}

// rulePathValuesDecodedOnce (shared by C01 and C03): the values path parameters are bound from are the PathUnescape of
// the text the trie captured, decoded exactly once, every capture handed on.
func rulePathValuesDecodedOnce(c *Ctx, rule string) {
	p := c.P
	lk := p.Fn("(*rt/middleware.defaultRouter).Lookup")
	isCaptured := vFieldLoad(dencoParamT, "Value", nil)
	unesc := callsIn(lk, "net/url.PathUnescape")
	c.obRF(rule, lk, "unescapes", len(unesc) == 1, "captured values are percent-decoded", fmt.Sprintf("%d PathUnescape calls", len(unesc)))
	// whatever the shape: the captured text is decoded by url.PathUnescape and nothing else ('+' stays '+'), and a value
	// handed on is never the raw captured text when no decoding is attempted at all
	for _, ci := range allCalls(lk) {
		n := calleeName(ci.Common())
		if !strings.HasPrefix(n, "net/url.") || !strings.Contains(n, "nescape") || len(ci.Common().Args) == 0 {
			continue
		}
		if !isCaptured(ci.Common().Args[0]) && !vFieldLoadO(dencoParamT, "Value")(ci.Common().Args[0]) {
			continue
		}
		c.obI(rule, ci, "decoded-as-a-path-segment", n == "net/url.PathUnescape", "a captured path segment is decoded with url.PathUnescape (query decoding would turn '+' into a space)", "decoded with "+n)
	}
	if len(unesc) == 0 {
		for _, st := range fieldStores(lk, routeParamT, "Value") {
			if okRaw, _ := allOrigins(st.Val, func(o Origin) bool { return isCaptured(o.V) }); okRaw {
				c.obI(rule, st, "value-decoded-once", false, "a path-parameter value is the PathUnescape of the captured text", "the raw (still encoded) captured text is handed on and nothing decodes it")
			}
		}
	}
	if len(unesc) == 1 {
		u := unesc[0].(*ssa.Call)
		c.obI(rule, u, "unescapes-captured-text", isCaptured(u.Call.Args[0]), "the text decoded is the text the trie captured", "argument "+describe(u.Call.Args[0]))
		uerr := resultOf(u, 1)
		decoded := func(o Origin) bool { return o.V == ssa.Value(u) && o.Index == 0 }
		raw := func(o Origin) bool { return isCaptured(o.V) }
		isV := func(v ssa.Value) (bool, string) {
			ok, bad := allOrigins(v, decoded, raw)
			if !ok {
				return false, "origin " + describeOrigin(bad)
			}
			// raw only on the error branch
			if phi, isPhi := v.(*ssa.Phi); isPhi {
				for i, e := range phi.Edges {
					if okR, _ := allOrigins(e, raw); okR {
						if uerr == nil || !edgeGuarded(phi.Block().Preds[i], phi.Block(), u, factNil(vIs(uerr), false)) {
							return false, "the raw (still encoded) text can be handed on although decoding succeeded"
						}
					}
				}
			} else if okR, _ := allOrigins(v, raw); okR {
				return false, "the raw (still encoded) text is handed on"
			}
			return true, ""
		}
		dcs := callsIn(lk, "rt/middleware.decodeCompositParams")
		nVal := 0
		for _, st := range fieldStores(lk, routeParamT, "Value") {
			nVal++
			if ok, why := isV(st.Val); ok {
				c.obI(rule, st, "value-decoded-once", true, "a path-parameter value is the PathUnescape of the captured text (raw text only when decoding failed)", why)
				continue
			}
			// element of decodeCompositParams' values
			okC := false
			if ld, isLd := st.Val.(*ssa.UnOp); isLd {
				if ia, isIA := ld.X.(*ssa.IndexAddr); isIA {
					okC, _ = allOrigins(ia.X, oCall(1, "rt/middleware.decodeCompositParams"))
				}
			}
			_, why := isV(st.Val)
			c.obI(rule, st, "value-decoded-once", okC, "a path-parameter value is the PathUnescape of the captured text, directly or split by the composite decoder", why)
		}
		c.obRF(rule, lk, "hands-values-on", nVal >= 2, "Lookup builds RouteParams", "")
		// whether a capture is handed on whole or split by the composite decoder is decided for THAT capture from the
		// template text behind its placeholder (nothing follows it in its segment): a value is taken whole only behind
		// the failure of that test — not on the strength of a per-route flag computed from another placeholder
		{
			isPattern := vFieldLoadO(routeEntryT, "PathPattern")
			nothingFollows := func(cond ssa.Value, branch bool) bool {
				cnd, b := stripNot(cond, branch)
				bo, ok := cnd.(*ssa.BinOp)
				if !ok {
					return false
				}
				isLen := func(v ssa.Value) bool {
					Y, isL := lenOf(v)
					return isL && isPattern(Y)
				}
				isByte := func(v ssa.Value) bool {
					switch x := v.(type) {
					case *ssa.Lookup:
						return isPattern(x.X)
					case *ssa.Index:
						return isPattern(x.X)
					case *ssa.UnOp:
						if ia, isIA := x.X.(*ssa.IndexAddr); isIA && x.Op == token.MUL {
							return isPattern(ia.X)
						}
					}
					return false
				}
				slash := func(v ssa.Value) bool { k, isK := constInt(v); return isK && k == '/' }
				switch {
				case isLen(bo.Y): // xpos OP len
					return bo.Op == token.LSS && !b || bo.Op == token.GEQ && b
				case isLen(bo.X): // len OP xpos
					return bo.Op == token.GTR && !b || bo.Op == token.LEQ && b
				case isByte(bo.X) && slash(bo.Y), isByte(bo.Y) && slash(bo.X):
					return bo.Op == token.EQL && b || bo.Op == token.NEQ && !b
				}
				return false
			}
			for _, l := range sliceLoops(lk, vOrigins(oCall(1, "(*rt/middleware/denco.Router).Lookup"))) {
				for _, st := range fieldStores(lk, routeParamT, "Value") {
					if ok, _ := isV(st.Val); !ok || !l.Header.Dominates(st.Block()) {
						continue
					}
					c.obI(rule, st, "whole-value-only-when-nothing-follows-the-placeholder", guardedBy(st, l.Body, nothingFollows), "a captured value is handed on unsplit only when the template has nothing but '/' or its end behind this very placeholder", "a capture can be handed on whole without the template having been examined behind its placeholder")
				}
			}
		}
		for _, d := range dcs {
			a := d.Common().Args
			okN := vFieldLoad(dencoParamT, "Name", nil)(a[0])
			okV, why := isV(a[1])
			c.obI(rule, d, "composite-decoder-input", okN && okV && isNilConst(a[3]) && isNilConst(a[4]), "the composite decoder splits the decoded value of this capture", why)
		}
		for _, st := range fieldStores(lk, routeParamT, "Name") {
			ok := vFieldLoad(dencoParamT, "Name", nil)(st.Val)
			if !ok {
				if ld, isLd := st.Val.(*ssa.UnOp); isLd {
					if ia, isIA := ld.X.(*ssa.IndexAddr); isIA {
						ok, _ = allOrigins(ia.X, oCall(0, "rt/middleware.decodeCompositParams"))
					}
				} else if ex, isEx := st.Val.(*ssa.Extract); isEx {
					_ = ex
				}
				if !ok {
					// range value over decodeCompositParams #0
					for _, o := range originsOf(st.Val) {
						if ad, isD := derefLoad(o.V); isD {
							if ia, isIA := ad.(*ssa.IndexAddr); isIA {
								ok, _ = allOrigins(ia.X, oCall(0, "rt/middleware.decodeCompositParams"))
							}
						}
					}
				}
			}
			c.obI(rule, st, "name-from-trie-or-decoder", ok, "parameter names come from the trie's capture or from the composite decoder", "name "+describe(st.Val))
		}
		// params of the matched route are exactly the accumulated list
		for _, st := range fieldStores(lk, matchedRouteT, "Params") {
			c.obI(rule, st, "params-are-accumulated", freshSlice(st.Val, 0), "the matched route carries the list built from every capture", "")
		}
		for _, l := range sliceLoops(lk, vOrigins(oCall(1, "(*rt/middleware/denco.Router).Lookup"))) {
			okAll := l.everyIteration(func(in ssa.Instruction) bool {
				call, ok := in.(*ssa.Call)
				if !ok {
					return false
				}
				n := calleeName(&call.Call)
				return n == "rt/middleware.decodeCompositParams" || (n == "builtin append" && typeStr(call.Type()) == "rt/middleware.RouteParams")
			})
			c.obI(rule, l.Elem, "every-capture-handed-on", okAll, "every captured parameter yields at least one route parameter", "a capture can be dropped")
		}
	}
	// values are read back by their exact name: the entry GetOK answers with is one whose Name equals the name asked for
	{
		g := p.Fn("(rt/middleware.RouteParams).GetOK")
		name := paramOf(g, 0)
		exact := func(cond ssa.Value, branch bool) bool {
			cnd, b := stripNot(cond, branch)
			bo, ok := cnd.(*ssa.BinOp)
			if !ok || (bo.Op != token.EQL && bo.Op != token.NEQ) {
				return false
			}
			isName := vOrigins(oIsValue(name))
			isField := vFieldLoad(routeParamT, "Name", nil)
			if !((isName(bo.X) && isField(bo.Y)) || (isName(bo.Y) && isField(bo.X))) {
				return false
			}
			return b == (bo.Op == token.EQL)
		}
		n := 0
		for _, r := range returnsOf(g) {
			if len(r.Results) < 3 {
				continue
			}
			if b, isK := constBool(r.Results[1]); isK && !b {
				continue
			}
			n++
			// … and what it hands out is the stored value itself: decoding happened once, in Lookup
			if elems, isLit := sliceLitElems(r.Results[0]); isLit {
				for _, e := range elems {
					okV, bad := allOrigins(e, oFieldLoad(routeParamT, "Value", nil))
					c.obI(rule, r, "stored-value-handed-out-verbatim", okV, "RouteParams.GetOK returns the stored value as it is (the router decoded it exactly once: a second decoding turns %2541 into A)", "origin "+describeOrigin(bad))
				}
			}
			c.obI(rule, r, "value-read-by-exact-name", guardedBy(r, nil, exact), "RouteParams.GetOK answers 'present' only for an entry whose name is exactly the name asked for (two placeholders whose names differ in letter case keep their own values)", "a 'present' answer is reachable without the comparison entry.Name == name")
		}
		c.obRF(rule, g, "getok-can-answer", n >= 1, "GetOK has a 'present' answer", "")
	}
	c.min(rule, 10)
}

// ruleOperationLookedUpByRelativePath: AddRoute asks the API for the handler, and the analyzer for the parameters, of
// (method, strings.TrimPrefix(path, basePath)) — the operation's own template: the base path is taken off the FRONT,
// once (a Replace / ReplaceAll also rewrites templates that merely contain the base path's text: "." when there is no
// base path). Shared by C01 (dispatch) and C19 (a validated API serves every declared operation).
func ruleOperationLookedUpByRelativePath(c *Ctx, rule string) {
	ar := c.P.Fn("(*rt/middleware.defaultRouteBuilder).AddRoute")
	pathP := paramOf(ar, 1)
	isRel := oCallWhere(-1, "strings.TrimPrefix", func(t *ssa.Call) bool {
		okk, _ := allOrigins(t.Call.Args[0], oIsValue(pathP))
		return okk
	})
	n := 0
	for _, ci := range callsIn(ar, "(rt/middleware.RoutableAPI).HandlerFor") {
		n++
		_, a := callArgs(ci.Common())
		okM, _ := allOrigins(a[0], oIsValue(paramOf(ar, 0)))
		okP, bad := allOrigins(a[1], isRel)
		c.obI(rule, ci, "handler-for-operation", okM && okP, "the handler is looked up for (method, template without base path)", "path argument: origin "+describeOrigin(bad))
	}
	for _, ci := range callsIn(ar, "(*github.com/go-openapi/analysis.Spec).ParamsFor") {
		_, a := callArgs(ci.Common())
		okP, bad := allOrigins(a[1], isRel)
		c.obI(rule, ci, "parameters-for-operation", okP, "the parameters are those the analyzer lists for (method, template without base path)", "path argument: origin "+describeOrigin(bad))
	}
	c.obRF(rule, ar, "asks-for-handler", n >= 1, "AddRoute asks the API for the operation's handler", "")
}

// ruleCompositeDecoderFits: the composite decoder (a path segment mixing parameters and literal text, /files/{name}.json)
// yields for each parameter either a piece of the captured text cut out BEHIND the test that the template's literal
// text is really there (HasSuffix / Index >= 0 / CutSuffix ok), or the empty value: text that does not fit the
// template never becomes a parameter value (the required-parameter check then refuses the request). Shared by C01
// (dispatch hands on the captured values) and C03 (binding reads them).
func ruleCompositeDecoderFits(c *Ctx, rule string) {
	ruleCompositeSearchBraced(c, rule)
	f := c.P.Fn("rt/middleware.decodeCompositParams")
	value := paramOf(f, 1)
	isValue := vOrigins(oIsValue(value), oConstString("")) // (as a loop: the rest of the captured text, or "" once nothing is left)
	found := func(cond ssa.Value, branch bool) bool {
		cnd, b := stripNot(cond, branch)
		// strings.HasSuffix(value, lit) / HasPrefix / Contains is true
		if call := asCall(cnd); call != nil {
			switch calleeName(&call.Call) {
			case "strings.HasSuffix", "strings.HasPrefix", "strings.Contains":
				return b && isValue(call.Call.Args[0])
			}
		}
		// the ok of strings.CutSuffix / CutPrefix / Cut
		if ex, isEx := cnd.(*ssa.Extract); isEx {
			if call := asCall(ex.Tuple); call != nil {
				switch calleeName(&call.Call) {
				case "strings.CutSuffix", "strings.CutPrefix", "strings.Cut":
					return b && ex.Index == call.Type().(*types.Tuple).Len()-1 && isValue(call.Call.Args[0])
				}
			}
		}
		// strings.Index(value, lit) >= 0 (in its spellings)
		bo, ok := cnd.(*ssa.BinOp)
		if !ok {
			return false
		}
		isIdx := func(v ssa.Value) bool {
			call := asCall(v)
			if call == nil {
				return false
			}
			n := calleeName(&call.Call)
			return (n == "strings.Index" || n == "strings.LastIndex") && isValue(call.Call.Args[0])
		}
		k, isK := constInt(bo.Y)
		if !isK || !isIdx(bo.X) {
			return false
		}
		switch bo.Op {
		case token.GEQ:
			return k == 0 && b
		case token.GTR:
			return k == -1 && b
		case token.LSS:
			return k == 0 && !b
		case token.NEQ:
			return k == -1 && b
		case token.EQL:
			return k == -1 && !b
		}
		return false
	}
	n := 0
	for _, ci := range callsIn(f, "builtin append") {
		call, ok := ci.(*ssa.Call)
		if !ok || ci.Parent() != f || typeStr(call.Type()) != "[]string" {
			continue
		}
		if isVals, _ := allOrigins(call.Call.Args[0], oIsValue(paramOf(f, 4)), oCall(-1, "builtin append")); !isVals {
			continue
		}
		if isNames, _ := allOrigins(call.Call.Args[0], oIsValue(paramOf(f, 3))); isNames {
			continue
		}
		elems, isLit := sliceLitElems(call.Call.Args[1])
		if !isLit {
			continue
		}
		for _, e := range elems {
			if s, isC := constString(e); isC && s == "" {
				continue
			}
			n++
			okE := false
			why := "the value appended is " + describe(e)
			switch x := e.(type) {
			case *ssa.Slice:
				okE = isValue(x.X) && guardedBy(call, nil, found)
				if !okE {
					why = "a piece of the captured text is taken although the template's literal was not found in it"
				}
			case *ssa.Extract:
				// before, _ := strings.CutSuffix(value, lit) behind ok
				if cc := asCall(x.Tuple); cc != nil && strings.HasPrefix(calleeName(&cc.Call), "strings.Cut") {
					okE = isValue(cc.Call.Args[0]) && guardedBy(call, nil, found)
				}
			}
			c.obI(rule, call, "composite-value-only-when-literal-fits", okE, "a composite segment yields a piece of the captured text only behind the test that the template's literal text is present (otherwise the empty value): text that does not fit the template never becomes a parameter value", why)
		}
	}
	c.obRF(rule, f, "composite-decoder-cuts-values", n >= 2, "the composite decoder cuts the parameter values out of the captured text", fmt.Sprintf("%d cut values", n))
}

// ruleCompositeSearchBraced: Lookup decides whether a path parameter is a fragment of a composite segment by finding
// the parameter in the route's template — as "{name}", braces included. The bare name also occurs in literal segments
// (/videos/{id}), and a hit there makes an ordinary parameter be cut like a fragment.
func ruleCompositeSearchBraced(c *Ctx, rule string) {
	lk := c.P.Fn("(*rt/middleware.defaultRouter).Lookup")
	if lk == nil {
		return
	}
	isPattern := vFieldLoadO(routeEntryT, "PathPattern")
	var braced func(v ssa.Value, d int) (yes, decided bool)
	braced = func(v ssa.Value, d int) (bool, bool) {
		if d > 4 {
			return false, false
		}
		switch x := v.(type) {
		case *ssa.Call:
			if calleeName(&x.Call) == "fmt.Sprintf" {
				if fm, ok := constString(x.Call.Args[0]); ok {
					return strings.HasPrefix(fm, "{%") && strings.HasSuffix(fm, "}"), true
				}
			}
			if calleeName(&x.Call) == "strings.Join" {
				return false, false
			}
		case *ssa.BinOp:
			if x.Op == token.ADD {
				// "{" + name + "}"
				l, r := x.X, x.Y
				if lb, isB := l.(*ssa.BinOp); isB && lb.Op == token.ADD {
					if a, ok := constString(lb.X); ok {
						if z, ok2 := constString(r); ok2 {
							return a == "{" && z == "}", true
						}
					}
				}
				if a, ok := constString(l); ok {
					if rb, isB := r.(*ssa.BinOp); isB && rb.Op == token.ADD {
						if z, ok2 := constString(rb.Y); ok2 {
							return a == "{" && z == "}", true
						}
					}
				}
			}
		case *ssa.UnOp, *ssa.Field, *ssa.Extract:
			// the parameter's bare name (a field of the matched parameter)
			if _, isStr := v.Type().Underlying().(*types.Basic); isStr {
				os := originsOf(v)
				if len(os) == 1 {
					if _, isF := os[0].V.(*ssa.Field); isF {
						return false, true
					}
					if u, isU := os[0].V.(*ssa.UnOp); isU {
						if _, isFA := u.X.(*ssa.FieldAddr); isFA {
							return false, true
						}
					}
				}
			}
		}
		return false, false
	}
	n := 0
	for _, ci := range callsIn(lk, "strings.Index") {
		call, ok := ci.(*ssa.Call)
		if !ok || !isPattern(call.Call.Args[0]) {
			continue
		}
		n++
		yes, decided := braced(call.Call.Args[1], 0)
		what := "a path parameter is located in the route template as \"{name}\", braces included: the bare name also matches literal segments"
		if decided {
			c.obI(rule, call, "template-searched-for-braced-name", yes, what, "the template is searched for "+describe(call.Call.Args[1]))
		} else {
			c.obRI(rule, call, "template-searched-for-braced-name", false, what, "needle "+describe(call.Call.Args[1]))
		}
	}
	c.obRF(rule, lk, "locates-parameter-in-template", n >= 1, "Lookup locates each parameter in the route's template", "")
}

// ruleEveryRecordedMethodRouted (shared by C01 and C19): Build turns the records of EVERY method AddRoute filed into a
// trie — it ranges over the table of records itself. A fixed list of methods (GET, HEAD, POST …) leaves the operations
// declared under any other method (OPTIONS, TRACE, a custom one) without a route although their handlers are registered.
func ruleEveryRecordedMethodRouted(c *Ctx, rule string) {
	bd := c.P.Fn("(*rt/middleware.defaultRouteBuilder).Build")
	isRecords := func(v ssa.Value) bool {
		return vFieldLoad("rt/middleware.defaultRouteBuilder", "records", nil)(v) || vFieldLoadO("rt/middleware.defaultRouteBuilder", "records")(v)
	}
	what := "Build ranges over the recorded methods themselves: every method that has records gets its trie"
	if len(mapLoops(bd, isRecords)) >= 1 {
		c.obF(rule, bd, "every-recorded-method-routed", true, what, "")
		return
	}
	// the table is looked up under keys taken from somewhere else
	for _, in := range instrs(bd) {
		lk, ok := in.(*ssa.Lookup)
		if !ok || !isRecords(lk.X) {
			continue
		}
		fixed := false
		for _, o := range originsOf(lk.Index) {
			if _, isK := o.V.(*ssa.Const); isK {
				fixed = true
			}
			if ad, isLd := derefLoad(o.V); isLd {
				if ia, isIA := ad.(*ssa.IndexAddr); isIA {
					for _, o2 := range originsOf(ia.X) {
						if ad2, isLd2 := derefLoad(o2.V); isLd2 {
							if _, isG := ad2.(*ssa.Global); isG {
								fixed = true
							}
						}
						if _, isAl := o2.V.(*ssa.Alloc); isAl {
							if elems, isLit := sliceLitElems(ia.X); isLit && len(elems) > 0 {
								fixed = true
							}
						}
					}
				}
			}
		}
		if fixed {
			c.obD(rule, lk, "every-recorded-method-routed", false, what, "the records are looked up under a fixed list of methods: records filed under any other method never become a router")
			return
		}
	}
	c.obRF(rule, bd, "every-recorded-method-routed", false, what, "no loop over the records table found")
}
