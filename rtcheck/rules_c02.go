package main

import (
	"fmt"
	"strings"

	"golang.org/x/tools/go/ssa"
)

const (
	matchedRouteT = "rt/middleware.MatchedRoute"
	routeEntryT   = "rt/middleware.routeEntry"
	routeAuthT    = "rt/middleware.RouteAuthenticator"
	ctxKeyT       = "rt/middleware.contextKey"
)

func init() {
	register(&Property{
		ID: "C02",
		Explanation: "Decides the control-flow shape of the security interpreter for ALL requirement structures and outcome vectors (the code is a fixed interpreter over them): " +
			"Round 12: once BasicAuth() reported credentials the application's callback is asked on every path (no answer in its place). " +
			"R02.1 an operation with security requirements is registered wrapped by newSecureAPI, and the operation handler runs only when binding reported no error; " +
			"R02.2 in the secure wrapper the next handler is reached only when no authentication is needed or after Context.Authorize returned a nil error, with the request Authorize returned, and the wrapper cannot reach binding code except through next; " +
			"R02.3 (AND) after consulting a scheme, a satisfied return is reached only through applies==true and err==nil of that scheme, a not-applicable scheme makes the group not applicable, the error returned is the scheme's, the principal is a scheme's, the admitting group is recorded, and every scheme of the group consults an authenticator (KNOWN FINDING on today's tree: unregistered schemes are skipped); " +
			"R02.4 (OR) an alternative admits only with applies && err==nil && principal!=nil, a recorded rejection is never overwritten by a nil error, the anonymous alternative admits only if no rejection was recorded; " +
			"R02.5 Context.Authorize admits only after Authenticate applied without error with a principal (or anonymous) and after the registered authorizer accepted that very principal; principal and scopes stored in the request context come from the satisfied alternative; refusals carry the scheme's error, 401, the authorizer's error or 403; " +
			"R02.6 buildAuthenticators creates one group per requirement with every scheme and its scopes and flags anonymity only for the single empty requirement. " +
			"R02.3 also: after a scheme was consulted the principal carried on is that scheme's own (a later nil principal is not masked by an earlier one). " +
			"R02.3 also: the authenticator always receives a fresh security.ScopedAuthRequest; R02.6 also: each alternative's scheme list and scopes table are allocated inside that alternative's iteration. " +
			"R02.2 also: AuthenticatorsFor reads the registry under the security definition's own name, never a key taken from the scheme. " +
			"R02.5 also: a 403 replaces the authorizer's error only when that error is no errors.Error; R02.6 also: the scope union visits every entry of every list. " +
			"R02.2 also: every definition handed to AuthenticatorsFor is looked up in the registry. " +
			"NOT decided: behaviour of user-supplied authenticators/authorizers; the content of the analyzed spec (go-openapi/analysis).",
		Assumptions: []string{"analysis.Spec.SecurityRequirementsFor returns the operation's requirement alternatives as documented"},
		Run:         runC02,
	})
}

func runC02(c *Ctx) {
	ruleR02_3(c)
	ruleR02_4(c)
	ruleR02_5(c)
	ruleR02_2(c)
	ruleR02_1(c)
	ruleRouteAuthenticatorsBuilt(c, "R02.6")
	ruleRoutableAPIDelegates(c, "R02.2", "Authorizer", "AuthenticatorsFor")
	ruleAuthenticatorsByDefinitionName(c, "R02.2")
	ruleBasicAlwaysAsksCallback(c, "R02.3")
	// the scopes a satisfied alternative hands to the handler are the union of ALL its schemes' scopes: the helper that
	// builds the union visits every entry of every list (a duplicate is skipped, never a reason to stop)
	if su := c.P.FnOpt("rt/middleware.stringSliceUnion"); su != nil {
		ls := sliceLoops(su, nil)
		c.obRF("R02.6", su, "union-loops", len(ls) >= 2, "stringSliceUnion ranges over the lists and over each list's entries", fmt.Sprintf("%d loops", len(ls)))
		for _, l := range ls {
			c.obI("R02.6", l.Test, "union-visits-every-entry", l.noEarlyExit(), "the scope union leaves its loops only when the elements are exhausted: no entry after a duplicate is dropped", "a loop of stringSliceUnion can be left from its body (break/return): the entries that follow are lost")
		}
	}
	ruleBearerCallbackGetsScopes(c, "R02.6")
	ruleHandlerTableRead(c, "R02.1")
	ruleResetAuthShadows(c, "R02.5")
	ruleAuthorizeErrorsVerbatim(c, "R02.5")
	// every route carries the registered authorizer — whatever its security requirements look like (an operation that
	// also admits anonymous callers still has its authenticated principals authorized)
	{
		ar := c.P.Fn("(*rt/middleware.defaultRouteBuilder).AddRoute")
		n := 0
		for _, st := range fieldStores(ar, routeEntryT, "Authorizer") {
			n++
			ok, bad := allOrigins(st.Val, oCall(-1, "(rt/middleware.RoutableAPI).Authorizer"))
			c.obI("R02.2", st, "route-carries-registered-authorizer", ok, "the route entry's Authorizer is what the API's Authorizer() returned, unconditionally", "origin "+describeOrigin(bad))
		}
		c.obRF("R02.2", ar, "route-gets-authorizer", n >= 1, "AddRoute records the authorizer in the route entry", "")
	}
	ruleAlternativeStorageFresh(c, "R02.6")
	ruleFreshMatchedRoute(c, "R02.5", "the matched route — in which Authorize records the authenticator that accepted the request, and on which NeedsAuth answers — is allocated for one lookup: what one request presented never decides another request's authentication", "the route returned by Lookup outlives the request (its Authenticator field would carry one request's outcome to the next)")
}

func isInvokeOf(names ...string) func(ssa.Instruction) bool { return isCallInstrTo(names...) }

// R02.3 — AND over the schemes of one alternative.
func ruleR02_3(c *Ctx) {
	f := c.P.Fn("(*rt/middleware.RouteAuthenticator).Authenticate")
	recv := f.Params[0]
	const authCall = "(rt.Authenticator).Authenticate"
	calls := callsIn(f, authCall)
	c.obRF("R02.3", f, "consults-authenticators", len(calls) >= 1, "the AND group consults the registered authenticators", "no call of runtime.Authenticator.Authenticate found")
	rets := returnsOf(f)
	// an alternative that does not apply leaves no trace on the matched route: route.Authenticator is assigned only on
	// the way to an applying exit (NeedsAuth() reads it: a not-applicable alternative that marked the route would make a
	// later consultation of the same route skip authentication)
	for _, st := range fieldStores(f, matchedRouteT, "Authenticator") {
		for _, r := range rets {
			if b, isB := constBool(r.Results[0]); isB && !b {
				c.obI("R02.3", st, "route-marked-only-by-an-applying-alternative", !pathExists(f, st, r, nil, nil), "route.Authenticator is assigned only where the group goes on to report applies == true", "after marking the route the group can still answer 'not applicable'")
			}
		}
	}
	for _, ci := range calls {
		a := ci.(*ssa.Call)
		applies, princ, err := resultOf(a, 0), resultOf(a, 1), resultOf(a, 2)
		_ = princ
		if applies == nil || err == nil {
			c.obI("R02.3", a, "results-used", false, "applies and err of every scheme are examined", "a result of the authenticator call is dropped")
			continue
		}
		for _, r := range rets {
			if !pathExists(f, a, r, nil, nil) {
				continue
			}
			res0 := r.Results[0]
			if b, ok := constBool(res0); ok && !b {
				continue // "group does not apply" returns are unconstrained here
			}
			okA := guardedBy(r, a, factBool(vIs(applies), true))
			c.obI("R02.3", r, "applies-required", okA, "after consulting a scheme, any return other than (false, …) is reached only through that scheme's applies == true (a not-applicable scheme makes the whole AND group not applicable)", "a path from the authenticator call reaches this return without applies == true")
			if isNilConst(r.Results[2]) {
				okE := guardedBy(r, a, factNil(vIs(err), true))
				c.obI("R02.3", r, "no-error-required", okE, "after consulting a scheme, a return without error is reached only through that scheme's err == nil", "a path from the authenticator call reaches a nil-error return although the scheme rejected")
			}
		}
		// the authenticator consulted and the scopes handed over are those registered under the SAME scheme name
		av := a.Call.Value
		lk, _ := av.(*ssa.Extract)
		var key ssa.Value
		okKey := false
		if lk != nil {
			if l, ok := lk.Tuple.(*ssa.Lookup); ok {
				if _, isF := fieldLoad(l.X, routeAuthT, "Authenticator"); isF {
					key = l.Index
					okKey = true
				}
			}
		} else if l, ok := av.(*ssa.Lookup); ok {
			if _, isF := fieldLoad(l.X, routeAuthT, "Authenticator"); isF {
				key = l.Index
				okKey = true
			}
		}
		c.obI("R02.3", a, "authenticator-from-table", okKey, "the authenticator consulted is ra.Authenticator[scheme]", "receiver "+describe(av))
		if okKey && len(a.Call.Args) == 1 {
			os := originsOf(a.Call.Args[0])
			okArg := len(os) > 0
			why := "argument is not a fresh security.ScopedAuthRequest"
			nOther := 0
			for _, o := range os {
				al, ok := o.V.(*ssa.Alloc)
				if !ok {
					nOther++ // every value the argument can take must be the scoped wrapper
					continue
				}
				okReq, okScopes := false, false
				for _, st := range fieldStores(f, "rt/security.ScopedAuthRequest", "Request") {
					if st.Addr.(*ssa.FieldAddr).X == al {
						okReq, _ = allOrigins(st.Val, oIsValue(paramOf(f, 0)))
					}
				}
				for _, st := range fieldStores(f, "rt/security.ScopedAuthRequest", "RequiredScopes") {
					if st.Addr.(*ssa.FieldAddr).X == al {
						if l, ok := st.Val.(*ssa.Lookup); ok {
							if _, isF := fieldLoad(l.X, routeAuthT, "Scopes"); isF && l.Index == key {
								okScopes = true
							}
						}
					}
				}
				okArg = okArg && okReq && okScopes
				if !okReq {
					why = "ScopedAuthRequest.Request is not the request parameter"
				} else if !okScopes {
					why = "ScopedAuthRequest.RequiredScopes is not ra.Scopes[<same scheme>]"
				}
			}
			if nOther > 0 {
				okArg, why = false, "on some path the authenticator is handed something other than a fresh security.ScopedAuthRequest (scoped authenticators answer 'not applicable' to a bare request)"
			}
			c.obI("R02.3", a, "scoped-request", okArg, "the authenticator always receives a security.ScopedAuthRequest carrying the request and the scopes required for the same scheme", why)
		}
	}
	// returned error / principal provenance
	for _, r := range rets {
		if !isNilConst(r.Results[2]) {
			ok, bad := allOrigins(r.Results[2], oCall(2, authCall))
			c.obI("R02.3", r, "error-origin", ok, "the error returned by the AND group is the rejecting scheme's error", "origin "+describeOrigin(bad))
		}
		ok, bad := allOrigins(r.Results[1], oNil(), oCall(1, authCall))
		c.obI("R02.3", r, "principal-origin", ok, "the principal returned by the AND group comes from one of its authenticators", "origin "+describeOrigin(bad))
		if b, okb := constBool(r.Results[0]); okb && b {
			isRec := func(in ssa.Instruction) bool {
				st, ok := in.(*ssa.Store)
				if !ok {
					return false
				}
				if _, ok := fieldAddrOf(st.Addr, matchedRouteT, "Authenticator"); !ok {
					return false
				}
				return st.Val == ssa.Value(recv)
			}
			miss := pathExists(f, nil, r, nil, isRec)
			c.obI("R02.3", r, "records-admitting-group", !miss, "every return with applies == true has recorded the group on the per-request route (route.Authenticator = ra)", "a path returns true without recording the group")
		}
	}
	// the principal carried to the next scheme / to the satisfied return is the LAST consulted scheme's, whatever it is:
	// a nil principal of a later scheme must not be masked by an earlier scheme's principal
	for _, ci := range calls {
		a := ci.(*ssa.Call)
		princ := resultOf(a, 1)
		if princ == nil {
			continue
		}
		var stale ssa.Instruction
		for _, in := range instrs(f) {
			phi, ok := in.(*ssa.Phi)
			if !ok || typeStr(phi.Type()) != "interface{}" && typeStr(phi.Type()) != "any" {
				continue
			}
			if okP, _ := allOrigins(phi, oNil(), oIsValue(princ)); !okP {
				continue
			}
			for i := range phi.Edges {
				if phiEdgeAfterCall(f, a, phi, i) {
					stale = lastInstr(phi.Block().Preds[i])
				}
			}
		}
		at := ssa.Instruction(a)
		if stale != nil {
			at = stale
		}
		c.obI("R02.3", at, "principal-follows-last-scheme", stale == nil, "after a scheme was consulted the carried principal is that scheme's principal (nil included): an earlier scheme's principal must not survive a later nil one", "the previous principal is kept although a later scheme returned its own (possibly nil) principal")
	}
	// every scheme consults an authenticator
	loops := sliceLoops(f, vFieldLoad(routeAuthT, "Schemes", nil))
	c.obRF("R02.3", f, "scheme-loop", len(loops) == 1, "the AND group iterates over ra.Schemes", fmt.Sprintf("%d loops over ra.Schemes", len(loops)))
	for _, l := range loops {
		ok := l.everyIteration(isInvokeOf(authCall))
		c.obI("R02.3", l.Elem, "every-scheme-consults-an-authenticator", ok,
			"every scheme of an AND group consults an authenticator (no iteration reaches the next scheme without a call of Authenticator.Authenticate)",
			"an iteration can continue to the next scheme without consulting any authenticator: a scheme without a registered authenticator is silently skipped and the group is satisfied by the remaining schemes")
	}
}

// R02.4 — OR over the alternatives.
func ruleR02_4(c *Ctx) {
	f := c.P.Fn("(rt/middleware.RouteAuthenticators).Authenticate")
	const grp = "(*rt/middleware.RouteAuthenticator).Authenticate"
	calls := callsIn(f, grp)
	c.obRF("R02.4", f, "consults-groups", len(calls) == 1, "the OR composition evaluates each alternative through RouteAuthenticator.Authenticate", fmt.Sprintf("%d calls", len(calls)))
	if len(calls) != 1 {
		return
	}
	b := calls[0].(*ssa.Call)
	applies, usr, err := resultOf(b, 0), resultOf(b, 1), resultOf(b, 2)
	if applies == nil || usr == nil || err == nil {
		c.obI("R02.4", b, "results-used", false, "applies, principal and err of every alternative are examined", "a result is dropped")
		return
	}
	isLastErr := vOrigins(oNil(), oIsValue(err))
	for _, r := range returnsOf(f) {
		p1 := r.Results[1]
		if !isNilConst(p1) {
			// admission by an alternative
			okO, bad := allOrigins(p1, oIsValue(usr))
			c.obI("R02.4", r, "principal-origin", okO, "a principal returned by the OR composition is the admitting alternative's", "origin "+describeOrigin(bad))
			c.obI("R02.4", r, "admit-needs-applies", guardedBy(r, b, factBool(vIs(applies), true)), "an alternative admits only with applies == true", "path without applies == true")
			c.obI("R02.4", r, "admit-needs-no-error", guardedBy(r, b, factNil(vIs(err), true)), "an alternative admits only with err == nil", "path without err == nil")
			c.obI("R02.4", r, "admit-needs-principal", guardedBy(r, b, factNil(vIs(usr), false)), "an alternative admits only with a non-nil principal", "path without usr != nil")
			c.obI("R02.4", r, "admit-no-error-returned", isNilConst(r.Results[2]), "an admitting return carries no error", "error result "+describe(r.Results[2]))
			continue
		}
		// principal-less returns: an anonymous admission, a refusal with the recorded error, or "nothing applied"
		isAnonFlag := func(v ssa.Value) bool {
			ok, _ := allOrigins(v, func(o Origin) bool { _, isB := constBool(o.V); return isB })
			return ok
		}
		// the same knowledge kept as a pointer: nil until an alternative allowing anonymous access was seen
		allowsAnonCall := factBool(func(v ssa.Value) bool {
			call := asCall(v)
			return call != nil && strings.HasSuffix(calleeName(&call.Call), ".AllowsAnonymous")
		}, true)
		isAnonPtr := func(v ssa.Value) bool {
			if typeStr(v.Type()) != "*rt/middleware.RouteAuthenticator" {
				return false
			}
			nonNil := 0
			for _, o := range originsOf(v) {
				if isNilConst(o.V) {
					continue
				}
				al, isAl := o.V.(*ssa.Alloc)
				if !isAl || !guardedBy(al, nil, allowsAnonCall) {
					return false
				}
				nonNil++
			}
			return nonNil > 0
		}
		gAnon := guardedBy(r, nil, anyFact(factBool(isAnonFlag, true), factNil(isAnonPtr, false)))
		gNoErr := guardedBy(r, nil, factNil(isLastErr, true))
		gErr := guardedBy(r, nil, factNil(isLastErr, false))
		errRes := r.Results[2]
		okE, bad := allOrigins(errRes, oNil(), oIsValue(err))
		c.obI("R02.4", r, "refusal-error-origin", okE, "the error of a principal-less return is nil or a rejecting alternative's error", "origin "+describeOrigin(bad))
		r0 := r.Results[0]
		if bb, isConst := constBool(r0); isConst && bb {
			if gErr {
				// (true, nil, lastError) under lastError != nil: the rejecting scheme's error is reported
				c.obI("R02.4", r, "rejection-reported", !isNilConst(errRes), "a recorded rejection is reported with its error", "applies == true under a recorded error but the error is not returned")
				continue
			}
			// otherwise this is the anonymous admission
			c.obI("R02.4", r, "anonymous-needs-anon-alternative", gAnon, "a principal-less admission happens only when an anonymous alternative was seen", "path without the allowsAnon test")
			c.obI("R02.4", r, "anonymous-needs-no-rejection", gNoErr, "the anonymous alternative admits only when no scheme rejected presented credentials (lastError == nil)", "path reaches the anonymous admission without lastError == nil")
			continue
		}
		if bb, isConst := constBool(r0); isConst && !bb {
			// "no alternative applied": must not swallow a recorded rejection
			// (an exit taken before any alternative was consulted has no rejection to drop)
			beforeAny := !pathExists(f, b, r, nil, nil)
			c.obI("R02.4", r, "not-applicable-only-without-rejection", gNoErr || beforeAny, "the OR composition reports 'not applicable' only when no rejection was recorded", "a recorded rejection can be dropped")
			continue
		}
		okApplies := false
		if bo, ok := r0.(*ssa.BinOp); ok {
			okApplies = factNil(isLastErr, false)(bo, true)
		}
		c.obI("R02.4", r, "refusal-applies-iff-error", okApplies, "a refusal reports applies exactly when an error was recorded (lastError != nil)", "result #0 is "+describe(r0))
	}
	// sticky rejection: the recorded error is only ever replaced by a non-nil error
	n := 0
	for _, pe := range phiEdgesFrom(f, err) {
		pred := pe[1].(*ssa.BasicBlock)
		ok := edgeGuarded(pred, pe[0].(*ssa.Phi).Block(), b, factNil(vIs(err), false))
		c.obI("R02.4", lastInstr(pred), "rejection-is-sticky", ok, "the recorded rejection (lastError) is only overwritten by a non-nil error of a later alternative", "lastError can be overwritten by a nil error: an earlier rejection is forgotten")
		n++
	}
	c.obRF("R02.4", f, "records-rejection", n >= 1, "a rejecting alternative's error is recorded", "no assignment of the alternative's error to the recorded error found")
	// every non-anonymous alternative is evaluated
	for _, l := range sliceLoops(f, vIs(f.Params[0])) {
		ok := l.everyIteration(func(in ssa.Instruction) bool {
			return in == ssa.Instruction(b) || isStoreOfBoolConst(in, true)
		})
		_ = ok
		// alternatives that are anonymous are skipped by design; all others must be evaluated:
		skip := pathExists(f, l.Elem, l.Test, factBool(vOrigins(oCall(-1, "(*rt/middleware.RouteAuthenticator).AllowsAnonymous")), true), isOneOf(b))
		c.obI("R02.4", l.Elem, "every-alternative-evaluated", !skip, "every non-anonymous alternative is evaluated", "an iteration can skip a non-anonymous alternative")
	}
}

func isStoreOfBoolConst(in ssa.Instruction, want bool) bool {
	st, ok := in.(*ssa.Store)
	if !ok {
		return false
	}
	b, ok := constBool(st.Val)
	return ok && b == want
}

// R02.5 — admission in Context.Authorize.
func ruleR02_5(c *Ctx) {
	p := c.P
	f := p.Fn("(*rt/middleware.Context).Authorize")
	request := paramOf(f, 0)
	const authn = "(rt/middleware.RouteAuthenticators).Authenticate"
	calls := callsIn(f, authn)
	c.obRF("R02.5", f, "authenticates", len(calls) == 1, "Authorize evaluates the route's alternatives once", fmt.Sprintf("%d calls", len(calls)))
	if len(calls) != 1 {
		return
	}
	a := calls[0].(*ssa.Call)
	applies, usr, err := resultOf(a, 0), resultOf(a, 1), resultOf(a, 2)
	if applies == nil || usr == nil || err == nil {
		c.obI("R02.5", a, "results-used", false, "applies, principal and err are examined", "a result is dropped")
		return
	}
	// receiver is route.Authenticators
	recvA, _ := callArgs(&a.Call)
	okRecv, _ := allOrigins(recvA, oFieldLoad(routeEntryT, "Authenticators", nil))
	c.obI("R02.5", a, "route-alternatives", okRecv, "the alternatives evaluated are the matched route's", "receiver "+describe(recvA))
	princKey := int64Const(p, "rt/middleware", "ctxSecurityPrincipal")
	scopesKey := int64Const(p, "rt/middleware", "ctxSecurityScopes")
	authzCalls := callsIn(f, "(rt.Authorizer).Authorize")
	var authzErr VPred = func(v ssa.Value) bool {
		for _, z := range authzCalls {
			if v == z.Value() {
				return true
			}
		}
		// a variable holding the authorizer's verdict (possibly mapped to a 403 by a helper): nil, the authorizer's
		// error, or the 403 built from it — and at least the authorizer's error
		has := false
		for _, o := range originsOf(v) {
			switch {
			case isNilConst(o.V):
			case isCallTo(o.V, "github.com/go-openapi/errors.New"):
			default:
				isZ := false
				for _, z := range authzCalls {
					if o.V == z.Value() {
						isZ = true
					}
				}
				if !isZ {
					return false
				}
				has = true
			}
		}
		return has
	}
	for _, z := range authzCalls {
		_, args := callArgs(z.Common())
		okR, _ := allOrigins(args[0], oIsValue(request))
		okU, _ := allOrigins(args[1], oIsValue(usr))
		c.obI("R02.5", z, "authorizer-args", okR && okU, "the authorizer judges this request and the authenticated principal", "arguments are not (request, principal)")
		recvZ, _ := callArgs(z.Common())
		okZ, _ := allOrigins(recvZ, oFieldLoad(routeEntryT, "Authorizer", nil))
		c.obI("R02.5", z, "authorizer-is-routes", okZ, "the authorizer consulted is the route's registered authorizer", "receiver "+describe(recvZ))
	}
	for _, r := range returnsOf(f) {
		errRes, reqRes := r.Results[2], r.Results[1]
		if isNilConst(errRes) && !isNilConst(reqRes) {
			if !pathExists(f, a, r, nil, nil) {
				// cache hit
				g := guardedBy(r, nil, factNil(vCtxValue(ctxKeyT, princKey), false))
				okV, _ := allOrigins(r.Results[0], func(o Origin) bool { return vCtxValue(ctxKeyT, princKey)(o.V) })
				okQ, _ := allOrigins(reqRes, oIsValue(request))
				c.obI("R02.5", r, "cached-admission", g && okV && okQ, "without authenticating, Authorize admits only a request whose context already carries a non-nil principal, returning that principal and the same request", "unguarded admission without authentication")
				continue
			}
			c.obI("R02.5", r, "admit-needs-applies", guardedBy(r, a, factBool(vIs(applies), true)), "admission requires applies == true", "path without applies")
			c.obI("R02.5", r, "admit-needs-no-error", guardedBy(r, a, factNil(vIs(err), true)), "admission requires err == nil", "path without err == nil")
			anon := factBool(vOrigins(oCall(-1, "(rt/middleware.RouteAuthenticators).AllowsAnonymous")), true)
			c.obI("R02.5", r, "admit-needs-principal-or-anonymous", guardedBy(r, a, anyFact(factNil(vIs(usr), false), anon)), "admission requires a non-nil principal unless the route allows anonymous access", "path with a nil principal on a route without anonymous alternative")
			noAuthorizer := factNil(vFieldLoadO(routeEntryT, "Authorizer"), true)
			accepted := factNil(authzErr, true)
			c.obI("R02.5", r, "admit-needs-authorizer", guardedBy(r, a, anyFact(noAuthorizer, accepted)), "admission requires that the registered authorizer, if any, accepted the principal", "a path admits the request without consulting a registered authorizer or despite its error")
			okU, bad := allOrigins(r.Results[0], oIsValue(usr))
			c.obI("R02.5", r, "returned-principal", okU, "the principal returned is the satisfied alternative's", "origin "+describeOrigin(bad))
			// request context carries principal and scopes
			okCtx, why := authorizeContextChain(f, reqRes, request, usr, princKey, scopesKey)
			c.obI("R02.5", r, "context-carries-principal-and-scopes", okCtx, "the returned request's context stores the satisfied alternative's principal under ctxSecurityPrincipal and its AllScopes() under ctxSecurityScopes", why)
			continue
		}
		if !isNilConst(errRes) {
			okE, bad := allOrigins(errRes,
				oNil(), // (a helper's nil result on another path; this return itself is guarded by err != nil)
				oIsValue(err),
				oCall(-1, "github.com/go-openapi/errors.Unauthenticated"),
				func(o Origin) bool { return authzErr(o.V) },
				oCallWhere(-1, "github.com/go-openapi/errors.New", func(call *ssa.Call) bool {
					k, ok := constInt(call.Call.Args[0])
					return ok && k == 403
				}))
			c.obI("R02.5", r, "refusal-error", okE, "a refusal carries the scheme's error, errors.Unauthenticated (401), the authorizer's own error, or a 403", "origin "+describeOrigin(bad))
			okN := isNilConst(reqRes) && isNilConst(r.Results[0])
			c.obI("R02.5", r, "refusal-no-request", okN, "a refusal returns neither principal nor request", "non-nil principal/request with an error")
		}
	}
	c.min("R02.5", 10)
}

func int64Const(p *Prog, pkg, name string) int64 {
	s := p.ConstVal(pkg, name)
	var n int64
	fmt.Sscanf(s, "%d", &n)
	return n
}

// authorizeContextChain checks request.WithContext(WithValue(WithValue(request.Context(), princKey, usr), scopesKey, AllScopes())).
func authorizeContextChain(f *ssa.Function, reqRes ssa.Value, request, usr ssa.Value, princKey, scopesKey int64) (bool, string) {
	wc := asCall(reqRes)
	if os := originsOf(reqRes); len(os) == 1 && asCall(os[0].V) != nil && os[0].Env != nil {
		// the context chain may be built by a helper (withSecurity(request, usr, scopes)): follow it with the
		// helper's parameters bound to this call's arguments
		wc = asCall(os[0].V)
		saved := paramEnv
		paramEnv = os[0].Env
		defer func() { paramEnv = saved }()
	}
	if wc == nil || calleeName(&wc.Call) != "(*net/http.Request).WithContext" {
		return false, "the returned request is not request.WithContext(...)"
	}
	if ok, _ := allOrigins(wc.Call.Args[0], oIsValue(request)); !ok {
		return false, "WithContext is not applied to the request parameter"
	}
	wv := withValueCalls(f, ctxKeyT)
	seenP, seenS := false, false
	cur := wc.Call.Args[1]
	for i := 0; i < 6; i++ {
		os := originsOf(cur)
		if len(os) != 1 {
			return false, "context chain is not linear"
		}
		call := asCall(os[0].V)
		if call == nil {
			return false, "context chain does not start at request.Context()"
		}
		if calleeName(&call.Call) == "(*net/http.Request).Context" {
			if ok, _ := allOrigins(call.Call.Args[0], oIsValue(request)); !ok {
				return false, "context chain starts at a different request"
			}
			break
		}
		k, ok := wv[call]
		if !ok {
			return false, "unexpected call in the context chain: " + calleeName(&call.Call)
		}
		switch k {
		case princKey:
			if ok, _ := allOrigins(call.Call.Args[2], oIsValue(usr)); !ok {
				return false, "value stored under ctxSecurityPrincipal is not the authenticated principal"
			}
			seenP = true
		case scopesKey:
			ok, _ := allOrigins(call.Call.Args[2], oCallWhere(-1, "(*rt/middleware.RouteAuthenticator).AllScopes", func(sc *ssa.Call) bool {
				okk, _ := allOrigins(sc.Call.Args[0], oFieldLoad(matchedRouteT, "Authenticator", nil))
				return okk
			}))
			if !ok {
				return false, "value stored under ctxSecurityScopes is not route.Authenticator.AllScopes()"
			}
			seenS = true
		}
		cur = call.Call.Args[0]
	}
	if !seenP || !seenS {
		return false, "principal or scopes missing from the returned request's context"
	}
	return true, ""
}

// R02.2 — the gate.
func ruleR02_2(c *Ctx) {
	p := c.P
	outer := p.Fn("rt/middleware.newSecureAPI")
	f := c.theHandlerClosure(outer)
	const serve = "(net/http.Handler).ServeHTTP"
	nexts := callsIn(f, serve)
	authz := callsIn(f, "(*rt/middleware.Context).Authorize")
	c.obRF("R02.2", f, "authorizes", len(authz) == 1 && len(nexts) >= 1, "the secure wrapper calls Context.Authorize and forwards to the next handler", fmt.Sprintf("%d Authorize calls, %d next calls", len(authz), len(nexts)))
	if len(authz) != 1 {
		return
	}
	z := authz[0].(*ssa.Call)
	zerr, zreq := resultOf(z, 2), resultOf(z, 1)
	noAuthNeeded := factBool(vOrigins(oCall(-1, "(*rt/middleware.MatchedRoute).NeedsAuth")), false)
	for _, n := range nexts {
		recvN, args := callArgs(n.Common())
		okNext, _ := allOrigins(recvN, oIsValue(outer.Params[1]))
		c.obI("R02.2", n, "next-is-next", okNext, "the handler forwarded to is the wrapped handler", "receiver "+describe(recvN))
		// every path to next that is not "no authentication needed" passes Authorize
		bypass := pathExists(f, nil, n, noAuthNeeded, isOneOf(z))
		c.obI("R02.2", n, "authorize-or-no-auth-needed", !bypass, "the next handler is reached only when the route needs no (further) authentication or after Context.Authorize", "a path reaches next.ServeHTTP without Authorize although authentication is needed")
		if pathExists(f, z, n, nil, nil) {
			ok := zerr != nil && guardedBy(n, z, factNil(vIs(zerr), true))
			c.obI("R02.2", n, "authorize-error-stops", ok, "after Authorize the next handler is reached only through err == nil", "next.ServeHTTP reachable although Authorize returned an error")
			okR, bad := allOriginsAfter(f, z, args[1], oIsValue(zreq))
			c.obI("R02.2", n, "authorized-request-forwarded", okR && zreq != nil, "the request forwarded after Authorize is the one Authorize returned (it carries principal and scopes)", "origin "+describeOrigin(bad))
		} else {
			okR, bad := allOrigins(args[1], oIsValue(hReq(f)), oCall(1, "(*rt/middleware.Context).RouteInfo"))
			c.obI("R02.2", n, "request-forwarded", okR, "the request forwarded is the incoming request (with its route info)", "origin "+describeOrigin(bad))
		}
	}
	// Authorize judges the matched route
	_, zargs := callArgs(&z.Call)
	okRt, _ := allOrigins(zargs[1], oCall(0, "(*rt/middleware.Context).RouteInfo"))
	c.obI("R02.2", z, "authorize-route", okRt, "Authorize is given the route matched for this request", "route argument "+describe(zargs[1]))
	// error branch responds with the error
	for _, r := range callsIn(f, "(*rt/middleware.Context).Respond") {
		_, args := callArgs(r.Common())
		okE, _ := allOrigins(args[4], oIsValue(zerr))
		if !okE && zerr != nil && guardedBy(r, z, factNil(vIs(zerr), true)) {
			// an extra fail-closed exit taken although Authorize reported no error: it refuses with a freshly built
			// authentication error and does not reach the next handler
			if fresh, _ := allOrigins(args[4], oCall(-1, "github.com/go-openapi/errors.Unauthenticated", "github.com/go-openapi/errors.New")); fresh {
				stops := true
				for _, n := range nexts {
					if pathExists(f, r, n, nil, nil) {
						stops = false
					}
				}
				c.obI("R02.2", r, "extra-refusal-fails-closed", stops, "an additional refusal (beyond Authorize's own error) answers with an authentication error and ends the request", "the next handler is reachable after the refusal was written")
				continue
			}
		}
		c.obI("R02.2", r, "refusal-responds-with-error", okE && guardedBy(r, z, factNil(vIs(zerr), false)), "a refusal is answered with the error Authorize returned", "Respond is not fed the authorization error")
	}
	// binding code is not reachable from the wrapper other than through next
	forbidden := map[string]bool{
		"rt/middleware.validateRequest":              true,
		"(*rt/middleware.UntypedRequestBinder).Bind": true,
		"(*rt/middleware.untypedParamBinder).Bind":   true,
		"(*rt/middleware.Context).BindAndValidate":   true,
		"(*rt/middleware.Context).BindValidRequest":  true,
		"(rt.OperationHandler).Handle":               true,
		"(rt.Consumer).Consume":                      true,
		"(rt/middleware.RequestBinder).BindRequest":  true,
		"(rt.OperationHandlerFunc).Handle":           true,
		"(*net/http.Request).ParseForm":              true,
		"(*net/http.Request).ParseMultipartForm":     true,
	}
	reach := staticReach(p, f)
	var hit []string
	for fn := range reach {
		for _, ci := range allCalls(fn) {
			if forbidden[calleeName(ci.Common())] {
				hit = append(hit, short(fn.String())+" -> "+calleeName(ci.Common()))
			}
		}
	}
	c.obF("R02.2", f, "no-binding-before-authentication", len(hit) == 0, "nothing statically reachable from the secure wrapper (other than through next) binds parameters, consumes the body or runs the handler", fmt.Sprint(hit))
	c.info("R02.2 static reach of the secure wrapper: %d repo functions", len(reach))
}

// staticReach: repo functions reachable from f through static calls and closures created (interface invokes are
// not followed: they are the extension points — next handlers, authenticators, user code).
func staticReach(p *Prog, f *ssa.Function) map[*ssa.Function]bool {
	seen := map[*ssa.Function]bool{}
	var walk func(fn *ssa.Function)
	walk = func(fn *ssa.Function) {
		if fn == nil || seen[fn] || fn.Blocks == nil {
			return
		}
		seen[fn] = true
		for _, in := range instrs(fn) {
			switch x := in.(type) {
			case ssa.CallInstruction:
				if callee := x.Common().StaticCallee(); callee != nil {
					walk(callee)
				}
			case *ssa.MakeClosure:
				if fn2, ok := x.Fn.(*ssa.Function); ok {
					walk(fn2)
				}
			}
		}
	}
	walk(f)
	return seen
}

// R02.1 — secured operations are wrapped; handler only after successful binding.
func ruleR02_1(c *Ctx) {
	p := c.P
	f := p.Fn("rt/middleware.newRoutableUntypedAPI")
	inner := c.theHandlerClosure(f)
	// the registration
	var regs []*ssa.MapUpdate
	for _, in := range instrs(f) {
		mu, ok := in.(*ssa.MapUpdate)
		if !ok {
			continue
		}
		if typeStr(mu.Value.Type()) == "net/http.Handler" {
			regs = append(regs, mu)
		}
	}
	c.obRF("R02.1", f, "registers-handlers", len(regs) == 1, "newRoutableUntypedAPI registers one handler per operation", fmt.Sprintf("%d handler registrations", len(regs)))
	secCalls := callsIn(f, "rt/middleware.newSecureAPI")
	reqCalls := callsIn(f, "(*github.com/go-openapi/analysis.Spec).SecurityRequirementsFor")
	c.obRF("R02.1", f, "consults-requirements", len(secCalls) == 1 && len(reqCalls) == 1, "the operation's security requirements decide whether the handler is wrapped by newSecureAPI", fmt.Sprintf("%d newSecureAPI calls, %d SecurityRequirementsFor calls", len(secCalls), len(reqCalls)))
	// the wrapper is there but what decides it is not the analyzer's effective requirement list (operation-level
	// requirements OR the inherited top-level ones): a property violation, whatever else has changed
	for _, sc := range secCalls {
		byReqs := guardedBy(sc, nil, factLenPositive(vOrigins(oCall(-1, "(*github.com/go-openapi/analysis.Spec).SecurityRequirementsFor")), true))
		c.obI("R02.1", sc, "wrapped-iff-effective-requirements", byReqs, "an operation is wrapped by newSecureAPI exactly when analyzer.SecurityRequirementsFor(op) — the EFFECTIVE requirements, top-level ones included — is non-empty", "the secure wrapper is installed under a condition that is not `len(analyzer.SecurityRequirementsFor(op)) > 0`")
	}
	if len(regs) != 1 || len(secCalls) != 1 || len(reqCalls) != 1 {
		return
	}
	sec := secCalls[0].(*ssa.Call)
	schemes := reqCalls[0].(*ssa.Call)
	isPlain := func(o Origin) bool {
		mc, ok := o.V.(*ssa.MakeClosure)
		return ok && mc.Fn == ssa.Value(inner)
	}
	okArg, _ := allOrigins(sec.Call.Args[1], isPlain)
	okCtx, _ := allOrigins(sec.Call.Args[0], oIsValue(f.Params[2]))
	c.obI("R02.1", sec, "wraps-the-operation-handler", okArg && okCtx, "newSecureAPI wraps this operation's bind-validate-handle closure with the API context", "arguments of newSecureAPI")
	// value registered: secured unless len(schemes)==0
	v := regs[0].Value
	okV, bad := allOrigins(v, isPlain, oIsValue(sec))
	c.obI("R02.1", regs[0], "registered-value", okV, "the handler registered is the operation closure, possibly wrapped by newSecureAPI", "origin "+describeOrigin(bad))
	// every flow of the unwrapped closure into the registered value happens only under len(schemes) == 0
	unsecured := factLenPositive(vIs(schemes), false)
	okGate := true
	why := ""
	if phi, ok := v.(*ssa.Phi); ok {
		for i, e := range phi.Edges {
			if pl, _ := allOrigins(e, isPlain); pl {
				if !edgeGuarded(phi.Block().Preds[i], phi.Block(), schemes, unsecured) {
					okGate = false
					why = "the unwrapped handler can be registered although the operation has security requirements"
				}
			}
		}
	} else if pl, _ := allOrigins(v, isPlain); pl {
		if !guardedBy(regs[0], schemes, unsecured) {
			okGate = false
			why = "the unwrapped handler is registered without testing the security requirements"
		}
	}
	c.obI("R02.1", regs[0], "secured-when-required", okGate, "an operation with at least one security requirement is registered wrapped by newSecureAPI", why)
	// requirement lookup concerns the same operation as the handler lookup
	ohCalls := callsIn(f, "(*rt/middleware/untyped.API).OperationHandlerFor")
	c.obRF("R02.1", f, "handler-lookup", len(ohCalls) == 1, "the operation handler is looked up once per operation", "")
	// inner: handler only after successful binding
	handle := callsIn(inner, "(rt.OperationHandler).Handle")
	bind := callsIn(inner, "(*rt/middleware.Context).BindAndValidate")
	c.obRF("R02.1", inner, "binds-then-handles", len(handle) == 1 && len(bind) == 1, "the operation closure binds and validates, then calls the operation handler", fmt.Sprintf("%d Handle, %d BindAndValidate", len(handle), len(bind)))
	if len(handle) == 1 && len(bind) == 1 {
		b := bind[0].(*ssa.Call)
		verr := resultOf(b, 2)
		h := handle[0]
		ok := verr != nil && dominates(b, h) && guardedBy(h, b, factNil(vIs(verr), true))
		c.obI("R02.1", h, "handler-needs-valid-binding", ok, "the operation handler runs only when BindAndValidate returned no error (422/415/406 stop the request)", "Handle reachable although binding/validation failed")
		okB, _ := allOrigins(h.Common().Args[0], oIsValue(resultOf(b, 0)))
		c.obI("R02.1", h, "handler-gets-bound-values", okB, "the operation handler receives the bound parameter values", "argument "+describe(h.Common().Args[0]))
	}
}

// R02.6 — structure from the spec.
func ruleRouteAuthenticatorsBuilt(c *Ctx, rid string) {
	p := c.P
	f := p.Fn("(*rt/middleware.defaultRouteBuilder).buildAuthenticators")
	alts, ok := requirementAlternatives(c, rid)
	if !ok {
		return
	}
	outer := sliceLoops(f, vIs(alts))
	c.obRF(rid, f, "outer-loop", len(outer) == 1, "one pass over the requirement alternatives", fmt.Sprintf("%d loops", len(outer)))
	if len(outer) != 1 {
		return
	}
	isAppendOf := func(elemType string) func(ssa.Instruction) bool {
		return func(in ssa.Instruction) bool {
			call, ok := in.(*ssa.Call)
			if !ok || calleeName(&call.Call) != "builtin append" {
				return false
			}
			// (a named slice type — RouteAuthenticators — is the slice it names)
			return typeStr(call.Type()) == elemType || typeStr(call.Type().Underlying()) == elemType
		}
	}
	okOuter := outer[0].everyIteration(isAppendOf("[]rt/middleware.RouteAuthenticator"))
	c.obI(rid, outer[0].Elem, "one-group-per-alternative", okOuter, "every requirement alternative yields one RouteAuthenticator (none is skipped)", "an alternative can be skipped")
	// inner loop over the alternative's schemes
	reqs := outer[0].Elem
	isReqs := vOrigins(func(o Origin) bool {
		ad, ok := derefLoad(o.V)
		return ok && ad == ssa.Value(reqs)
	})
	inner := sliceLoops(f, isReqs)
	c.obRF(rid, f, "inner-loop", len(inner) == 1, "one pass over the schemes of each alternative", fmt.Sprintf("%d loops", len(inner)))
	if len(inner) == 1 {
		okS := inner[0].everyIteration(isAppendOf("[]string"))
		c.obI(rid, inner[0].Elem, "every-scheme-listed", okS, "every scheme of an alternative is added to Schemes", "a scheme can be skipped")
		okM := inner[0].everyIteration(func(in ssa.Instruction) bool {
			mu, ok := in.(*ssa.MapUpdate)
			return ok && typeStr(mu.Map.Type()) == "map[string][]string"
		})
		c.obI(rid, inner[0].Elem, "every-scheme-scoped", okM, "every scheme's required scopes are recorded", "a scheme's scopes can be skipped")
	}
	// allowAnonymous
	for _, st := range fieldStores(f, routeAuthT, "allowAnonymous") {
		ok := true
		why := ""
		nameEmpty := factEqString(vFieldLoadO("github.com/go-openapi/analysis.SecurityRequirement", "Name"), "", true)
		lenIsOne := factEqInt(func(v ssa.Value) bool {
			call := asCall(v)
			return call != nil && calleeName(&call.Call) == "builtin len" && isReqs(call.Call.Args[0])
		}, 1, true)
		nCmp := 0
		// the value is `len(reqs) == 1 && reqs[0].Name == ""` — as an expression, or as a flag set on those tests: the
		// comparison itself is evaluated only behind len == 1; a constant true is merged in only behind BOTH tests, a
		// constant false only behind the failure of one of them
		var walk func(v ssa.Value, pred, blk *ssa.BasicBlock, d int)
		walk = func(v ssa.Value, pred, blk *ssa.BasicBlock, d int) {
			if phi, isPhi := v.(*ssa.Phi); isPhi && d < 4 {
				for k, e := range phi.Edges {
					walk(e, phi.Block().Preds[k], phi.Block(), d+1)
				}
				return
			}
			if b, isB := constBool(v); isB {
				switch {
				case pred == nil:
					if b {
						ok, why = false, "allowAnonymous can be the constant true"
					} else {
						ok, why = false, "allowAnonymous never tests the requirement name"
					}
				case b:
					if !(edgeGuarded(pred, blk, nil, lenIsOne) && edgeGuarded(pred, blk, nil, nameEmpty)) {
						ok, why = false, "allowAnonymous can be the constant true without both tests (exactly one requirement, with an empty name) having succeeded"
					} else {
						nCmp++
					}
				default:
					if !edgeGuarded(pred, blk, nil, anyFact(negate(lenIsOne), negate(nameEmpty))) {
						ok, why = false, "allowAnonymous can be false although neither test failed"
					}
				}
				return
			}
			bo, isBo := v.(*ssa.BinOp)
			if !isBo || !nameEmpty(bo, true) {
				ok, why = false, "allowAnonymous is not `len(reqs) == 1 && reqs[0].Name == \"\"`: "+describe(v)
				return
			}
			nCmp++
			if !guardedBy(bo, nil, lenIsOne) {
				ok, why = false, "the empty-name test is not restricted to alternatives with exactly one requirement"
			}
		}
		walk(st.Val, nil, nil, 0)
		if ok && nCmp == 0 {
			ok, why = false, "allowAnonymous never tests the requirement name"
		}
		c.obI(rid, st, "anonymous-detection", ok, "an alternative is anonymous exactly when it consists of the single empty requirement", why)
	}
	// authenticators of the group come from the API for the definitions of these very requirements
	for _, st := range fieldStores(f, routeAuthT, "Authenticator") {
		ok, _ := allOrigins(st.Val, oCallWhere(-1, "(rt/middleware.RoutableAPI).AuthenticatorsFor", func(call *ssa.Call) bool {
			okk, _ := allOrigins(call.Call.Args[0], oCallWhere(-1, "(*github.com/go-openapi/analysis.Spec).SecurityDefinitionsForRequirements", func(d *ssa.Call) bool {
				_, dargs := callArgs(&d.Call)
				return isReqs(dargs[0])
			}))
			return okk
		}))
		c.obI(rid, st, "authenticators-for-requirements", ok, "the group's authenticators are the API's authenticators for the security definitions of this alternative", "value "+describe(st.Val))
	}
	c.min(rid, 7)
}

// phiEdgeAfterCall: incoming edge #i of phi carries the phi's own previous value although the block it comes from is
// only reached after the call a succeeded (i.e. the loop goes round keeping the stale value after consulting a scheme).
func phiEdgeAfterCall(f *ssa.Function, a *ssa.Call, phi *ssa.Phi, i int) bool {
	pred := phi.Block().Preds[i]
	if phi.Edges[i] != ssa.Value(phi) {
		return false
	}
	// every path to the end of pred passes the call (in this iteration): entry -> pred avoiding the call impossible
	// from the loop header
	hdr := phi.Block()
	if len(hdr.Instrs) == 0 {
		return false
	}
	return !pathExists(f, hdr.Instrs[0], lastInstr(pred), nil, isOneOf(a)) && pathExists(f, a, lastInstr(pred), nil, nil)
}

// requirementAlternatives identifies, in buildAuthenticators, the list of requirement alternatives and checks where it
// comes from: analyzer.SecurityRequirementsFor(<the operation being routed>) — called in buildAuthenticators itself,
// or by its caller when the list is handed in as a parameter.
func requirementAlternatives(c *Ctx, rule string) (ssa.Value, bool) {
	p := c.P
	const reqFor = "(*github.com/go-openapi/analysis.Spec).SecurityRequirementsFor"
	f := p.Fn("(*rt/middleware.defaultRouteBuilder).buildAuthenticators")
	reqCalls := callsIn(f, reqFor)
	if len(reqCalls) == 1 {
		rq := reqCalls[0].(*ssa.Call)
		_, rargs := callArgs(&rq.Call)
		okOp, _ := allOrigins(rargs[0], oIsValue(paramOf(f, 0)))
		c.obF(rule, f, "requirements-from-spec", true, "the alternatives come from analyzer.SecurityRequirementsFor(operation)", "")
		c.obI(rule, rq, "same-operation", okOp, "requirements are looked up for the operation being routed", "")
		return rq, true
	}
	// handed in by the caller
	var prm *ssa.Parameter
	for _, q := range f.Params {
		if typeStr(q.Type()) == "[][]github.com/go-openapi/analysis.SecurityRequirement" {
			prm = q
		}
	}
	ar := p.Fn("(*rt/middleware.defaultRouteBuilder).AddRoute")
	okSrc := prm != nil
	n := 0
	if prm != nil {
		for _, fn := range p.LibFuncs("rt/middleware") {
			for _, ci := range allCallsShallow(fn) {
				if ci.Common().StaticCallee() != f {
					continue
				}
				n++
				for i, q := range f.Params {
					if q != prm {
						continue
					}
					okArg, _ := allOrigins(ci.Common().Args[i], oCallWhere(-1, reqFor, func(rq *ssa.Call) bool {
						_, rargs := callArgs(&rq.Call)
						okOp, _ := allOrigins(rargs[0], oIsValue(paramOfType(ar, "*github.com/go-openapi/spec.Operation")))
						return fn == ar && okOp
					}))
					if !okArg {
						okSrc = false
					}
				}
			}
		}
	}
	c.obF(rule, f, "requirements-from-spec", okSrc && n >= 1, "the alternatives come from analyzer.SecurityRequirementsFor(operation) — looked up by buildAuthenticators or handed in by AddRoute for the operation being routed", fmt.Sprintf("%d call sites", n))
	if !okSrc || n == 0 {
		return nil, false
	}
	return prm, true
}

// ruleAuthenticatorsByDefinitionName: the untyped API hands a route the authenticator registered under the NAME of each
// security definition — never one found under another key (the scheme's type, its "in", a default): a definition without
// a registration stays without an authenticator, so no request satisfies an alternative that names it.
func ruleAuthenticatorsByDefinitionName(c *Ctx, rule string) {
	p := c.P
	f := p.Fn("(*rt/middleware/untyped.API).AuthenticatorsFor")
	if f == nil || len(f.Params) < 2 {
		return
	}
	loops := mapLoops(f, vIs(f.Params[1]))
	var key ssa.Value
	var val ssa.Value
	if len(loops) == 1 && loops[0].Next.Referrers() != nil {
		for _, ref := range *loops[0].Next.Referrers() {
			if ex, ok := ref.(*ssa.Extract); ok && ex.Index == 1 {
				key = ex
			} else if ok && ex.Index == 2 {
				val = ex
			}
		}
	}
	var dependsOn func(v, on ssa.Value, d int) bool
	dependsOn = func(v, on ssa.Value, d int) bool {
		if v == on {
			return true
		}
		if d > 6 {
			return false
		}
		in, ok := v.(ssa.Instruction)
		if !ok {
			return false
		}
		if al, isAl := v.(*ssa.Alloc); isAl {
			// the range value copied into an addressable local
			for _, st := range storesToCell(al) {
				if dependsOn(st.Val, on, d+1) {
					return true
				}
			}
			return false
		}
		for _, op := range in.Operands(nil) {
			if *op != nil && dependsOn(*op, on, d+1) {
				return true
			}
		}
		return false
	}
	n := 0
	for _, in := range instrs(f) {
		lk, ok := in.(*ssa.Lookup)
		if !ok || !vFieldLoad("rt/middleware/untyped.API", "authenticators", nil)(lk.X) {
			continue
		}
		n++
		okK := false
		if key != nil {
			okK, _ = allOrigins(lk.Index, oIsValue(key))
		}
		switch {
		case okK:
			c.obI(rule, lk, "authenticator-found-under-definition-name", true, "the authenticator of a security definition is the one registered under that definition's name", "")
		case val != nil && dependsOn(lk.Index, val, 0):
			c.obI(rule, lk, "authenticator-found-under-definition-name", false, "the authenticator of a security definition is the one registered under that definition's name", "the registry is read under a key taken from the scheme itself ("+describe(lk.Index)+"): a definition nobody registered is served by another scheme's authenticator")
		default:
			c.obRI(rule, lk, "authenticator-found-under-definition-name", false, "the authenticator of a security definition is the one registered under that definition's name", "lookup key "+describe(lk.Index))
		}
	}
	c.obRF(rule, f, "reads-authenticators", n >= 1, "AuthenticatorsFor reads the registry of authenticators", "")
	// … for EVERY definition it is asked about: no definition is passed over on account of its type, its location or
	// anything else (a scheme left out of the route's table is silently skipped by the AND over an alternative's schemes)
	if len(loops) == 1 {
		isLk := func(in ssa.Instruction) bool {
			lk, ok := in.(*ssa.Lookup)
			return ok && vFieldLoad("rt/middleware/untyped.API", "authenticators", nil)(lk.X)
		}
		c.obI(rule, loops[0].Next, "every-definition-looked-up", loops[0].everyIteration(isLk), "every security definition handed to AuthenticatorsFor is looked up in the registry", "an iteration can skip the registry lookup: that definition's registered authenticator is left out of the route")
	}
}
