package main

import (
	"fmt"
	"go/token"
	"net/http"
	"reflect"
	"strings"

	"golang.org/x/tools/go/ssa"
)

const (
	paramPropsT = "github.com/go-openapi/spec.ParamProps"
	simpleT     = "github.com/go-openapi/spec.SimpleSchema"
)

func init() {
	register(&Property{
		ID: "C03",
		Explanation: "Decides: R03.1 header parameters are looked up under their canonical name (the raw declared name reaches a lookup only for non-header locations) and every direct index into an http.Header in the library uses a canonical key; R03.2 Parameter.Schema (nil for non-body parameters) is dereferenced only under a nil test; R03.3 typeForSchema returns nil only for arrays without (typed) items or for types it does not know — every known type with a format switch has a default; " +
			"Round 12: R03.5 booleans are converted by swag.ConvertBool; R03.7 'required' is waived only by the declared default. " +
			"R03.4 reflect operations that assert a kind on a value derived from the spec's default are enumerated (typestate on the reflect API): the kind-safe ones are tabled, the ones that panic for declarations the language allows are KNOWN FINDINGS; R03.5 numeric texts are parsed in base 10 at 64 bits and stored only after the parse succeeded and target.Overflow* said no; " +
			"R03.6 every binder error is returned or appended to the 422 accumulator, every bound value is validated when a validator exists, validation failures are recorded, and binder errors reach validation.result; R03.7 each location reads its own source (query: URL.Query(), header: Header, path: route params, formData: MultipartForm.Value / PostForm), an unknown location is an error, and 'multi' is honoured only where allowed; R03.8 index expressions of the binding helpers are in range. " +
			"R03.3 also: the element type of an array is computed from the items' own type, format and nested items. " +
			"R03.7 also: a scalar is bound from data[len(data)-1] (last occurrence) and path parameters from the router's PathUnescape of the captured text (decoded once). " +
			"R03.7 also: the composite-segment test locates a parameter in the template as \"{name}\"; the value setters never build a 400 parse error; a binder is named after the declared parameter except where Bind re-labels it for struct targets. " +
			"R03.7 also: the per-item conversion of an array is given no default; R03.6 also: the form media types are recognised on the parsed media type; R03.8 also: request.MultipartForm is read only behind a nil test. " +
			"R03.7 also: the array default is stored exactly when no items were obtained; R03.5 also: InvalidType is pronounced only after a conversion failed or overflowed. " +
			"NOT decided: what strconv/swag denote for a literal, the validation rules themselves (go-openapi/validate), default substitution values.",
		Assumptions: []string{"runtime.Gettable implementations report hasValue only with a non-empty value slice (Values.GetOK and RouteParams.GetOK are checked)"},
		Run:         runC03,
	})
}

var c03Table = map[string]string{
	"_.GetOK(_)#0[(len(_.GetOK(_)#0)-1)]": "Gettable contract: hasValue (third result) is true only with a non-empty value slice; the in-repo implementations Values.GetOK and RouteParams.GetOK establish it (R03.8 checks them)",
}

// reflect operations on default-derived values that are kind-safe, with the reason (R03.4 kind table).
// (Int / Uint / Float are NOT in the table: on the default itself — a float64 when the document came from JSON or YAML —
// they panic; the code applies them to the result of Convert(int64 / uint64 / float64), which is not "the default".)
var c03KindSafe = map[string]string{
	"(reflect.Value).Bool":    "reached only under target.Kind() == Bool, i.e. declared type boolean, whose JSON default decodes to bool (Zero(target.Type()) otherwise)",
	"(reflect.Value).Convert": "reached only under a numeric target kind; a JSON numeric default decodes to float64 (or the Zero of the numeric target), both convertible to int64/uint64/float64",
	"(reflect.Value).String":  "reflect.Value.String never panics",
	"(reflect.Value).Kind":    "total",
	"(reflect.Value).Type":    "defVal is always valid here (Zero of a type or ValueOf a non-nil default)",
	"(reflect.Value).IsValid": "total",
	"(reflect.Value).Bytes":   "kind-unsafe in itself (a JSON default for format byte is a string), but unreachable with the stock strfmt registry: format byte maps to strfmt.Base64, a TextUnmarshaler, which tryUnmarshaler handles before this point (that earlier site is the known finding)",
}

func runC03(c *Ctx) {
	p := c.P
	ruleCompositeDecoderFits(c, "R03.7")
	rv := p.Fn("(*rt/middleware.untypedParamBinder).readValue")
	isName := vFieldLoad(paramPropsT, "Name", nil)
	isIn := vFieldLoad(paramPropsT, "In", nil)
	notHeader := factEqString(isIn, "header", false)
	isCanon := func(o Origin) bool {
		return oCallWhere(-1, "net/http.CanonicalHeaderKey", func(k *ssa.Call) bool { return isName(k.Call.Args[0]) })(o) ||
			oCallWhere(-1, "net/textproto.CanonicalMIMEHeaderKey", func(k *ssa.Call) bool { return isName(k.Call.Args[0]) })(o)
	}
	nGet := 0
	for _, ci := range callsIn(rv, "(rt.Gettable).GetOK") {
		nGet++
		_, a := callArgs(ci.Common())
		key := a[0]
		ok, bad := allOrigins(key, func(o Origin) bool { return isName(o.V) }, isCanon)
		why := "key originates from " + describeOrigin(bad)
		if ok {
			// the raw declared name may reach the lookup only when the location is not "header"
			if phi, isPhi := key.(*ssa.Phi); isPhi {
				for i, e := range phi.Edges {
					if isName(e) && !edgeGuarded(phi.Block().Preds[i], phi.Block(), nil, notHeader) {
						ok, why = false, "the declared (possibly non-canonical) name is used for header lookups"
					}
				}
			} else if isName(key) && !guardedBy(ci, nil, notHeader) {
				ok, why = false, "the declared (possibly non-canonical) name is used for header lookups: net/http stores header names in canonical form, so a parameter declared as 'x-rate-limit' is never found"
			}
		}
		c.obI("R03.1", ci, "header-lookup-canonical", ok, "a parameter is looked up by its declared name, canonicalised (http.CanonicalHeaderKey) when its location is header", why)
	}
	c.obRF("R03.1", rv, "lookups", nGet >= 3, "readValue looks the parameter up", fmt.Sprintf("%d lookups", nGet))
	// every direct index into an http.Header in library code
	for _, fn := range p.LibFuncs() {
		for _, in := range instrs(fn) {
			var m, key ssa.Value
			switch x := in.(type) {
			case *ssa.Lookup:
				m, key = x.X, x.Index
			case *ssa.MapUpdate:
				m, key = x.Map, x.Key
			default:
				continue
			}
			if typeStr(m.Type()) != "net/http.Header" {
				continue
			}
			ok := false
			undecidedCaller := false
			why := "key " + describe(key)
			if s, isC := constString(key); isC {
				ok = http.CanonicalHeaderKey(s) == s
			} else if okk, _ := allOrigins(key, oCall(-1, "net/http.CanonicalHeaderKey", "net/textproto.CanonicalMIMEHeaderKey")); okk {
				ok = true
			} else if prm, isP := key.(*ssa.Parameter); isP {
				// all in-repo callers pass canonical constants
				ok = true
				n := 0
				for _, caller := range p.LibFuncs() {
					for _, ci := range allCalls(caller) {
						// (by name: with test variants loaded a library function exists once per package variant)
						if sc := ci.Common().StaticCallee(); sc == nil || (sc != fn && fnName(sc) != fnName(fn)) {
							continue
						}
						n++
						idx := -1
						for i, pp := range fn.Params {
							if pp == prm {
								idx = i
							}
						}
						s, isC := constString(ci.Common().Args[idx])
						if !isC || http.CanonicalHeaderKey(s) != s {
							ok = false
							why = "caller " + fnName(caller) + " passes a key that is not a canonical constant"
							if !isC && p.involvesNovelty(caller) {
								undecidedCaller = true // a forwarding layer unknown to the baseline: who supplies the key cannot be told
							}
						}
					}
				}
				if n == 0 {
					ok = false
				}
			} else if ex, isEx := key.(*ssa.Extract); isEx {
				// range key of the same kind of map (copying header maps)
				if nx, isNx := ex.Tuple.(*ssa.Next); isNx {
					if rg, isRg := nx.Iter.(*ssa.Range); isRg {
						t := typeStr(rg.X.Type())
						ok = t == "net/http.Header" || strings.HasPrefix(t, "net/textproto.MIMEHeader")
					}
				}
			}
			if !ok && undecidedCaller {
				c.obRI("R03.1", in, "direct-header-index", false, "a direct index into an http.Header uses a canonical key", why+" [not a verdict: the key passes through code unknown to the baseline]")
				continue
			}
			c.obI("R03.1", in, "direct-header-index", ok, "a direct index into an http.Header uses a canonical key (constant, CanonicalHeaderKey(..), a key copied from another header map, or a parameter that every in-repo caller supplies as a canonical constant)", why)
		}
	}
	c.min("R03.1", 6)

	// R03.2 Schema dereference
	nSchema := 0
	for _, fn := range p.LibFuncs("rt/middleware") {
		for _, in := range instrs(fn) {
			fa, ok := in.(*ssa.FieldAddr)
			if !ok {
				continue
			}
			isSchema := vFieldLoad(paramPropsT, "Schema", nil)
			if !isSchema(fa.X) {
				continue
			}
			nSchema++
			g := guardedBy(fa, nil, factNil(isSchema, false)) || guardedBy(fa, nil, factEqString(isIn, "body", true))
			c.obI("R03.2", fa, "schema-deref-guarded", g, "Parameter.Schema is only set for body parameters: it is dereferenced only under Schema != nil (or In == body)", "unguarded dereference of param.Schema")
		}
	}
	c.obRF("R03.2", p.Fn("(*rt/middleware.UntypedRequestBinder).Bind"), "schema-sites", nSchema >= 1, "the Schema fallback exists", "")

	// R03.3 typeForSchema total
	tf := p.Fn("(*rt/middleware.untypedParamBinder).typeForSchema")
	tpe := paramOf(tf, 0)
	knownType := func(cond ssa.Value, branch bool) bool {
		cnd, b := stripNot(cond, branch)
		bo, ok := cnd.(*ssa.BinOp)
		if !ok || (bo.Op != token.EQL && bo.Op != token.NEQ) {
			return false
		}
		if _, isC := constString(bo.Y); !isC || bo.X != ssa.Value(tpe) {
			return false
		}
		return b == (bo.Op == token.EQL)
	}
	items := paramOfType(tf, "*github.com/go-openapi/spec.Items")
	noItems := anyFact(factNil(vIs(items), true), factNil(vOrigins(oCall(-1, "(*rt/middleware.untypedParamBinder).typeForSchema")), true))
	nNil := 0
	for _, r := range returnsOf(tf) {
		if !isNilConst(r.Results[0]) {
			continue
		}
		nNil++
		ok := guardedBy(r, nil, noItems) || !pathExists(tf, nil, r, func(cond ssa.Value, branch bool) bool { return false }, nil) ||
			guardedByNoKnownType(tf, r, knownType)
		c.obI("R03.3", r, "nil-type-only-for-unknown", ok, "typeForSchema yields no Go type only for an array without typed items or for a type it does not know: every known type (with or without format) maps to a Go type", "a declared type the language allows (e.g. number without format) falls through to `return nil`, which sends the binder to dereference a nil Schema")
	}
	c.obRF("R03.3", tf, "has-fallback", nNil >= 1, "typeForSchema has an unknown-type fallback", "")
	// a numeric type without a (known) format maps to the WIDEST Go type of its family — int64 for integer, float64 for
	// number: every literal the declared type allows is then representable (a narrower default refuses values the
	// declaration admits)
	{
		// (type and format are the function's two string parameters, in that order — whatever else it takes)
		var strPrms []*ssa.Parameter
		for _, prm := range tf.Params {
			if typeStr(prm.Type()) == "string" {
				strPrms = append(strPrms, prm)
			}
		}
		var tpe, format ssa.Value = tpe, nil
		if len(strPrms) >= 2 {
			tpe, format = strPrms[0], strPrms[1]
		}
		eq := func(prm ssa.Value, want string, anyConst bool) EdgePred {
			return func(cond ssa.Value, branch bool) bool {
				cnd, b := stripNot(cond, branch)
				bo, ok := cnd.(*ssa.BinOp)
				if !ok || prm == nil || (bo.Op != token.EQL && bo.Op != token.NEQ) || bo.X != prm {
					return false
				}
				k, isC := constString(bo.Y)
				if !isC || (!anyConst && k != want) {
					return false
				}
				return b == (bo.Op == token.EQL)
			}
		}
		nDef := 0
		for _, r := range returnsOf(tf) {
			var got string
			okT, _ := allOrigins(r.Results[0], func(o Origin) bool {
				call := asCall(o.V)
				if call == nil {
					// a package-level `var int64Type = reflect.TypeOf(int64(0))`
					if ad, isLd := derefLoad(o.V); isLd {
						if g, isG := ad.(*ssa.Global); isG {
							call = globalInitCall(p, g, "reflect.TypeOf")
						}
					}
				}
				if call == nil || calleeName(&call.Call) != "reflect.TypeOf" {
					return false
				}
				got = typeStr(unboxed(call.Call.Args[0]).Type())
				return true
			})
			if !okT || got == "" {
				continue
			}
			for fam, widest := range map[string]string{"integer": "int64", "number": "float64"} {
				if !guardedBy(r, nil, eq(tpe, fam, false)) || guardedBy(r, nil, eq(format, "", true)) {
					continue // another family, or an arm selected by a format
				}
				nDef++
				c.obI("R03.3", r, "format-less-"+fam+"-maps-to-"+widest, got == widest, "type "+fam+" without a known format maps to "+widest, "it maps to "+got)
			}
		}
		c.obRF("R03.3", tf, "numeric-default-arms", nDef >= 2, "typeForSchema has default arms for integer and number", fmt.Sprintf("%d", nDef))
	}

	// the element type of an array is computed from the ITEMS' declaration
	nRec := 0
	for _, ci := range callsIn(tf, "(*rt/middleware.untypedParamBinder).typeForSchema") {
		nRec++
		isItems := vOrigins(oIsValue(items))
		okAll := true
		for _, fld := range []string{"Type", "Format", "Items"} {
			// (whatever the position: the helper may have gained or lost a leading parameter)
			found := false
			for _, arg := range ci.Common().Args {
				b, ok := fieldLoad(arg, simpleT, fld)
				if !ok {
					continue
				}
				if r, _, _, _ := chainRoot(b); isItems(r) {
					found = true
				}
			}
			if !found {
				okAll = false
			}
		}
		okT, okBase, okI := okAll, okAll, okAll
		c.obI("R03.3", ci, "item-type-from-items", okT && okBase && okI, "the element type of an array parameter is computed from the items' own type, FORMAT and nested items (int8/int16/int32 items keep their width, so out-of-width literals are refused)", "the recursive call is not fed items.Type, items.Format, items.Items")
	}
	c.obRF("R03.3", tf, "recurses-into-items", nRec == 1, "typeForSchema recurses into array items", "")

	// R03.4 reflect typestate on default-derived values
	ruleR03_4(c)

	// R03.5 numeric parsing
	sf := p.Fn("(*rt/middleware.untypedParamBinder).setFieldValue")
	type num struct{ parse, over, set string }
	for _, n := range []num{
		{"strconv.ParseInt", "(reflect.Value).OverflowInt", "(reflect.Value).SetInt"},
		{"strconv.ParseUint", "(reflect.Value).OverflowUint", "(reflect.Value).SetUint"},
		{"strconv.ParseFloat", "(reflect.Value).OverflowFloat", "(reflect.Value).SetFloat"},
	} {
		parses := callsIn(sf, n.parse)
		c.obRF("R03.5", sf, "parses-"+n.parse, len(parses) == 1, "numeric text is parsed by strconv", "")
		for _, pc := range parses {
			a := pc.Common().Args
			okArgs := false
			if n.parse == "strconv.ParseFloat" {
				k, ok := constInt(a[1])
				okArgs = ok && k == 64
			} else {
				b, ok1 := constInt(a[1])
				k, ok2 := constInt(a[2])
				okArgs = ok1 && ok2 && b == 10 && k == 64
			}
			okData, _ := allOrigins(a[0], oIsValue(paramOf(sf, 2)))
			c.obI("R03.5", pc, "decimal-64-bit", okArgs && okData, "the request text is parsed as a base-10 literal at 64 bits (range is then decided by Overflow* for the declared width): prefixes, underscores and octal are not literals of the declared type", "parse arguments are not (data, 10, 64)")
			val, perr := resultOf(pc.(*ssa.Call), 0), resultOf(pc.(*ssa.Call), 1)
			for _, sc := range callsIn(sf, n.set) {
				_, sa := callArgs(sc.Common())
				if okv, _ := allOrigins(sa[0], oIsValue(val)); !okv {
					continue // the default-value store
				}
				okErr := perr != nil && guardedBy(sc, pc, factNil(vIs(perr), true))
				isOver := func(v ssa.Value) bool {
					oc := asCall(v)
					if oc == nil || calleeName(&oc.Call) != n.over {
						return false
					}
					_, oa := callArgs(&oc.Call)
					okk, _ := allOrigins(oa[0], oIsValue(val))
					return okk
				}
				okOv := guardedBy(sc, pc, factBool(isOver, false))
				c.obI("R03.5", sc, "stored-only-if-parsed-and-in-range", okErr && okOv, "a parsed number is stored only when the parse succeeded and target."+strings.TrimPrefix(n.over, "(reflect.Value).")+" reported no overflow for the declared width", fmt.Sprintf("err==nil guard:%v overflow guard:%v", okErr, okOv))
			}
		}
	}
	// booleans are converted by swag.ConvertBool (case-insensitive over its list of true literals): what SetBool stores is
	// its result, or the default's own Bool()
	for _, ci := range callsIn(sf, "(reflect.Value).SetBool") {
		if ci.Parent() != sf {
			continue
		}
		_, a := callArgs(ci.Common())
		okB, bad := allOrigins(a[0], oCall(0, "github.com/go-openapi/swag.ConvertBool"), oCall(-1, "(reflect.Value).Bool"))
		c.obI("R03.5", ci, "boolean-from-ConvertBool", okB, "a boolean parameter is stored from swag.ConvertBool(text) (or from the default)", "the boolean stored originates from "+describeOrigin(bad)+": literals ConvertBool accepts in any case (TRUE, Yes, On) bind to another value without a 422")
	}
	// the "required" refusal of a scalar is waived by the DECLARED default (parameter.Default), not by the default value
	// a caller happens to hand in (array items are converted with a nil default)
	for _, rq := range callsIn(sf, "github.com/go-openapi/errors.Required") {
		if rq.Parent() != sf {
			continue
		}
		declared := factNil(func(v ssa.Value) bool {
			return vFieldLoad(simpleT, "Default", nil)(v) || vFieldLoadO(simpleT, "Default")(v)
		}, true)
		c.obI("R03.7", rq, "required-waived-by-the-declared-default", guardedBy(rq, nil, declared), "a missing required value is refused unless the parameter DECLARES a default", "the refusal does not test parameter.Default: an empty item of a required array with a declared default is refused (items are converted with a nil default)")
	}
	// a literal is refused as "not of the declared type" only because its conversion failed or overflowed: InvalidType is
	// never pronounced on the TEXT itself (its length, a prefix, a character class) — the parser decides what is a valid
	// in-range literal ("-9223372036854775808" has twenty characters)
	{
		convFailed := func(cond ssa.Value, branch bool) bool {
			cnd, b := stripNot(cond, branch)
			if bo, ok := cnd.(*ssa.BinOp); ok && (bo.Op == token.NEQ || bo.Op == token.EQL) {
				var side ssa.Value
				if isNilConst(bo.Y) {
					side = bo.X
				} else if isNilConst(bo.X) {
					side = bo.Y
				}
				if side != nil && typeStr(side.Type()) == "error" {
					isCallErr, _ := allOrigins(side, func(o Origin) bool { return asCall(o.V) != nil })
					return isCallErr && (bo.Op == token.NEQ) == b
				}
			}
			if call := asCall(cnd); call != nil && strings.HasPrefix(calleeName(&call.Call), "(reflect.Value).Overflow") {
				return b
			}
			return false
		}
		for _, ci := range callsIn(sf, "github.com/go-openapi/errors.InvalidType") {
			if ci.Parent() != sf {
				continue
			}
			// (the kind switch's default — a target of a kind no parameter type maps to — is not about the text)
			isKind := func(v ssa.Value) bool {
				kc := asCall(v)
				return kc != nil && calleeName(&kc.Call) == "(reflect.Value).Kind"
			}
			if guardedBy(ci, nil, factEqInt(isKind, int64(reflect.Ptr), false)) && guardedBy(ci, nil, factEqInt(isKind, int64(reflect.String), false)) {
				continue
			}
			c.obI("R03.5", ci, "invalid-type-only-after-a-failed-conversion", guardedBy(ci, nil, convFailed), "errors.InvalidType is returned only when a conversion (strconv, base64, ConvertBool, a text unmarshaler) failed or the value overflows the declared width", "InvalidType is reachable without any conversion having failed: the text is refused on grounds of its own (a valid literal of that shape gets 422)")
		}
	}
	checkErrorsReturned(c, "R03.5", sf, 0, func(call *ssa.Call) bool {
		// retry idiom: base64 std decoding falls back to URL decoding on error; only the last attempt's error is final
		if calleeName(&call.Call) != "(*encoding/base64.Encoding).DecodeString" {
			return false
		}
		ev := errValueOf(call)
		for _, k2 := range callsIn(sf, "(*encoding/base64.Encoding).DecodeString") {
			if k2 != ssa.CallInstruction(call) && ev != nil && pathExists(sf, call, k2, nil, nil) && guardedBy(k2, call, factNil(vIs(ev), false)) {
				return true
			}
		}
		return false
	})
	c.min("R03.5", 9)

	// R03.6 error discipline
	pb := p.Fn("(*rt/middleware.untypedParamBinder).Bind")
	// form parameters are read from a body of one of the two form media types — recognised on the PARSED media type
	// (runtime.ContentType lower-cases it and drops the parameters), never on header text
	{
		nForm := 0
		for _, in := range instrs(pb) {
			bo, ok := in.(*ssa.BinOp)
			if !ok || (bo.Op != token.EQL && bo.Op != token.NEQ) {
				continue
			}
			lit, other := "", ssa.Value(nil)
			if k, isK := constString(bo.Y); isK {
				lit, other = k, bo.X
			} else if k, isK := constString(bo.X); isK {
				lit, other = k, bo.Y
			}
			if lit != "multipart/form-data" && lit != "application/x-www-form-urlencoded" {
				continue
			}
			nForm++
			okMT, bad := allOrigins(other, oCall(0, "rt.ContentType"), oCall(0, "(*rt/middleware.Context).ContentType"), oCall(0, "mime.ParseMediaType"))
			c.obI("R03.6", bo, "form-media-type-is-the-parsed-one", okMT, "the media type compared with the form media types is the parsed (lower-cased, parameter-free) one", "compared value originates from "+describeOrigin(bad)+": a form posted as `Multipart/Form-Data` or `Application/X-WWW-Form-Urlencoded` is refused")
		}
		c.obRF("R03.6", pb, "recognises-form-bodies", nForm >= 2, "Bind recognises the two form media types", fmt.Sprintf("%d comparisons", nForm))
	}
	// request.MultipartForm is nil unless the body was multipart: the binder never reads through it unguarded (a
	// urlencoded post to an operation with a file parameter must yield an error, not a nil dereference)
	{
		isMF := func(v ssa.Value) bool {
			_, ok := fieldLoad(v, "net/http.Request", "MultipartForm")
			return ok
		}
		for _, in := range instrs(pb) {
			fa, ok := in.(*ssa.FieldAddr)
			if !ok || !isMF(fa.X) {
				continue
			}
			c.obI("R03.8", fa, "multipart-form-read-only-when-present", guardedBy(fa, nil, factNil(isMF, false)), "request.MultipartForm is dereferenced only behind a nil test (it is nil for every non-multipart body)", "request.MultipartForm."+fieldNameAt(fa)+" is read without a nil test: a urlencoded request panics the binder")
		}
	}
	checkErrorsReturned(c, "R03.6", pb, 0, func(call *ssa.Call) bool {
		n := calleeName(&call.Call)
		// FormFile error: optional file parameters bind nothing (checked separately below);
		// Consumer.Consume belongs to the body location, which is outside this property (see C06)
		return n == "(*net/http.Request).FormFile" || n == "(rt.Consumer).Consume"
	})
	for _, ff := range callsIn(pb, "(*net/http.Request).FormFile") {
		ev := errValueOf(ff.(*ssa.Call))
		okF := ev != nil
		if okF {
			for _, r := range successReturns(pb, 0) {
				if pathExists(pb, ff, r, anyFact(factNil(vIs(ev), true), factBool(vFieldLoad(paramPropsT, "Required", nil), false)), nil) {
					okF = false
				}
			}
		}
		c.obI("R03.6", ff, "missing-required-file-is-an-error", okF, "a missing file upload is ignored only for optional parameters", "")
	}
	// "when one exists": the binder built for a declared parameter ALWAYS gets a validator — whatever its location
	// (the request binder skips a nil validator silently, so a location left out here loses its declared validations)
	{
		nb := p.Fn("rt/middleware.newUntypedParamBinder")
		isValStore := func(in ssa.Instruction) bool {
			st, ok := in.(*ssa.Store)
			if !ok {
				return false
			}
			fa, ok := fieldAddrOf(st.Addr, "rt/middleware.untypedParamBinder", "validator")
			if !ok || fa == nil {
				return false
			}
			okV, _ := allOrigins(st.Val, oCall(-1, "github.com/go-openapi/validate.NewParamValidator"), oCall(-1, "github.com/go-openapi/validate.NewSchemaValidator"))
			return okV
		}
		nRet := 0
		for _, r := range realReturns(nb) {
			nRet++
			c.obI("R03.6", r, "every-binder-has-a-validator", !pathExists(nb, nil, r, nil, isValStore), "newUntypedParamBinder installs a validator (parameter or schema validator) on every path: no location is left without its declared validations", "a binder can be returned without a validator")
		}
		c.obRF("R03.6", nb, "binder-constructor-returns", nRet >= 1, "the binder constructor returns", "")
	}
	ub := p.Fn("(*rt/middleware.UntypedRequestBinder).Bind")
	binds := callsIn(ub, "(*rt/middleware.untypedParamBinder).Bind")
	vals := callsIn(ub, "(github.com/go-openapi/validate.EntityValidator).Validate")
	c.obRF("R03.6", ub, "binds-and-validates", len(binds) == 1 && len(vals) == 1, "the request binder binds each parameter and runs its validator", fmt.Sprintf("%d/%d", len(binds), len(vals)))
	if len(binds) == 1 && len(vals) == 1 {
		b := binds[0].(*ssa.Call)
		loops := mapLoops(ub, vFieldLoad("rt/middleware.UntypedRequestBinder", "Parameters", nil))
		c.obRF("R03.6", ub, "parameter-loop", len(loops) == 1, "one pass over the declared parameters", "")
		for _, l := range loops {
			c.obI("R03.6", l.Next, "every-parameter-bound", l.everyIteration(func(in ssa.Instruction) bool {
				return in == ssa.Instruction(b) || isAppendOfCall(nil, "github.com/go-openapi/errors.New")(in)
			}), "every declared parameter is bound (or reported as an unknown field)", "a parameter can be skipped")
			noValidator := factNil(vFieldLoad("rt/middleware.untypedParamBinder", "validator", nil), true)
			bindFailed := factNil(vIs(b), false)
			unvalidated := pathExists(ub, b, l.Next, anyFact(noValidator, bindFailed), isOneOf(vals[0]))
			c.obI("R03.6", vals[0], "every-bound-value-validated", !unvalidated, "every successfully bound value is handed to the parameter's validator when one exists (declared validations apply to every value, including zero values and defaults)", "an iteration can bind a value and move on without calling the validator")
			errorRecordedInLoop(c, "R03.6", ub, b, l.Next, "bind-error-recorded")
			// validation failures recorded
			v := vals[0].(*ssa.Call)
			hasErr := factBool(vOrigins(oCall(-1, "(*github.com/go-openapi/validate.Result).HasErrors")), true)
			isRec := isAppendOfCall(nil, "(*github.com/go-openapi/validate.Result).AsError")
			lost := pathExists(ub, v, l.Next, func(cond ssa.Value, branch bool) bool {
				return factNil(vIs(v), true)(cond, branch) || negate(hasErr)(cond, branch)
			}, isRec)
			c.obI("R03.6", v, "validation-failure-recorded", !lost, "a failed validation is appended to the 422 accumulator", "a validation result with errors can be dropped")
			_, va := callArgs(&v.Call)
			okT := false
			for _, o := range originsOf(va[0]) {
				if tc := asCall(o.V); tc != nil && calleeName(&tc.Call) == "(reflect.Value).Interface" {
					okT = true
				}
			}
			c.obI("R03.6", v, "validates-bound-value", okT, "the validator sees the bound value", "")
		}
		for _, r := range returnsOf(ub) {
			if isNilConst(r.Results[0]) {
				c.obI("R03.6", r, "composite-when-errors", guardedBy(r, nil, factLenPositive(isErrSliceLen, false)), "Bind returns nil only with an empty accumulator", "")
			} else {
				ok, _ := allOrigins(r.Results[0], oCall(-1, "github.com/go-openapi/errors.CompositeValidationError"))
				c.obI("R03.6", r, "composite-error", ok, "binder errors are returned as the 422 composite", "")
			}
		}
	}
	vp := p.Fn("(*rt/middleware.validation).parameters")
	for _, b := range callsIn(vp, "(*rt/middleware.UntypedRequestBinder).Bind") {
		res := b.Value()
		lost := false
		for _, r := range returnsOf(vp) {
			isRec := func(in ssa.Instruction) bool {
				st, ok := in.(*ssa.Store)
				if !ok {
					return false
				}
				_, okF := fieldAddrOf(st.Addr, "rt/middleware.validation", "result")
				return okF
			}
			isDecomposed := func(in ssa.Instruction) bool {
				ta, ok := in.(*ssa.TypeAssert)
				return ok && ta.X == res // the composite is taken apart and its members are appended one by one
			}
			if pathExists(vp, b, r, factNil(vIs(res), true), func(in ssa.Instruction) bool { return isRec(in) || isDecomposed(in) }) {
				lost = true
			}
		}
		c.obI("R03.6", b, "binder-errors-reach-validation-result", !lost, "a binder error always ends up in validation.result (which stops the handler)", "a non-nil binder result can be dropped")
		// when the composite is taken apart, every member is recorded: a member filtered out (by its type, its code …)
		// is a binder error that no longer stops the handler
		isRecStore := func(in ssa.Instruction) bool {
			st, ok := in.(*ssa.Store)
			if !ok {
				return false
			}
			_, okF := fieldAddrOf(st.Addr, "rt/middleware.validation", "result")
			return okF
		}
		for _, l := range sliceLoops(vp, nil) {
			c.obI("R03.6", l.Elem, "every-member-recorded", l.everyIteration(isRecStore) && l.noEarlyExit(), "every member of the binder's composite error is appended to validation.result", "a member of the binder's error list can be skipped")
		}
		_, a := callArgs(b.Common())
		okA := vFieldLoadO("rt/middleware.validation", "request")(a[0]) && vFieldLoadO(matchedRouteT, "Params")(a[1]) && vFieldLoadO("rt/middleware.validation", "bound")(a[3])
		c.obI("R03.6", b, "binder-inputs", okA, "the binder is fed this request, its route parameters and the per-request result map", "")
	}
	c.min("R03.6", 12)

	// R03.7 locations
	req, rparams := paramOf(pb, 0), paramOf(pb, 1)
	isReq := vOrigins(oIsValue(req))
	type loc struct {
		name string
		src  func(v ssa.Value) bool
	}
	conv := func(v ssa.Value) ssa.Value {
		for {
			switch x := v.(type) {
			case *ssa.MakeInterface:
				v = x.X
			case *ssa.ChangeType:
				v = x.X
			default:
				return v
			}
		}
	}
	locs := []loc{
		{"query", func(v ssa.Value) bool {
			q := asCall(conv(v))
			return q != nil && calleeName(&q.Call) == "(*net/url.URL).Query" && vFieldLoad("net/http.Request", "URL", isReq)(q.Call.Args[0])
		}},
		{"header", func(v ssa.Value) bool { return vFieldLoad("net/http.Request", "Header", isReq)(conv(v)) }},
		{"path", func(v ssa.Value) bool { return conv(v) == ssa.Value(rparams) }},
		{"formData", func(v ssa.Value) bool {
			x := conv(v)
			return vFieldLoad("mime/multipart.Form", "Value", vFieldLoad("net/http.Request", "MultipartForm", isReq))(x) || vFieldLoad("net/http.Request", "PostForm", isReq)(x)
		}},
	}
	seenLoc := map[string]int{}
	// per calling context: a helper shared by the locations is examined once per call
	for _, site := range callSitesUnder(pb, "(*rt/middleware.untypedParamBinder).readValue") {
		ci := site.In.(ssa.CallInstruction)
		_, a := callArgs(ci.Common())
		matched := ""
		var srcDesc string
		site.at(func() {
			src := a[0]
			// inside a helper the source is the helper's parameter: take the argument bound in this context
			for i := 0; i < 4; i++ {
				if prm, isP := conv(src).(*ssa.Parameter); isP {
					if b, ok := paramEnv[prm]; ok {
						src = b
						continue
					}
				}
				break
			}
			srcDesc = describe(conv(src))
			for _, l := range locs {
				// the source may be chosen first and read once (`vals := PostForm; if MultipartForm != nil { vals = … }`):
				// every alternative merged into it must be a source of this location
				var each func(v ssa.Value, d int) bool
				each = func(v ssa.Value, d int) bool {
					if phi, isPhi := conv(v).(*ssa.Phi); isPhi && d < 4 {
						for _, e := range phi.Edges {
							if !each(e, d+1) {
								return false
							}
						}
						return len(phi.Edges) > 0
					}
					return l.src(v)
				}
				if each(src, 0) && site.guarded(pb, factEqString(isIn, l.name, true)) {
					matched = l.name
				}
			}
		})
		seenLoc[matched]++
		c.obI("R03.7", ci, "location-source", matched != "", "each location reads its own source under its own case: query -> URL.Query(), header -> Header, path -> route parameters, formData -> MultipartForm.Value / PostForm (never the merged Form)", "source "+srcDesc+" does not belong to the location under which it is read")
	}
	for _, l := range locs {
		c.obF("R03.7", pb, "handles-"+l.name, seenLoc[l.name] >= 1, "location "+l.name+" is handled", "")
	}
	okBody := len(callsIn(pb, "(rt.Consumer).Consume")) == 1
	c.obF("R03.7", pb, "handles-body", okBody, "location body is handled by the consumer", "")
	// unknown location is an error
	known := func(cond ssa.Value, branch bool) bool {
		for _, n := range []string{"query", "header", "path", "formData", "body"} {
			if factEqString(isIn, n, true)(cond, branch) {
				return true
			}
		}
		return false
	}
	for _, r := range successReturns(pb, 0) {
		c.obI("R03.7", r, "unknown-location-fails", guardedBy(r, nil, known), "Bind succeeds only for one of the five known locations", "a nil error is reachable for an unknown location")
	}
	// multi only where allowed
	for _, g := range callsIn(rv, "(rt.Gettable).GetOK") {
		if !guardedBy(g, nil, factEqString(vFieldLoad(simpleT, "CollectionFormat", nil), "multi", true)) {
			continue
		}
		okM := guardedBy(g, nil, factBool(vOrigins(oCallBase(-1, "allowsMulti")), true))
		c.obI("R03.7", g, "multi-only-where-allowed", okM, "collection format multi is honoured only for query and formData parameters", "")
	}
	am := p.Fn("(*rt/middleware.untypedParamBinder).allowsMulti")
	nAM := 0
	for _, in := range instrs(am) {
		if bo, ok := in.(*ssa.BinOp); ok && bo.Op == token.EQL {
			if s, isC := constString(bo.Y); isC {
				nAM++
				c.obI("R03.7", bo, "multi-locations", s == "query" || s == "formData", "multi is allowed for query and formData only", "allows "+s)
			}
		}
	}
	// a multi-valued parameter keeps one item per occurrence, in order: setSliceFieldValue converts data[i] into
	// element i of a slice made with len(data) elements and stores that very slice
	{
		sf := p.Fn("(*rt/middleware.untypedParamBinder).setSliceFieldValue")
		data := paramOfType(sf, "[]string")
		loops := sliceLoops(sf, vOrigins(oIsValue(data)))
		c.obRF("R03.7", sf, "item-loop", len(loops) == 1, "one pass over the occurrences of the parameter", fmt.Sprintf("%d loops", len(loops)))
		var mk []ssa.CallInstruction
		for _, ci := range callsIn(sf, "reflect.MakeSlice") {
			mk = append(mk, ci)
		}
		for _, l := range loops {
			var conv *ssa.Call
			for _, ci := range callsIn(sf, "(*rt/middleware.untypedParamBinder).setFieldValue") {
				if call, ok := ci.(*ssa.Call); ok {
					conv = call
				}
			}
			if conv == nil {
				c.obRF("R03.7", sf, "item-converted", false, "each occurrence is converted by setFieldValue", "")
				continue
			}
			okEvery := l.everyIteration(isOneOf(conv))
			c.obI("R03.7", l.Elem, "every-occurrence-is-an-item", okEvery, "every occurrence of a multi-valued parameter — an empty one included — becomes an item of the bound array", "an occurrence can be skipped")
			// element i receives occurrence i
			_, a := callArgs(conv.Common())
			okIdx := false
			if ix := asCall(a[0]); ix != nil && calleeName(&ix.Call) == "(reflect.Value).Index" {
				_, ia := callArgs(&ix.Call)
				okIdx = len(ia) == 1 && ia[0] == l.Elem.Index
			}
			okVal := false
			if ld, isLd := derefLoad(a[2]); isLd {
				okVal = ld == ssa.Value(l.Elem)
			}
			c.obI("R03.7", conv, "item-i-from-occurrence-i", okIdx && okVal, "occurrence i is converted into element i (order and positions are kept)", "")
			// an item has no default of its own: the ARRAY's default (a whole slice) is never handed to the item conversion,
			// where an empty item would be bound from it (reflect panics or stores the slice's text)
			c.obI("R03.7", conv, "items-converted-without-default", len(a) >= 2 && isNilConst(a[1]), "the per-item conversion is given no default value (nil): the array's default applies to the absent array only", "the item conversion receives "+describe(a[1])+" as its default")
		}
		n := 0
		for _, ci := range callsIn(sf, "(reflect.Value).Set") {
			recv, a := callArgs(ci.Common())
			if ok, _ := allOrigins(recv, oIsValue(paramOfType(sf, "reflect.Value"))); !ok {
				continue
			}
			n++
			ok, bad := allOrigins(a[0], oCall(-1, "reflect.MakeSlice"), oCall(-1, "reflect.Zero"), oCall(-1, "reflect.ValueOf"))
			c.obI("R03.7", ci, "stores-the-whole-slice", ok, "the target receives the slice of len(data) items as made (or the default), not a part of it", "origin "+describeOrigin(bad))
			// the declared default stands in whenever NO ITEMS were obtained (absent, or present but empty) — the test is on
			// the number of items, not on the presence of the key
			if isDef, _ := allOrigins(a[0], oCall(-1, "reflect.Zero"), oCall(-1, "reflect.ValueOf")); isDef {
				noItems := factEqInt(func(v ssa.Value) bool {
					okL, _ := allOrigins(v, oCallWhere(-1, "builtin len", func(lc *ssa.Call) bool {
						okk, _ := allOrigins(lc.Call.Args[0], oIsValue(data))
						return okk
					}))
					return okL
				}, 0, true)
				isLenOfData := func(v ssa.Value) bool {
					okL, _ := allOrigins(v, oCallWhere(-1, "builtin len", func(lc *ssa.Call) bool {
						okk, _ := allOrigins(lc.Call.Args[0], oIsValue(data))
						return okk
					}))
					return okL
				}
				noItemsOrd := func(cond ssa.Value, branch bool) bool {
					// sz > 0 false, sz >= 1 false, sz < 1 true, sz <= 0 true (a length is never negative)
					cnd, b := stripNot(cond, branch)
					bo, isBo := cnd.(*ssa.BinOp)
					if !isBo || !isLenOfData(bo.X) {
						return false
					}
					k, isK := constInt(bo.Y)
					if !isK {
						return false
					}
					switch {
					case bo.Op == token.GTR && k == 0, bo.Op == token.GEQ && k == 1:
						return !b
					case bo.Op == token.LSS && k == 1, bo.Op == token.LEQ && k == 0:
						return b
					}
					return false
				}
				noItems = anyFact(noItems, noItemsOrd)
				c.obI("R03.7", ci, "default-applies-when-no-items", guardedBy(ci, nil, noItems), "the array default is stored exactly when len(data) == 0", "the default is applied under another condition than `no items` (a parameter sent with an empty value binds an empty array instead of its default)")
			}
		}
		c.obRF("R03.7", sf, "sets-target", n >= 1, "setSliceFieldValue stores into its target", "")
		for _, ci := range mk {
			_, a := callArgs(ci.Common())
			okLen := false
			if len(a) == 3 {
				isLen := func(v ssa.Value) bool {
					ok, _ := allOrigins(v, oCallWhere(-1, "builtin len", func(lc *ssa.Call) bool {
						okk, _ := allOrigins(lc.Call.Args[0], oIsValue(data))
						return okk
					}))
					return ok
				}
				okLen = isLen(a[1])
			}
			c.obI("R03.7", ci, "slice-sized-by-occurrences", okLen, "the bound array has as many items as the parameter has occurrences", "")
		}
	}
	// a separated collection is split by the declared format and by nothing else (ssv is the single space: a tab or a
	// newline inside an item is part of the item)
	{
		rf := p.Fn("(*rt/middleware.untypedParamBinder).readFormattedSliceFieldValue")
		for _, r := range realReturns(rf) {
			if len(r.Results) < 1 {
				continue
			}
			ok, bad := allOrigins(r.Results[0], oNil(), oCallWhere(-1, "github.com/go-openapi/swag.SplitByFormat", func(sp *ssa.Call) bool {
				okD, _ := allOrigins(sp.Call.Args[0], oIsValue(paramOfType(rf, "string")))
				okF := vFieldLoad(simpleT, "CollectionFormat", nil)(sp.Call.Args[1]) || vFieldLoadO(simpleT, "CollectionFormat")(sp.Call.Args[1])
				return okD && okF
			}))
			c.obI("R03.7", r, "split-by-declared-format", ok, "the items of a separated collection are swag.SplitByFormat(text, declared collectionFormat)", "origin "+describeOrigin(bad))
		}
		// a string parameter sent empty takes its declared default, whatever allowEmptyValue says: the text as sent is
		// used only when it is not empty
		sf := p.Fn("(*rt/middleware.untypedParamBinder).setFieldValue")
		data := paramOfType(sf, "string")
		for _, in := range instrs(sf) {
			phi, isPhi := in.(*ssa.Phi)
			if !isPhi || typeStr(phi.Type()) != "string" {
				continue
			}
			hasDef := false
			for _, e := range phi.Edges {
				if dc := asCall(e); dc != nil && calleeName(&dc.Call) == "(reflect.Value).String" {
					hasDef = true
				}
			}
			if !hasDef {
				continue
			}
			for i, e := range phi.Edges {
				if e != ssa.Value(data) {
					continue
				}
				g := edgeGuarded(phi.Block().Preds[i], phi.Block(), nil, factEqString(vIs(data), "", false))
				c.obI("R03.7", lastInstr(phi.Block().Preds[i]), "empty-text-takes-the-default", g, "the sent text is bound as it is only when it is not empty; empty text takes the declared default", "empty text can be bound although a default is declared (the default is substituted only under a further condition)")
			}
		}
	}
	// readValue hands on what the request carries: the occurrences found under the key, untouched (only the
	// separated collection formats are split, by readFormattedSliceFieldValue) — each occurrence of a multi-valued
	// parameter is one item, whatever characters it contains
	{
		rv := p.Fn("(*rt/middleware.untypedParamBinder).readValue")
		for _, r := range realReturns(rv) {
			if len(r.Results) < 1 {
				continue
			}
			ok, bad := allOrigins(r.Results[0], oNil(), func(o Origin) bool {
				call := asCall(o.V)
				return call != nil && call.Call.IsInvoke() && call.Call.Method.Name() == "GetOK"
			}, oCall(0, "(*rt/middleware.untypedParamBinder).readFormattedSliceFieldValue"))
			c.obI("R03.7", r, "occurrences-handed-on-verbatim", ok, "the values readValue returns are the occurrences GetOK found (or the split of the last one for a separated collection format): nothing else splits, trims or rewrites them", "origin "+describeOrigin(bad))
		}
	}
	// a required parameter that is absent (or empty without allowEmptyValue) is refused before anything is converted:
	// in the two setters no conversion step (the text-unmarshaler shortcut, the reflective setters, the per-item
	// conversion) can be followed by the "required" refusal — the refusal is decided first
	for _, fn := range []string{"(*rt/middleware.untypedParamBinder).setFieldValue", "(*rt/middleware.untypedParamBinder).setSliceFieldValue"} {
		sf := p.Fn(fn)
		reqs := callsIn(sf, "github.com/go-openapi/errors.Required")
		c.obRF("R03.7", sf, "refuses-missing-required", len(reqs) >= 1, "the setter refuses a missing required parameter", "no errors.Required call")
		for _, rq := range reqs {
			for _, ci := range allCalls(sf) {
				if ci.Parent() != sf {
					continue
				}
				n := calleeName(ci.Common())
				conv := n == "(*rt/middleware.untypedParamBinder).tryUnmarshaler" || n == "(*rt/middleware.untypedParamBinder).setFieldValue" ||
					(strings.HasPrefix(n, "(reflect.Value).Set") && n != "(reflect.Value).Set")
				if !conv {
					continue
				}
				c.obI("R03.7", ci, "required-decided-before-conversion", !pathExists(sf, ci, rq, nil, nil), "no conversion step precedes the test for a missing required value (a type that unmarshals itself from text cannot turn an absent required parameter into its zero value)", "the 'required' refusal is reachable only after "+n+" has run")
			}
		}
	}
	// a literal that does not convert is answered 422 (InvalidType / Required …): the conversion functions of the binder
	// never build the 400-coded parse error (ServeError answers with the code of the first error it is given)
	for _, fn := range []string{"(*rt/middleware.untypedParamBinder).setFieldValue", "(*rt/middleware.untypedParamBinder).setSliceFieldValue",
		"(*rt/middleware.untypedParamBinder).tryUnmarshaler", "(*rt/middleware.untypedParamBinder).bindValue", "(*rt/middleware.untypedParamBinder).readFormattedSliceFieldValue"} {
		sf := p.Fn(fn)
		if sf == nil {
			continue
		}
		for _, ci := range callsIn(sf, "github.com/go-openapi/errors.NewParseError") {
			c.obD("R03.7", ci, "conversion-errors-are-422", false, "a value that is not a valid literal of the declared type is refused with a 422 validation error: the value setters never wrap it in a 400 parse error", baseName(fn)+" builds errors.NewParseError (code 400)")
		}
	}
	// the name a binder reports (in every 422 and in Validation.Name) is the declared parameter name: the binder's Name
	// is written from the parameter's own Name when it is made, and otherwise only where Bind re-labels it for STRUCT
	// targets (never for the map targets of the routed API, whose parameter table is keyed "<in>#<GoName>")
	{
		nW := 0
		for _, fn := range p.LibFuncs("rt/middleware") {
			for _, st := range fieldStores(fn, "rt/middleware.untypedParamBinder", "Name") {
				if st.Parent() != fn {
					continue
				}
				nW++
				okDecl, _ := allOrigins(st.Val, oFieldLoad(paramPropsT, "Name", nil))
				what := "an untyped binder is named after the declared parameter (spec name), except where Bind re-labels it with the struct field it binds into"
				switch {
				case okDecl:
					c.obI("R03.7", st, "binder-named-after-declaration", true, what, "")
				case onlyRootedIn(fn, "(*rt/middleware.UntypedRequestBinder).Bind"):
					isMapV := func(v ssa.Value) bool {
						bo, ok := v.(*ssa.BinOp)
						if !ok {
							return false
						}
						k := asCall(bo.X)
						return k != nil && calleeName(&k.Call) == "(reflect.Value).Kind"
					}
					c.obI("R03.7", st, "binder-named-after-declaration", guardedBy(st, nil, factBool(isMapV, false)), what, "Bind renames the binder for a map target")
				default:
					c.obI("R03.7", st, "binder-named-after-declaration", false, what, short(fn.String())+" names the binder "+describe(st.Val)+" for every kind of target: errors of the routed API name the table key instead of the parameter")
				}
			}
		}
		c.obRF("R03.7", p.Fn("rt/middleware.newUntypedParamBinder"), "binder-gets-a-name", nW >= 1, "the binder's Name is written somewhere", "")
	}
	c.min("R03.7", 18)

	// R03.8 bounds
	var bf []*ssa.Function
	for _, n := range []string{"(*rt/middleware.untypedParamBinder).readValue", "(*rt/middleware.untypedParamBinder).bindValue", "(*rt/middleware.untypedParamBinder).setSliceFieldValue",
		"(rt/middleware.RouteParams).Get", "(rt/middleware.RouteParams).GetOK", "(rt.Values).GetOK", "rt.ReadSingleValue"} {
		bf = append(bf, p.Fn(n))
	}
	checkBounds(c, "R03.8", bf, c03Table)
	// the Gettable contract on the in-repo implementations
	for _, n := range []string{"(rt.Values).GetOK", "(rt/middleware.RouteParams).GetOK"} {
		f := p.Fn(n)
		for _, r := range returnsOf(f) {
			hv := r.Results[2]
			if b, ok := constBool(hv); ok && !b {
				continue
			}
			okc := false
			if b, ok := constBool(hv); ok && b {
				// constant true: the value slice returned must be non-empty on this path
				bb := &bctx{c: c, fn: f, assumeNonNeg: map[*ssa.Parameter]bool{}, assumeLT: map[ltAssume]bool{}}
				okc = bb.lenGT(r.Results[0], 0, r)
			} else if bo, isBo := hv.(*ssa.BinOp); isBo {
				if l := asCall(bo.X); l != nil && calleeName(&l.Call) == "builtin len" && l.Call.Args[0] == r.Results[0] {
					// hasValue IS `len(value) > 0`
					k, isK := constInt(bo.Y)
					okc = isK && (bo.Op == token.GTR && k == 0 || bo.Op == token.NEQ && k == 0 || bo.Op == token.GEQ && k == 1)
				} else {
					// p.Value != "" with value slice []string{p.Value}
					elems, isLit := sliceLitElems(r.Results[0])
					okc = isLit && len(elems) == 1
				}
			} else {
				// named result: every store of true is under len(value) > 0
				okc = true
				for _, o := range originsOf(hv) {
					if b, isB := constBool(o.V); isB && !b {
						continue
					}
					if b, isB := constBool(o.V); isB && b {
						continue
					}
					if bo, isBo := o.V.(*ssa.BinOp); isBo {
						// one arm of `hasKey && len(value) > 0`
						if l := asCall(bo.X); l != nil && calleeName(&l.Call) == "builtin len" && sameVal(l.Call.Args[0], r.Results[0]) {
							k, isK := constInt(bo.Y)
							if isK && (bo.Op == token.GTR && k == 0 || bo.Op == token.NEQ && k == 0 || bo.Op == token.GEQ && k == 1) {
								continue
							}
						}
					}
					okc = false
				}
			}
			c.obI("R03.8", r, "hasValue-implies-nonempty", okc, "GetOK reports hasValue only together with a non-empty value slice", "")
		}
	}
	c.min("R03.8", 6)
	// path parameters are bound from the route parameters the router decoded (PathUnescape, once)
	rulePathValuesDecodedOnce(c, "R03.7")
	// the last occurrence wins for scalars: the text bindValue hands on is data[len(data)-1]
	{
		bv := p.Fn("(*rt/middleware.untypedParamBinder).bindValue")
		data := paramOf(bv, 0)
		n := 0
		for _, ci := range callsIn(bv, "(*rt/middleware.untypedParamBinder).setFieldValue") {
			_, a := callArgs(ci.Common())
			for _, o := range originsOf(a[2]) {
				if k, isK := constString(o.V); isK && k == "" {
					continue
				}
				n++
				okLast := false
				if ad, isLd := derefLoad(o.V); isLd {
					if ia, isIA := ad.(*ssa.IndexAddr); isIA && ia.X == ssa.Value(data) {
						if bo, isBo := ia.Index.(*ssa.BinOp); isBo && bo.Op == token.SUB {
							if k, isK := constInt(bo.Y); isK && k == 1 {
								if l := asCall(bo.X); l != nil && calleeName(&l.Call) == "builtin len" && l.Call.Args[0] == ssa.Value(data) {
									okLast = true
								}
							}
						}
					}
				}
				c.obI("R03.7", ci, "scalar-takes-last-occurrence", okLast, "a scalar parameter is bound from the LAST occurrence of its key: the text handed to setFieldValue is data[len(data)-1]", "the text bound is "+describe(o.V))
			}
		}
		c.obRF("R03.7", bv, "scalar-text-selected", n >= 1, "bindValue selects one occurrence of a scalar parameter", "")
	}
}

// guardedByNoKnownType: r is reachable only along paths that never took a `tpe == "<const>"` true edge.
func guardedByNoKnownType(f *ssa.Function, r ssa.Instruction, known EdgePred) bool {
	return !pathExistsThrough(f, r, known)
}

// pathExistsThrough: some path entry -> target takes at least one edge accepted by pred.
func pathExistsThrough(f *ssa.Function, target ssa.Instruction, pred EdgePred) bool {
	for _, b := range f.Blocks {
		iff, ok := lastInstr(b).(*ssa.If)
		if !ok {
			continue
		}
		for i, br := range []bool{true, false} {
			if !pred(iff.Cond, br) {
				continue
			}
			succ := b.Succs[i]
			// entry reaches b, and succ reaches target
			if (b == f.Blocks[0] || reachableFrom(f.Blocks[0], b)) && (succ == target.Block() || reachableFrom(succ, target.Block())) {
				return true
			}
		}
	}
	return false
}

// errorRecordedInLoop: after fallible call k inside a loop, every path with a non-nil error that reaches the next
// iteration (or a return) appends the error.
func errorRecordedInLoop(c *Ctx, rule string, f *ssa.Function, k *ssa.Call, next ssa.Instruction, construct string) {
	ev := errValueOf(k)
	if ev == nil {
		c.obI(rule, k, construct, false, "the error of this step is recorded", "error result dropped")
		return
	}
	lost := pathExists(f, k, next, factNil(vIs(ev), true), isAppendWith(ev))
	for _, r := range returnsOf(f) {
		if pathExists(f, k, r, factNil(vIs(ev), true), func(in ssa.Instruction) bool { return isAppendWith(ev)(in) || in == next }) {
			lost = true
		}
	}
	c.obI(rule, k, construct, !lost, "a binding error is appended to the 422 accumulator on every path", "a binding error can be dropped")
}

// R03.4: reflect kind typestate on values derived from the spec's default.
func ruleR03_4(c *Ctx) {
	p := c.P
	fns := []*ssa.Function{
		p.Fn("(*rt/middleware.untypedParamBinder).setFieldValue"),
		p.Fn("(*rt/middleware.untypedParamBinder).setSliceFieldValue"),
		p.Fn("(*rt/middleware.untypedParamBinder).tryUnmarshaler"),
		p.Fn("(*rt/middleware.untypedParamBinder).Bind"),
		p.Fn("(*rt/middleware.untypedParamBinder).bindValue"),
		p.Fn("(*rt/middleware.untypedParamBinder).readFormattedSliceFieldValue"),
	}
	isDefaultSrc := func(v ssa.Value) bool {
		// reflect.ValueOf(<default>) where <default> is Parameter.Default or a `defaultValue` parameter fed from it
		call := asCall(v)
		if call == nil || calleeName(&call.Call) != "reflect.ValueOf" {
			return false
		}
		for _, o := range originsOf(call.Call.Args[0]) {
			if vFieldLoad(simpleT, "Default", nil)(o.V) || vFieldLoad("github.com/go-openapi/spec.SchemaProps", "Default", nil)(o.V) {
				return true
			}
			if prm, ok := o.V.(*ssa.Parameter); ok && strings.Contains(strings.ToLower(prm.Name()), "default") {
				return true
			}
		}
		return false
	}
	derived := func(v ssa.Value) bool {
		for _, o := range originsOf(v) {
			if isDefaultSrc(o.V) {
				return true
			}
		}
		return false
	}
	n := 0
	done := map[ssa.Instruction]bool{}
	for _, fn := range fns {
		for _, ci := range allCalls(fn) {
			name := calleeName(ci.Common())
			if !strings.HasPrefix(name, "(reflect.Value).") {
				continue
			}
			if done[ci] {
				continue // an instruction of a shared helper is examined once
			}
			done[ci] = true
			fn := ci.Parent()
			recv, args := callArgs(ci.Common())
			onDefault := derived(recv)
			argDefault := false
			for _, a := range args {
				if derived(a) {
					argDefault = true
				}
			}
			// x.SetBytes(defVal.Bytes()) etc: the inner call is caught as a call on the default itself
			if !onDefault && !argDefault {
				continue
			}
			if guardedBy(ci, nil, factEqString(vFieldLoad(paramPropsT, "In", nil), "body", true)) {
				continue // body parameters are outside this property (C03 is about non-body declarations)
			}
			n++
			op := strings.TrimPrefix(name, "(reflect.Value).")
			isPtrKind := factEqInt(func(v ssa.Value) bool {
				k := asCall(v)
				if k == nil || calleeName(&k.Call) != "(reflect.Value).Kind" {
					return false
				}
				r, _ := callArgs(&k.Call)
				return derived(r)
			}, 22, true) // reflect.Ptr
			if !onDefault && guardedBy(ci, nil, isPtrKind) {
				c.ob("R03.4", obFnName(fn), op+"(default)", c.P.InstrPos(ci), true,
					"a spec default is stored into the binding target only after conversion to the target's type [kind table: under defVal.Kind() == Ptr the value can only be reflect.Zero(target.Type()) — a JSON-decoded default is never a pointer — so the types are identical]", "")
				continue
			}
			if onDefault {
				reason, safe := c03KindSafe[name]
				c.ob("R03.4", obFnName(fn), "default."+op, c.P.InstrPos(ci), safe,
					"reflect operations that assert a kind on a value derived from the spec's default are kind-safe for every declaration the language allows [kind table: "+reason+"]",
					"reflect.Value."+op+" on the spec default asserts a kind the JSON-decoded default does not have for some declarations (e.g. a string default for format byte): reflect panics")
			} else {
				c.ob("R03.4", obFnName(fn), op+"(default)", c.P.InstrPos(ci), false,
					"a spec default is stored into the binding target only after conversion to the target's type",
					"reflect.Value."+op+" stores the JSON-decoded default (string, float64, []interface{}) into a target of the declared Go type without conversion: reflect panics when the types differ (array defaults, strfmt formats, byte)")
			}
		}
	}
	c.obRF("R03.4", fns[0], "sites", n >= 6, "default-derived reflect operations enumerated", fmt.Sprintf("%d sites", n))
}
