package main

import (
	"fmt"
	"go/token"
	"go/types"
	"strings"

	"golang.org/x/tools/go/ssa"
)

func init() {
	register(&Property{
		ID: "C05",
		Explanation: "Decides: R05.1 'Lookup never panics' as bounds obligations over Router.Lookup, doubleArray.lookup, NextSeparator, Params.Get and the serve mux: every index/slice expression is discharged by a dominating comparison with the length of the same operand, by loop-counter induction, by the stated caller preconditions (checked at every in-repo call site), or by the reviewed invariant table (trie-shape invariants of build, printed in the evidence); the unguarded node/paramNames reads that really panic on paths containing the reserved bytes are KNOWN FINDINGS; " +
			"Round 12: R05.5 a single-parameter edge is tried for every candidate record. " +
			"R05.2 order independence, necessary part: records are sorted before siblings are arranged, every base handed out is reserved, parameter-free patterns go to the static map which Lookup consults first; R05.3 the mux only stores HandlerFunc values, so its type assertion cannot fail; " +
			"R05.4 a single-segment parameter ends only at '/' or the termination byte; R05.5 backtracking tries, for every recorded candidate node, the single parameter and then the wildcard, and the candidate stack is never truncated during the literal walk; parameter names are filled from the matched node. " +
			"R05.3 also: the serve mux looks up r.Method and the decoded r.URL.Path. " +
			"R05.5 also: the any-parameter flag is asked at every position, a set flag registers the position, the backtracking stack starts empty; R05.2 also: every child's CHECK slot is claimed in one loop before any subtree is built, and the record a parameter case strips belongs to that child's own group. " +
			"R05.2 also: every record is filed, the separator scan is used for single parameters only, and a failed subtree ends the build. " +
			"NOT decided: soundness/completeness of matching and literal-over-parameter preference as such (value-level).",
		Assumptions: []string{"trie-shape invariants established by doubleArray.build as stated in the invariant table"},
		Run:         runC05,
	})
}

// Reviewed beliefs (one reason each). Keys are expression SHAPES (local names erased, see renderShape), so an entry
// survives renames and the move of the expression into another function of the never-panics set.
var c05Table = map[string]string{
	"call lookup precondition from Lookup":              "build invariant: Lookup returns early when len(rt.param.node) == 1 (no parameterised route); otherwise build() has arranged the root's children, which extends bc beyond index 1 (findBase appends up to the child index)",
	"_.bc[(_[_]&4294967295)]":                           "indices only holds (i<<32 | idx) pairs pushed by the literal walk at a point where da.bc[idx] had just been read successfully (idx < len(da.bc)); bc never shrinks",
	"_[(_[_]>>32):NextSeparator(_,(_[_]>>32))]":         "the high 32 bits of an indices entry are a loop index i of the literal walk (0 <= i < len(path)); NextSeparator returns a value in [i, len(path)] (verified from its own shape, R05.4)",
	"_[NextSeparator(_,(_[_]>>32)):]":                   "NextSeparator(path, i) <= len(path) for 0 <= i <= len(path) (verified from its own shape, R05.4); i is a recorded loop index",
	"_[(_[_]>>32):]":                                    "the high 32 bits of an indices entry are a loop index i of the literal walk, 0 <= i < len(path)",
	"call NextSeparator precondition from lookup":       "the high 32 bits of an indices entry are a non-negative loop index",
	"call NextSeparator precondition from build":        "depth is the recursion depth of build: 0 at the root and depth+1 or 0 in the recursive calls, hence never negative",
	"_.node[Base(_.bc[nextIndex(Base(_.bc[_]),35)])]":   "the cell was reached through a CHECK-verified transition on the termination byte '#'; build() only creates such cells as leaf links whose BASE is the index of the node it has just appended (patterns are assumed not to contain the termination byte). No panicking input was found by 4M random lookups in the design round",
	"_.bc[nextIndex(Base(_.bc[(_[_]&4294967295)]),42)]": "the wildcard flag of cell idx is only set by build() right after it has arranged a '*' child for that cell, and findBase extends bc up to every child index; bc never shrinks. (Its sibling, the single-parameter branch, does test nextIdx >= len(da.bc); no panicking input found in the design round)",
}

var c05Assumptions = []boundsAssumption{
	{Fn: "(*rt/middleware/denco.doubleArray).lookup", Param: 3, LenOfField: "bc", Reason: "idx is a node index handed down by the caller (1 at the root, a bounds-checked child index in the recursion)"},
	{Fn: "rt/middleware/denco.NextSeparator", Param: 1, LenOfField: "", Reason: "start is an offset into path chosen by the caller"},
}

func runC05(c *Ctx) {
	p := c.P
	var fns []*ssa.Function
	for _, n := range []string{
		"(*rt/middleware/denco.Router).Lookup", "(*rt/middleware/denco.doubleArray).lookup", "rt/middleware/denco.NextSeparator",
		"(rt/middleware/denco.Params).Get", "(*rt/middleware/denco.serveMux).handler", "(*rt/middleware/denco.serveMux).ServeHTTP",
	} {
		fns = append(fns, p.Fn(n))
	}
	checkBounds(c, "R05.1", fns, c05Table, c05Assumptions...)
	c.min("R05.1", 15)

	dencoStructural(c, "R05.2", "R05.3", "R05.4", "R05.5")
}

// dencoStructural: the structural rules of the trie (shared by C05 and, as its dispatch relies on them, C01).
func dencoStructural(c *Ctx, r2, r3, r4, r5 string) {
	p := c.P
	// order independence, static map
	bld := p.Fn("(*rt/middleware/denco.doubleArray).build")
	sorts := callsIn(bld, "sort.Stable", "sort.Sort", "sort.SliceStable", "sort.Slice", "slices.SortFunc", "slices.SortStableFunc")
	arr := callsIn(bld, "(*rt/middleware/denco.doubleArray).arrange")
	if len(arr) == 0 {
		// (arrange inlined into build: its first step — grouping the records into siblings — is what the sort has to precede)
		arr = callsIn(bld, "rt/middleware/denco.makeSiblings")
	}
	okSort := len(sorts) >= 1 && len(arr) == 1
	if okSort {
		okSort = false
		for _, s := range sorts {
			if dominates(s, arr[0]) {
				okSort, _ = allOrigins(unboxed(s.Common().Args[0]), oIsValue(bld.Params[1]))
			}
		}
	}
	c.obF(r2, bld, "sorted-before-arranged", okSort, "build sorts the records it was given before arranging siblings (the double array does not depend on insertion order)", "no sort of srcs dominating arrange")
	// every child's CHECK slot is claimed before ANY subtree is laid out: the claiming loop over the siblings claims on
	// every iteration (parameter and wildcard children included) and is finished before the first recursive build — a
	// slot claimed late can be taken by an earlier sibling's subtree, and then neither pattern is found
	{
		isClaim := isCallInstrTo("(*rt/middleware/denco.doubleArray).setCheck")
		var recs []ssa.Instruction
		for _, ci := range callsIn(bld, "(*rt/middleware/denco.doubleArray).build") {
			if ci.Parent() == bld {
				recs = append(recs, ci)
			}
		}
		var claimLoop *sliceLoop
		ls := sliceLoops(bld, nil)
		for i := range ls {
			hasClaim := false
			for _, ci := range callsIn(bld, "(*rt/middleware/denco.doubleArray).setCheck") {
				if ls[i].Header.Dominates(ci.Block()) && reachableFrom(ci.Block(), ls[i].Header) {
					hasClaim = true
				}
			}
			inLoopRec := false
			for _, rc := range recs {
				if ls[i].Header.Dominates(rc.Block()) && reachableFrom(rc.Block(), ls[i].Header) {
					inLoopRec = true
				}
			}
			if hasClaim && !inLoopRec {
				claimLoop = &ls[i]
			}
		}
		if claimLoop == nil || len(recs) == 0 {
			c.obR(r2, short(bld.String()), "children-claimed-before-subtrees", c.P.InstrPos(bld.Blocks[0].Instrs[0]), false, "build claims the CHECK slots of all children in one loop before it recurses", "no claiming loop separate from the recursion found")
		} else {
			c.obI(r2, claimLoop.Test, "every-child-claimed-up-front", claimLoop.everyIteration(isClaim), "the claiming loop calls setCheck for every sibling — the ':' and '*' children too", "an iteration of the claiming loop can skip setCheck: that child's slot stays free while earlier siblings' subtrees are built")
			okOrder := true
			for _, rc := range recs {
				if !claimLoop.Header.Dominates(rc.Block()) {
					okOrder = false
				}
			}
			c.obI(r2, claimLoop.Test, "children-claimed-before-subtrees", okOrder, "no subtree is built before the claiming loop has run", "a recursive build is reachable without the claiming loop")
		}
		// the record a parameter / wildcard case strips (name recorded, key consumed) is one of the CASE'S OWN records —
		// an element of the sibling's sub-slice srcs[start:end], never of the whole node's list
		nStrip := 0
		for _, in := range instrs(bld) {
			st, ok := in.(*ssa.Store)
			if !ok || in.Parent() != bld {
				continue
			}
			fa, ok := st.Addr.(*ssa.FieldAddr)
			if !ok {
				continue
			}
			n, stt := structOf(fa.X.Type())
			if n == nil || typeFullName(n) != "rt/middleware/denco.record" {
				continue
			}
			fld := stt.Field(fa.Field).Name()
			if fld != "Key" && fld != "paramNames" {
				continue
			}
			nStrip++
			whole := false
			for _, o := range originsOf(fa.X) {
				if ad, isLd := derefLoad(o.V); isLd {
					if ia, isIA := ad.(*ssa.IndexAddr); isIA {
						if okW, _ := allOrigins(ia.X, oIsValue(bld.Params[1])); okW {
							if _, isSl := ia.X.(*ssa.Slice); !isSl {
								whole = true
							}
						}
					}
				}
			}
			c.obI(r2, st, "strips-a-record-of-its-own-group", !whole, "the record whose key is consumed in a parameter/wildcard case belongs to that child's group of records", "record."+fld+" is written on an element of the node's WHOLE record list: with a sibling sorting before the parameter child, another pattern's record is stripped")
		}
		c.obRF(r2, bld, "strips-parameter-records", nStrip >= 2, "build consumes the parameter part of its records' keys", fmt.Sprintf("%d stores", nStrip))
	}
	// every record handed to Build is filed — in the static map or in the trie: none is passed over (an empty pattern is
	// a pattern: Lookup("") has to find it)
	if mr := p.FnOpt("rt/middleware/denco.makeRecords"); mr != nil && len(mr.Params) >= 1 {
		isFiling := func(in ssa.Instruction) bool {
			call, ok := in.(*ssa.Call)
			return ok && calleeName(&call.Call) == "builtin append" && strings.HasSuffix(typeStr(call.Type()), "denco.record")
		}
		ls := sliceLoops(mr, vOrigins(oIsValue(mr.Params[0])))
		c.obRF(r2, mr, "files-every-record", len(ls) >= 1, "makeRecords ranges over the records it is given", fmt.Sprintf("%d loops", len(ls)))
		for _, l := range ls {
			c.obI(r2, l.Test, "files-every-record", l.everyIteration(isFiling), "every record is appended to the static or to the parameterised list", "an iteration can skip both lists: that pattern is silently dropped and never found")
		}
	}
	// the separator scan that ends a ':' parameter's name is used in the single-parameter case only: a wildcard's name
	// runs to the end of the key (it may contain '/')
	for _, ci := range callsIn(bld, "rt/middleware/denco.NextSeparator") {
		if ci.Parent() != bld {
			continue
		}
		isSibC := func(v ssa.Value) bool {
			_, ok := fieldLoad(v, "rt/middleware/denco.sibling", "c")
			if ok {
				return true
			}
			okO, _ := allOrigins(v, oFieldLoad("rt/middleware/denco.sibling", "c", nil))
			return okO
		}
		c.obI(r2, ci, "separator-scan-only-for-single-parameters", guardedBy(ci, nil, factEqInt(isSibC, int64(':'), true)), "NextSeparator cuts the name of a ':' parameter only; a '*' wildcard's name is everything up to the termination byte", "NextSeparator is applied outside the ':' case: a wildcard name containing '/' is truncated")
	}
	// a pattern set that cannot be laid out is REFUSED: the error of every step of build — each sibling's subtree
	// included — ends the build (a later sibling's success never hides it: Lookup on a half-built array panics)
	checkErrorsReturned(c, r2, bld, 0, nil)
	for _, ci := range callsIn(bld, "(*rt/middleware/denco.doubleArray).build") {
		rc, ok := ci.(*ssa.Call)
		if !ok || rc.Parent() != bld {
			continue
		}
		ev := errValueOf(rc)
		for _, l := range sliceLoops(bld, nil) {
			if !(l.Header.Dominates(rc.Block()) && reachableFrom(rc.Block(), l.Header)) {
				continue
			}
			goesOn := ev == nil || pathExists(bld, rc, l.Test, factNil(errAlias(ev), true), nil)
			c.obI(r2, rc, "failed-subtree-ends-the-build", !goesOn, "the loop over the siblings goes on to the next sibling only when the subtree just built reported no error", "the next sibling is built although this subtree's build failed: its error is overwritten by the later result")
		}
	}
	fb := p.Fn("(*rt/middleware/denco.doubleArray).findBase")
	// (the set of bases handed out: a map parameter of findBase, or — when it was made part of the array under
	// construction — a map-typed field of doubleArray)
	var used *ssa.Parameter
	for _, prm := range fb.Params {
		if _, isMap := prm.Type().Underlying().(*types.Map); isMap {
			used = prm
		}
	}
	isUsed := func(v ssa.Value) bool {
		if used != nil {
			if v == ssa.Value(used) {
				return true
			}
			ok, _ := allOrigins(v, oIsValue(used)) // (the set handed to an add / has helper of a named set type)
			return ok
		}
		if _, isMap := v.Type().Underlying().(*types.Map); !isMap {
			return false
		}
		for _, o := range originsOf(v) {
			ad, isLd := derefLoad(o.V)
			if !isLd {
				return false
			}
			fa, isFA := ad.(*ssa.FieldAddr)
			if !isFA {
				return false
			}
			if n, _ := structOf(fa.X.Type()); n == nil || typeFullName(n) != "rt/middleware/denco.doubleArray" {
				return false
			}
		}
		return true
	}
	isReserve := func(in ssa.Instruction) bool {
		mu, ok := in.(*ssa.MapUpdate)
		return ok && isUsed(mu.Map)
	}
	for _, r := range returnsOf(fb) {
		miss := pathExists(fb, nil, r, nil, isReserve)
		okKey := false
		for _, in := range instrs(fb) {
			if mu, ok := in.(*ssa.MapUpdate); ok && isUsed(mu.Map) {
				okKey = sameOrigins(mu.Key, r.Results[0]) || mu.Key == r.Results[0]
			}
		}
		c.obI(r2, r, "every-base-reserved", !miss && okKey, "every base returned by findBase is recorded in usedBase (two nodes never share a base)", "findBase can return a base without reserving it")
	}
	// skipping used bases
	nUsedTest := 0
	for _, in := range instrs(fb) {
		if lk, ok := in.(*ssa.Lookup); ok && isUsed(lk.X) && lk.CommaOk {
			nUsedTest++
		}
	}
	c.obRF(r2, fb, "used-bases-skipped", nUsedTest >= 1, "findBase consults usedBase before choosing a base", "")
	rb := p.Fn("(*rt/middleware/denco.Router).Build")
	mr := callsIn(rb, "rt/middleware/denco.makeRecords")
	okStatic := false
	if len(mr) == 1 {
		for _, l := range sliceLoops(rb, vOrigins(oIsValue(resultOf(mr[0].(*ssa.Call), 0)))) {
			if l.everyIteration(func(in ssa.Instruction) bool {
				mu, ok := in.(*ssa.MapUpdate)
				return ok && vFieldLoad("rt/middleware/denco.Router", "static", nil)(mu.Map)
			}) {
				okStatic = true
			}
		}
	}
	// the records the caller hands to Build are the caller's: building never writes into them (the same list may be
	// built from again, or be in use elsewhere) — every edit is made on a private copy
	mrf := p.Fn("rt/middleware/denco.makeRecords")
	for _, fn := range []*ssa.Function{rb, mrf} {
		var src ssa.Value
		for _, prm := range fn.Params {
			if strings.HasSuffix(typeStr(prm.Type()), "[]rt/middleware/denco.Record") {
				src = prm
			}
		}
		if src == nil {
			continue
		}
		for _, in := range instrs(fn) {
			st, ok := in.(*ssa.Store)
			if !ok {
				continue
			}
			if _, isAl := st.Addr.(*ssa.Alloc); isAl {
				continue
			}
			root, _, _, _ := chainRoot(st.Addr)
			if root == st.Addr {
				// a pointer held in a local (r := &srcs[i]; r.Key = …): where does it point
				if fa, isFA := st.Addr.(*ssa.FieldAddr); isFA {
					for _, o := range originsOf(fa.X) {
						if ia, isIA := o.V.(*ssa.IndexAddr); isIA {
							root, _, _, _ = chainRoot(ia)
						}
					}
				}
			}
			if fa, isFA := root.(*ssa.FieldAddr); isFA {
				for _, o := range originsOf(fa.X) {
					if ia, isIA := o.V.(*ssa.IndexAddr); isIA {
						root, _, _, _ = chainRoot(ia)
					}
				}
			}
			if fromSrc, _ := allOrigins(root, oIsValue(src)); fromSrc && root != nil {
				c.obD(r2, st, "callers-records-not-written", false, "Build and makeRecords never store into the caller's []Record (keys are terminated on a copy): building twice from one list gives the same router", "a field of the caller's record is written")
			}
		}
	}
	// every parameterised key is terminated with '#' before the trie is built — unconditionally (not only when the size
	// hint is computed, say)
	{
		// (the site is the concatenation `key + "#"` itself, whether it is stored back into the record's Key or handed to
		// NewRecord / a composite literal)
		isTerm := func(in ssa.Instruction) bool {
			bo, isBo := in.(*ssa.BinOp)
			if !isBo || bo.Op != token.ADD {
				return false
			}
			k, isK := constString(bo.Y)
			if !isK || k != "#" {
				return false
			}
			okKey, _ := allOrigins(bo.X, oFieldLoad("rt/middleware/denco.Record", "Key", nil))
			return okKey
		}
		var terms []ssa.Instruction
		for _, fn := range []*ssa.Function{rb, mrf} {
			for _, in := range instrs(fn) {
				if isTerm(in) && (in.Parent() == rb || in.Parent() == mrf) {
					terms = append(terms, in)
				}
			}
		}
		c.obRF(r2, mrf, "terminates-parameterised-keys", len(terms) == 1, "the key of a parameterised record gets the termination byte appended (once)", fmt.Sprintf("%d sites", len(terms)))
		if len(terms) == 1 {
			t := terms[0]
			if t.Parent() == mrf {
				// every record classified as parameterised passes through it on its way into the params list
				for _, ci := range callsIn(mrf, "builtin append") {
					call, ok := ci.(*ssa.Call)
					if !ok || ci.Parent() != mrf {
						continue
					}
					isParams := false
					for _, r := range returnsOf(mrf) {
						if len(r.Results) == 2 {
							for _, o := range originsOf(r.Results[1]) {
								if o.V == ssa.Value(call) {
									isParams = true
								}
							}
						}
					}
					if isParams {
						c.obI(r2, call, "every-parameterised-key-terminated", !pathExists(mrf, nil, call, nil, isTerm), "a record enters the parameterised list only with its key terminated", "a record can be listed as parameterised with an unterminated key")
					}
				}
			} else {
				// done in Build: for every parameterised record, on every path to the construction of the trie
				okT := false
				bcalls := callsIn(rb, "(*rt/middleware/denco.doubleArray).build")
				if len(mr) == 1 && len(bcalls) == 1 {
					for _, l := range sliceLoops(rb, vOrigins(oIsValue(resultOf(mr[0].(*ssa.Call), 1)))) {
						if l.everyIteration(isTerm) && l.Header.Dominates(bcalls[0].Block()) {
							okT = true
						}
					}
				}
				c.obI(r2, t, "every-parameterised-key-terminated", okT, "Build terminates the key of EVERY parameterised record, unconditionally, before the trie is built", "the termination is skipped for some records or on some paths (it sits under a condition that has nothing to do with it)")
			}
		}
	}
	c.obF(r2, rb, "statics-registered", okStatic, "every parameter-free record is stored in the static map", "")
	rl := p.Fn("(*rt/middleware/denco.Router).Lookup")
	var staticLk *ssa.Lookup
	for _, in := range instrs(rl) {
		if lk, ok := in.(*ssa.Lookup); ok && vFieldLoad("rt/middleware/denco.Router", "static", nil)(lk.X) {
			staticLk = lk
		}
	}
	okFirst := staticLk != nil && staticLk.Index == ssa.Value(rl.Params[1])
	for _, ci := range callsIn(rl, "(*rt/middleware/denco.doubleArray).lookup") {
		okFirst = okFirst && dominates(staticLk, ci)
		if okv := extractOf(staticLk, 1); okv != nil {
			okFirst = okFirst && guardedBy(ci, staticLk, factBool(vIs(okv), false))
		}
	}
	if staticLk != nil {
		// a parameter-free pattern is found by its PRESENCE in the static map (comma-ok), whatever value it carries
		okPresence := staticLk.CommaOk
		if okPresence {
			okv := extractOf(staticLk, 1)
			okPresence = false
			for _, r := range realReturns(rl) {
				if okR, _ := allOrigins(resOf(r, 0), oIsValue(extractOf(staticLk, 0))); okR && okv != nil && guardedBy(r, staticLk, factBool(vIs(okv), true)) {
					okPresence = true
				}
			}
		}
		c.obI(r2, staticLk, "static-hit-decided-by-presence", okPresence, "the static fast path answers 'found' exactly when the path is a key of the static map (comma-ok), not when the stored value happens to be non-nil", "the static hit is not decided by the map's comma-ok result: a pattern registered with a nil value is not found (a parameterised sibling can then win)")
	}
	if staticLk != nil {
		// … and on EVERY path: no exit of Lookup lies in front of the static map (whatever the path contains — the
		// termination byte, say — a path equal to a parameter-free pattern is found)
		for _, r := range realReturns(rl) {
			c.obI(r2, r, "static-map-consulted-before-any-exit", !pathExists(rl, nil, r, nil, isOneOf(staticLk)), "every return of Lookup lies behind the static-map lookup", "Lookup can answer without having consulted the static map")
		}
	}
	c.obF(r2, rl, "static-first", okFirst, "Lookup consults the static map with the whole path first: a path equal to a parameter-free pattern returns that pattern's value", "")
	mk := p.Fn("rt/middleware/denco.makeRecords")
	// records classified by the three parameter markers; termination byte appended to parameterised keys
	nContains := len(callsIn(mk, "strings.Contains"))
	c.obRF(r2, mk, "classification", nContains == 3, "records are parameterised iff their key contains '/:', '/*' or '=:'", fmt.Sprintf("%d marker tests", nContains))
	// whatever the shape of the test: a record's key is classified by nothing but strings.Contains on two-byte markers
	// made of a separator and a parameter character (a ':' or '*' inside a literal segment does not make a pattern)
	for _, ci := range allCalls(mk) {
		n := calleeName(ci.Common())
		if !strings.HasPrefix(n, "strings.") || len(ci.Common().Args) == 0 {
			continue
		}
		if !vFieldLoadO("rt/middleware/denco.Record", "Key")(ci.Common().Args[0]) && !vFieldLoad("rt/middleware/denco.Record", "Key", nil)(ci.Common().Args[0]) {
			continue
		}
		c.obI(r2, ci, "classified-by-marker-containment", n == "strings.Contains", "a record is classified as parameterised by containment of a separator+parameter marker only", "the key is classified through "+n)
	}

	// R05.3
	mb := p.Fn("(*rt/middleware/denco.Mux).Build")
	for _, ci := range callsIn(mb, "rt/middleware/denco.NewRecord") {
		v := unboxed(ci.Common().Args[1])
		c.obI(r3, ci, "mux-stores-HandlerFunc", typeStr(v.Type()) == "rt/middleware/denco.HandlerFunc", "the mux only registers HandlerFunc values, so serveMux.handler's unchecked type assertion cannot fail", "registers a "+typeStr(v.Type()))
	}
	c.min(r3, 1)

	// R05.4 NextSeparator stop set
	// the mux feeds the decoded path and the method of the request to the lookup
	sm := p.Fn("(*rt/middleware/denco.serveMux).ServeHTTP")
	for _, ci := range callsIn(sm, "(*rt/middleware/denco.serveMux).handler") {
		_, a := callArgs(ci.Common())
		isR := vOrigins(oIsValue(paramOf(sm, 1)))
		okM := vFieldLoad("net/http.Request", "Method", isR)(a[0])
		okP := vFieldLoad("net/url.URL", "Path", vFieldLoad("net/http.Request", "URL", isR))(a[1])
		c.obI(r3, ci, "mux-looks-up-decoded-path", okM && okP, "the serve mux looks up r.Method and the decoded r.URL.Path (a percent-encoded separator cannot be matched by a single-segment parameter, static patterns match their decoded spelling)", "the lookup is fed something other than r.URL.Path")
	}
	ns := p.Fn("rt/middleware/denco.NextSeparator")
	nCmp := 0
	for _, in := range instrs(ns) {
		bo, ok := in.(*ssa.BinOp)
		if !ok || (bo.Op != token.EQL && bo.Op != token.NEQ) {
			continue
		}
		k, ok := constInt(bo.Y)
		if !ok || !isByteValue(bo.X) {
			continue
		}
		nCmp++
		c.obI(r4, bo, "separator-set", k == '/' || k == '#', "a single-segment parameter ends only at '/' or at the termination byte", fmt.Sprintf("stops at byte %q", rune(k)))
	}
	c.obRF(r4, ns, "separator-tests", nCmp == 2, "NextSeparator tests exactly the two terminators", fmt.Sprintf("%d byte comparisons", nCmp))
	for _, r := range returnsOf(ns) {
		b := &bctx{c: c, fn: ns, assumeLE: map[[2]*ssa.Parameter]bool{{ns.Params[1], ns.Params[0]}: true}, assumeNonNeg: map[*ssa.Parameter]bool{ns.Params[1]: true}, assumeLT: map[ltAssume]bool{}}
		okLE := b.le(r.Results[0], ns.Params[0], r, visit{})
		okGE := b.geParam(r.Results[0], ns.Params[1], visit{})
		c.obI(r4, r, "result-in-range", okLE && okGE, "NextSeparator(path, start) returns a value in [start, len(path)] whenever start <= len(path)", fmt.Sprintf("<=len:%v >=start:%v", okLE, okGE))
	}

	// R05.5 backtracking completeness
	lk := p.Fn("(*rt/middleware/denco.doubleArray).lookup")
	single := callsIn(lk, "(rt/middleware/denco.baseCheck).IsSingleParam")
	wild := callsIn(lk, "(rt/middleware/denco.baseCheck).IsWildcardParam")
	anyp := callsIn(lk, "(rt/middleware/denco.baseCheck).IsAnyParam")
	// a failed single-parameter attempt never ends the search: the recursive attempt's result is returned only when it
	// found something (every other candidate — the wildcard of the same node, shallower nodes — is still to be tried)
	for _, ci := range callsIn(lk, "(*rt/middleware/denco.doubleArray).lookup") {
		rc, ok := ci.(*ssa.Call)
		if !ok {
			continue
		}
		found := resultOf(rc, 2)
		for _, r := range realReturns(lk) {
			if !pathExists(lk, rc, r, nil, nil) {
				continue
			}
			if okO, _ := allOrigins(resOf(r, 2), oIsValue(found)); okO && found != nil {
				c.obI(r5, r, "failed-attempt-continues", guardedBy(r, rc, factBool(vIs(found), true)), "the result of the recursive single-parameter attempt is returned only when it succeeded; otherwise the search goes on with the remaining candidates", "a failed attempt can be returned as the final answer")
			}
		}
	}
	c.obRF(r5, lk, "param-kinds", len(single) == 1 && len(wild) == 1 && len(anyp) == 1, "lookup distinguishes single and wildcard parameter nodes", fmt.Sprintf("%d/%d/%d", len(single), len(wild), len(anyp)))
	// every position of the walk is a candidate when the node reached carries a parameter edge: the any-parameter flag is
	// asked at every byte of the walk (whatever the byte before it was — build creates parameter nodes wherever ':' occurs
	// in a key, also after literal text inside a segment), and a set flag always registers the position
	if len(anyp) == 1 {
		k := anyp[0]
		var header *ssa.BasicBlock
		for _, b := range k.Parent().Blocks {
			if b.Dominates(k.Block()) && b != k.Block() && reachableFrom(k.Block(), b) {
				if _, isIf := lastInstr(b).(*ssa.If); isIf && (header == nil || b.Dominates(header)) {
					header = b // (the outermost: the loop's own test)
				}
			}
		}
		if header == nil || len(header.Succs) != 2 || len(header.Succs[0].Instrs) == 0 {
			c.obRI(r5, k, "flag-asked-at-every-position", false, "the walk loop around the any-parameter test", "loop not recognised")
		} else {
			first := header.Succs[0].Instrs[0]
			skipped := first != ssa.Instruction(k) && pathExists(k.Parent(), first, lastInstr(header), nil, isOneOf(k))
			c.obI(r5, k, "flag-asked-at-every-position", !skipped, "every iteration of the walk asks the node's any-parameter flag: no position is ruled out as a parameter start by the bytes around it", "an iteration of the walk can go round without asking IsAnyParam (a parameter that follows literal text inside a segment is never tried)")
			var regs []ssa.Instruction
			for _, ci := range callsIn(lk, "builtin append") {
				if call, ok := ci.(*ssa.Call); ok && typeStr(call.Type()) == "[]uint64" && pathExists(k.Parent(), k, ci, nil, nil) {
					regs = append(regs, ci)
				}
			}
			// the backtracking stack starts EMPTY: every entry on it is a position registered by this walk (an entry that
			// was never registered decodes to offset 0 / cell 0 and is tried like a real candidate)
			for _, rg := range regs {
				seenB := map[ssa.Value]bool{}
				var bases []ssa.Value
				var walkB func(v ssa.Value)
				walkB = func(v ssa.Value) {
					if seenB[v] {
						return
					}
					seenB[v] = true
					switch x := v.(type) {
					case *ssa.Phi:
						for _, e := range x.Edges {
							walkB(e)
						}
					case *ssa.Call:
						if calleeName(&x.Call) == "builtin append" {
							walkB(x.Call.Args[0])
							return
						}
						bases = append(bases, v)
					default:
						bases = append(bases, v)
					}
				}
				walkB(rg.(*ssa.Call).Call.Args[0])
				okEmpty, whyB := len(bases) > 0, ""
				for _, bse := range bases {
					switch x := bse.(type) {
					case *ssa.Const:
						if !isNilConst(x) {
							okEmpty, whyB = false, describe(bse)
						}
					case *ssa.MakeSlice:
						if n, isK := constInt(x.Len); !isK || n != 0 {
							okEmpty, whyB = false, "make with a non-zero length"
						}
					case *ssa.Slice:
						_, isAl := x.X.(*ssa.Alloc)
						n, isK := int64(-1), false
						if x.High != nil {
							n, isK = constInt(x.High)
						}
						if !isAl || !isK || n != 0 || x.Low != nil {
							okEmpty, whyB = false, "the stack is created with "+describe(bse)+" (length not 0)"
						}
					default:
						okEmpty, whyB = false, describe(bse)
					}
				}
				c.obI(r5, rg, "backtracking-stack-starts-empty", okEmpty, "the stack of candidate positions is created empty (nil, or make(…, 0, n)): only registered positions are ever tried", whyB)
			}
			if kv := k.Value(); kv != nil && len(regs) > 0 {
				lost := pathExists(k.Parent(), k, lastInstr(header), factBool(vIs(kv), false), isOneOf(regs...))
				c.obI(r5, k, "set-flag-registers-the-position", !lost, "whenever the flag is set the position is pushed on the backtracking stack", "the walk can go on from a node with a parameter edge without registering the candidate")
			} else {
				c.obRI(r5, k, "set-flag-registers-the-position", false, "whenever the flag is set the position is pushed on the backtracking stack", "no registration found")
			}
		}
	}
	if len(single) == 1 && len(wild) == 1 {
		// natural loop containing the IsSingleParam test: every path from the test back to the loop header passes the wildcard test
		sb := single[0].Block()
		var header *ssa.BasicBlock
		for _, b := range single[0].Parent().Blocks { // (the loop may live in a helper of lookup)
			if b.Dominates(sb) && reachableFrom(sb, b) {
				if _, isIf := lastInstr(b).(*ssa.If); isIf {
					hasPhi := false
					for _, in := range b.Instrs {
						if _, ok := in.(*ssa.Phi); ok {
							hasPhi = true
						}
					}
					if hasPhi && (header == nil || header.Dominates(b)) {
						header = b
					}
				}
			}
		}
		ok := header != nil
		if ok {
			ok = !pathExists(single[0].Parent(), single[0], lastInstr(header), nil, isOneOf(wild[0]))
		}
		// … and the single-parameter alternative is examined for EVERY candidate too: no flag computed during the literal
		// walk ("the literals consumed the whole path") rules it out — the candidate's position lies before the consumed text
		if header != nil && len(header.Succs) == 2 && len(header.Succs[0].Instrs) > 0 {
			first := header.Succs[0].Instrs[0]
			skippedSingle := first != ssa.Instruction(single[0]) && pathExists(single[0].Parent(), first, lastInstr(header), nil, isOneOf(single[0]))
			c.obI(r5, single[0], "single-parameter-tried-for-every-candidate", !skippedSingle, "every candidate of the backtracking loop is asked whether its node has a single-parameter edge", "an iteration of the backtracking loop can move on without asking IsSingleParam: a ':name' route reachable only by backtracking is not found")
		}
		c.obI(r5, single[0], "wildcard-tried-for-every-candidate", ok, "for every candidate node of the backtracking loop, the wildcard alternative is examined whenever the single-parameter alternative did not return a match", "an iteration can move to the next candidate without testing IsWildcardParam")
	}
	// every parameter attempt extends the parameters this invocation was given — never what an earlier, failed attempt
	// of the same invocation had appended
	{
		prm := paramOfType(lk, "[]rt/middleware/denco.Param")
		for _, in := range instrs(lk) {
			call, ok := in.(*ssa.Call)
			if !ok || calleeName(&call.Call) != "builtin append" || typeStr(call.Type()) != "[]rt/middleware/denco.Param" {
				continue
			}
			okB, bad := allOrigins(call.Call.Args[0], oIsValue(prm))
			c.obI(r5, call, "attempt-extends-callers-params", okB && prm != nil, "each single-parameter or wildcard attempt appends its capture to the parameter list the invocation received (a failed attempt leaves nothing behind for the next candidate)", "the capture is appended to "+describeOrigin(bad))
		}
	}
	// candidate stack only grows in the walk
	for _, in := range instrs(lk) {
		call, ok := in.(*ssa.Call)
		if !ok || calleeName(&call.Call) != "builtin append" || typeStr(call.Type()) != "[]uint64" {
			continue
		}
		// the stack belongs to THIS invocation: it starts from memory the invocation made itself (a nested lookup that
		// worked on its caller's stack would overwrite the caller's pending candidates)
		own := func(f *ssa.Function) bool { return f == lk || isTransparent(f) } // (or a helper the walk was moved into)
		okOwn, badOwn := allOrigins(call.Call.Args[0], func(o Origin) bool {
			switch x := o.V.(type) {
			case *ssa.MakeSlice:
				return own(x.Parent())
			case *ssa.Alloc:
				return own(x.Parent())
			case *ssa.Call:
				return calleeName(&x.Call) == "builtin append" && own(x.Parent())
			case *ssa.Const:
				return x.Value == nil // var indices []uint64
			}
			return false
		})
		c.obD(r5, call, "candidate-stack-private-to-invocation", okOwn, "the backtracking stack a lookup appends to is made by that very invocation (every nesting level keeps its own pending candidates)", "the stack originates from "+describeOrigin(badOwn))
		_, trunc := call.Call.Args[0].(*ssa.Slice)
		c.obI(r5, call, "candidates-accumulate", !trunc, "the candidate stack is appended to, never re-sliced, during the literal walk (every parameter-capable node on the way stays a backtracking candidate)", "append onto a re-sliced stack drops earlier candidates")
	}
	// names from the matched node
	for _, st := range fieldStores(rl, "rt/middleware/denco.Param", "Name") {
		ok := false
		if ld, isLd := st.Val.(*ssa.UnOp); isLd {
			if ia, isIA := ld.X.(*ssa.IndexAddr); isIA {
				ok = vFieldLoad("rt/middleware/denco.node", "paramNames", nil)(ia.X)
				if sia, isS := st.Addr.(*ssa.FieldAddr).X.(*ssa.IndexAddr); isS {
					ok = ok && sia.Index == ia.Index
				}
			}
		}
		c.obI(r5, st, "names-by-position", ok, "the i-th captured value is named by the i-th placeholder name of the matched node", "")
	}
	// the BASE/CHECK array grows while the trie is built (append may move it): the address of a cell is never kept across
	// a step that can grow the array — a flag set through a stale pointer lands in the abandoned copy and the node is
	// not parameter-capable for the lookup
	{
		grows := func(in ssa.Instruction) bool {
			ci, ok := in.(ssa.CallInstruction)
			if !ok {
				return false
			}
			switch calleeName(ci.Common()) {
			case "(*rt/middleware/denco.doubleArray).build", "(*rt/middleware/denco.doubleArray).arrange", "(*rt/middleware/denco.doubleArray).findBase",
				"(*rt/middleware/denco.doubleArray).extendBaseCheckArray", "(*rt/middleware/denco.doubleArray).setBase", "(*rt/middleware/denco.doubleArray).setCheck":
				return true
			}
			return false
		}
		nCells := 0
		for _, fn := range p.LibFuncs("rt/middleware/denco") {
			if fn.Parent() != nil {
				continue
			}
			var growCalls []ssa.Instruction
			for _, in := range ownInstrs(fn) {
				if grows(in) {
					growCalls = append(growCalls, in)
				}
			}
			if len(growCalls) == 0 {
				continue
			}
			for _, in := range ownInstrs(fn) {
				ia, ok := in.(*ssa.IndexAddr)
				if !ok || !vFieldLoad("rt/middleware/denco.doubleArray", "bc", nil)(ia.X) || ia.Referrers() == nil {
					continue
				}
				for _, ref := range *ia.Referrers() {
					if _, isDbg := ref.(*ssa.DebugRef); isDbg {
						continue
					}
					nCells++
					stale := false
					for _, g := range growCalls {
						if g == ref {
							continue
						}
						if pathExists(fn, ia, g, nil, nil) && pathExists(fn, g, ref, nil, isOneOf(ia)) {
							stale = true
						}
					}
					c.obI(r2, ref, "cell-address-not-kept-across-growth", !stale, "a cell of the BASE/CHECK array is addressed at the moment it is used: no step that can grow (and move) the array lies between taking &bc[i] and using it", "the address of a cell is used after a call that can grow the array")
				}
			}
		}
		c.obRF(r2, bld, "cell-uses-found", nCells >= 1, "build addresses cells of the BASE/CHECK array", "")
	}
	// BASE is an offset like any other — 0 included (findBase hands out 0 when the first child lands there): no step of
	// the lookup is conditioned on a comparison of a cell's BASE with a constant
	{
		isBaseCmp := func(cond ssa.Value, branch bool) bool {
			cnd, _ := stripNot(cond, branch)
			bo, ok := cnd.(*ssa.BinOp)
			if !ok {
				return false
			}
			isBase := func(v ssa.Value) bool {
				ok, _ := allOrigins(v, oCall(-1, "(rt/middleware/denco.baseCheck).Base"))
				return ok
			}
			_, kx := bo.X.(*ssa.Const)
			_, ky := bo.Y.(*ssa.Const)
			return (isBase(bo.X) && ky) || (isBase(bo.Y) && kx)
		}
		for _, ci := range callsIn(lk, "rt/middleware/denco.nextIndex") {
			c.obI(r5, ci, "transition-not-conditioned-on-base-value", !guardedBy(ci, nil, isBaseCmp), "the transition probes of the lookup (termination, parameter, wildcard) are not guarded by a test of the cell's BASE against a constant: BASE 0 is a legitimate offset", "the probe runs only behind a comparison of BASE with a constant: a node whose BASE happens to be that constant is never matched")
		}
	}
	// the parameters handed back are this call's own memory, and whether a path is found does not depend on how much
	// room the buffer has (SizeHint is a hint: a capacity test on the way would turn it into a limit)
	ruleDencoParamsPerCall(c, r5)
	for _, f := range []*ssa.Function{rl, lk} {
		for _, ci := range callSitesUnder(f, "builtin cap") {
			call := ci.In.(ssa.CallInstruction)
			t := typeStr(call.Common().Args[0].Type())
			if t != "[]rt/middleware/denco.Param" && t != "rt/middleware/denco.Params" {
				continue
			}
			c.definite = true
			c.obI(r5, ci.In, "outcome-independent-of-buffer-capacity", false, "the lookup never consults the capacity of the parameter buffer (append grows it; SizeHint only sizes the first allocation)", "cap(params) is consulted: a SizeHint below a pattern's placeholder count changes what is found")
			c.definite = false
		}
	}
	c.min(r5, 5)
}
