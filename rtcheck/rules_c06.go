package main

import (
	"fmt"
	"go/token"
	"go/types"
	"os"
	"strings"

	"golang.org/x/tools/go/ssa"
)

func init() {
	register(&Property{
		ID: "C06",
		Explanation: "Decides, for both binding entry points (validation.contentType + validateRequest, and Context.BindValidRequest): R06.0 the body probe answers false without reading only when a length is declared (so a request that carries a body is subjected to the gate); " +
			"R06.1 the consumer table is indexed only under HasBody == true, only with the parsed, parameter-free media type (result 0 of runtime.ContentType / Context.ContentType), the per-request consumer is the table entry, and a miss records a 500; admission (validateContentType) is asked about that same parsed type against the route's Consumes; " +
			"R06.2 Consumer.Consume has a single call site in package middleware, parameter binding is reached only with an empty error accumulator after the content-type gate, and every error of the parse/admission steps is recorded; " +
			"R06.3 validateContentType admits only through swag.ContainsStringsCI (exact, */*, type/*) or an empty list and every other exit returns errors.InvalidContentType (415); runtime.ContentType returns mime.ParseMediaType's type or a 400-class parse error; " +
			"R06.4 AddRoute always extends the consumes list by the API default unless the list as spelled already contains it, and builds the consumer table from the normalised final list. " +
			"R06.2 also: both entry points decide the content type before the response format. " +
			"R06.1 also: the gate is skipped only when HasBody answered false (or an earlier stage refused the request), in both entry points. " +
			"R06.3 also: the matched route (whose Consumer the gate fills once) is allocated per lookup. " +
			"R06.3 also: MatchedRoute.Consumer is written by the content-type gates only (or as route.Consumers[parsed media type]). " +
			"R06.4 also: each entry of the per-route consumer table is consumers[that media type]; R06.3 also: the type/* entry is consulted only for values of the shape type/subtype. " +
			"NOT decided: which header strings mime.ParseMediaType accepts; what a consumer does with the bytes.",
		Assumptions: []string{"mime.ParseMediaType lower-cases the media type and strips parameters as documented", "swag.ContainsStringsCI is a case-insensitive membership test"},
		Run:         runC06,
	})
}

// isAppendWith: builtin append whose variadic slice literal contains a value originating from v.
func isAppendWith(v ssa.Value) func(ssa.Instruction) bool {
	return func(in ssa.Instruction) bool {
		call, ok := in.(*ssa.Call)
		if !ok || calleeName(&call.Call) != "builtin append" || len(call.Call.Args) != 2 {
			return false
		}
		elems, ok := sliceLitElems(call.Call.Args[1])
		if !ok {
			return false
		}
		for _, e := range elems {
			if someOrigin(e, oIsValue(v)) {
				return true // the appended value is (on some path, e.g. through a helper's result) the error in question
			}
		}
		return false
	}
}

// isAppendOfCall: append whose literal contains the result of a call to one of names.
func isAppendOfCall(where func(*ssa.Call) bool, names ...string) func(ssa.Instruction) bool {
	return func(in ssa.Instruction) bool {
		call, ok := in.(*ssa.Call)
		if !ok || calleeName(&call.Call) != "builtin append" || len(call.Call.Args) != 2 {
			return false
		}
		elems, ok := sliceLitElems(call.Call.Args[1])
		if !ok {
			return false
		}
		for _, e := range elems {
			for _, o := range originsOf(e) {
				if isCallTo(o.V, names...) && (where == nil || where(asCall(o.V))) {
					return true
				}
			}
		}
		return false
	}
}

func isErrSliceLen(v ssa.Value) bool {
	return typeStr(v.Type()) == "[]error"
}

// errorRecorded: after fallible call k (error value ev), every path on which ev != nil that reaches a return of f
// passes an append of ev into an error accumulator, or returns ev.
func errorRecorded(c *Ctx, rule string, f *ssa.Function, k *ssa.Call, construct string) {
	ev := errValueOf(k)
	if ev == nil {
		c.obI(rule, k, construct, false, "the error of this step is recorded", "error result dropped")
		return
	}
	ok := true
	for _, r := range returnsOf(f) {
		returned := false
		for _, res := range r.Results {
			if okk, _ := allOrigins(res, oIsValue(ev)); okk {
				returned = true
			}
		}
		if returned {
			continue
		}
		if pathExists(f, k, r, factNil(errAlias(ev), true), isAppendWith(ev)) {
			ok = false
		}
	}
	c.obI(rule, k, construct, ok, "a failure of this step is appended to the error accumulator (or returned) on every path", "a path with a non-nil error reaches a return without recording it")
}

func ruleHasBodyGate(c *Ctx, rule string) {
	// shared with C17 R17.1: the probe itself
	p := c.P
	rulePeekCountsOnly(c, rule)
	hb := p.Fn("rt.HasBody")
	r := hb.Params[0]
	isReq := vOrigins(oIsValue(r))
	isCLHeader := func(v ssa.Value) bool {
		call := asCall(v)
		if call == nil || calleeName(&call.Call) != "(net/http.Header).Get" {
			return false
		}
		recv, args := callArgs(&call.Call)
		s, ok := constString(args[0])
		return ok && s == "Content-Length" && vFieldLoad("net/http.Request", "Header", isReq)(recv)
	}
	headerPresent := factContentLengthDeclared(isReq, isCLHeader)
	n := 0
	for _, ret := range returnsOf(hb) {
		if isContentLengthPositiveExpr(ret.Results[0], isReq) {
			// `return r.ContentLength > 0` behind "a length is declared"
			n++
			c.obI(rule, ret, "no-body-only-with-declared-length", guardedBy(ret, nil, anyFact(factContentLengthPositive(isReq), headerPresent)), "HasBody answers false without probing the stream only when a Content-Length header is present, so a body of undeclared length is always subjected to the content-type gate", "the answer ContentLength > 0 is returned although no length is declared")
			continue
		}
		if b, ok := constBool(ret.Results[0]); ok && !b {
			n++
			c.obI(rule, ret, "no-body-only-with-declared-length", guardedBy(ret, nil, headerPresent), "HasBody answers false without probing the stream only when a Content-Length header is present, so a body of undeclared length is always subjected to the content-type gate", "constant false reachable although no length is declared")
		}
	}
	// … and answers true without probing only for a POSITIVE declared length: an unknown length (-1, chunked) is probed,
	// so an empty chunked request is not subjected to the gate as if it had a body
	clPositive := factContentLengthPositive(isReq)
	for _, ret := range returnsOf(hb) {
		if b, ok := constBool(ret.Results[0]); ok && b {
			c.obI(rule, ret, "body-without-probing-only-with-positive-length", guardedBy(ret, nil, clPositive), "HasBody answers true without probing the stream only when ContentLength > 0", "constant true reachable without ContentLength > 0 (an unknown length counts as a body)")
		}
	}
	probes := callsIn(hb, "(*rt.peekingReader).HasContent")
	c.obRF(rule, hb, "probes-undeclared-bodies", len(probes) == 1 && n >= 1, "HasBody probes the stream when no length is declared", "")
}

func runC06(c *Ctx) {
	p := c.P
	ruleHasBodyGate(c, "R06.0")
	ruleContentTypeAccessorParses(c, "R06.1")
	ruleRoutableAPIDelegates(c, "R06.4", "ConsumersFor", "DefaultConsumes")
	ruleRegistryEntriesByOwnKey(c, "R06.4", "(*rt/middleware/untyped.API).ConsumersFor", "consumers")
	// the consumer of a request is chosen by the content-type stage alone (from the request's parsed media type):
	// nothing else pre-selects MatchedRoute.Consumer — the untyped stage keeps a consumer it finds already set
	for _, fn := range p.LibFuncs("rt/middleware") {
		for _, st := range fieldStores(fn, "rt/middleware.MatchedRoute", "Consumer") {
			if st.Parent() != fn {
				continue
			}
			allowedW := func(n string) bool {
				return n == "(*rt/middleware.validation).contentType" || n == "(*rt/middleware.Context).BindValidRequest"
			}
			okW := allowedW(fnName(fn))
			if !okW && isTransparent(fn) {
				okW = true
				for _, rt := range rootsOf(fn) {
					if !allowedW(fnName(rt)) {
						okW = false
					}
				}
			}
			if !okW && isNilConst(st.Val) {
				okW = true // clearing it decides nothing
			}
			if !okW {
				// the gate's code living elsewhere (inlined into its caller): what is stored is route.Consumers[<parsed media type>]
				okW, _ = allOrigins(st.Val, func(o Origin) bool {
					lk, isLk := o.V.(*ssa.Lookup)
					if !isLk {
						return false
					}
					okK, _ := allOrigins(lk.Index, oCall(0, "rt.ContentType"), oCall(0, "(*rt/middleware.Context).ContentType"))
					return okK
				})
			}
			c.obD("R06.3", st, "consumer-chosen-by-the-content-type-stage-only", okW, "MatchedRoute.Consumer is written by the two content-type gates only, from the media type of the request at hand", short(fn.String())+" pre-selects the route's consumer: the gate keeps it, whatever media type the body has")
		}
	}
	ruleFreshMatchedRoute(c, "R06.3", "the matched route — whose Consumer field the content-type stage fills only when it is still empty — is allocated for one lookup: the consumer picked for one request's media type never decodes another request's body", "the route returned by Lookup outlives the request (the Consumer chosen for an earlier request would be kept)")

	type gate struct {
		fn        string
		ctCallee  string
		consumesT string
	}
	gates := []gate{
		{"(*rt/middleware.validation).contentType", "(*rt/middleware.Context).ContentType", ""},
		{"(*rt/middleware.Context).BindValidRequest", "rt.ContentType", ""},
	}
	hasBody := factBool(vOrigins(oCall(-1, "rt.HasBody")), true)
	// the 415 is pronounced by validateContentType alone (on the parsed type against the route's list): no gate refuses
	// a content type on grounds of its own (a charset, a parameter, a length)
	for _, fn := range p.LibFuncs("rt/middleware") {
		for _, ci := range callsIn(fn, "github.com/go-openapi/errors.InvalidContentType") {
			if ci.Parent() != fn {
				continue
			}
			allowed := func(n string) bool {
				return n == "rt/middleware.validateContentType" || n == "(*rt/middleware.untypedParamBinder).Bind"
			}
			okCaller := allowed(fnName(fn))
			if !okCaller && fn.Parent() != nil {
				// a function literal inside one of the two (a local `refused := func() error {…}`)
				root := fn
				for root.Parent() != nil {
					root = root.Parent()
				}
				okCaller = allowed(fnName(root))
			}
			if !okCaller && isTransparent(fn) {
				// a helper the code was moved into: judged by the functions it is called from
				okCaller = true
				for _, rt := range rootsOf(fn) {
					if !allowed(fnName(rt)) {
						okCaller = false
					}
				}
			}
			c.obD("R06.3", ci, "only-admission-pronounces-415", okCaller, "errors.InvalidContentType (415) is built by validateContentType only (and by the formData binder for a body that is no form): both gates refuse exactly the types the admission test refuses, ignoring parameters such as charset", "a 415 is built in "+fnName(fn))
		}
	}
	for _, g := range gates {
		f := p.Fn(g.fn)
		cts := callsIn(f, g.ctCallee)
		c.obRF("R06.1", f, "parses-content-type", len(cts) == 1, "the gate parses the Content-Type header once", fmt.Sprintf("%d calls of %s", len(cts), g.ctCallee))
		if len(cts) != 1 {
			continue
		}
		ct := cts[0].(*ssa.Call)
		mt := resultOf(ct, 0)
		isMT := vOrigins(oIsValue(mt))
		c.obI("R06.1", ct, "parse-under-HasBody", guardedBy(ct, nil, hasBody), "the gate applies only to requests that carry a body", "content type parsed without the HasBody test")
		// and to ALL of them: the gate is skipped only when HasBody said no (or an earlier stage already refused the request)
		{
			noBody := negate(hasBody)
			earlier := factLenPositive(vFieldLoad("rt/middleware.validation", "result", nil), true)
			skipped := false
			for _, r := range realReturns(f) {
				if pathExists(f, nil, r, anyFact(noBody, earlier), isOneOf(ct)) {
					skipped = true
				}
			}
			c.obI("R06.1", ct, "gate-for-every-body", !skipped, "every request for which HasBody answers true goes through the content-type gate, whatever its method (both entry points alike)", "the gate can be skipped although the request carries a body")
		}
		errorRecorded(c, "R06.2", f, ct, "parse-error-recorded")
		// … and every type that parsed is put to the admission question: nothing (a family of media types "handled
		// elsewhere", a method, a flag) lets a parsed type past validateContentType
		{
			parseFailed := factNil(vIs(resultOf(ct, ct.Type().(*types.Tuple).Len()-1)), false)
			earlier := factLenPositive(vFieldLoad("rt/middleware.validation", "result", nil), true)
			vcsAll := callsIn(f, "rt/middleware.validateContentType")
			for _, r := range realReturns(f) {
				if len(vcsAll) == 0 {
					break
				}
				var vcsI []ssa.Instruction
				for _, v := range vcsAll {
					vcsI = append(vcsI, v)
				}
				unasked := pathExists(f, ct, r, anyFact(parseFailed, earlier), isOneOf(vcsI...))
				c.obI("R06.1", r, "admission-asked-for-every-parsed-type", !unasked, "once the Content-Type parsed, every exit of the gate lies behind validateContentType: no media type is waved through unasked", "a parsed media type can pass the gate without the admission test")
			}
		}
		// admission
		vcs := callsIn(f, "rt/middleware.validateContentType")
		c.obRF("R06.1", f, "asks-admission", len(vcs) == 1, "the gate asks validateContentType", fmt.Sprintf("%d calls", len(vcs)))
		for _, vc := range vcs {
			v := vc.(*ssa.Call)
			ok0 := vFieldLoadO(routeEntryT, "Consumes")(v.Call.Args[0])
			ok1 := isMT(v.Call.Args[1])
			c.obI("R06.1", v, "admission-arguments", ok0 && ok1, "admission is decided for the parsed media type against the route's Consumes list (both gates ask the same question)", fmt.Sprintf("allowed-from-route:%v actual-is-parsed-type:%v", ok0, ok1))
			errorRecorded(c, "R06.2", f, v, "admission-error-recorded")
		}
		// consumer table lookups
		nl := 0
		isConsumerLookup := func(in ssa.Instruction) bool {
			lk, ok := in.(*ssa.Lookup)
			return ok && strings.HasPrefix(typeStr(lk.X.Type()), "map[string]rt.Consumer")
		}
		for _, site := range sitesUnder(f, isConsumerLookup) {
			lk := site.In.(*ssa.Lookup)
			nl++
			var okTab, okKey bool
			site.at(func() {
				// (in the calling context of this gate when the lookup lives in a helper shared by both gates)
				okTab = vFieldLoadO(routeEntryT, "Consumers")(lk.X)
				okKey = isMT(lk.Index)
			})
			c.obI("R06.1", lk, "consumer-table", okTab, "the consumer is taken from the route's consumer table", "map "+describe(lk.X))
			c.obI("R06.1", lk, "lookup-key-is-parsed-type", okKey, "the consumer table is indexed with the parsed, parameter-free, lower-cased media type — never the raw header", "key "+describe(lk.Index))
			c.obI("R06.1", lk, "lookup-under-HasBody", site.guarded(f, hasBody), "no consumer is selected for a request without a body", "")
			if lk.CommaOk {
				okv := extractOf(lk, 1)
				val := extractOf(lk, 0)
				// miss -> 500 recorded
				if okv != nil {
					is500 := isAppendOfCall(func(e *ssa.Call) bool {
						k, ok := constInt(e.Call.Args[0])
						return ok && k == 500
					}, "github.com/go-openapi/errors.New")
					// (the error may be kept in a local first and appended once at the end of the step)
					reachesAppend := func(v ssa.Value) bool {
						seenV := map[ssa.Value]bool{}
						var walkV func(x ssa.Value, d int) bool
						walkV = func(x ssa.Value, d int) bool {
							if seenV[x] || d > 5 || x.Referrers() == nil {
								return false
							}
							seenV[x] = true
							for _, ref := range *x.Referrers() {
								switch y := ref.(type) {
								case *ssa.Phi:
									if walkV(y, d+1) {
										return true
									}
								case *ssa.MakeInterface:
									if walkV(y, d+1) {
										return true
									}
								case *ssa.ChangeInterface:
									if walkV(y, d+1) {
										return true
									}
								case *ssa.Store:
									// a one-element variadic slice literal handed to append
									if ia, isIA := y.Addr.(*ssa.IndexAddr); isIA {
										if ia.X.Referrers() != nil {
											for _, r2 := range *ia.X.Referrers() {
												if sl, isSl := r2.(*ssa.Slice); isSl && sl.Referrers() != nil {
													for _, r3 := range *sl.Referrers() {
														if ap, isAp := r3.(*ssa.Call); isAp && calleeName(&ap.Call) == "builtin append" {
															return true
														}
													}
												}
											}
										}
									}
								}
							}
							return false
						}
						return walkV(v, 0)
					}
					is500Kept := func(in ssa.Instruction) bool {
						e, ok := in.(*ssa.Call)
						if !ok || calleeName(&e.Call) != "github.com/go-openapi/errors.New" {
							return false
						}
						k, isK := constInt(e.Call.Args[0])
						return isK && k == 500 && reachesAppend(e)
					}
					missOK := true
					for _, r := range returnsOf(f) {
						if pathExists(f, lk, r, factBool(vIs(okv), true), func(in ssa.Instruction) bool { return is500(in) || is500Kept(in) }) {
							missOK = false
						}
					}
					c.obI("R06.1", lk, "miss-records-500", missOK, "a media type that was admitted but has no registered consumer is answered with a 500 error, not silently bound", "a table miss can reach a return without recording the error")
				}
				for _, st := range fieldStores(f, matchedRouteT, "Consumer") {
					okS, _ := allOrigins(st.Val, oIsValue(val), oNil()) // (nil: what a lookup helper returns next to its error)
					okS = okS && someOrigin(st.Val, oIsValue(val))
					g := okv != nil && guardedBy(st, lk, factBool(vIs(okv), true))
					c.obI("R06.1", st, "per-request-consumer-is-table-entry", okS && g, "the consumer stored on the per-request route is the table entry found for the parsed media type", "value "+describe(st.Val))
				}
			}
		}
		c.obRF("R06.1", f, "looks-consumer-up", nl == 1, "the gate selects the consumer by one table lookup", fmt.Sprintf("%d lookups", nl))
	}
	c.min("R06.1", 14)

	// R06.2 single Consume site; binding only with an empty accumulator
	nConsume := 0
	for _, fn := range p.LibFuncs("rt/middleware") {
		for _, ci := range callsIn(fn, "(rt.Consumer).Consume") {
			nConsume++
			c.obI("R06.2", ci, "consume-site", fnName(fn) == "(*rt/middleware.untypedParamBinder).Bind", "the body is consumed at a single site of package middleware (the body case of untypedParamBinder.Bind)", "Consumer.Consume called in "+fnName(fn))
			_, args := callArgs(ci.Common())
			okB := vFieldLoadO("net/http.Request", "Body")(args[0])
			okC, _ := allOrigins(ci.Common().Value, oIsValue(paramOf(fn, 2)))
			c.obI("R06.2", ci, "consume-args", okB && okC, "the consumer handed to the binder decodes the request body", "")
		}
	}
	c.obF("R06.2", p.Fn("(*rt/middleware.untypedParamBinder).Bind"), "consume-site-count", nConsume == 1, "exactly one Consume site", fmt.Sprintf("%d sites", nConsume))
	vr := p.Fn("rt/middleware.validateRequest")
	ctc := callsIn(vr, "(*rt/middleware.validation).contentType")
	rfc := callsIn(vr, "(*rt/middleware.validation).responseFormat")
	prm := callsIn(vr, "(*rt/middleware.validation).parameters")
	if ord, grd, isTable := stageTable(vr); isTable && len(ctc)+len(rfc)+len(prm) == 0 {
		// the three stages as an ordered table of steps, each run only while no error was recorded
		ctI, rfI, pmI := ord["contentType"], ord["responseFormat"], ord["parameters"]
		c.obF("R06.2", vr, "bind-after-content-type-gate", grd && ctI < pmI, "parameter binding (and with it the consumer) runs only when the content-type gate recorded no error", "in the table of steps binding is not behind the content-type gate, or a step runs although an error was recorded")
		c.obF("R06.2", vr, "bind-after-format-gate", grd && rfI < pmI, "parameter binding runs only when the response-format gate recorded no error", "in the table of steps binding is not behind the response-format gate")
		c.obF("R06.2", vr, "format-after-content-type-gate", grd && ctI < rfI, "the response format is negotiated only when the content-type gate recorded no error", "")
		c.obF("R06.2", vr, "content-type-gate-first", ctI < rfI, "the content-type gate runs before the response-format gate in the reflective entry point (a request wrong on both counts is refused 415/400, as by the generated-server entry point)", "the response format is negotiated before the content type was checked")
	} else {
		c.obRF("R06.2", vr, "stages", len(ctc) == 1 && len(rfc) == 1 && len(prm) == 1, "validateRequest runs the content-type gate, the response-format gate and parameter binding", fmt.Sprintf("%d/%d/%d", len(ctc), len(rfc), len(prm)))
	}
	resultEmpty := factLenPositive(vFieldLoad("rt/middleware.validation", "result", nil), false)
	if len(ctc) == 1 && len(rfc) == 1 && len(prm) == 1 {
		c.obI("R06.2", prm[0], "bind-after-content-type-gate", dominates(ctc[0], prm[0]) && guardedBy(prm[0], ctc[0], resultEmpty), "parameter binding (and with it the consumer) runs only when the content-type gate recorded no error", "parameters() reachable after a content-type refusal")
		c.obI("R06.2", prm[0], "bind-after-format-gate", guardedBy(prm[0], rfc[0], resultEmpty), "parameter binding runs only when the response-format gate recorded no error", "parameters() reachable after a 406")
		c.obI("R06.2", rfc[0], "format-after-content-type-gate", guardedBy(rfc[0], ctc[0], resultEmpty), "the response format is negotiated only when the content-type gate recorded no error", "")
		// consumer passed to the binder is the per-request one
	}
	// both entry points decide the content type BEFORE the response format (same refusal for the same request)
	if len(ctc) == 1 && len(rfc) == 1 {
		c.obI("R06.2", rfc[0], "content-type-gate-first", dominates(ctc[0], rfc[0]), "the content-type gate runs before the response-format gate in the reflective entry point (a request wrong on both counts is refused 415/400, as by the generated-server entry point)", "the response format is negotiated before the content type was checked")
	}
	for _, n := range callsIn(p.Fn("(*rt/middleware.Context).BindValidRequest"), "rt/middleware.NegotiateContentType") {
		for _, k := range callsIn(p.Fn("(*rt/middleware.Context).BindValidRequest"), "rt.ContentType") {
			c.obI("R06.2", n, "typed-content-type-gate-first", !canFollow(n, k), "the generated-server entry point checks the content type before negotiating the response format", "")
		}
	}
	pf := p.Fn("(*rt/middleware.validation).parameters")
	for _, b := range callsIn(pf, "(*rt/middleware.UntypedRequestBinder).Bind") {
		_, args := callArgs(b.Common())
		okC := vFieldLoadO(matchedRouteT, "Consumer")(args[2])
		c.obI("R06.2", b, "binder-gets-selected-consumer", okC, "the binder is handed the consumer selected by the gate", "argument "+describe(args[2]))
	}
	bv := p.Fn("(*rt/middleware.Context).BindValidRequest")
	accEmpty := factLenPositive(isErrSliceLen, false)
	// the consumer is (re)selected for EVERY admitted body: between a successful admission and the binder there is always
	// the table lookup under this request's media type — a consumer left on the route value by an earlier binding is never
	// kept in its place
	for _, b := range callsIn(bv, "(rt/middleware.RequestBinder).BindRequest") {
		for _, vc := range callsIn(bv, "rt/middleware.validateContentType") {
			if vc.Value() == nil {
				continue
			}
			refused := anyFact(factNil(vIs(vc.Value()), false), factLenPositive(isErrSliceLen, true))
			kept := pathExists(bv, vc, b, refused, func(in ssa.Instruction) bool {
				lk, ok := in.(*ssa.Lookup)
				return ok && strings.HasPrefix(typeStr(lk.X.Type()), "map[string]rt.Consumer")
			})
			c.obI("R06.1", b, "consumer-selected-for-every-admitted-body", !kept, "after a successful admission the binder is reached only through the consumer-table lookup for this request's media type", "the binder can be reached after admission without a consumer having been looked up (one left on the route by an earlier request would be used)")
		}
	}
	for _, b := range callsIn(bv, "(rt/middleware.RequestBinder).BindRequest") {
		c.obI("R06.2", b, "typed-bind-needs-empty-accumulator", guardedBy(b, nil, accEmpty), "the generated binder (which consumes the body) runs only when no gate recorded an error", "BindRequest reachable although an error was recorded")
		for _, k := range callsIn(bv, "rt/middleware.validateContentType", "rt.ContentType") {
			if pathExists(bv, k, b, nil, nil) {
				c.obI("R06.2", b, "typed-bind-after-"+calleeName(k.Common()), guardedBy(b, k, accEmpty), "the accumulator is tested after the gate step and before binding", "")
			}
		}
	}
	// errors returned: accumulator non-empty -> composite error
	for _, r := range returnsOf(bv) {
		if isNilConst(r.Results[0]) {
			c.obI("R06.2", r, "typed-gate-errors-returned", guardedBy(r, nil, accEmpty), "BindValidRequest returns nil only with an empty accumulator", "nil returned although errors were recorded")
		}
	}
	c.min("R06.2", 12)

	// R06.3 validateContentType
	vf := p.Fn("rt/middleware.validateContentType")
	allowed, actual := vf.Params[0], vf.Params[1]
	isAllowed := vOrigins(oIsValue(allowed))
	// an element of the allowed list (allowed[i] / the range value)
	isElem := func(v ssa.Value) bool {
		ad, ok := derefLoad(v)
		if !ok {
			return false
		}
		ia, ok := ad.(*ssa.IndexAddr)
		return ok && isAllowed(ia.X)
	}
	// a case-insensitive membership test: swag.ContainsStringsCI(allowed, x), or strings.EqualFold(allowed[i], x)
	foldOther := func(call *ssa.Call) ssa.Value {
		if call == nil || calleeName(&call.Call) != "strings.EqualFold" {
			return nil
		}
		if isElem(call.Call.Args[0]) {
			return call.Call.Args[1]
		}
		if isElem(call.Call.Args[1]) {
			return call.Call.Args[0]
		}
		return nil
	}
	member := func(v ssa.Value) bool {
		call := asCall(v)
		if call == nil {
			return false
		}
		if calleeName(&call.Call) == "github.com/go-openapi/swag.ContainsStringsCI" && isAllowed(call.Call.Args[0]) {
			return true
		}
		return foldOther(call) != nil
	}
	admitted := anyFact(factBool(member, true), factLenPositive(isAllowed, false))
	for _, r := range returnsOf(vf) {
		if isNilConst(r.Results[0]) {
			c.obI("R06.3", r, "admits-only-through-membership", guardedBy(r, nil, admitted), "validateContentType admits only when the allowed list is empty or a case-insensitive membership test succeeded", "nil returned without a successful swag.ContainsStringsCI test")
		} else {
			ok, bad := allOrigins(r.Results[0], oCallWhere(-1, "github.com/go-openapi/errors.InvalidContentType", func(e *ssa.Call) bool {
				a, _ := allOrigins(e.Call.Args[0], oIsValue(actual))
				b, _ := allOrigins(e.Call.Args[1], oIsValue(allowed))
				return a && b
			}))
			c.obI("R06.3", r, "refuses-with-415", ok, "every refusal is errors.InvalidContentType(actual, allowed) (415)", "origin "+describeOrigin(bad))
		}
	}
	var sawExact, sawAny, sawType bool
	classify := func(arg ssa.Value) string {
		if s, ok := constString(arg); ok && s == "*/*" {
			sawAny = true
			return "*/*"
		}
		if ok, _ := allOrigins(arg, oCall(0, "mime.ParseMediaType")); ok {
			sawExact = true
			return "exact"
		}
		// (one membership test shared by the three forms — a local `admits(entry)` — is judged per form handed in)
		form, all := "", true
		os := originsOf(arg)
		for _, o := range os {
			switch {
			case oConstString("*/*")(o):
				sawAny = true
				form = "*/*"
			case oCall(0, "mime.ParseMediaType")(o):
				sawExact = true
				form = "exact"
			case oConstString("")(o):
				// a candidate left unset (`var typeWildcard string`, filled only when the value has the type/subtype shape)
			default:
				bo, ok := o.V.(*ssa.BinOp)
				if s, isS := "", false; ok {
					if s, isS = constString(bo.Y); isS && s == "/*" {
						sawType = true
						form = "type/*"
						continue
					}
				}
				all = false
			}
		}
		if !all || len(os) == 0 {
			return ""
		}
		return form
	}
	for _, ci := range allCalls(vf) {
		name := calleeName(ci.Common())
		if strings.HasPrefix(name, "github.com/go-openapi/swag.ContainsStrings") {
			c.obI("R06.3", ci, "case-insensitive-membership", name == "github.com/go-openapi/swag.ContainsStringsCI" && isAllowed(ci.Common().Args[0]), "membership in the consumes list is tested case-insensitively", "uses "+name)
			form := classify(ci.Common().Args[1])
			// (judged where the <type>/* text is built: at this call, or at the calls of the local helper it is handed to)
			type tsite struct {
				at  ssa.Instruction
				arg ssa.Value
			}
			tsites := []tsite{{ci, ci.Common().Args[1]}}
			if prm, isP := ci.Common().Args[1].(*ssa.Parameter); isP && curProg != nil && curProg.ti != nil {
				tsites = nil
				for pos, pp := range prm.Parent().Params {
					if pp != prm {
						continue
					}
					for _, cs := range curProg.ti.callers[prm.Parent()] {
						if pos < len(cs.Common().Args) {
							tsites = append(tsites, tsite{cs, cs.Common().Args[pos]})
						}
					}
				}
			}
			for _, ts := range tsites {
				isTypeForm := false
				for _, o := range originsOf(ts.arg) {
					if bo, isBo := o.V.(*ssa.BinOp); isBo && bo.Op == token.ADD {
						if k, isK := constString(bo.Y); isK && k == "/*" {
							isTypeForm = true
						}
					}
				}
				if !isTypeForm {
					continue
				}
				ci := ts.at
				// the type/* rule applies to values of the shape type/subtype only (exactly one '/'): a bare token that
				// happens to parse ("text") is not admitted through "text/*" — it has no consumer and would end in a 500
				twoParts := func(cond ssa.Value, branch bool) bool {
					isSplitLen := func(v ssa.Value) bool {
						okL, _ := allOrigins(v, oCallWhere(-1, "builtin len", func(lc *ssa.Call) bool {
							okk, _ := allOrigins(lc.Call.Args[0], oCall(-1, "strings.Split", "strings.SplitN"))
							return okk
						}))
						return okL
					}
					if factEqInt(isSplitLen, 2, true)(cond, branch) {
						return true
					}
					// strings.Cut(x, "/") found
					isFound := func(v ssa.Value) bool {
						ex, ok := v.(*ssa.Extract)
						if !ok {
							return false
						}
						cc := asCall(ex.Tuple)
						return cc != nil && calleeName(&cc.Call) == "strings.Cut" && ex.Index == 2
					}
					return factBool(isFound, true)(cond, branch)
				}
				// (the text may also be prepared ahead and left empty for other shapes: then building it is what is guarded)
				okG := guardedBy(ci, nil, twoParts)
				if !okG {
					okG = true
					for _, o := range originsOf(ts.arg) {
						if bo, isBo := o.V.(*ssa.BinOp); isBo && bo.Op == token.ADD {
							if !guardedBy(bo, nil, twoParts) {
								okG = false
							}
						}
					}
				}
				c.obI("R06.3", ci, "type-wildcard-only-for-type-slash-subtype", okG, "the <type>/* entry is consulted only for a value made of exactly a type and a subtype", "the type/* test is reachable for a value without a subtype")
			}
			c.obI("R06.3", ci, "admission-form-is-one-of-three", form != "", "what is looked up in the consumes list is the parsed media type, \"*/*\" or <type>/* — nothing else admits a body (no suffix, prefix or family rule: the consumer table is keyed by the exact type)", "the consumes list is searched for "+describe(ci.Common().Args[1]))
		}
		if call, isCall := ci.(*ssa.Call); isCall {
			if other := foldOther(call); other != nil {
				form := classify(other)
				c.obI("R06.3", ci, "admission-form-is-one-of-three", form != "", "what an entry of the consumes list is compared with is the parsed media type, \"*/*\" or <type>/*", "an entry is compared with "+describe(other))
			}
		}
	}
	c.obF("R06.3", vf, "three-admission-forms", sawExact && sawAny && sawType, "admission knows the exact type, */* and type/* forms", fmt.Sprintf("exact:%v any:%v type/*:%v", sawExact, sawAny, sawType))
	// elements of `allowed` are never compared with == (case-sensitive)
	for _, in := range instrs(vf) {
		ia, ok := in.(*ssa.IndexAddr)
		if !ok || !isAllowed(ia.X) {
			continue
		}
		// an element may only be handed to strings.EqualFold
		okUse := true
		for _, ref := range *ia.Referrers() {
			ld, isLd := ref.(*ssa.UnOp)
			if !isLd {
				okUse = false
				continue
			}
			for _, use := range *ld.Referrers() {
				if call, isCall := use.(*ssa.Call); isCall && calleeName(&call.Call) == "strings.EqualFold" {
					continue
				}
				if _, isDbg := use.(*ssa.DebugRef); isDbg {
					continue
				}
				okUse = false
			}
		}
		c.obI("R06.3", ia, "no-direct-comparison", okUse, "elements of the consumes list are only compared case-insensitively (swag.ContainsStringsCI / strings.EqualFold)", "an element of the list is used by something other than a case-insensitive comparison")
	}
	// runtime.ContentType
	rc := p.Fn("rt.ContentType")
	for _, r := range returnsOf(rc) {
		ok0, bad := allOrigins(r.Results[0], oConstString(""), oCall(0, "mime.ParseMediaType"))
		c.obI("R06.3", r, "media-type-from-mime-parser", ok0, "runtime.ContentType returns the media type produced by mime.ParseMediaType", "origin "+describeOrigin(bad))
		if !isNilConst(r.Results[2]) {
			okE, _ := allOrigins(r.Results[2], oCall(-1, "github.com/go-openapi/errors.NewParseError"))
			c.obI("R06.3", r, "parse-error-class", okE, "an unparsable Content-Type yields errors.NewParseError (400)", "")
		}
	}
	checkErrorsReturned(c, "R06.3", rc, 2, nil)
	for _, ci := range callsIn(rc, "mime.ParseMediaType") {
		ok, _ := allOrigins(ci.Common().Args[0], oCallWhere(-1, "(net/http.Header).Get", func(g *ssa.Call) bool {
			_, a := callArgs(&g.Call)
			s, ok := constString(a[0])
			return ok && s == "Content-Type"
		}), oConstString("application/octet-stream"))
		c.obI("R06.3", ci, "parses-header-or-default", ok, "the string parsed is the Content-Type header or the default application/octet-stream", "argument "+describe(ci.Common().Args[0]))
	}
	c.min("R06.3", 9)

	// R06.4 AddRoute
	ruleAddRouteDefaults(c, "R06.4", "Consume")
}

// ruleAddRouteDefaults checks for kind in {"Consume","Produce"}: the API default is appended to the operation's list
// unless the list as spelled contains it; the codec table is built from the normalised final list.
func ruleAddRouteDefaults(c *Ctx, rule, kind string) {
	p := c.P
	f := p.Fn("(*rt/middleware.defaultRouteBuilder).AddRoute")
	listFor := "(*github.com/go-openapi/analysis.Spec)." + kind + "sFor"
	defFor := "(rt/middleware.RoutableAPI).Default" + kind + "s"
	tableFor := "(rt/middleware.RoutableAPI)." + kind + "rsFor"
	lists := callsIn(f, listFor)
	defs := callsIn(f, defFor)
	c.obF(rule, f, kind+"-list-and-default", len(lists) == 1 && len(defs) == 1, "AddRoute reads the operation's "+kind+"s list and the API default", fmt.Sprintf("%d/%d", len(lists), len(defs)))
	if len(lists) != 1 || len(defs) != 1 {
		return
	}
	lst := lists[0].(*ssa.Call)
	d := defs[0].(*ssa.Call)
	isList := vOrigins(oIsValue(lst))
	isDef := vOrigins(oIsValue(d))
	already := factBool(func(v ssa.Value) bool {
		call := asCall(v)
		return call != nil && calleeName(&call.Call) == "github.com/go-openapi/swag.ContainsStringsCI" && isList(call.Call.Args[0]) && isDef(call.Call.Args[1])
	}, true)
	noDefault := factEqString(isDef, "", true)
	appended := func(in ssa.Instruction) bool {
		call, ok := in.(*ssa.Call)
		if !ok || calleeName(&call.Call) != "builtin append" || len(call.Call.Args) != 2 || !isList(call.Call.Args[0]) {
			return false
		}
		elems, ok := sliceLitElems(call.Call.Args[1])
		return ok && len(elems) == 1 && isDef(elems[0])
	}
	field := kind + "s"
	sts := fieldStores(f, routeEntryT, field)
	c.obRF(rule, f, "stores-"+field, len(sts) == 1, "the route entry records the final "+field+" list", fmt.Sprintf("%d stores", len(sts)))
	for _, st := range sts {
		miss := pathExists(f, d, st, anyFact(already, noDefault), appended)
		c.obI(rule, st, "default-always-added", !miss, "the API's default media type is added to the operation's list unless the list as spelled already contains it (case-insensitively) or there is no default", "a path builds the route without the default although it is absent from the list")
		okV, bad := allOrigins(st.Val, oIsValue(lst), func(o Origin) bool { in, ok := o.V.(ssa.Instruction); return ok && appended(in) })
		c.obI(rule, st, field+"-origin", okV, "the recorded list is the operation's list, possibly extended by the default", "origin "+describeOrigin(bad))
		// table built from normalizeOffers(final list)
		for _, t := range fieldStores(f, routeEntryT, kind+"rs") {
			ok, bad2 := allOrigins(t.Val, oCallWhere(-1, tableFor, func(tc *ssa.Call) bool {
				_, a := callArgs(&tc.Call)
				okk, _ := allOrigins(a[0], oCallWhere(-1, "rt/middleware.normalizeOffers", func(n *ssa.Call) bool {
					return sameOrigins(n.Call.Args[0], st.Val)
				}))
				return okk
			}))
			c.obI(rule, t, kind+"rs-from-normalised-final-list", ok, "the "+kind+"r table is built by the API from normalizeOffers(<the recorded list>): its keys are parameter-free", "origin "+describeOrigin(bad2))
		}
	}
}

// sameOrigins: both values have the same set of origins.
func sameOrigins(a, b ssa.Value) bool {
	oa, ob := originsOf(a), originsOf(b)
	if len(oa) == 0 || len(oa) != len(ob) {
		return false
	}
	for _, x := range oa {
		found := false
		for _, y := range ob {
			if x.same(y) {
				found = true
			}
		}
		if !found {
			return false
		}
	}
	return true
}

// errAlias recognises the error value ev and variables that hold it (err = e; the result of a helper that returned it):
// every origin is ev or nil, and ev is among them.
func errAlias(ev ssa.Value) VPred {
	return func(v ssa.Value) bool {
		if v == ev {
			return true
		}
		has := false
		for _, o := range originsOf(v) {
			if oIsValue(ev)(o) {
				has = true
			} else if !isNilConst(o.V) {
				return false
			}
		}
		return has
	}
}

// stageTable recognises validateRequest written as an ordered table of steps: a local array (or slice literal) of the
// bound methods validate.contentType, validate.responseFormat, validate.parameters, iterated by one loop whose body
// calls the current element only behind `len(validate.result) == 0` (the loop stops at the first step that recorded
// an error). It returns the position of each step in the table.
func stageTable(vr *ssa.Function) (order map[string]int64, guarded bool, found bool) {
	order = map[string]int64{}
	resultEmpty := factLenPositive(vFieldLoad("rt/middleware.validation", "result", nil), false)
	for _, in := range ownInstrs(vr) {
		al, isAl := in.(*ssa.Alloc)
		if !isAl {
			continue
		}
		if _, isArr := al.Type().Underlying().(*types.Pointer).Elem().Underlying().(*types.Array); !isArr {
			continue
		}
		elems := literalElemsByIndex(al)
		if len(elems) < 3 {
			continue
		}
		ord := map[string]int64{}
		for idx, ev := range elems {
			mc, isMC := ev.(*ssa.MakeClosure)
			if !isMC {
				continue
			}
			w, _ := mc.Fn.(*ssa.Function)
			if w == nil || !strings.HasSuffix(w.Name(), "$bound") {
				continue
			}
			if obj, isFn := w.Object().(*types.Func); isFn {
				ord[obj.Name()] = idx
			}
		}
		if _, a := ord["contentType"]; !a {
			continue
		}
		if _, b := ord["responseFormat"]; !b {
			continue
		}
		if _, c2 := ord["parameters"]; !c2 {
			continue
		}
		// ranging over the array VALUE (`for _, step := range steps`): elements are read with Index on a copy
		for _, in2 := range ownInstrs(vr) {
			ix, isIx := in2.(*ssa.Index)
			if !isIx {
				continue
			}
			if ad, isLd := derefLoad(ix.X); !isLd || ad != ssa.Value(al) {
				continue
			}
			for _, ci := range allCalls(vr) {
				if ci.Parent() != vr || ci.Common().Value != ssa.Value(ix) {
					continue
				}
				found = true
				order = ord
				guarded = guardedBy(ci, ix, resultEmpty)
			}
		}
		// one loop over the table; the element is called behind the emptiness test, in every iteration that goes on
		for _, l := range sliceLoops(vr, nil) {
			base := l.X
			if sl, isSl := base.(*ssa.Slice); isSl {
				base = sl.X
			}
			if base != ssa.Value(al) {
				// ranging over an array VALUE iterates over a copy of it
				isCopy := false
				if b2, isAl2 := base.(*ssa.Alloc); isAl2 {
					for _, st := range storesToCell(b2) {
						if ad, isLd := derefLoad(st.Val); isLd && ad == ssa.Value(al) {
							isCopy = true
						}
					}
				}
				if !isCopy {
					continue
				}
			}
			found = true
			order = ord
			for _, ci := range allCalls(vr) {
				if ci.Parent() != vr || ci.Common().IsInvoke() || ci.Common().StaticCallee() != nil {
					continue
				}
				if ad, isLd := derefLoad(ci.Common().Value); isLd && ad == ssa.Value(l.Elem) {
					guarded = guardedBy(ci, l.Elem, resultEmpty) || guardedBy(ci, l.Body, resultEmpty) || !pathExists(vr, l.Test, ci, resultEmpty, nil)
				}
			}
		}
	}
	return order, guarded, found
}

// rulePeekCountsOnly: whether a body has content is decided by HOW MANY bytes can be peeked, never by WHAT they are: the
// bytes HasContent peeks are only counted (len) — a body that starts with a blank, a line break or any other byte is a
// body. Shared by C06 (the gate applies to every body) and C17.
func rulePeekCountsOnly(c *Ctx, rule string) {
	hc := c.P.Fn("(*rt.peekingReader).HasContent")
	n := 0
	for _, fn := range withClosures(hc) {
		for _, ci := range allCalls(fn) {
			cc := ci.Common()
			if ifaceMethodCalled(cc) != "Peek" {
				continue
			}
			call, ok := ci.(*ssa.Call)
			if !ok {
				continue
			}
			n++
			peeked := resultOf(call, 0)
			if peeked == nil {
				continue
			}
			var visit func(v ssa.Value, d int)
			visit = func(v ssa.Value, d int) {
				if v.Referrers() == nil || d > 3 {
					return
				}
				for _, ref := range *v.Referrers() {
					switch x := ref.(type) {
					case *ssa.DebugRef:
					case *ssa.Phi:
						visit(x, d+1)
					case *ssa.Slice:
						visit(x, d+1) // re-sliced: still only a run of bytes
					case *ssa.Call:
						if calleeName(&x.Call) == "builtin len" {
							continue
						}
						c.obI(rule, ref, "peeked-bytes-only-counted", false, "the bytes HasContent peeks are only counted (len): whether there is a body never depends on what its first byte is", "the peeked bytes are handed to "+calleeName(&x.Call))
					default:
						c.obI(rule, ref, "peeked-bytes-only-counted", false, "the bytes HasContent peeks are only counted (len): whether there is a body never depends on what its first byte is", "the peeked bytes are inspected: "+describe(refValue(ref)))
					}
				}
			}
			visit(peeked, 0)
		}
	}
	c.obRF(rule, hc, "peeks", n >= 1, "HasContent peeks into the buffered reader", "")
}

// ruleUntypedGateForEveryBody: the reflective content-type stage — which is also where the route's consumer is selected —
// is skipped only when HasBody said no or an earlier stage already refused the request: never on the strength of the
// method or anything else (an operation that declares a body under GET still gets its consumer). For C19.
func ruleUntypedGateForEveryBody(c *Ctx, rule string) {
	f := c.P.Fn("(*rt/middleware.validation).contentType")
	cts := callsIn(f, "(*rt/middleware.Context).ContentType")
	if len(cts) != 1 {
		c.obRF(rule, f, "gate-parses-content-type", false, "the stage parses the Content-Type header once", fmt.Sprintf("%d", len(cts)))
		return
	}
	hasBody := factBool(vOrigins(oCall(-1, "rt.HasBody")), true)
	earlier := factLenPositive(vFieldLoad("rt/middleware.validation", "result", nil), true)
	skipped := false
	for _, r := range realReturns(f) {
		if pathExists(f, nil, r, anyFact(negate(hasBody), earlier), isOneOf(cts[0])) {
			skipped = true
		}
	}
	c.obI(rule, cts[0], "consumer-stage-for-every-body", !skipped, "every request for which HasBody answers true goes through the content-type stage, whatever its method: that is where its consumer is selected", "the stage can be skipped although the request carries a body: the binder is then handed no consumer")
}

func debugOn() bool       { return os.Getenv("RTDEBUG") != "" }
func os_stderr() *os.File { return os.Stderr }
