package main

import (
	"fmt"
	"go/constant"
	"go/token"
	"go/types"
	"net/http"
	"sort"
	"strings"

	"golang.org/x/tools/go/ssa"
)

const acceptSpecT = "rt/middleware/header.AcceptSpec"

func init() {
	register(&Property{
		ID: "C07",
		Explanation: "Decides: R07.1 NegotiateContentType returns only its defaultOffer or an element of offers, NegotiateContentEncoding only an element of offers, \"identity\" or \"\"; R07.2 an offer is selected only on paths on which the range's q is non-zero, and the no-Accept shortcut returns the first offer only when no range was parsed; " +
			"R07.3 the Accept parsers of package header cannot index or slice out of range (bounds obligations, see R07.3 in evidence); R07.4 the q-value accumulators are multiplied only under a constant bound (no integer overflow: float64(n)/float64(d) is the denoted number), and the digit loop is left only at a non-digit or at the end of input (so the rest of the header line is parsed from the right place); " +
			"R07.5 validation.responseFormat always negotiates and records a 406 whenever nothing was negotiated for an operation that declares produces, and the handler stage is reached only with an empty error accumulator; R07.6 a type/* range is compared with the offer by a prefix that keeps the slash, and an exact range by equality with the normalised offer; ParseAccept is only ever given canonical header names. " +
			"R07.2 also: a selection happens only when the range's q is not below the best q so far, the specificity rank a selection records is the rank its tie-break compares against, and the recorded ranks are ordered */* > type/* > exact; R07.4 also: the parameter-skipping loop of ParseAccept stops at the next range separator. " +
			"R07.4 also: the loop over the header's lines is never left early; R07.5 also: every context a memoising accessor writes into derives from the Context() of the request it was given. " +
			"R07.4 also: the white-space class of the octet table is exactly SP, HT, CR, LF. " +
			"R07.2 also: the selection loops of NegotiateContentEncoding are left only when their elements are exhausted. " +
			"R07.4 also: the media-range scanner stops early only at an octet that is not '/'. " +
			"NOT decided: the lexicographic maximum over (q, specificity, position) — a flipped > / >= is not claimed to be caught.",
		Run: runC07,
	})
}

var c07Table = map[string]string{
	"make((len(_[1:])-1))[_]":  "p has len(s)-1 bytes; j starts as copy(p, s[:i]) = i (the backslash position) and is incremented at most once per later input byte i' in (i, len(s)), so at a write j <= i'-1 < len(s)-1",
	"make((len(_[1:])-1))[:_]": "same counting argument: j <= len(s)-1 = len(p) when the closing quote is found",
}

// factLessConst: the edge establishes v < K for some constant K (v recognised by m).
func factLessConst(m VPred) EdgePred {
	return func(cond ssa.Value, branch bool) bool {
		c, b := stripNot(cond, branch)
		bo, ok := c.(*ssa.BinOp)
		if !ok {
			return false
		}
		_, yc := constInt(bo.Y)
		_, xc := constInt(bo.X)
		switch {
		case m(bo.X) && yc:
			return (bo.Op == token.LSS || bo.Op == token.LEQ) && b || (bo.Op == token.GEQ || bo.Op == token.GTR) && !b
		case m(bo.Y) && xc:
			return (bo.Op == token.GTR || bo.Op == token.GEQ) && b || (bo.Op == token.LEQ || bo.Op == token.LSS) && !b
		}
		return false
	}
}

func runC07(c *Ctx) {
	p := c.P
	f := p.Fn("rt/middleware.NegotiateContentType")
	negotiateSelection(c, "R07.1", "R07.2")
	ruleNormalizeOfferCuts(c, "R07.6")
	negotiateMatchers(c, "R07.6")
	ruleOffersDefaultLast(c, "R07.1")
	ruleSpaceClass(c, "R07.4")
	// the media-range scanner takes in every token octet AND every '/' (it does not judge how many slashes a range may
	// have: a range of another shape simply matches no offer): the scan stops before the end of the input only at an octet
	// that is not '/'
	if ets := c.P.FnOpt("rt/middleware/header.expectTokenSlash"); ets != nil {
		isOctet := func(v ssa.Value) bool {
			switch x := v.(type) {
			case *ssa.Index:
				return true
			case *ssa.UnOp:
				_, isIA := x.X.(*ssa.IndexAddr)
				return isIA
			case *ssa.Convert:
				_, isIdx := x.X.(*ssa.Index)
				return isIdx
			}
			return false
		}
		notSlash := factEqInt(isOctet, int64('/'), false)
		type scanLoop struct {
			test ssa.Instruction
			body ssa.Instruction
		}
		var ls []scanLoop
		for _, in := range instrs(ets) {
			ix, isIx := in.(*ssa.Index)
			if !isIx || in.Parent() != ets {
				continue
			}
			var header *ssa.BasicBlock
			for _, b := range ets.Blocks {
				if b.Dominates(ix.Block()) && reachableFrom(ix.Block(), b) {
					if _, isIf := lastInstr(b).(*ssa.If); isIf && (header == nil || b.Dominates(header)) {
						header = b
					}
				}
			}
			if header != nil && len(header.Succs) == 2 && len(header.Succs[0].Instrs) > 0 {
				ls = append(ls, scanLoop{lastInstr(header), header.Succs[0].Instrs[0]})
			}
			break
		}
		for _, l := range ls {
			early := false
			for _, r := range realReturns(ets) {
				if pathExists(ets, l.body, r, notSlash, isOneOf(l.test)) {
					early = true
				}
			}
			c.obI("R07.4", l.test, "range-scan-stops-only-at-a-non-slash", !early, "expectTokenSlash leaves its scan early only at an octet different from '/'", "the scan can stop AT a '/' (a second slash): the rest of the range — and of the header line — is abandoned, and the truncated range matches an offer it does not name")
		}
		c.obRF("R07.4", ets, "range-scan-loop", len(ls) >= 1, "expectTokenSlash scans its input in a loop", "")
	}

	// NegotiateContentEncoding
	fe := p.Fn("rt/middleware.NegotiateContentEncoding")
	// every offer is weighed: the loops over offers and over the acceptable codings end when the elements are exhausted —
	// no quality reached so far ends them (the parser admits and orders weights above 1)
	{
		ls := sliceLoops(fe, nil)
		c.obRF("R07.2", fe, "encoding-loops", len(ls) >= 2, "NegotiateContentEncoding ranges over the offers and the accepted codings", fmt.Sprintf("%d loops", len(ls)))
		for _, l := range ls {
			c.obI("R07.2", l.Test, "every-offer-is-weighed", l.noEarlyExit(), "the selection loops of NegotiateContentEncoding are left only when their elements are exhausted", "a loop can be left from its body: later offers / codings of higher weight are never looked at")
		}
	}
	for _, r := range returnsOf(fe) {
		ok, bad := allOrigins(r.Results[0], oConstString("identity", ""), func(o Origin) bool {
			ad, ok := derefLoad(o.V)
			if !ok {
				return false
			}
			ia, ok := ad.(*ssa.IndexAddr)
			return ok && ia.X == ssa.Value(fe.Params[1])
		})
		c.obI("R07.1", r, "encoding-result-is-an-offer", ok, "NegotiateContentEncoding returns an element of offers, \"identity\" or \"\"", "origin "+describeOrigin(bad))
	}
	// encoding: offers in order x every range, strict improvement only (ties go to the earlier offer)
	{
		encSpecs := callsIn(fe, "rt/middleware/header.ParseAccept")
		if len(encSpecs) == 1 {
			in := sliceLoops(fe, vIs(encSpecs[0].Value()))
			out := sliceLoops(fe, vIs(fe.Params[1]))
			c.obRF("R07.2", fe, "encoding-loops", len(in) == 1 && len(out) == 1, "NegotiateContentEncoding iterates offers x ranges", fmt.Sprintf("%d/%d loops", len(out), len(in)))
			if len(in) == 1 && len(out) == 1 {
				offersByRanges(c, "R07.2", fe, out[0], in[0])
				// an encoding displaces the best one so far only when its range's q is strictly higher
				isQ := vFieldLoad(acceptSpecT, "Q", nil)
				strictly := func(cond ssa.Value, branch bool) bool {
					cnd, b := stripNot(cond, branch)
					bo, ok := cnd.(*ssa.BinOp)
					if !ok {
						return false
					}
					switch {
					case isQ(bo.X):
						return bo.Op == token.GTR && b || bo.Op == token.LEQ && !b
					case isQ(bo.Y):
						return bo.Op == token.LSS && b || bo.Op == token.GEQ && !b
					}
					return false
				}
				isOfferElem := func(o Origin) bool {
					ad, ok := derefLoad(o.V)
					if !ok {
						return false
					}
					ia, ok := ad.(*ssa.IndexAddr)
					return ok && ia.X == ssa.Value(fe.Params[1])
				}
				nSel := 0
				for _, ins := range instrs(fe) {
					phi, ok := ins.(*ssa.Phi)
					if !ok {
						continue
					}
					for i, e := range phi.Edges {
						okE, _ := allOrigins(e, isOfferElem)
						if _, isPhi := e.(*ssa.Phi); isPhi || !okE {
							continue
						}
						nSel++
						g := edgeGuarded(phi.Block().Preds[i], phi.Block(), in[0].Elem, strictly)
						c.obI("R07.2", lastInstr(phi.Block().Preds[i]), "encoding-selected-on-strictly-higher-q", g, "an encoding becomes the best one only when its range's q is strictly higher than the best q so far (equal candidates stay with the earlier offer; a lower q never displaces a higher one)", "an encoding can be selected without q > best q")
					}
				}
				c.obRF("R07.2", fe, "encoding-selections", nSel >= 1, "a matching range can select an encoding", "")
			}
		} else {
			c.obRF("R07.2", fe, "encoding-parses-accept", false, "the Accept-Encoding header is parsed once", "")
		}
	}
	// canonical keys for ParseAccept (it indexes the header map directly)
	for _, fn := range p.LibFuncs() {
		for _, ci := range callsIn(fn, "rt/middleware/header.ParseAccept") {
			k, ok := constString(ci.Common().Args[1])
			c.obI("R07.6", ci, "canonical-header-name", ok && http.CanonicalHeaderKey(k) == k, "ParseAccept indexes the header map directly, so it is only given constant header names in canonical form", "key "+describe(ci.Common().Args[1]))
		}
	}

	// R07.3 parsing never panics
	var bf []*ssa.Function
	for _, n := range []string{"ParseAccept", "ParseAccept2", "ParseList", "ParseValueAndParams", "parseValueAndParams", "expectQuality", "expectToken", "expectTokenSlash", "skipSpace", "expectTokenOrQuoted"} {
		bf = append(bf, p.Fn("rt/middleware/header."+n))
	}
	bf = append(bf, f, fe, p.Fn("rt/middleware.normalizeOffer"), p.Fn("rt/middleware.normalizeOffers"))
	checkBounds(c, "R07.3", bf, c07Table)
	c.min("R07.3", 30)

	ruleParseAcceptStructure(c, "R07.4")

	// R07.4 accumulators
	eq := p.Fn("rt/middleware/header.expectQuality")
	nMul := 0
	for _, in := range instrs(eq) {
		bo, ok := in.(*ssa.BinOp)
		if !ok || bo.Op != token.MUL {
			continue
		}
		if _, isInt := constInt(bo.Y); !isInt {
			continue
		}
		phi, ok := bo.X.(*ssa.Phi)
		if !ok {
			continue
		}
		nMul++
		// some accumulator of the loop is tested against a constant before this multiplication on every path from the loop header
		bounded := false
		for _, hin := range phi.Block().Instrs {
			ph, ok := hin.(*ssa.Phi)
			if !ok {
				continue
			}
			if guardedBy(bo, phi.Block().Instrs[0], factLessConst(vIs(ph))) {
				bounded = true
			}
		}
		c.obI("R07.4", bo, "multiplication-bounded", bounded, "an integer accumulator of the q-value parser is multiplied only after an accumulator was found below a constant bound (the number of digits taken into account is bounded, so n and d cannot overflow)", "the accumulator is multiplied once per input digit without bound: 19+ digits overflow int")
	}
	c.obRF("R07.4", eq, "accumulators", nMul >= 2, "expectQuality accumulates numerator and denominator", fmt.Sprintf("%d multiplications", nMul))
	// the invalid marker (a negative quality) answers malformed TEXT only, and is decided before the digits are read:
	// once the fraction has been scanned the result is the number it denotes — whatever its size (a q above 1 is still
	// a larger q than one below it)
	{
		var scanned []ssa.Instruction
		for _, in := range instrs(eq) {
			if cv, ok := in.(*ssa.Convert); ok && in.Parent() == eq && typeStr(cv.Type()) == "float64" {
				if bt, isB := cv.X.Type().Underlying().(*types.Basic); isB && bt.Info()&types.IsInteger != 0 {
					scanned = append(scanned, in)
				}
			}
		}
		c.obRF("R07.4", eq, "fraction-converted", len(scanned) >= 1, "expectQuality converts the scanned digits to a fraction", "")
		for _, r := range realReturns(eq) {
			neg := false
			for _, o := range originsOf(resOf(r, 0)) {
				if k, isK := o.V.(*ssa.Const); isK && k.Value != nil && constant.Sign(k.Value) < 0 {
					neg = true
				}
			}
			if !neg {
				continue
			}
			late := false
			for _, m := range scanned {
				if pathExists(eq, m, r, nil, nil) {
					late = true
				}
			}
			c.obI("R07.4", r, "invalid-marker-only-before-the-digits", !late, "expectQuality answers 'invalid' (a negative quality) only before it has scanned the fraction: a number that was read is returned as that number", "the invalid marker can be returned after the fraction was computed (a value judged too large, say): the range is dropped instead of ranked")
		}
	}
	// digit loop exits
	for _, in := range instrs(eq) {
		phi, ok := in.(*ssa.Phi)
		if !ok || phi.Comment != "i" {
			continue
		}
		_ = phi
	}
	loopExitsOnlyOnNonDigit(c, eq)

	// R07.5 406
	rf := p.Fn("(*rt/middleware.validation).responseFormat")
	negs := callsIn(rf, "(*rt/middleware.Context).ResponseFormat")
	c.obRF("R07.5", rf, "negotiates", len(negs) == 1, "validation.responseFormat negotiates the response format", "")
	if len(negs) == 1 {
		n := negs[0].(*ssa.Call)
		str := resultOf(n, 0)
		for _, r := range returnsOf(rf) {
			c.obI("R07.5", r, "always-negotiates", !pathExists(rf, nil, r, nil, isOneOf(n)), "every request goes through the negotiation (no shortcut on the Accept header's text)", "a path returns without negotiating")
			is406 := isAppendOfCall(nil, "github.com/go-openapi/errors.InvalidResponseFormat")
			negotiated := factEqString(vOrigins(oIsValue(str)), "", false)
			noProduces := factLenPositive(vFieldLoad(routeEntryT, "Produces", nil), false)
			miss := pathExists(rf, n, r, anyFact(negotiated, noProduces), is406)
			c.obI("R07.5", r, "records-406", !miss, "when nothing was negotiated for an operation that declares produces, errors.InvalidResponseFormat (406) is recorded", "a path with an empty negotiation result returns without recording the 406")
		}
		_, a := callArgs(&n.Call)
		c.obI("R07.5", n, "offers-are-route-produces", vFieldLoadO(routeEntryT, "Produces")(a[1]), "the offers are the operation's produces list (default included by AddRoute)", "")
	}
	// the format Respond finds cached in the request is one negotiated for the request IT was handed, not one cached by
	// the validation stage's private request copy (whose offers are ordered differently)
	ruleMemoContextRooted(c, "R07.5")
	vr := p.Fn("rt/middleware.validateRequest")
	rfc := callsIn(vr, "(*rt/middleware.validation).responseFormat")
	prm := callsIn(vr, "(*rt/middleware.validation).parameters")
	resultEmpty := factLenPositive(vFieldLoad("rt/middleware.validation", "result", nil), false)
	if len(rfc) == 1 && len(prm) == 1 {
		c.obI("R07.5", prm[0], "bind-needs-acceptable-format", guardedBy(prm[0], rfc[0], resultEmpty), "binding (and later the handler) runs only when the 406 gate recorded nothing", "")
	} else if ord, grd, isTable := stageTable(vr); isTable && len(rfc)+len(prm) == 0 {
		c.obF("R07.5", vr, "bind-needs-acceptable-format", grd && ord["responseFormat"] < ord["parameters"], "binding (and later the handler) runs only when the 406 gate recorded nothing", "in the table of steps binding is not behind the response-format gate, or a step runs although an error was recorded")
	} else {
		c.obRF("R07.5", vr, "stages", false, "validateRequest runs the response-format gate before binding", "")
	}
	bv := p.Fn("(*rt/middleware.Context).BindAndValidate")
	for _, r := range returnsOf(bv) {
		if isNilConst(r.Results[2]) {
			g := guardedBy(r, nil, factLenPositive(vFieldLoad("rt/middleware.validation", "result", nil), false))
			c.obI("R07.5", r, "errors-reach-the-caller", g, "BindAndValidate reports success only for an empty error accumulator (otherwise the composite error stops the handler)", "nil error returned although errors were recorded")
		}
	}
	// ResponseFormat returns the negotiated value
	crf := p.Fn("(*rt/middleware.Context).ResponseFormat")
	rfKey := int64Const(p, "rt/middleware", "ctxResponseFormat")
	for _, r := range returnsOf(crf) {
		ok, bad := allOrigins(r.Results[0], oCall(-1, "rt/middleware.NegotiateContentType"), func(o Origin) bool { return vCtxValue(ctxKeyT, rfKey)(o.V) })
		if !ok {
			// `return "", r` on the branch where the negotiated value was just found to be ""
			if k, isK := constString(r.Results[0]); isK && k == "" && guardedBy(r, nil, factEqString(vOrigins(oCall(-1, "rt/middleware.NegotiateContentType")), "", true)) {
				ok = true
			}
		}
		c.obI("R07.1", r, "context-returns-negotiated-value", ok, "Context.ResponseFormat returns exactly the negotiated (or cached) value", "origin "+describeOrigin(bad))
	}
	for _, n := range callsIn(crf, "rt/middleware.NegotiateContentType") {
		a := n.Common().Args
		ok0, _ := allOrigins(a[0], oIsValue(paramOf(crf, 0)))
		ok1, _ := allOrigins(a[1], oIsValue(paramOf(crf, 1)))
		s, okS := constString(a[2])
		c.obI("R07.1", n, "negotiation-arguments", ok0 && ok1 && okS && s == "", "the negotiation sees this request's Accept header, the given offers and no default", "")
	}
	c.min("R07.1", 5)
	c.min("R07.5", 6)
}

// loopExitsOnlyOnNonDigit: in expectQuality the loop over the fractional digits is left only through its own test
// (end of input) or through a comparison of the current byte with '0' / '9'.
func loopExitsOnlyOnNonDigit(c *Ctx, f *ssa.Function) {
	// find loop header: a block with an If on `i < len(s)` that is the target of a back edge
	for _, b := range f.Blocks {
		iff, ok := lastInstr(b).(*ssa.If)
		if !ok {
			continue
		}
		bo, ok := iff.Cond.(*ssa.BinOp)
		if !ok || bo.Op != token.LSS {
			continue
		}
		if l := asCall(bo.Y); l == nil || calleeName(&l.Call) != "builtin len" {
			continue
		}
		// natural loop of header b: blocks dominated by b that can reach b
		inLoop := map[*ssa.BasicBlock]bool{b: true}
		for _, x := range f.Blocks {
			if x != b && b.Dominates(x) && reachableFrom(x, b) {
				inLoop[x] = true
			}
		}
		if len(inLoop) < 2 {
			continue
		}
		isByteCmp := func(cond ssa.Value) bool {
			cmp, ok := cond.(*ssa.BinOp)
			if !ok {
				return false
			}
			k, okk := constInt(cmp.Y)
			if !okk || (k != '0' && k != '9') {
				return false
			}
			// X is the current input byte: a load of an Index/IndexAddr or Lookup on a string
			switch x := cmp.X.(type) {
			case *ssa.Lookup:
				return true
			case *ssa.UnOp:
				_, isIA := x.X.(*ssa.IndexAddr)
				return isIA
			case *ssa.Index:
				return true
			}
			return false
		}
		n := 0
		for x := range inLoop {
			for _, s := range x.Succs {
				if inLoop[s] {
					continue
				}
				n++
				term := lastInstr(x)
				ok := false
				if x == b {
					ok = true // the loop's own test
				} else if xi, isIf := term.(*ssa.If); isIf && isByteCmp(xi.Cond) {
					ok = true
				}
				c.obI("R07.4", term, "digit-loop-exit", ok, "the loop over the fractional digits of a q-value is left only at the end of input or at a byte that is not a digit (every digit is consumed, so the remainder of the header line is parsed from the right place)", "the loop can be left while digits remain: the rest of the Accept line would be mis-parsed or dropped")
			}
		}
		c.obRF("R07.4", f, "digit-loop", n >= 2, "expectQuality scans the fractional digits in a loop", "")
		return
	}
	c.obRF("R07.4", f, "digit-loop", false, "expectQuality scans the fractional digits in a loop", "loop not found")
}

// factQNotBelow: the edge establishes that the range's q is not below the other operand (the best q so far).
func factQNotBelow(isQ VPred) EdgePred {
	return func(cond ssa.Value, branch bool) bool {
		c, b := stripNot(cond, branch)
		bo, ok := c.(*ssa.BinOp)
		if !ok {
			return false
		}
		if _, isC := bo.X.(*ssa.Const); isC {
			return false
		}
		if _, isC := bo.Y.(*ssa.Const); isC {
			return false
		}
		switch {
		case isQ(bo.X):
			return bo.Op == token.LSS && !b || (bo.Op == token.GEQ || bo.Op == token.GTR || bo.Op == token.EQL) && b
		case isQ(bo.Y):
			return bo.Op == token.GTR && !b || (bo.Op == token.LEQ || bo.Op == token.LSS || bo.Op == token.EQL) && b
		}
		return false
	}
}

// negotiateSelection: the selection clauses of NegotiateContentType (shared by C07 and C08, whose "negotiated media
// type" is the result of this function).
func negotiateSelection(c *Ctx, r1, r2 string) {
	p := c.P
	f := p.Fn("rt/middleware.NegotiateContentType")
	offers, def := f.Params[1], f.Params[2]
	isOfferElem := func(o Origin) bool {
		ad, ok := derefLoad(o.V)
		if !ok {
			return false
		}
		ia, ok := ad.(*ssa.IndexAddr)
		return ok && ia.X == ssa.Value(offers)
	}
	for _, r := range returnsOf(f) {
		ok, bad := allOrigins(r.Results[0], oIsValue(def), isOfferElem)
		c.obI(r1, r, "result-is-an-offer", ok, "NegotiateContentType returns its defaultOffer or an element of offers — never a value taken from the Accept header", "origin "+describeOrigin(bad))
	}
	specs := callsIn(f, "rt/middleware/header.ParseAccept")
	c.obRF(r1, f, "parses-accept", len(specs) == 1, "the Accept header is parsed once", "")
	if len(specs) != 1 {
		return
	}
	sp := specs[0].(*ssa.Call)
	noSpecs := factLenPositive(vIs(sp), false)
	inner := sliceLoops(f, vIs(sp))
	outer := sliceLoops(f, vIs(offers))
	c.obRF(r2, f, "loops", len(inner) == 1 && len(outer) == 1, "NegotiateContentType iterates offers x ranges", fmt.Sprintf("%d/%d loops", len(outer), len(inner)))
	if len(inner) != 1 || len(outer) != 1 {
		return
	}
	offersByRanges(c, r2, f, outer[0], inner[0])
	qNonZero := factEqInt(vFieldLoad(acceptSpecT, "Q", nil), 0, false)
	nSel, nRank := 0, 0
	ranks := map[string][]int64{}
	for _, in := range instrs(f) {
		phi, ok := in.(*ssa.Phi)
		if !ok {
			continue
		}
		for i, e := range phi.Edges {
			okE, _ := allOrigins(e, isOfferElem)
			if _, isPhi := e.(*ssa.Phi); isPhi || !okE {
				continue
			}
			nSel++
			g := edgeGuarded(phi.Block().Preds[i], phi.Block(), inner[0].Elem, qNonZero)
			c.obI(r2, lastInstr(phi.Block().Preds[i]), "selection-needs-nonzero-q", g, "an offer becomes the best offer only on a path on which the matching range's q-value is not 0", "an offer can be selected by a range with q=0")
			gq := edgeGuarded(phi.Block().Preds[i], phi.Block(), inner[0].Elem, factQNotBelow(vFieldLoad(acceptSpecT, "Q", nil)))
			c.obI(r2, lastInstr(phi.Block().Preds[i]), "selection-not-below-best-q", gq, "an offer becomes the best offer only on a path on which the matching range's q-value was compared with the best q so far and is not below it (a range of lower quality never displaces a match of higher quality)", "an offer can be selected by a range whose q is below the best q so far")
			// specificity ranks: the rank recorded with a selection is the rank the tie-break compares against
			pb := phi.Block().Preds[i]
			for _, sib := range phi.Block().Instrs {
				w, ok := sib.(*ssa.Phi)
				if !ok || w == phi {
					continue
				}
				rec := w.Edges[i]
				k, isK := constInt(rec)
				if bt, okb := w.Type().Underlying().(*types.Basic); !okb || bt.Info()&types.IsInteger == 0 {
					continue
				}
				if isK {
					isVal := func(v ssa.Value) bool {
						return vFieldLoad(acceptSpecT, "Value", nil)(v) || vFieldLoadO(acceptSpecT, "Value")(v)
					}
					star := factEqString(isVal, "*/*", true)
					wild := factBool(func(v ssa.Value) bool {
						h := asCall(v)
						if h == nil || calleeName(&h.Call) != "strings.HasSuffix" || !isVal(h.Call.Args[0]) {
							return false
						}
						sfx, _ := constString(h.Call.Args[1])
						return sfx == "/*"
					}, true)
					switch {
					case edgeGuarded(pb, phi.Block(), inner[0].Elem, star):
						ranks["*/*"] = append(ranks["*/*"], k)
					case edgeGuarded(pb, phi.Block(), inner[0].Elem, wild):
						ranks["type/*"] = append(ranks["type/*"], k)
					default:
						ranks["exact"] = append(ranks["exact"], k)
					}
				}
				if _, selfEdge := rec.(*ssa.Phi); selfEdge {
					continue
				}
				for _, q := range pb.Preds {
					iff, ok := lastInstr(q).(*ssa.If)
					if !ok {
						continue
					}
					cnd, br := stripNot(iff.Cond, q.Succs[0] == pb)
					bo, ok := cnd.(*ssa.BinOp)
					if !ok {
						continue
					}
					y, isY := constInt(bo.Y)
					if bt, okb := bo.X.Type().Underlying().(*types.Basic); !okb || bt.Info()&types.IsInteger == 0 {
						continue
					}
					strict := bo.Op == token.GTR && br || bo.Op == token.LEQ && !br
					weak := bo.Op == token.GEQ && br || bo.Op == token.LSS && !br
					if !strict && !weak {
						continue
					}
					switch {
					case isK && isY:
						implied := y
						if weak {
							implied = y - 1
						}
						nRank++
						c.obI(r2, iff, "rank-compared-is-rank-recorded", implied == k, "at equal quality a range displaces the best match only when the best match's specificity rank is strictly worse than the rank this range records for itself (ties go to the more specific range, then to offer order)", fmt.Sprintf("the selection records rank %d but displaces matches of rank > %d", k, implied))
					case !isK && !isY && bo.Y == rec:
						// the rank is a computed value (a helper's result): compared and recorded value are the same
						nRank++
						c.obI(r2, iff, "rank-compared-is-rank-recorded", strict, "at equal quality a range displaces the best match only when the best match's specificity rank is strictly worse than the rank this range records for itself (ties go to the more specific range, then to offer order)", "matches of EQUAL rank are displaced")
					}
				}
			}
		}
	}
	if len(ranks) > 0 {
		okOrd := len(ranks["*/*"]) > 0 && len(ranks["type/*"]) > 0 && len(ranks["exact"]) > 0
		why := fmt.Sprintf("ranks recorded: %v", ranks)
		if okOrd {
			for _, a := range ranks["*/*"] {
				for _, b := range ranks["type/*"] {
					for _, e := range ranks["exact"] {
						if !(a > b && b > e) {
							okOrd = false
						}
					}
				}
			}
		}
		c.obF(r2, f, "rank-order", okOrd, "the specificity rank recorded for */* is worse than the one for type/*, which is worse than the one for an exact range (at equal quality the more specific range wins)", why)
	} else {
		c.info("%s: specificity ranks are computed values (helper results): their order is not decided", r2)
	}
	c.obRF(r2, f, "rank-comparisons", nRank >= 1, "every selection compares the best specificity rank with its own", fmt.Sprintf("%d rank comparisons", nRank))
	c.obRF(r2, f, "selections", nSel >= 1, "a matching range can select an offer", fmt.Sprintf("%d selection sites", nSel))
	for _, r := range returnsOf(f) {
		if _, isPhi := r.Results[0].(*ssa.Phi); isPhi {
			continue
		}
		if ok, _ := allOrigins(r.Results[0], isOfferElem); ok {
			c.obI(r2, r, "shortcut-only-without-ranges", guardedBy(r, nil, noSpecs), "an offer is returned without comparing ranges only when the Accept header yielded no range at all", "an offer is returned unconditionally")
		}
	}
}

// negotiateMatchers: the three matching forms of NegotiateContentType (shared by C07 and C08).
func negotiateMatchers(c *Ctx, rule string) {
	p := c.P
	f := p.Fn("rt/middleware.NegotiateContentType")
	offers := f.Params[1]
	isOfferElem := func(o Origin) bool {
		ad, ok := derefLoad(o.V)
		if !ok {
			return false
		}
		ia, ok := ad.(*ssa.IndexAddr)
		return ok && ia.X == ssa.Value(offers)
	}
	// R07.6 matching forms
	isNormOfferCall := vOrigins(oCallWhere(-1, "rt/middleware.normalizeOffer", func(n *ssa.Call) bool {
		ok, _ := allOrigins(n.Call.Args[0], isOfferElem)
		return ok
	}))
	// … or element i of normalizeOffers(offers), i being the index of the offer under examination (the parameters
	// stripped once, up front)
	var offerIdx ssa.Value
	for _, l := range sliceLoops(f, vIs(offers)) {
		offerIdx = l.Elem.Index
	}
	isNormOffer := func(v ssa.Value) bool {
		if isNormOfferCall(v) {
			return true
		}
		ad, ok := derefLoad(v)
		if !ok {
			return false
		}
		ia, ok := ad.(*ssa.IndexAddr)
		if !ok || offerIdx == nil || ia.Index != offerIdx {
			return false
		}
		all := asCall(ia.X)
		return all != nil && calleeName(&all.Call) == "rt/middleware.normalizeOffers" && all.Call.Args[0] == ssa.Value(offers)
	}
	isSpecValue := func(v ssa.Value) bool {
		return vFieldLoad(acceptSpecT, "Value", nil)(v) || vFieldLoadO(acceptSpecT, "Value")(v)
	}
	nPrefix := 0
	for _, ci := range callsIn(f, "strings.HasPrefix") {
		a := ci.Common().Args
		nPrefix++
		okO := isNormOffer(a[0])
		okP := false
		switch x := a[1].(type) {
		case *ssa.Slice:
			if isSpecValue(x.X) && x.Low == nil && x.High != nil {
				if bo, ok := x.High.(*ssa.BinOp); ok && bo.Op == token.SUB {
					if k, okk := constInt(bo.Y); okk && k == 1 {
						if l := asCall(bo.X); l != nil && calleeName(&l.Call) == "builtin len" && isSpecValue(l.Call.Args[0]) {
							okP = true
						}
					}
				}
			}
		case *ssa.Call:
			if calleeName(&x.Call) == "strings.TrimSuffix" && isSpecValue(x.Call.Args[0]) {
				s, _ := constString(x.Call.Args[1])
				okP = s == "*"
			}
		}
		isWild := factBool(func(v ssa.Value) bool {
			h := asCall(v)
			if h == nil || calleeName(&h.Call) != "strings.HasSuffix" || !isSpecValue(h.Call.Args[0]) {
				return false
			}
			s, _ := constString(h.Call.Args[1])
			return s == "/*"
		}, true)
		c.obI(rule, ci, "subtype-wildcard-prefix-keeps-slash", okO && okP && guardedBy(ci, nil, isWild),
			"a type/* range matches an offer only by the prefix 'type/' (the range without its final '*'), compared with the normalised offer", "the prefix compared is not spec.Value minus its last byte: "+describe(a[1]))
	}
	c.obRF(rule, f, "has-subtype-wildcard", nPrefix == 1, "NegotiateContentType knows type/* ranges", "")
	nExact := 0
	for _, in := range instrs(f) {
		bo, ok := in.(*ssa.BinOp)
		if !ok || bo.Op != token.EQL {
			continue
		}
		if (isSpecValue(bo.X) && isNormOffer(bo.Y)) || (isSpecValue(bo.Y) && isNormOffer(bo.X)) {
			nExact++
		}
	}
	nStar := 0
	for _, in := range instrs(f) {
		if bo, ok := in.(*ssa.BinOp); ok && bo.Op == token.EQL {
			if k, isK := constString(bo.Y); isK && k == "*/*" && isSpecValue(bo.X) {
				nStar++
			}
		}
	}
	c.obRF(rule, f, "knows-any-range", nStar == 1, "NegotiateContentType knows the */* range", fmt.Sprintf("%d comparisons", nStar))
	c.obRF(rule, f, "exact-range-compares-normalised-offer", nExact == 1, "an exact range matches by equality with the normalised offer", fmt.Sprintf("%d comparisons", nExact))
}

// offersByRanges: the negotiation examines the offers in their order (outer loop) and, for each offer, every parsed
// range (inner loop, never left early). With the strict "better than the best so far" test of the selection this is
// what makes equal candidates go to the earlier offer, and what lets a later range of higher quality still count.
func offersByRanges(c *Ctx, rule string, f *ssa.Function, outer, inner sliceLoop) {
	nested := outer.Body.Block().Dominates(inner.Header) && !inner.Body.Block().Dominates(outer.Header)
	c.obI(rule, outer.Elem, "offers-outer-ranges-inner", nested, "offers are examined in their order, each against the ranges: between candidates of equal quality (and specificity) the earlier offer wins", "the loop over the ranges is not nested in the loop over the offers (ties would follow the header's order)")
	if !nested {
		return
	}
	skips := pathExists(f, inner.Body, outer.Test, nil, isOneOf(inner.Test))
	for _, r := range realReturns(f) {
		if pathExists(f, inner.Body, r, nil, isOneOf(inner.Test, outer.Test)) {
			skips = true
		}
	}
	c.obI(rule, inner.Elem, "every-range-examined-per-offer", !skips, "for each offer every range is examined: the loop over the ranges is never left early (a later range of higher quality or specificity still counts)", "a path leaves the loop over the ranges before they are exhausted")
}

// ruleParseAcceptStructure: the structural rules of header.ParseAccept — the parameter skip never runs over the ','
// of the next range, q and the range are stored as parsed, the ',' test follows skipped white space, every header line
// is parsed. Shared by C07 and C08 (whose negotiated type is chosen among the ranges ParseAccept yields).
func ruleParseAcceptStructure(c *Ctx, rule string) {
	p := c.P
	// R07.4 the parameter-skipping loop of ParseAccept never runs past the separator of the next range
	pa := p.Fn("rt/middleware/header.ParseAccept")
	nSkip := 0
	for _, ci := range callsIn(pa, "rt/middleware/header.skipSpace") {
		sl, ok := ci.Common().Args[0].(*ssa.Slice)
		if !ok || sl.High != nil {
			continue
		}
		if k, okk := constInt(sl.Low); !okk || k != 1 {
			continue
		}
		// the advance of the inner skip loop: the string it cuts is the loop variable it feeds (s = skipSpace(s[1:]))
		lp, isPhi := sl.X.(*ssa.Phi)
		feeds := false
		if isPhi {
			for _, e := range lp.Edges {
				if e == ci.Value() {
					feeds = true
				}
			}
		}
		if !feeds {
			continue
		}
		nSkip++
		notComma := factBool(func(v ssa.Value) bool {
			h := asCall(v)
			if h == nil || calleeName(&h.Call) != "strings.HasPrefix" || h.Call.Args[0] != sl.X {
				return false
			}
			k, _ := constString(h.Call.Args[1])
			return k == ","
		}, false)
		c.obI(rule, ci, "parameter-skip-stops-at-comma", guardedBy(ci, nil, notComma) && guardedBy(ci, ci, notComma), "while skipping a range's parameters in search of q=, ParseAccept advances only when the rest does not start with the ',' that separates the next range (so the following ranges of the header line are parsed from the right place)", "the skip loop can run over a ',' and swallow the following ranges")
	}
	c.obRF(rule, pa, "parameter-skip-loop", nSkip >= 1, "ParseAccept skips media-type parameters before q=", fmt.Sprintf("%d skip sites", nSkip))
	// the scanner of ParseAccept moves forward only over octets it has just looked at: every re-slicing of the rest of the
	// line cuts a CONSTANT number of octets (the ';', the ',', "q="); a computed jump — to the next ';' or ',' — passes
	// over text unseen, e.g. the ',' that ends the range
	for _, in := range ownInstrs(pa) {
		sl, isSl := in.(*ssa.Slice)
		if !isSl || sl.Low == nil || typeStr(sl.X.Type()) != "string" {
			continue
		}
		_, isK := constInt(sl.Low)
		c.obI(rule, sl, "scanner-advances-by-matched-octets", isK && sl.High == nil, "ParseAccept re-slices the rest of the line only by a constant number of octets it has just matched", "the rest of the line is cut at a computed offset ("+describe(sl.Low)+"): whatever lies before it is skipped unseen")
	}

	// the quality recorded for a range is the number its q-value denotes: exactly what expectQuality returned (or the
	// default 1) — not rounded, clamped or scaled afterwards (two q-values that differ stay different, in the same order)
	for _, fn := range []*ssa.Function{pa, p.FnOpt("rt/middleware/header.ParseAccept2")} {
		if fn == nil {
			continue
		}
		nQ := 0
		for _, st := range fieldStores(fn, acceptSpecT, "Q") {
			nQ++
			ok, bad := allOrigins(st.Val, oCall(0, "rt/middleware/header.expectQuality"), func(o Origin) bool {
				k, isK := o.V.(*ssa.Const)
				return isK && k.Value != nil && constant.Compare(k.Value, token.EQL, constant.MakeFloat64(1))
			})
			c.obI(rule, st, "q-stored-as-parsed", ok, "the quality stored for a range is expectQuality's result (or the default 1.0), unaltered", "origin "+describeOrigin(bad))
		}
		c.obRF(rule, fn, "stores-q", nQ >= 1, "the parser records a quality per range", "")
		// … and the range itself is recorded as spelled (the negotiators compare it byte for byte with the declared offers:
		// a range rewritten by the parser — lower-cased, trimmed — no longer equals an offer spelled with capitals)
		for _, st := range fieldStores(fn, acceptSpecT, "Value") {
			if fn != pa {
				continue // (ParseAccept2 — not used by the negotiators — normalises through parseValueAndParams)
			}
			ok, bad := allOrigins(st.Val, oCall(0, "rt/middleware/header.expectTokenSlash", "rt/middleware/header.expectToken", "rt/middleware/header.expectTokenOrQuoted"), oConstString(""))
			c.obI(rule, st, "range-stored-as-parsed", ok, "the media range (or coding) stored for a range is the token the scanner returned, unaltered", "origin "+describeOrigin(bad))
		}
	}
	// after a range has been recorded, the test for the ',' that introduces the next range looks at the rest with its
	// leading white space skipped ("a;q=0.5 , b": white space may follow a q-value)
	{
		var app ssa.Instruction
		for _, in := range instrs(pa) {
			if call, ok := in.(*ssa.Call); ok && calleeName(&call.Call) == "builtin append" && typeStr(call.Type()) == "[]"+acceptSpecT {
				app = call
			}
		}
		nComma := 0
		if app != nil {
			for _, ci := range callsIn(pa, "strings.HasPrefix", "strings.CutPrefix") {
				if k, _ := constString(ci.Common().Args[1]); k != "," || !dominates(app, ci) {
					continue
				}
				nComma++
				ok, bad := allOrigins(ci.Common().Args[0], oCall(-1, "rt/middleware/header.skipSpace", "strings.TrimLeft", "strings.TrimSpace", "strings.TrimLeftFunc"))
				c.obI(rule, ci, "next-range-comma-after-skipped-space", ok, "the rest of the line is tested for the ',' of the next range only after its leading white space was skipped (white space after a q-value or a parameter does not hide the following ranges)", "the tested rest can be "+describeOrigin(bad)+" (not passed through skipSpace)")
			}
		}
		c.obRF(rule, pa, "next-range-comma-test", nComma >= 1, "ParseAccept continues with the next range after a ','", "")
	}
	// every line of the header is parsed: the loop over the header's values is left only when they are exhausted
	{
		var lines []sliceLoop
		for _, l := range sliceLoops(pa, nil) {
			if lk, ok := l.X.(*ssa.Lookup); ok && lk.X == ssa.Value(pa.Params[0]) {
				lines = append(lines, l)
			}
		}
		c.obRF(rule, pa, "iterates-header-lines", len(lines) == 1, "ParseAccept iterates over the values of the header", fmt.Sprintf("%d loops", len(lines)))
		for _, l := range lines {
			c.obI(rule, l.Elem, "all-header-lines-parsed", l.noEarlyExit(), "an empty or malformed element ends the parse of its own header line only: the loop over the header's lines is never left before the last line (a later line can carry the preferred range)", "a path leaves the loop over the header lines early (break/return from the body)")
		}
	}

}

// ruleSpaceClass: the octet table built at init marks SP, HT, CR and LF as white space — the class skipSpace strips
// around list separators. The set is read off the constants of the tests that guard the `t |= isSpace` step (a
// ContainsRune over a constant string, or a chain of == comparisons): it has to be exactly those four octets.
func ruleSpaceClass(c *Ctx, rule string) {
	p := c.P
	var init *ssa.Function
	for _, f := range p.LibFuncs("rt/middleware/header") {
		if strings.HasPrefix(f.Name(), "init#") {
			for _, in := range instrs(f) {
				if st, ok := in.(*ssa.Store); ok {
					if ia, isIA := st.Addr.(*ssa.IndexAddr); isIA {
						if g, isG := ia.X.(*ssa.Global); isG && g.Name() == "octetTypes" {
							init = f
						}
					}
				}
			}
		}
	}
	if init == nil {
		c.obR(rule, "rt/middleware/header.init", "builds-octet-table", "", false, "the package's init fills the octet classification table", "")
		return
	}
	want := p.ConstVal("github.com/go-openapi/runtime/middleware/header", "isSpace")
	what := "the white-space class of the header tokenizer is SP, HT, CR and LF: skipSpace strips all four around the separators of a list"
	n := 0
	for _, in := range instrs(init) {
		bo, ok := in.(*ssa.BinOp)
		if !ok || bo.Op != token.OR {
			continue
		}
		k, isK := bo.Y.(*ssa.Const)
		if !isK || k.Value == nil || k.Value.ExactString() != want {
			continue
		}
		n++
		set := map[int64]bool{}
		shape := len(bo.Block().Preds) > 0
		for _, pred := range bo.Block().Preds {
			iff, isIf := lastInstr(pred).(*ssa.If)
			if !isIf || pred.Succs[0] != bo.Block() || pred.Succs[1] == bo.Block() {
				shape = false
				break
			}
			cond := iff.Cond
			if call := asCall(cond); call != nil && calleeName(&call.Call) == "strings.ContainsRune" {
				if str, isC := constString(call.Call.Args[0]); isC {
					for _, r := range str {
						set[int64(r)] = true
					}
					continue
				}
			}
			if cb, isB := cond.(*ssa.BinOp); isB && cb.Op == token.EQL {
				if kk, isKK := constInt(cb.Y); isKK {
					set[kk] = true
					continue
				}
				if kk, isKK := constInt(cb.X); isKK {
					set[kk] = true
					continue
				}
			}
			shape = false
		}
		if !shape {
			c.obRI(rule, bo, "space-class-is-SP-HT-CR-LF", false, what, "the tests guarding the isSpace step are not a constant set")
			continue
		}
		ok4 := len(set) == 4 && set[' '] && set['\t'] && set['\r'] && set['\n']
		var got []string
		for _, ch := range []int64{9, 10, 13, 32} {
			if !set[ch] {
				got = append(got, fmt.Sprintf("octet %d is not white space", ch))
			}
		}
		for ch := range set {
			if ch != 9 && ch != 10 && ch != 13 && ch != 32 {
				got = append(got, fmt.Sprintf("octet %d is white space", ch))
			}
		}
		sort.Strings(got)
		c.obI(rule, bo, "space-class-is-SP-HT-CR-LF", ok4, what, strings.Join(got, ", "))
	}
	c.obRF(rule, init, "marks-space-class", n == 1, "init marks the white-space class in one place", fmt.Sprintf("%d sites", n))
}
