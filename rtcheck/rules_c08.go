package main

import (
	"fmt"
	"go/token"
	"go/types"
	"strings"

	"golang.org/x/tools/go/ssa"
)

func init() {
	register(&Property{
		ID: "C08",
		Explanation: "Decides in Context.Respond, errorResp.WriteResponse, AddRoute and the basic-auth authenticators: R08.1 every lookup in a producer/consumer table of package middleware is keyed by a parameter-free media type (normalizeOffer(..), the parsed content type, or the API default against a table built for that default) and the route's producer table is built from the normalised final produces list; " +
			"Round 12: R08.2 the wrapper responds with the route's produces and a declared status is used only when reported. " +
			"R08.2 the Content-Type header is set from the negotiated format before any status line or body is written and, for a routed operation, the status is the operation's declared success status; R08.3 no producer writes a body for HEAD requests or a 204 status; " +
			"R08.4 a Responder is handed the producer found for the normalised negotiated format (or the default producer fallback); R08.5 an error result reaches the API's error responder unchanged, with a JSON content type whenever nothing was negotiated (on every route state), and a failed basic-auth attempt sets WWW-Authenticate from the realm marker, which every non-accepting exit of the basic authenticators stores from the CONFIGURED realm; " +
			"R08.6 errorResp writes its headers, then its status (500 when unset), then lets the given producer write its payload. " +
			"R08.2 also: the selection clauses of NegotiateContentType (the negotiated type is its result); R08.5 also: only the authenticators of package security overwrite a request in place, so the realm marker reaches Respond. " +
			"R08.2 also: the matching forms of NegotiateContentType (exact = equality with the normalised offer, type/* = prefix keeping the slash); R08.5 also: with the failed-basic-auth marker present the challenge is set for every error class. " +
			"R08.2 also: once set from the negotiated format, Content-Type is never deleted or replaced by Respond. " +
			"R08.1 also: a producer table built for the negotiated format is built from the list handed to the negotiation. " +
			"R08.1 also: each entry of the per-route producer table is producers[that media type]; R08.2 also: memo contexts are rooted in the request the accessor was given, and the error responder adds its headers (never installs them over the response's). " +
			"NOT decided: the bytes a producer writes; the negotiated value itself (C07).",
		Run: runC08,
	})
}

func runC08(c *Ctx) {
	p := c.P
	ruleRoutableAPIDelegates(c, "R08.5", "ServeErrorFor")
	ruleRoutableAPIDelegates(c, "R08.1", "ProducersFor", "DefaultProduces")
	ruleRegistryEntriesByOwnKey(c, "R08.1", "(*rt/middleware/untyped.API).ProducersFor", "producers")
	// what Respond negotiates is its own question (offers with the default last): the request it is handed carries only
	// what the accessors stored on top of the request THEY were given — a validation stage's private copy (negotiated
	// against the route's list in spec order) does not leak into the request passed on
	ruleMemoContextRooted(c, "R08.2")
	// the untyped operation wrapper answers with the ROUTE's produces list (the operation's own list completed by the
	// spec-level one and the API default): never the bare operation's
	if nr := p.FnOpt("rt/middleware.newRoutableUntypedAPI"); nr != nil {
		for _, g := range anonFuncsDeep(nr) {
			for _, ci := range callsIn(g, "(*rt/middleware.Context).Respond") {
				_, a := callArgs(ci.Common())
				if len(a) < 3 {
					continue
				}
				okP, bad := allOrigins(a[2], oFieldLoad(routeEntryT, "Produces", nil), oFieldLoad("rt/middleware.MatchedRoute", "Produces", nil))
				c.obI("R08.2", ci, "wrapper-responds-with-the-routes-produces", okP, "the operation wrapper hands Respond the matched route's Produces", "produces argument originates from "+describeOrigin(bad))
			}
		}
	}
	// an error responder ADDS its extra headers (Header().Add): it never installs a value list wholesale over what the
	// response already carries — the negotiated Content-Type in particular
	if wr := p.FnOpt("(*rt/middleware.errorResp).WriteResponse"); wr != nil {
		for _, in := range instrs(wr) {
			mu, ok := in.(*ssa.MapUpdate)
			if !ok {
				continue
			}
			if isHdr, _ := allOrigins(mu.Map, oCall(-1, "(net/http.ResponseWriter).Header")); isHdr {
				c.obD("R08.2", mu, "responder-headers-added-not-installed", false, "the error responder's extra headers are added to the response headers, key by key and value by value", "the response's header map is assigned directly: a Content-Type among the responder's headers replaces the negotiated one while the body is still written by the negotiated producer")
			}
		}
		for _, ci := range callsIn(wr, "(net/http.Header).Set") {
			c.obD("R08.2", ci, "responder-headers-added-not-installed", false, "the error responder's extra headers are added to the response headers", "Header.Set replaces what the response already carries")
		}
	}
	ruleOffersDefaultLast(c, "R08.2")
	ruleAuthorizeErrorsVerbatim(c, "R08.5")
	ruleNormalizeOfferCuts(c, "R08.1")
	ruleParseAcceptStructure(c, "R08.2") // the negotiated type is chosen among the ranges ParseAccept yields
	f := p.Fn("(*rt/middleware.Context).Respond")
	rw, r, route, data := paramOf(f, 0), paramOf(f, 1), paramOf(f, 3), paramOf(f, 4)
	_ = r
	rfs := callsIn(f, "(*rt/middleware.Context).ResponseFormat")
	c.obRF("R08.2", f, "negotiates-once", len(rfs) == 1, "Respond negotiates the response format once", fmt.Sprintf("%d calls", len(rfs)))
	if len(rfs) != 1 {
		return
	}
	rf := rfs[0].(*ssa.Call)
	format := resultOf(rf, 0)
	isFormat := vOrigins(oIsValue(format))
	isNormFormat := vOrigins(oCallWhere(-1, "rt/middleware.normalizeOffer", func(n *ssa.Call) bool { return isFormat(n.Call.Args[0]) }))
	isDefProd := vOrigins(oCall(-1, "(rt/middleware.RoutableAPI).DefaultProduces"))

	// R08.1 table keys, package wide
	nLook := 0
	for _, fn := range p.LibFuncs("rt/middleware") {
		for _, in := range instrs(fn) {
			lk, ok := in.(*ssa.Lookup)
			if !ok {
				continue
			}
			mt := typeStr(lk.X.Type())
			if mt != "map[string]rt.Producer" && mt != "map[string]rt.Consumer" {
				continue
			}
			nLook++
			okKey, bad := allOrigins(lk.Index,
				oCall(-1, "rt/middleware.normalizeOffer"),
				oCall(0, "rt.ContentType"), oCall(0, "(*rt/middleware.Context).ContentType"),
				func(o Origin) bool {
					// the API default as key is accepted only against a table built for exactly that default
					if !isCallTo(o.V, "(rt/middleware.RoutableAPI).DefaultProduces") {
						return false
					}
					okT, _ := allOrigins(lk.X, oCallWhere(-1, "(rt/middleware.RoutableAPI).ProducersFor", func(t *ssa.Call) bool {
						_, a := callArgs(&t.Call)
						okN, _ := allOrigins(a[0], oCallWhere(-1, "rt/middleware.normalizeOffers", func(n *ssa.Call) bool {
							elems, okk := sliceLitElems(n.Call.Args[0])
							return okk && len(elems) == 1 && isDefProd(elems[0])
						}))
						return okN
					}))
					return okT
				})
			c.obI("R08.1", lk, "table-key-normalised", okKey, "producer/consumer tables are keyed by parameter-free media types: every lookup uses normalizeOffer(x), the parsed content type, or the API default against a table built for that default",
				"key originates from "+describeOrigin(bad)+": a negotiated format carrying parameters (e.g. '; charset=utf-8') would miss its producer and silently fall back to the default producer")
		}
	}
	// a table built on the spot for the negotiated format is built from the very list the format was negotiated from
	// (the offers, API default included): whatever negotiation can pick has its producer in the table
	{
		_, rfa := callArgs(&rf.Call)
		for _, in := range instrs(f) {
			lk, ok := in.(*ssa.Lookup)
			if !ok || typeStr(lk.X.Type()) != "map[string]rt.Producer" || !isNormFormat(lk.Index) {
				continue
			}
			for _, o := range originsOf(lk.X) {
				t := asCall(o.V)
				if t == nil || calleeName(&t.Call) != "(rt/middleware.RoutableAPI).ProducersFor" {
					continue
				}
				_, a := callArgs(&t.Call)
				okSrc, _ := allOrigins(a[0], oCallWhere(-1, "rt/middleware.normalizeOffers", func(n *ssa.Call) bool {
					return len(rfa) >= 2 && (n.Call.Args[0] == rfa[1] || sameOrigins(n.Call.Args[0], rfa[1]))
				}))
				c.obI("R08.1", t, "adhoc-table-covers-the-offers", okSrc, "a producer table built for the negotiated format is ProducersFor(normalizeOffers(<the list handed to the negotiation>))", "the table is built from another list than the one the format was negotiated from: the always-offered API default has no producer in it (Respond panics after having written the status)")
			}
		}
	}
	c.min("R08.1", 6)
	ruleAddRouteDefaults(c, "R08.1", "Produce")

	// the "negotiated media type" is what NegotiateContentType selects
	negotiateSelection(c, "R08.2", "R08.2")
	negotiateMatchers(c, "R08.2")
	// R08.2 header before body
	var ctSet ssa.Instruction
	for _, ci := range callsIn(f, "(net/http.Header).Set") {
		_, a := callArgs(ci.Common())
		if k, ok := constString(a[0]); ok && k == "Content-Type" && isFormat(a[1]) {
			ctSet = ci
		}
	}
	c.obRF("R08.2", f, "sets-negotiated-content-type", ctSet != nil, "Respond announces the negotiated format as Content-Type", "no Header().Set(Content-Type, <negotiated format>)")
	isWrite := func(name string) bool {
		return name == "(net/http.ResponseWriter).WriteHeader" || name == "(net/http.ResponseWriter).Write" ||
			name == "(rt.Producer).Produce" || name == "(rt/middleware.Responder).WriteResponse"
	}
	if ctSet != nil {
		for _, ci := range allCalls(f) {
			name := calleeName(ci.Common())
			dyn := false // the error responder func value
			if name == "" {
				dyn, _ = allOrigins(ci.Common().Value, oCall(-1, "(rt/middleware.RoutableAPI).ServeErrorFor"))
			}
			if isWrite(name) || dyn {
				c.obI("R08.2", ci, "content-type-before-"+strings.TrimPrefix(name, "(net/http.ResponseWriter)."), dominates(ctSet, ci), "the Content-Type header is set before any status, body or responder runs", "response written before the header is set")
			}
		}
	}
	// … and stays: once announced, Respond neither removes nor replaces the header (whatever the status or method)
	if ctSet != nil {
		for _, ci := range allCalls(f) {
			name := calleeName(ci.Common())
			if ci == ctSet || (name != "(net/http.Header).Del" && name != "(net/http.Header).Set" && name != "(net/http.Header).Add" && name != "builtin delete") {
				continue
			}
			_, a := callArgs(ci.Common())
			ki := 0
			if name == "builtin delete" {
				ki = 1
			}
			if len(a) <= ki {
				continue
			}
			if k, ok := constString(a[ki]); !ok || !strings.EqualFold(k, "Content-Type") {
				continue
			}
			if !pathExists(f, ctSet, ci, nil, nil) {
				continue
			}
			if name == "(net/http.Header).Set" || name == "(net/http.Header).Add" {
				// re-announcing the format, or the JSON default of the error branch when nothing was negotiated
				okV := isFormat(a[1]) || guardedBy(ci, nil, factEqString(isFormat, "", true))
				c.obI("R08.2", ci, "negotiated-content-type-kept", okV, "the Content-Type announced from the negotiated format stays on the response: Respond never deletes or replaces it afterwards", baseName(name)+" of Content-Type with another value after it was set from the negotiated format")
				continue
			}
			c.obD("R08.2", ci, "negotiated-content-type-kept", false, "the Content-Type announced from the negotiated format stays on the response: Respond never deletes or replaces it afterwards", baseName(name)+" of Content-Type after it was set from the negotiated format")
		}
	}
	succ := callsIn(f, "(*github.com/go-openapi/spec.Operation).SuccessResponse")
	var codeV ssa.Value
	if len(succ) == 1 {
		codeV = resultOf(succ[0].(*ssa.Call), 1)
	}
	// the declared status is used only when SuccessResponse REPORTED one (its ok result): the default response it hands
	// back otherwise comes with code 0
	if len(succ) == 1 {
		if okV := resultOf(succ[0].(*ssa.Call), 2); okV != nil && codeV != nil {
			for _, ci := range callsIn(f, "(net/http.ResponseWriter).WriteHeader") {
				_, a := callArgs(ci.Common())
				if fromCode, _ := allOrigins(a[0], oIsValue(codeV)); fromCode {
					c.obI("R08.2", ci, "declared-status-only-when-reported", guardedBy(ci, succ[0], factBool(vIs(okV), true)), "the status taken from SuccessResponse is written only behind its ok result", "WriteHeader(code) is reachable without the ok result having been true: an operation with only a default response gets WriteHeader(0)")
				}
			}
		}
	}
	routeNil := factNil(vOrigins(oIsValue(route)), true)
	opNil := factNil(vFieldLoadO(routeEntryT, "Operation"), true)
	nWH := 0
	for _, ci := range callsIn(f, "(net/http.ResponseWriter).WriteHeader") {
		nWH++
		_, a := callArgs(ci.Common())
		if k, ok := constInt(a[0]); ok {
			g := guardedBy(ci, nil, anyFact(routeNil, opNil))
			c.obI("R08.2", ci, "constant-status-only-unrouted", k == 200 && g, "a constant 200 is written only when there is no matched operation", fmt.Sprintf("constant %d", k))
			continue
		}
		ok := codeV != nil
		var badO *Origin
		if ok {
			ok, badO = allOrigins(a[0], oIsValue(codeV))
			if phi, isPhi := a[0].(*ssa.Phi); !ok && isPhi {
				// one status variable for both cases: the declared status, or the constant 200 on the edges without an operation
				ok = true
				for i, e := range phi.Edges {
					if okE, _ := allOrigins(e, oIsValue(codeV)); okE {
						continue
					}
					k, isK := constInt(e)
					if !isK || k != 200 || !edgeGuarded(phi.Block().Preds[i], phi.Block(), nil, anyFact(routeNil, opNil)) {
						ok = false
					}
				}
			}
		}
		why := "status " + describe(a[0])
		if !ok && badO != nil {
			why += ": origin " + describeOrigin(badO)
		}
		c.obI("R08.2", ci, "status-from-operation", ok, "for a routed operation the status written is the declared success status of this request's operation (not a remembered one)", why)
	}
	c.obRF("R08.2", f, "writes-status", nWH >= 1 && len(succ) == 1, "Respond writes a status on the success branches", "")

	// R08.3 no body for HEAD / 204
	notHead := factEqString(vFieldLoadO("net/http.Request", "Method"), "HEAD", false)
	nProd := 0
	for _, ci := range callsIn(f, "(rt.Producer).Produce") {
		nProd++
		c.obI("R08.3", ci, "no-body-for-HEAD", guardedBy(ci, nil, notHead), "no producer writes a body for a HEAD request", "Produce reachable with r.Method == HEAD")
		if codeV != nil && pathExists(f, succ[0], ci, nil, nil) {
			// (the status variable may also hold the constant 200 of the no-operation case)
			not204 := factEqInt(vOrigins(oIsValue(codeV), func(o Origin) bool { k, isK := constInt(o.V); return isK && k != 204 }), 204, false)
			c.obI("R08.3", ci, "no-body-for-204", guardedBy(ci, succ[0], not204), "no producer writes a body under a 204 status", "Produce reachable with code == 204")
		}
		_, a := callArgs(ci.Common())
		okW, _ := allOrigins(a[0], oIsValue(rw))
		okD, _ := allOrigins(a[1], oIsValue(data))
		c.obI("R08.3", ci, "produces-the-result", okW && okD, "the producer writes the handler's result to the response", "")
		// the producer used
		okP, bad := allOrigins(ci.Common().Value, producerOrigin(isNormFormat, isDefProd)...)
		c.obI("R08.1", ci, "producer-for-negotiated-format", okP, "the body is written by the producer registered for the normalised negotiated format (or the default-producer fallback)", "origin "+describeOrigin(bad))
	}
	// … and a body for everything else: once the success status is written, the handler's result — whatever it is,
	// nil included — goes through the producer unless the status is 204 or the request is a HEAD
	{
		isHead := factEqString(vFieldLoadO("net/http.Request", "Method"), "HEAD", true)
		var prods []ssa.Instruction
		for _, ci := range callsIn(f, "(rt.Producer).Produce") {
			prods = append(prods, ci)
		}
		for _, ci := range callsIn(f, "(net/http.ResponseWriter).WriteHeader") {
			cut := isHead
			if codeV != nil {
				// (the status variable may also hold the constant 200 of the no-operation case)
				cut = anyFact(isHead, factEqInt(vOrigins(oIsValue(codeV), func(o Origin) bool { _, isK := constInt(o.V); return isK }), 204, true))
			}
			silent := false
			for _, r := range realReturns(f) {
				if pathExists(f, ci, r, cut, isOneOf(prods...)) {
					silent = true
				}
			}
			c.obI("R08.3", ci, "body-unless-204-or-HEAD", !silent, "after the success status every result is encoded by the producer, except under a 204 status or for a HEAD request (a nil result is still the producer's to render)", "a path returns after WriteHeader without calling the producer although the status is not 204 and the method is not HEAD")
		}
	}
	c.min("R08.3", 4)

	// R08.4 responder
	for _, ci := range callsIn(f, "(rt/middleware.Responder).WriteResponse") {
		_, a := callArgs(ci.Common())
		okP, bad := allOrigins(a[1], producerOrigin(isNormFormat, isDefProd)...)
		c.obI("R08.4", ci, "responder-gets-negotiated-producer", okP, "a result that writes itself is handed the producer of the normalised negotiated format (or the default-producer fallback)", "origin "+describeOrigin(bad))
		okW, _ := allOrigins(a[0], oIsValue(rw))
		okR, _ := allOrigins(ci.Common().Value, oIsValue(data))
		c.obI("R08.4", ci, "responder-is-the-result", okW && okR, "the responder invoked is the handler's result", "")
	}
	c.min("R08.4", 2)

	// R08.5 error branch
	var errTA *ssa.TypeAssert
	for _, in := range instrs(f) {
		if ta, ok := in.(*ssa.TypeAssert); ok && ta.X == ssa.Value(data) && typeStr(ta.AssertedType) == "error" {
			errTA = ta
		}
	}
	c.obRF("R08.5", f, "error-branch", errTA != nil, "Respond recognises an error result", "")
	// a result that knows how to write itself does so whatever else it is: the Responder test is not preceded by the
	// error test (a value implementing both would go to the API's error responder and never write itself)
	{
		var respTA *ssa.TypeAssert
		for _, in := range instrs(f) {
			if ta, ok := in.(*ssa.TypeAssert); ok && ta.X == ssa.Value(data) && typeStr(ta.AssertedType) == "rt/middleware.Responder" {
				respTA = ta
			}
		}
		if errTA != nil && respTA != nil {
			c.obI("R08.4", respTA, "responder-tested-before-error", !pathExists(f, errTA, respTA, nil, nil), "the result is asked whether it is a Responder before it is asked whether it is an error", "the Responder test is reached only after the error test: a result that is both never writes itself")
		} else {
			c.obRF("R08.4", f, "responder-test", respTA != nil, "Respond recognises a result that writes itself", "")
		}
	}
	if errTA != nil {
		errV := extractOf(errTA, 0)
		isJSONSet := func(in ssa.Instruction) bool {
			ci, ok := in.(ssa.CallInstruction)
			if !ok || calleeName(ci.Common()) != "(net/http.Header).Set" {
				return false
			}
			_, a := callArgs(ci.Common())
			k, _ := constString(a[0])
			v, _ := constString(a[1])
			return k == "Content-Type" && v == "application/json"
		}
		formatSet := factEqString(isFormat, "", false)
		nDyn := 0
		for _, ci := range allCalls(f) {
			if calleeName(ci.Common()) != "" {
				continue
			}
			cc := ci.Common()
			if okS, _ := allOrigins(cc.Value, oCall(-1, "(rt/middleware.RoutableAPI).ServeErrorFor")); !okS {
				continue
			}
			if errV == nil || !pathExists(f, errTA, ci, nil, nil) {
				continue
			}
			okE, _ := allOrigins(cc.Args[2], oIsValue(data)) // provenance looks through the type assertion data.(error)
			if !okE {
				continue // the "can't produce response" responder at the end
			}
			nDyn++
			miss := pathExists(f, errTA, ci, formatSet, isJSONSet)
			c.obI("R08.5", ci, "json-when-nothing-negotiated", !miss, "whenever no format was negotiated the error responder is invoked under a JSON Content-Type — for matched and unmatched routes alike", "the error responder is reachable with an empty Content-Type")
			okW, _ := allOrigins(cc.Args[0], oIsValue(rw))
			c.obI("R08.5", ci, "error-responder-args", okW, "the API's error responder receives the response writer and the error", "")
		}
		c.obRF("R08.5", f, "invokes-error-responder", nDyn >= 1, "an error result is handed to the API's error responder", "no invocation of ServeErrorFor(..)(rw, r, err) with the error found")
		// www-authenticate
		for _, ci := range callsIn(f, "(net/http.Header).Set") {
			_, a := callArgs(ci.Common())
			if k, _ := constString(a[0]); k != "WWW-Authenticate" {
				continue
			}
			fb := vOrigins(oCall(-1, "rt/security.FailedBasicAuth"), oCallWhere(-1, "rt/security.FailedBasicAuthCtx", func(fc *ssa.Call) bool {
				// FailedBasicAuth(r) is FailedBasicAuthCtx(r.Context()): the request's own context
				okR, _ := allOrigins(fc.Call.Args[0], oCall(-1, "(*net/http.Request).Context"))
				return okR
			}))
			g := guardedBy(ci, nil, factEqString(fb, "", false))
			okV := false
			for _, o := range originsOf(a[1]) {
				if sp := asCall(o.V); sp != nil && calleeName(&sp.Call) == "fmt.Sprintf" {
					fm, _ := constString(sp.Call.Args[0])
					elems, okk := sliceLitElems(sp.Call.Args[1])
					// the realm is rendered by %q (or %s between literal quotes): %+q / %x … spell non-ASCII realms differently
					okFmt := fm == "Basic realm=%q" || fm == "Basic realm=\"%s\""
					okV = okFmt && okk && len(elems) == 1 && fb(elems[0])
				}
				// "Basic realm=" + strconv.Quote(realm), possibly built by a helper given the realm
				if bo, isBo := o.V.(*ssa.BinOp); isBo && bo.Op == token.ADD {
					pre, _ := constString(bo.X)
					saved := paramEnv
					if o.Env != nil {
						paramEnv = o.Env
					}
					isRealm := fb(bo.Y)
					if qc := asCall(bo.Y); qc != nil && calleeName(&qc.Call) == "strconv.Quote" {
						isRealm = fb(qc.Call.Args[0])
					}
					paramEnv = saved
					if strings.HasPrefix(pre, "Basic realm=") && isRealm {
						okV = true
					}
				}
			}
			c.obI("R08.5", ci, "challenge-names-realm", g && okV, "a failed basic-auth attempt is challenged with the realm recorded by the authenticator", "")
			// ... and always: once the marker is there, no error class skips the challenge
			for _, fbc := range callsIn(f, "rt/security.FailedBasicAuth") {
				skipped := false
				for _, r := range realReturns(f) {
					if pathExists(f, fbc, r, factEqString(fb, "", true), isOneOf(ci)) {
						skipped = true
					}
				}
				c.obI("R08.5", fbc, "challenge-for-every-error-class", !skipped, "whenever the failed-basic-auth marker is present the error response carries the WWW-Authenticate challenge, whatever the class or code of the error", "a path with the marker present reaches the end of Respond without setting WWW-Authenticate")
			}
		}
	}
	c.min("R08.5", 4)
	// the marker lives in the context of the request the authenticator was given, which it overwrites in place; between
	// the authenticator and Respond nothing else overwrites a request in place (derived requests keep their parent's
	// context, an in-place overwrite with an older context would drop the marker)
	nOwn := 0
	for _, fn := range p.LibFuncs() {
		for _, in := range ownInstrs(fn) {
			st, ok := in.(*ssa.Store)
			if !ok || typeStr(st.Val.Type()) != "net/http.Request" {
				continue
			}
			if fn.Pkg != nil && short(fn.Pkg.Pkg.Path()) == "rt/security" {
				nOwn++
				continue
			}
			c.obD("R08.5", st, "request-overwritten-in-place-only-by-authenticators", false, "only the authenticators of package security overwrite the request in place (to record principal context and the failed-basic-auth realm); every other stage derives a new request from the current one, so the marker reaches Respond", "a request is overwritten in place outside package security")
		}
	}
	c.obRF("R08.5", p.Fn("rt/security.BasicAuthRealm"), "authenticators-record-in-place", nOwn >= 3, "positive instances of the in-place request overwrite rule (package security)", fmt.Sprintf("%d in-place overwrites found in package security", nOwn))
	// the marker's key is its own: no other value recorded in the request context by package security shares it
	{
		_, fbT := ctxKeyReadBy(p.Fn("rt/security.FailedBasicAuthCtx"))
		ruleKeyConstantsDistinct(c, "R08.5", "rt/security", fbT)
	}
	// realm marker in the basic authenticators
	for _, name := range []string{"rt/security.BasicAuthRealm", "rt/security.BasicAuthRealmCtx"} {
		outer := p.Fn(name)
		var inner *ssa.Function
		for _, a := range literalsOrBoundMethods(outer, func(s *types.Signature) bool { return s.Results().Len() == 3 }) {
			inner = a
		}
		if inner == nil {
			fatalf("anchor: %s has no authenticator closure", name)
		}
		fbKey, fbKeyT := ctxKeyReadBy(p.Fn("rt/security.FailedBasicAuthCtx"))
		var marks []*ssa.Call
		for call, k := range withValueCalls(inner, fbKeyT) {
			if k != fbKey {
				continue
			}
			marks = append(marks, call)
			var os []Origin
			wvAt(call, func() { os = originsOf(call.Call.Args[2]) }) // (in the authenticator's calling context when the store lives in a helper)
			hasParam := false
			okAll := len(os) > 0
			for _, o := range os {
				if o.V == ssa.Value(outer.Params[0]) {
					hasParam = true
					continue
				}
				if ld, ok := derefLoad(o.V); ok {
					if g, isG := ld.(*ssa.Global); isG && short(g.String()) == "rt/security.DefaultRealmName" {
						continue
					}
				}
				okAll = false
			}
			c.obI("R08.5", call, "marker-is-configured-realm", okAll && hasParam, "the realm recorded for the challenge is the configured realm (the default only when none was configured)", "recorded value does not come from the realm parameter")
		}
		c.obRF("R08.5", inner, "marks-failed-basic-auth", len(marks) >= 1, "the basic authenticator records the realm for failed attempts", "")
		// every exit with applies == false or with an error has installed a marker
		isMark := func(in ssa.Instruction) bool {
			for _, m := range marks {
				if in == ssa.Instruction(m) {
					return true
				}
			}
			return false
		}
		for _, ret := range returnsOf(inner) {
			if b, ok := constBool(ret.Results[0]); ok && !b {
				miss := pathExists(inner, nil, ret, nil, isMark)
				c.obI("R08.5", ret, "no-credentials-marked", !miss, "a request without basic credentials is marked with the realm (so the 401 carries the challenge)", "")
				continue
			}
			// applies == true: on err != nil the marker must have been installed
			errRes := ret.Results[2]
			if isNilConst(errRes) {
				continue
			}
			miss := pathExists(inner, nil, ret, factNil(vOrigins(originsAsPreds(errRes)...), true), isMark)
			c.obI("R08.5", ret, "rejection-marked", !miss, "a rejected basic credential is marked with the realm", "a path returns the callback's error without recording the realm")
		}
		// the marked context is installed on the request (*r = *r.WithContext(ctx))
		nInst := 0
		for _, in := range instrs(inner) {
			if st, ok := in.(*ssa.Store); ok {
				if st.Addr == ssa.Value(paramOfType(inner, "*net/http.Request")) {
					nInst++
				} else if st.Parent() != inner && typeStr(st.Val.Type()) == "net/http.Request" {
					// the in-place overwrite lives in a helper that is handed the request
					if someOrigin(st.Addr, oIsValue(paramOfType(inner, "*net/http.Request"))) {
						nInst++
					}
				}
			}
		}
		c.obRF("R08.5", inner, "installs-marked-context", nInst >= 1, "the marked context is installed on the caller's request", "")
	}

	// R08.6 errorResp
	ew := p.Fn("(*rt/middleware.errorResp).WriteResponse")
	whs := callsIn(ew, "(net/http.ResponseWriter).WriteHeader")
	prs := callsIn(ew, "(rt.Producer).Produce")
	c.obRF("R08.6", ew, "status-then-payload", len(whs) >= 1 && len(prs) == 1, "errorResp writes a status and lets the producer write the payload", "")
	for _, wh := range whs {
		_, a := callArgs(wh.Common())
		okC, _ := allOrigins(a[0], oFieldLoad("rt/middleware.errorResp", "code", nil), func(o Origin) bool { k, ok := constInt(o.V); return ok && k == 500 })
		c.obI("R08.6", wh, "status-is-code-or-500", okC, "the status written is the responder's code, or 500 when unset", "status "+describe(a[0]))
	}
	for _, pr := range prs {
		miss := pathExists(ew, nil, pr, nil, isOneOf(toInstrs(whs)...))
		c.obI("R08.6", pr, "status-before-payload", !miss, "the status is written before the payload", "")
		_, a := callArgs(pr.Common())
		okW, _ := allOrigins(a[0], oIsValue(paramOf(ew, 0)))
		okD := vFieldLoadO("rt/middleware.errorResp", "response")(a[1])
		okP, _ := allOrigins(pr.Common().Value, oIsValue(paramOf(ew, 1)))
		c.obI("R08.6", pr, "payload-through-given-producer", okW && okD && okP, "the payload is written by the producer handed in", "")
		for _, ad := range callsIn(ew, "(net/http.Header).Add") {
			c.obI("R08.6", ad, "headers-before-status", !pathExists(ew, whs[0], ad, nil, nil), "headers are added before the status line", "")
		}
	}
}

func toInstrs(cs []ssa.CallInstruction) []ssa.Instruction {
	var out []ssa.Instruction
	for _, c := range cs {
		out = append(out, c)
	}
	return out
}

// originsAsPreds turns the origins of v into predicates matching values with exactly those origins.
func originsAsPreds(v ssa.Value) []OPred {
	var out []OPred
	for _, o := range originsOf(v) {
		o := o
		out = append(out, func(x Origin) bool { return x.same(o) })
	}
	return out
}

// producerOrigin: a producer value is table[normalizeOffer(format)] #0 or defaultTable[DefaultProduces()] #0.
func producerOrigin(isNormFormat, isDefProd VPred) []OPred {
	return []OPred{
		func(o Origin) bool {
			lk, ok := o.V.(*ssa.Lookup)
			if !ok || (o.Index != 0 && o.Index != -1) {
				return false
			}
			return typeStr(lk.X.Type()) == "map[string]rt.Producer" && (isNormFormat(lk.Index) || isDefProd(lk.Index))
		},
	}
}

// ruleOffersDefaultLast: the offers Respond negotiates over are the operation's produces entries in their order with
// the API's default producer type LAST and only there: the chain of appends that builds the list ends in an
// unconditional append of DefaultProduces(), and every other append adds an element of `produces` behind the test
// that it is not the default. (C07: "its produces list plus the API's default type, last"; C08/C19: the negotiated
// type, and the empty default of an API built without JSON defaults never leading the list.)
func ruleOffersDefaultLast(c *Ctx, rule string) {
	p := c.P
	f := p.Fn("(*rt/middleware.Context).Respond")
	rfs := callsIn(f, "(*rt/middleware.Context).ResponseFormat")
	if len(rfs) != 1 {
		c.obRF(rule, f, "offers-negotiated-once", false, "Respond negotiates over one offers list", fmt.Sprintf("%d ResponseFormat calls", len(rfs)))
		return
	}
	_, a := callArgs(rfs[0].Common())
	offers := a[len(a)-1]
	produces := paramOfType(f, "[]string")
	isDefault := func(v ssa.Value) bool {
		ok, _ := allOrigins(v, oCall(-1, "(rt/middleware.RoutableAPI).DefaultProduces"))
		return ok
	}
	last := asCall(offers)
	if os := originsOf(offers); last == nil && len(os) == 1 {
		last = asCall(os[0].V)
	}
	okLast := last != nil && calleeName(&last.Call) == "builtin append"
	if okLast {
		elems, ok := sliceLitElems(last.Call.Args[1])
		okLast = ok && len(elems) == 1 && isDefault(elems[0]) && dominates(last, rfs[0])
	}
	c.obI(rule, rfs[0], "default-producer-offered-last", okLast, "the list of offers ends with the API's default producer type, appended unconditionally after the operation's own types", "the offers handed to the negotiation do not end in an unconditional append of DefaultProduces()")
	if !okLast {
		return
	}
	notDefault := func(elem ssa.Value) EdgePred {
		return func(cond ssa.Value, branch bool) bool {
			cnd, b := stripNot(cond, branch)
			bo, ok := cnd.(*ssa.BinOp)
			if !ok || (bo.Op != token.EQL && bo.Op != token.NEQ) {
				return false
			}
			isElem := func(v ssa.Value) bool { return v == elem || sameVal(v, elem) } // (the entry may be read again: produces[i] twice)
			if !((isElem(bo.X) && isDefault(bo.Y)) || (isElem(bo.Y) && isDefault(bo.X))) {
				return false
			}
			return b == (bo.Op == token.NEQ)
		}
	}
	for _, in := range instrs(f) {
		call, ok := in.(*ssa.Call)
		if !ok || call == last || calleeName(&call.Call) != "builtin append" || typeStr(call.Type()) != "[]string" {
			continue
		}
		if !reachesThroughAppends(last.Call.Args[0], call, map[ssa.Value]bool{}) {
			continue
		}
		elems, okE := sliceLitElems(call.Call.Args[1])
		okA := false
		if okE && len(elems) == 1 {
			if ad, isLd := derefLoad(elems[0]); isLd {
				if ia, isIA := ad.(*ssa.IndexAddr); isIA && produces != nil && ia.X == ssa.Value(produces) {
					// from where this iteration's index is fixed: the test concerns the very entry that is appended
					var from ssa.Instruction = ia
					if def, isIn := ia.Index.(ssa.Instruction); isIn && def.Block() != nil {
						from = def
					}
					okA = guardedBy(call, from, notDefault(elems[0]))
				}
			}
		}
		c.obI(rule, call, "earlier-offers-are-non-default-produces", okA, "before the default, only entries of the operation's produces list that differ from the default are offered (the default is never offered early, nor twice)", "an offer is appended that is not a produces entry tested to differ from the default")
	}
}

// ruleAuthorizeErrorsVerbatim: an authentication failure reaches the error responder as the error the scheme produced:
// Context.Authorize returns the authenticators' error itself, errors.Unauthenticated (401) when there is none, the
// authorizer's own error, or a 403 built from it — nothing else is manufactured on the way.
func ruleAuthorizeErrorsVerbatim(c *Ctx, rule string) {
	f := c.P.Fn("(*rt/middleware.Context).Authorize")
	auths := callsIn(f, "(rt/middleware.RouteAuthenticators).Authenticate")
	if len(auths) != 1 {
		c.obRF(rule, f, "authorize-authenticates", false, "Authorize consults the route's authenticators", fmt.Sprintf("%d calls", len(auths)))
		return
	}
	a := auths[0].(*ssa.Call)
	aerr := resultOf(a, 2)
	isAuthzErr := func(o Origin) bool {
		call := asCall(o.V)
		return call != nil && call.Call.IsInvoke() && call.Call.Method.Name() == "Authorize"
	}
	n := 0
	for _, r := range realReturns(f) {
		if len(r.Results) != 3 || isNilConst(resOf(r, 2)) {
			continue
		}
		n++
		ok, bad := allOrigins(resOf(r, 2), oNil(), oIsValue(aerr), oCall(-1, "github.com/go-openapi/errors.Unauthenticated"), isAuthzErr,
			oCallWhere(-1, "github.com/go-openapi/errors.New", func(call *ssa.Call) bool {
				k, isK := constInt(call.Call.Args[0])
				return isK && k == 403
			}))
		// the generic 401 stands in only when NO scheme reported an error: a scheme's own error (whatever its status) is
		// never replaced by it
		if isGeneric, _ := allOrigins(resOf(r, 2), oCall(-1, "github.com/go-openapi/errors.Unauthenticated")); isGeneric {
			c.obI(rule, r, "generic-401-only-without-scheme-error", guardedBy(r, a, factNil(vIs(aerr), true)), "errors.Unauthenticated is returned only when the authenticators reported no error of their own (err == nil): a rejecting scheme's error is what the client sees", "the generic 401 can replace an error a scheme reported")
		}
		// the 403 made from the authorizer's error replaces it only when that error carries no status of its own: an
		// errors.Error — whatever its code, 5xx included — is what the client gets
		if made, _ := allOrigins(resOf(r, 2), oCall(-1, "github.com/go-openapi/errors.New")); made {
			var ta *ssa.TypeAssert
			for _, in := range instrs(f) {
				if t, isTA := in.(*ssa.TypeAssert); isTA && t.CommaOk && strings.HasSuffix(typeStr(t.AssertedType), "errors.Error") {
					if okX, _ := allOrigins(t.X, isAuthzErr); okX {
						ta = t
					}
				}
			}
			if ta == nil {
				c.obRI(rule, r, "own-status-of-authorizer-error-kept", false, "a 403 is made from the authorizer's error only when that error is no errors.Error", "no type test of the authorizer's error found")
			} else {
				c.obI(rule, r, "own-status-of-authorizer-error-kept", guardedBy(r, ta, factBool(vIs(extractOf(ta, 1)), false)), "a 403 is made from the authorizer's error only when that error is no errors.Error: an error carrying its own status is handed on unchanged, whatever the status", "the fresh 403 is reachable for an authorizer error that IS an errors.Error (its own status — e.g. a 503 — is replaced)")
			}
		}
		c.obI(rule, r, "authentication-error-handed-on-verbatim", ok, "the error Authorize returns is the scheme's own error, errors.Unauthenticated, the authorizer's error or a 403 made from it", "origin "+describeOrigin(bad))
	}
	c.obRF(rule, f, "authorize-can-refuse", n >= 1, "Authorize has refusing exits", "")
}

// ruleNormalizeOfferCuts: normalizeOffer — on which every producer/consumer table key and every offer comparison
// rests — returns the text of the offer before its first ';' on every path: never a re-parsed (re-cased, validated)
// form, and never the raw offer while it may still carry parameters. Shared by C07 and C08.
func ruleNormalizeOfferCuts(c *Ctx, rule string) {
	f := c.P.Fn("rt/middleware.normalizeOffer")
	orig := f.Params[0]
	isOrig := vOrigins(oIsValue(orig))
	semi := func(v ssa.Value) bool {
		if s, ok := constString(v); ok {
			return s == ";"
		}
		k, ok := constInt(v)
		return ok && k == ';'
	}
	isIdx := func(v ssa.Value) bool {
		call := asCall(v)
		if call == nil {
			return false
		}
		switch calleeName(&call.Call) {
		case "strings.Index", "strings.IndexByte", "strings.IndexRune":
			return isOrig(call.Call.Args[0]) && semi(call.Call.Args[1])
		}
		return false
	}
	// "there is no ';' in the offer"
	noSemi := func(cond ssa.Value, branch bool) bool {
		cnd, b := stripNot(cond, branch)
		if call := asCall(cnd); call != nil && (calleeName(&call.Call) == "strings.Contains" || calleeName(&call.Call) == "strings.ContainsRune") {
			return !b && isOrig(call.Call.Args[0]) && semi(call.Call.Args[1])
		}
		if ex, isEx := cnd.(*ssa.Extract); isEx {
			if call := asCall(ex.Tuple); call != nil && calleeName(&call.Call) == "strings.Cut" && ex.Index == 2 {
				return !b && isOrig(call.Call.Args[0]) && semi(call.Call.Args[1])
			}
		}
		bo, ok := cnd.(*ssa.BinOp)
		if !ok || !isIdx(bo.X) {
			return false
		}
		k, isK := constInt(bo.Y)
		if !isK {
			return false
		}
		switch bo.Op {
		case token.LSS:
			return k == 0 && b
		case token.GEQ:
			return k == 0 && !b
		case token.EQL:
			return k == -1 && b
		case token.NEQ:
			return k == -1 && !b
		case token.GTR:
			return k == -1 && !b
		}
		return false
	}
	n := 0
	for _, r := range realReturns(f) {
		if len(r.Results) != 1 {
			continue
		}
		n++
		ok, bad := allOrigins(resOf(r, 0), func(o Origin) bool {
			switch x := o.V.(type) {
			case *ssa.UnOp:
				// strings.SplitN(orig, ";", n)[0] / strings.Split(orig, ";")[0]
				ia, isIA := x.X.(*ssa.IndexAddr)
				if x.Op != token.MUL || !isIA {
					return false
				}
				if k, isK := constInt(ia.Index); !isK || k != 0 {
					return false
				}
				call := asCall(ia.X)
				if call == nil {
					return false
				}
				switch calleeName(&call.Call) {
				case "strings.SplitN":
					k, isK := constInt(call.Call.Args[2])
					return isOrig(call.Call.Args[0]) && semi(call.Call.Args[1]) && isK && (k >= 2 || k < 0)
				case "strings.Split":
					return isOrig(call.Call.Args[0]) && semi(call.Call.Args[1])
				}
				return false
			case *ssa.Call:
				// before, _, _ := strings.Cut(orig, ";")
				return o.Index == 0 && calleeName(&x.Call) == "strings.Cut" && isOrig(x.Call.Args[0]) && semi(x.Call.Args[1])
			case *ssa.Slice:
				return isOrig(x.X) && x.Low == nil && x.High != nil && isIdx(x.High)
			case *ssa.Parameter:
				// the offer itself, when it has no ';'
				if x != orig {
					return false
				}
				if guardedBy(r, nil, noSemi) {
					return true
				}
				// … or on the (never taken) branch `len(strings.Split(orig, ";")) == 0`
				noParts := factEqInt(func(v ssa.Value) bool {
					okL, _ := allOrigins(v, oCallWhere(-1, "builtin len", func(lc *ssa.Call) bool {
						okk, _ := allOrigins(lc.Call.Args[0], oCallWhere(-1, "strings.SplitN", func(sp *ssa.Call) bool { return isOrig(sp.Call.Args[0]) }),
							oCallWhere(-1, "strings.Split", func(sp *ssa.Call) bool { return isOrig(sp.Call.Args[0]) }))
						return okk
					}))
					return okL
				}, 0, true)
				return guardedBy(r, nil, noParts)
			}
			return false
		})
		c.obI(rule, r, "offer-cut-at-first-semicolon", ok, "normalizeOffer returns the offer's text before its first ';' (the offer itself when there is none): table keys and offers are compared in exactly that form", "it can return "+describeOrigin(bad))
	}
	c.obRF(rule, f, "normalizeOffer-returns", n >= 1, "normalizeOffer returns a string", "")
}
