package main

import (
	"fmt"
	"go/token"
	"go/types"
	"sort"
	"strings"

	"golang.org/x/tools/go/ssa"
)

func init() {
	register(&Property{
		ID: "C09",
		Explanation: "Decides the part of the property its 'why tests cannot' singles out — a regression that moves per-request state onto shared structures or recomputes a stage: " +
			"Round 12: R09.4 the admitting alternative is always recorded. " +
			"R09.1 (who-may-write over the VTA call graph) no function reachable from a request handler or per-request Context method writes a field, map or captured variable of a shared structure (router tables, route entries, API registries, binders, package-level variables); only per-request objects (MatchedRoute, validation, denco params, the request itself) and objects freshly allocated in the same function are written; " +
			"R09.2 every matched route handed to a request is a fresh allocation initialised with a COPY of the shared entry and freshly built parameters; R09.3 the handler table is only accessed between Lock and Unlock and every path releases the lock; " +
			"R09.4 each memoising accessor reads the context key it writes, keys are pairwise distinct, and the dynamic type asserted on read is the static type stored on write; R09.5 each stage's computing call is reached only through the cache-miss edge, a hit returns the same request, and a miss stores the result in the returned request's context (so the body is consumed at most once and an accepting authenticator is not consulted again). " +
			"R09.1 also: no request-reachable code stores whole elements into a slice of library structures it did not make; R09.4 also: ResetAuth overwrites only the two security keys. " +
			"R09.1 also: request-reachable code never appends into x[:0] of a slice it did not make; R09.5 also: memo contexts are rooted in the request the accessor was given. " +
			"R09.2 also: validation.bound / result are never package-level objects; R09.1 also: no in-place sort / copy into a slice the function did not make; a sync.Map written on the request path in a shared structure is reported as not decided. " +
			"R09.5 also: LookupRoute is called by RouteInfo only, and a non-empty negotiated format is always memoised. " +
			"NOT decided: absence of data races in general (user handlers, net/http internals, happens-before through channels).",
		Assumptions: []string{"VTA call graph of x/tools v0.29.0 over-approximates dynamic dispatch inside the repository"},
		Run:         runC09,
	})
}

// per-request object types: writing their fields through a pointer is not a shared write.
var perRequestTypes = map[string]string{
	"rt/middleware.MatchedRoute":      "allocated per lookup by defaultRouter.Lookup (R09.2)",
	"rt/middleware.validation":        "allocated per request by validateRequest",
	"rt/middleware.contentTypeValue":  "allocated per request by Context.ContentType",
	"rt/middleware.errorResp":         "responder object created per result",
	"rt/middleware/denco.Param":       "element of the params slice made per Router.Lookup call",
	"rt/security.ScopedAuthRequest":   "allocated per authentication attempt",
	"rt/middleware/header.AcceptSpec": "parsed per request",
	"rt.peekingReader":                "body wrapper created per request by HasBody",
	"rt.File":                         "bound value created per request",
	"rt.csvRecordsWriter":             "record container allocated per Consume/Produce call",
}

func c09Entries(c *Ctx) []*ssa.Function {
	p := c.P
	var entries []*ssa.Function
	for _, fn := range p.LibFuncs("rt/middleware", "rt/middleware/denco", "rt/middleware/untyped", "rt/security") {
		if fn.Parent() != nil && isHandlerSig(fn.Signature) {
			entries = append(entries, fn)
		}
		if fn.Parent() != nil && short(fnPkgPath(fn)) == "rt/security" {
			entries = append(entries, fn) // authenticator closures run per request
		}
	}
	for _, n := range []string{
		"(*rt/middleware/denco.serveMux).ServeHTTP",
		"(*rt/middleware.Context).RouteInfo", "(*rt/middleware.Context).ContentType", "(*rt/middleware.Context).ResponseFormat",
		"(*rt/middleware.Context).Authorize", "(*rt/middleware.Context).BindAndValidate", "(*rt/middleware.Context).BindValidRequest",
		"(*rt/middleware.Context).ResetAuth", "(*rt/middleware.Context).Respond", "(*rt/middleware.Context).LookupRoute",
		"(*rt/middleware.Context).AllowedMethods", "(*rt/middleware.Context).NotFound",
		"rt/middleware.MatchedRouteFrom", "rt/middleware.SecurityPrincipalFrom", "rt/middleware.SecurityScopesFrom",
		"rt/middleware.NegotiateContentType", "rt/middleware.NegotiateContentEncoding",
	} {
		entries = append(entries, p.Fn(n))
	}
	return entries
}

// chainRoot follows &x.f1.f2[i].f3 ... back to the outermost base and returns it with the named struct type at the root.
func chainRoot(addr ssa.Value) (root ssa.Value, rootType *types.Named, immediate *types.Named, field string) {
	first := true
	for {
		switch x := addr.(type) {
		case *ssa.FieldAddr:
			n, st := structOf(x.X.Type())
			if first && st != nil {
				immediate = n
				field = fieldNameOf(n, st, x.Field)
				first = false
			}
			rootType = n
			addr = x.X
			continue
		case *ssa.IndexAddr:
			// element of an array/slice: continue through the container
			if ld, ok := derefLoad(x.X); ok {
				addr = ld
				first = first && true
				continue
			}
			addr = x.X
			continue
		}
		return addr, rootType, immediate, field
	}
}

// ruleStagesThreadTheRequest: the result of a stage travels in the request value the stage hands back; the next stage
// must be given THAT value. (a) the router middleware forwards the request RouteInfo returned, (b) the reflective
// content-type stage resolves the memoised content type (which copies the request) only after — and behind — the body
// probe, which attaches its buffered reader to the request value it was given.
func ruleStagesThreadTheRequest(c *Ctx, rule string) {
	p := c.P
	nrt := p.Fn("rt/middleware.NewRouter")
	h := c.theHandlerClosure(nrt)
	ris := callsIn(h, "(*rt/middleware.Context).RouteInfo")
	if len(ris) == 1 {
		ri := ris[0].(*ssa.Call)
		rctx := resultOf(ri, 1)
		for _, n := range callsIn(h, "(net/http.Handler).ServeHTTP") {
			_, a := callArgs(n.Common())
			okR, bad := allOrigins(a[1], oIsValue(rctx))
			c.obI(rule, n, "router-forwards-the-routed-request", okR && rctx != nil, "the next handler is given the request RouteInfo returned (its context holds the matched route: later stages find it instead of routing again)", "the request forwarded is "+describeOrigin(bad))
		}
	} else {
		c.obRF(rule, h, "router-asks-route", false, "the router middleware asks for the route once", fmt.Sprintf("%d", len(ris)))
	}
	vct := p.Fn("(*rt/middleware.validation).contentType")
	cts := callsIn(vct, "(*rt/middleware.Context).ContentType")
	hbs := callsIn(vct, "rt.HasBody")
	c.obRF(rule, vct, "content-type-stage-probes-and-resolves", len(cts) == 1 && len(hbs) == 1, "the content-type stage probes the body and resolves the memoised content type", fmt.Sprintf("%d/%d", len(hbs), len(cts)))
	if len(cts) == 1 && len(hbs) == 1 {
		hasBody := factBool(vOrigins(oIsValue(hbs[0].Value())), true)
		c.obI(rule, cts[0], "content-type-resolved-after-body-probe", dominates(hbs[0], cts[0]) && guardedBy(cts[0], hbs[0], hasBody), "the memoised content type (whose request copy the later stages read) is resolved after the body probe has attached its buffered reader, and only for requests with a body", "Context.ContentType can run before / without the HasBody probe: the request copy it returns misses the probe's buffered body")
	}
}

func runC09(c *Ctx) {
	p := c.P
	ruleStagesThreadTheRequest(c, "R09.4")
	entries := c09Entries(c)
	reach := p.Reach(entries)
	c.info("R09.1 entry set: %d functions; request-reachable repo functions: %d", len(entries), len(reach))

	isFresh := func(fn *ssa.Function, base ssa.Value) bool {
		if base == nil {
			return false
		}
		for _, o := range originsOf(base) {
			al, ok := o.V.(*ssa.Alloc)
			if !ok || al.Parent() != fn {
				// results of make/new-like calls
				if call := asCall(o.V); call != nil {
					n := calleeName(&call.Call)
					if n == "builtin append" || strings.HasPrefix(n, "builtin ") {
						continue
					}
				}
				if _, isMk := o.V.(*ssa.MakeSlice); isMk {
					continue
				}
				if _, isMk := o.V.(*ssa.MakeMap); isMk {
					continue
				}
				return false
			}
		}
		return true
	}
	var names []*ssa.Function
	for fn := range reach {
		names = append(names, fn)
	}
	sort.Slice(names, func(i, j int) bool { return names[i].String() < names[j].String() })
	nWrites := 0
	doneIn := map[ssa.Instruction]bool{}
	for _, fn := range names {
		if p.isTestFn(fn) || isFixturePkg(fnPkgPath(fn)) {
			continue
		}
		for _, in := range ownInstrs(fn) { // every reachable function (helpers included) is in `names` itself
			if doneIn[in] {
				continue
			}
			doneIn[in] = true
			// library calls that reorder or overwrite a slice IN PLACE (sort.Strings, slices.Sort, copy into …): the slice
			// has to be one this function made — a list read from a route entry or an authenticator shares its backing
			// array with every request
			if call, isCall := in.(*ssa.Call); isCall {
				var dst ssa.Value
				switch calleeName(&call.Call) {
				case "sort.Strings", "sort.Ints", "sort.Float64s", "sort.Slice", "sort.SliceStable", "slices.Sort", "slices.SortFunc", "slices.SortStableFunc", "slices.Reverse", "builtin copy":
					if len(call.Call.Args) > 0 {
						dst = unboxed(call.Call.Args[0])
					}
				case "sort.Sort", "sort.Stable":
					if len(call.Call.Args) > 0 {
						dst = unboxed(call.Call.Args[0])
						if ct, isCT := dst.(*ssa.ChangeType); isCT {
							dst = ct.X
						}
					}
				}
				if dst != nil {
					if _, isSlice := dst.Type().Underlying().(*types.Slice); isSlice && !freshSlice(dst, 0) {
						sharedSrc := false
						for _, o := range originsOf(dst) {
							if cc := asCall(o.V); cc != nil && isRepoPath(fnPkgPathOfCallee(&cc.Call)) {
								sharedSrc = true // what an accessor of a library object handed out
							}
							if ad, isLd := derefLoad(o.V); isLd {
								if _, isFA := ad.(*ssa.FieldAddr); isFA {
									sharedSrc = true
								}
							}
						}
						if sharedSrc {
							nWrites++
							c.obD("R09.1", call, "in-place-reorder-of-foreign-slice", false, "request-reachable code sorts / copies into only slices it has made itself: a list obtained from a route entry, an authenticator or an API registry shares its backing array with every other request", baseName(calleeName(&call.Call))+" rewrites "+describe(dst)+" in place")
						}
					}
				}
			}
			// a concurrent map held in a shared structure and written on the request path is remembered state: whether one
			// request's entry can answer another request's question depends on how it is keyed — not decided here
			if call, isCall := in.(*ssa.Call); isCall {
				switch calleeName(&call.Call) {
				case "(*sync.Map).Store", "(*sync.Map).LoadOrStore", "(*sync.Map).Swap", "(*sync.Map).CompareAndSwap", "(*sync.Map).LoadAndDelete", "(*sync.Map).Delete":
					recv := call.Call.Args[0]
					if fa, isFA := recv.(*ssa.FieldAddr); isFA {
						root, rootT, immT, field := chainRoot(fa)
						if immT != nil && immT.Obj().Pkg() != nil && isRepoPath(immT.Obj().Pkg().Path()) && perRequestTypes[typeFullName(rootT)] == "" && !isFresh(fn, root) {
							nWrites++
							c.obRI("R09.1", call, "memo-on-shared-structure-"+field, false, "request-reachable code keeps no remembered results in a shared structure (none exists in the reviewed code: each request recomputes from the immutable tables)", baseName(calleeName(&call.Call))+" on "+typeFullName(immT)+"."+field+" — a cache shared by all requests: sound only if its key determines the answer, which is not decided structurally")
						}
					} else if g, isG := recv.(*ssa.Global); isG && isRepoPath(g.Pkg.Pkg.Path()) {
						nWrites++
						c.obRI("R09.1", call, "memo-in-global-"+g.Name(), false, "request-reachable code keeps no remembered results in package-level state", baseName(calleeName(&call.Call))+" on the package-level "+short(g.String()))
					}
				}
			}
			switch st := in.(type) {
			case *ssa.Store:
				// (c) globals
				if g, ok := st.Addr.(*ssa.Global); ok {
					if isRepoPath(g.Pkg.Pkg.Path()) && !strings.HasPrefix(g.Name(), "init$") {
						nWrites++
						c.obD("R09.1", st, "global-"+g.Name(), false, "request-reachable code never writes package-level variables", "store to "+short(g.String()))
					}
					continue
				}
				// (d) captured variables owned by a construction-time function
				if fv, ok := st.Addr.(*ssa.FreeVar); ok {
					if cell := freeVarCell(fv); cell != nil && !reach[cell.Parent()] {
						nWrites++
						c.obD("R09.1", st, "captured-"+cell.Comment, false,
							"request-reachable closures never write variables of the (construction-time) function that created them: such a variable is shared by all requests",
							"store to variable '"+cell.Comment+"' of "+short(cell.Parent().String())+", which is shared by every request served by this closure")
					}
					continue
				}
				// (e) whole elements of a slice/array of library structures (reordering or replacing entries of a
				// shared table: the backing array is shared even when the slice header was passed by value)
				if ia, ok := st.Addr.(*ssa.IndexAddr); ok {
					if en, _ := structOf(st.Val.Type()); en != nil && en.Obj().Pkg() != nil && isRepoPath(en.Obj().Pkg().Path()) && perRequestTypes[typeFullName(en)] == "" {
						base := ia.X
						if ld, isLd := derefLoad(base); isLd {
							if _, isAl := ld.(*ssa.Alloc); !isAl {
								base = nil // loaded from a field/global: not fresh
							}
						}
						nWrites++
						okE := base != nil && isFresh(fn, base)
						c.obD("R09.1", st, "element-write-"+typeFullName(en), okE, "request-reachable code never replaces or reorders the entries of a shared table (a slice received from a caller or held in a structure shares its backing array with every other request)", "store of a whole "+typeFullName(en)+" into an element of a slice that was not made in this function")
						continue
					}
				}
				root, rootT, immT, field := chainRoot(st.Addr)
				if immT == nil || immT.Obj().Pkg() == nil || !isRepoPath(immT.Obj().Pkg().Path()) {
					continue
				}
				nWrites++
				key := typeFullName(immT) + "." + field
				ok, why := true, ""
				switch {
				case isFresh(fn, root):
					// construction of a fresh object
				case perRequestTypes[typeFullName(rootT)] != "":
					// per-request object (its own fields, or the copy of the entry embedded in it)
				case key == "rt/middleware.untypedParamBinder.Name" && onlyRootedIn(fn, "(*rt/middleware.UntypedRequestBinder).Bind"):
					ok, why = c09BinderNameException(c, fn, st, reach)
				default:
					ok, why = false, "store to field "+key+" through a pointer that is neither a per-request object nor freshly allocated here"
				}
				if !ok && isNewType(immT) {
					// a structure the baseline does not know: whether its instances are made per request (a cursor over the
					// records of one call) or shared is not known to the rules — unrecognised, not a verdict
					c.obRI("R09.1", st, "write-"+key, false, "request-reachable code writes only per-request objects or objects it has just allocated — never a field of a shared structure", why+" ("+typeFullName(immT)+" is a type unknown to the baseline: whether its instances are shared between requests is not decided)")
					continue
				}
				c.obD("R09.1", st, "write-"+key, ok, "request-reachable code writes only per-request objects or objects it has just allocated — never a field of a shared structure", why)
			case *ssa.Slice:
				// (f) x[:0] of a slice the function did not make, then appended to: the "filter in place" idiom writes
				// into the caller's backing array (e.g. the route's Produces list, shared by every request)
				if k, isK := constInt(st.High); !isK || k != 0 || st.Low != nil {
					continue
				}
				if _, isSl := st.X.Type().Underlying().(*types.Slice); !isSl {
					continue
				}
				if isFresh(fn, st.X) {
					continue
				}
				for _, ci := range callsIn(fn, "builtin append") {
					if reachesThroughAppends(ci.Common().Args[0], st, map[ssa.Value]bool{}) {
						nWrites++
						c.obD("R09.1", ci, "append-into-foreign-storage", false, "request-reachable code never appends into x[:0] of a slice it did not make: that overwrites the elements of a backing array shared with the caller (and with every other request)", "in-place filter over "+describe(st.X))
					}
				}
			case *ssa.MapUpdate:
				// map held in a field of a repo struct or in a global
				m := st.Map
				shared := ""
				for _, o := range originsOf(m) {
					if ad, ok := derefLoad(o.V); ok {
						if g, isG := ad.(*ssa.Global); isG && isRepoPath(g.Pkg.Pkg.Path()) {
							shared = "global " + short(g.String())
						}
						if fa, isFA := ad.(*ssa.FieldAddr); isFA {
							root, rootT, immT, field := chainRoot(fa)
							if immT != nil && immT.Obj().Pkg() != nil && isRepoPath(immT.Obj().Pkg().Path()) &&
								perRequestTypes[typeFullName(rootT)] == "" && !isFresh(fn, root) {
								shared = "field " + typeFullName(immT) + "." + field
							}
							// a map is shared by reference: the per-request COPY of a structure (the route entry embedded
							// in the matched route) still points at the one map built at construction time
							if shared == "" && immT != nil && immT.Obj().Pkg() != nil && isRepoPath(immT.Obj().Pkg().Path()) && !isFresh(fn, root) {
								if !mapFieldMadePerRequest(p, reach, typeFullName(immT), field) {
									shared = "field " + typeFullName(immT) + "." + field + " (the map is not made per request: the per-request copy of the structure shares it with every other request)"
								}
							}
						}
					}
					if fv, isFV := o.V.(*ssa.FreeVar); isFV {
						_ = fv
					}
				}
				if shared != "" {
					nWrites++
					c.obD("R09.1", st, "map-write", false, "request-reachable code never updates a shared map", "update of a map held in "+shared)
				}
			}
		}
	}
	// premise of the per-request types: none of them is allocated by construction-time code (an object prepared once by
	// the route builder and written per request is shared by all requests, whatever its type)
	{
		var ctor []*ssa.Function
		for _, n := range []string{"rt/middleware.DefaultRouter", "(*rt/middleware.defaultRouteBuilder).AddRoute", "(*rt/middleware.defaultRouteBuilder).Build",
			"(*rt/middleware.defaultRouteBuilder).buildAuthenticators", "rt/middleware.NewContext", "rt/middleware.NewRoutableContext", "rt/middleware.newRoutableUntypedAPI", "rt/middleware.NewRouter"} {
			if f := p.FnOpt(n); f != nil {
				ctor = append(ctor, f)
			}
		}
		built := p.Reach(ctor)
		var fns []*ssa.Function
		for fn := range built {
			if !reach[fn] && fn.Parent() == nil {
				fns = append(fns, fn)
			}
		}
		sort.Slice(fns, func(i, j int) bool { return fns[i].String() < fns[j].String() })
		for _, fn := range fns {
			if p.isTestFn(fn) || isFixturePkg(fnPkgPath(fn)) {
				continue
			}
			for _, in := range ownInstrs(fn) {
				al, ok := in.(*ssa.Alloc)
				if !ok || !al.Heap {
					continue
				}
				n, _ := structOf(al.Type())
				if n == nil || perRequestTypes[typeFullName(n)] == "" {
					continue
				}
				c.obD("R09.1", al, "per-request-type-built-at-construction", false, "objects of the per-request types ("+typeFullName(n)+": "+perRequestTypes[typeFullName(n)]+") are never prepared by construction-time code", "a "+typeFullName(n)+" is allocated by "+fnName(fn)+", which runs when the router is built: the object is shared by every request that writes it")
			}
		}
	}
	c.info("R09.1 field/global/captured writes examined in request-reachable code: %d", nWrites)
	c.min("R09.1", 12)

	ruleR09_2(c)
	ruleR09_3(c)
	ruleR09_45(c)
	ruleMemoContextRooted(c, "R09.5")
	// the alternative that admitted THIS authentication is recorded unconditionally: a value left by an earlier
	// authentication of the same request (before ResetAuth) never survives a later one
	if ra := p.FnOpt("(*rt/middleware.RouteAuthenticator).Authenticate"); ra != nil {
		isRec := func(in ssa.Instruction) bool {
			st, ok := in.(*ssa.Store)
			if !ok {
				return false
			}
			_, okF := fieldAddrOf(st.Addr, "rt/middleware.MatchedRoute", "Authenticator")
			return okF
		}
		for _, r := range realReturns(ra) {
			if b, isB := constBool(resOf(r, 0)); !isB || !b {
				continue
			}
			c.obI("R09.4", r, "admitting-alternative-always-recorded", !pathExists(ra, nil, r, nil, isRec), "every successful authentication records its alternative in the matched route", "a success return is reachable without route.Authenticator having been (re)written: scopes and NeedsAuth answer for an earlier authentication")
		}
	}
	// the route of a request is computed once: library code asks the router through the memoising accessor RouteInfo only —
	// a stage that calls LookupRoute itself computes a second MatchedRoute the later stages do not see (and they look again)
	for _, fn := range p.LibFuncs("rt/middleware") {
		for _, ci := range callsIn(fn, "(*rt/middleware.Context).LookupRoute") {
			if ci.Parent() != fn {
				continue
			}
			root := fn
			for root.Parent() != nil {
				root = root.Parent()
			}
			okCaller := fnName(root) == "(*rt/middleware.Context).RouteInfo"
			if !okCaller && isTransparent(fn) {
				okCaller = true
				for _, rt := range rootsOf(fn) {
					if fnName(rt) != "(*rt/middleware.Context).RouteInfo" {
						okCaller = false
					}
				}
			}
			c.obD("R09.5", ci, "route-looked-up-through-the-memo-only", okCaller, "Context.LookupRoute is called by Context.RouteInfo only: every stage obtains the route — and the request that carries it — from the accessor", short(fn.String())+" looks the route up itself: the result is not stored in the request, later stages compute it again")
		}
	}
}

// the one tabled exception of R09.1, checked rather than assumed.
func c09BinderNameException(c *Ctx, fn *ssa.Function, st *ssa.Store, reach map[*ssa.Function]bool) (bool, string) {
	// (1) the store is under !isMap
	isMapV := func(v ssa.Value) bool {
		bo, ok := v.(*ssa.BinOp)
		if !ok {
			return false
		}
		k := asCall(bo.X)
		return k != nil && calleeName(&k.Call) == "(reflect.Value).Kind"
	}
	if !guardedBy(st, nil, factBool(isMapV, false)) {
		return false, "binder.Name is written without the !isMap guard"
	}
	// (2) every request-reachable caller passes a map
	for caller := range reach {
		for _, ci := range callsIn(caller, "(*rt/middleware.UntypedRequestBinder).Bind") {
			_, a := callArgs(ci.Common())
			d := a[3]
			if mi, ok := d.(*ssa.MakeInterface); ok {
				d = mi.X
			}
			if _, isMap := d.Type().Underlying().(*types.Map); !isMap {
				return false, "request-reachable caller " + short(caller.String()) + " binds into a non-map target, so the shared binder's Name is written per request"
			}
		}
	}
	return true, ""
}

// freshSlice: v is nil, a make, or append(freshSlice, ...).
func freshSlice(v ssa.Value, depth int) bool {
	if depth > 8 {
		return false
	}
	os := originsOf(v)
	if len(os) == 0 {
		return false
	}
	for _, o := range os {
		if isNilConst(o.V) {
			continue
		}
		if _, ok := o.V.(*ssa.MakeSlice); ok {
			continue
		}
		if al, ok := o.V.(*ssa.Alloc); ok && al.Comment == "makeslice" {
			continue // make([]T, n, k) with constant sizes is lowered to a slice of a new array
		}
		if call := asCall(o.V); call != nil && calleeName(&call.Call) == "builtin append" {
			if a0 := call.Call.Args[0]; a0 == v || freshSliceNoCycle(a0, v, depth+1) {
				continue
			}
		}
		return false
	}
	return true
}

func freshSliceNoCycle(a, stop ssa.Value, depth int) bool {
	// phi cycles (params = append(params, ...)) : origins of a are a subset of origins of stop
	os := originsOf(a)
	for _, o := range os {
		if isNilConst(o.V) {
			continue
		}
		if _, ok := o.V.(*ssa.MakeSlice); ok {
			continue
		}
		if call := asCall(o.V); call != nil && calleeName(&call.Call) == "builtin append" {
			continue // appended results are checked at their own origin
		}
		return false
	}
	return len(os) > 0
}

func ruleR09_2(c *Ctx) {
	p := c.P
	lk := p.Fn("(*rt/middleware.defaultRouter).Lookup")
	n := 0
	isFreshRoute := func(o Origin) bool {
		a, ok := o.V.(*ssa.Alloc)
		return ok && a.Heap && a.Parent() == lk && typeStr(a.Type()) == "*rt/middleware.MatchedRoute"
	}
	// the per-request validation record holds nothing shared: the map of bound values it hands to the handler (which may
	// write into it) and its error accumulator are made for this request — also for operations without parameters
	for _, fn := range p.LibFuncs("rt/middleware") {
		for _, fld := range []string{"bound", "result"} {
			for _, st := range fieldStores(fn, "rt/middleware.validation", fld) {
				if st.Parent() != fn {
					continue
				}
				shared := ""
				for _, o := range originsOf(st.Val) {
					if ad, isLd := derefLoad(o.V); isLd {
						if g, isG := ad.(*ssa.Global); isG {
							shared = short(g.String())
						}
					}
					if g, isG := o.V.(*ssa.Global); isG {
						shared = short(g.String())
					}
				}
				if shared != "" {
					c.obD("R09.2", st, "validation-record-holds-nothing-shared", false, "validation."+fld+" is made for the request at hand (a fresh map / slice, or what this request's stages appended)", "validation."+fld+" can be the package-level "+shared+": every request that takes this path reads and writes the same object")
				} else {
					c.obI("R09.2", st, "validation-record-holds-nothing-shared", true, "validation."+fld+" is made for the request at hand", "")
				}
			}
		}
	}
	ruleFreshMatchedRoute(c, "R09.2", "a lookup returns nil or a MatchedRoute allocated by that very call", "returned pointer is not a fresh allocation (a cached or shared *MatchedRoute would be mutated by concurrent requests)")
	for _, in := range instrs(lk) {
		al, isA := in.(*ssa.Alloc)
		if !isA || !isFreshRoute(Origin{V: al, Index: -1}) {
			continue
		}
		n++
		okCopy, okParams, pooled := false, false, false
		for _, st := range fieldStores(lk, matchedRouteT, "routeEntry") {
			if st.Addr.(*ssa.FieldAddr).X != ssa.Value(al) {
				continue
			}
			if ad, ok := derefLoad(st.Val); ok {
				okCopy = typeStr(ad.Type()) == "*rt/middleware.routeEntry"
			}
		}
		for _, st := range fieldStores(lk, matchedRouteT, "Params") {
			if st.Addr.(*ssa.FieldAddr).X != ssa.Value(al) {
				continue
			}
			okParams = freshSlice(st.Val, 0)
			if !okParams {
				// memory handed out by a pool (or any other library call) is shared by definition
				isLibCall := func(v ssa.Value) bool {
					call := asCall(v)
					if call == nil || call.Call.IsInvoke() {
						return false
					}
					sc := call.Call.StaticCallee()
					return sc != nil && !isRepoPath(fnPkgPath(sc))
				}
				for _, o := range originsOf(st.Val) {
					if isLibCall(o.V) {
						pooled = true
					}
					if ad, isLd := derefLoad(o.V); isLd { // *ptr with ptr handed out by a library call (sync.Pool.Get …)
						for _, o2 := range originsOf(ad) {
							if isLibCall(o2.V) {
								pooled = true
							}
						}
					}
				}
			}
		}
		c.obI("R09.2", al, "entry-copied", okCopy, "the MatchedRoute embeds a copy (*entry) of the shared route entry, never the entry itself", "")
		if pooled {
			c.definite = true
		}
		c.obI("R09.2", al, "params-fresh", okParams, "the path parameters are built by this call (nil + append): they are not pooled or shared memory", "Params originate from memory that outlives or is shared between lookups")
	}
	c.obRF("R09.2", lk, "has-success-return", n >= 1, "Lookup can succeed", "")
	// the route stored under ctxMatchedRoute comes from the router
	ri := p.Fn("(*rt/middleware.Context).RouteInfo")
	mrKey := int64Const(p, "rt/middleware", "ctxMatchedRoute")
	for call, k := range withValueCalls(ri, ctxKeyT) {
		if k != mrKey {
			continue
		}
		ok, bad := allOrigins(wvArg(call, 2), oCall(0, "(*rt/middleware.Context).LookupRoute"))
		c.obI("R09.2", call, "context-route-from-router", ok, "the route memoised in the request context is the one the router just returned", "origin "+describeOrigin(bad))
	}
	lr := p.Fn("(*rt/middleware.Context).LookupRoute")
	for _, r := range returnsOf(lr) {
		ok, bad := allOrigins(r.Results[0], oNil(), oCall(0, "(rt/middleware.Router).Lookup"))
		c.obI("R09.2", r, "lookup-route-from-router", ok, "LookupRoute returns what the router returned", "origin "+describeOrigin(bad))
	}
	ruleDencoParamsPerCall(c, "R09.2")
	c.min("R09.2", 6)
}

func ruleR09_3(c *Ctx) {
	p := c.P
	hf := p.Fn("(*rt/middleware.routableUntypedAPI).HandlerFor")
	locks := callsIn(hf, "(*sync.Mutex).Lock")
	unlocks := callsIn(hf, "(*sync.Mutex).Unlock")
	c.obRF("R09.3", hf, "locks", len(locks) == 1 && len(unlocks) >= 1, "HandlerFor takes the handler-table lock", fmt.Sprintf("%d Lock, %d Unlock", len(locks), len(unlocks)))
	if len(locks) != 1 {
		return
	}
	isUnlock := isOneOf(toInstrs(unlocks)...)
	// deferred unlock counts as release on every exit
	deferred := false
	for _, u := range unlocks {
		if _, ok := u.(*ssa.Defer); ok && dominates(locks[0], u) {
			deferred = true
		}
	}
	for _, r := range returnsOf(hf) {
		ok := deferred || !pathExists(hf, locks[0], r, nil, isUnlock)
		c.obI("R09.3", r, "lock-released", ok, "every path from Lock to a return passes Unlock", "a return is reachable with the lock held")
	}
	for _, fn := range p.LibFuncs("rt/middleware") {
		for _, in := range instrs(fn) {
			fa, ok := in.(*ssa.FieldAddr)
			if !ok || !fieldIs(fa.X.Type(), fa.Field, "rt/middleware.routableUntypedAPI", "handlers") {
				continue
			}
			if fnName(fn) == "rt/middleware.newRoutableUntypedAPI" {
				continue // constructor: not yet shared
			}
			okIn := fn == hf && dominates(locks[0], fa)
			if okIn && !deferred {
				for _, u := range unlocks {
					if pathExists(hf, u, fa, nil, nil) {
						okIn = false
					}
				}
			}
			c.obI("R09.3", fa, "table-access-under-lock", okIn, "the handler table is accessed only between Lock and Unlock", "access outside the critical section in "+fnName(fn))
		}
	}
}

type memo struct {
	fn      string
	key     string
	compute []string
	reqIdx  int // index of the *http.Request result
	param   int // index of the request parameter
}

func ruleR09_45(c *Ctx) {
	// ResetAuth clears the security keys and nothing else (the other memoised stage results of the request stay valid)
	{
		ra := c.P.Fn("(*rt/middleware.Context).ResetAuth")
		sec := map[int64]bool{int64Const(c.P, "rt/middleware", "ctxSecurityPrincipal"): true, int64Const(c.P, "rt/middleware", "ctxSecurityScopes"): true}
		n := 0
		for call, k := range withValueCalls(ra, "rt/middleware.contextKey") {
			n++
			c.obI("R09.4", call, "reset-only-security-keys", sec[k], "ResetAuth overwrites only the principal and scopes keys: the route, content type, response format and bound parameters memoised for the request stay (a body consumed once is not bound again)", fmt.Sprintf("ResetAuth overwrites context key %d", k))
		}
		c.obRF("R09.4", ra, "reset-writes", n == 2, "ResetAuth overwrites the two security keys", fmt.Sprintf("%d writes", n))
	}
	ruleResetAuthShadows(c, "R09.4")
	ruleContentTypeAccessorParses(c, "R09.5")
	p := c.P
	memos := []memo{
		{"(*rt/middleware.Context).ContentType", "ctxContentType", []string{"rt.ContentType"}, 2, 0},
		{"(*rt/middleware.Context).RouteInfo", "ctxMatchedRoute", []string{"(*rt/middleware.Context).LookupRoute"}, 1, 0},
		{"(*rt/middleware.Context).ResponseFormat", "ctxResponseFormat", []string{"rt/middleware.NegotiateContentType"}, 1, 0},
		{"(*rt/middleware.Context).BindAndValidate", "ctxBoundParams", []string{"rt/middleware.validateRequest"}, 1, 0},
		{"(*rt/middleware.Context).Authorize", "ctxSecurityPrincipal", []string{"(rt/middleware.RouteAuthenticators).Authenticate"}, 1, 0},
	}
	// keys pairwise distinct
	keyNames := []string{"ctxContentType", "ctxResponseFormat", "ctxMatchedRoute", "ctxBoundParams", "ctxSecurityPrincipal", "ctxSecurityScopes"}
	seen := map[int64]string{}
	for _, k := range keyNames {
		v := int64Const(p, "rt/middleware", k)
		prev, dup := seen[v]
		c.ob("R09.4", "rt/middleware", "key-distinct-"+k, "-", !dup, "context keys are pairwise distinct", k+" equals "+prev)
		seen[v] = k
	}
	written := map[int64]string{} // key -> static type written
	for _, m := range memos {
		f := p.Fn(m.fn)
		key := int64Const(p, "rt/middleware", m.key)
		req := paramOf(f, m.param)
		// reads
		var reads []*ssa.Call
		for _, ci := range callsIn(f, "(context.Context).Value") {
			call := ci.(*ssa.Call)
			k, ok := ctxKeyConst(call.Call.Args[0], ctxKeyT)
			if !ok {
				continue
			}
			c.obI("R09.4", call, "reads-own-key", k == key, "the accessor reads the context key it writes ("+m.key+")", fmt.Sprintf("reads key %d", k))
			if k == key {
				reads = append(reads, call)
			}
		}
		var writes []*ssa.Call
		for call, k := range withValueCalls(f, ctxKeyT) {
			if m.key == "ctxSecurityPrincipal" && k == int64Const(p, "rt/middleware", "ctxSecurityScopes") {
				written[k] = typeStr(unboxed(wvArg(call, 2)).Type())
				continue
			}
			c.obI("R09.4", call, "writes-own-key", k == key, "the accessor writes the context key it reads ("+m.key+")", fmt.Sprintf("writes key %d", k))
			if k == key {
				writes = append(writes, call)
				written[k] = typeStr(unboxed(wvArg(call, 2)).Type())
			}
		}
		c.obRF("R09.4", f, "memoises", len(reads) == 1 && len(writes) == 1, "the accessor has one cache read and one cache write", fmt.Sprintf("%d reads, %d writes", len(reads), len(writes)))
		if len(reads) != 1 || len(writes) != 1 {
			continue
		}
		rd, wr := reads[0], writes[0]
		// type agreement
		var hit EdgePred
		var hitVal ssa.Value
		for _, ref := range *rd.Referrers() {
			if ta, ok := ref.(*ssa.TypeAssert); ok {
				wt := typeStr(unboxed(wvArg(wr, 2)).Type())
				c.obI("R09.4", ta, "type-agreement", typeStr(ta.AssertedType) == wt, "the dynamic type asserted when reading the cache is the static type stored when writing it", "reads "+typeStr(ta.AssertedType)+", writes "+wt)
				if ta.CommaOk {
					okv := extractOf(ta, 1)
					hit = factBool(vIs(okv), true)
					hitVal = extractOf(ta, 0)
				}
			}
		}
		// the value read — also as handed back by an accessor that is looked through (SecurityPrincipalFrom(request))
		isRd := func(v ssa.Value) bool {
			if v == ssa.Value(rd) {
				return true
			}
			if cc := asCall(v); cc != nil && transparentCallee(cc) != nil {
				ok, _ := allOrigins(v, oIsValue(rd))
				return ok
			}
			return false
		}
		if hit == nil {
			hit = factNil(isRd, false) // `v != nil` style (Authorize)
			hitVal = rd
		}
		miss := anyFact(negate(hit), factNil(isRd, true)) // (nothing stored at all is a miss too)
		if hitVal != nil && hitVal != ssa.Value(rd) {
			// (a defensive `ok && v != nil`: an asserted pointer that is nil is no cached result either)
			miss = anyFact(miss, factNil(vIs(hitVal), true))
		}
		// R09.5 computing call only on miss
		comps := callsIn(f, m.compute...)
		c.obRF("R09.5", f, "computes", len(comps) == 1, "the accessor has one computing call", fmt.Sprintf("%d", len(comps)))
		for _, k := range comps {
			c.obI("R09.5", k, "compute-only-on-miss", guardedBy(k, rd, miss), "the stage is recomputed only when the request context holds no result yet (cache-miss edge)", "the computing call is reachable although a cached result exists: the stage would run twice (body consumed twice / authenticator consulted again)")
		}
		for _, r := range returnsOf(f) {
			if len(comps) == 1 && pathExists(f, comps[0], r, nil, nil) {
				// miss path: returned request carries the stored result (when one is returned at all)
				rq := r.Results[m.reqIdx]
				if isNilConst(rq) {
					continue
				}
				// (an exit taken because the computation yielded nothing has nothing to store)
				if cv := comps[0].Value(); cv != nil && guardedBy(r, comps[0], factNil(func(v ssa.Value) bool {
					// (the computed VALUE being nil — not the computation's error being nil, which is the success path)
					return typeStr(v.Type()) != "error" && vOrigins(oIsValue(cv))(v)
				}, true)) {
					continue
				}
				okStore := false
				for _, o := range originsOf(rq) {
					if wc := asCall(o.V); wc != nil && calleeName(&wc.Call) == "(*net/http.Request).WithContext" {
						if okk, _ := allOrigins(wc.Call.Args[1], func(oo Origin) bool {
							// the context chain ends in (or passes through) the write
							return ctxChainHas(oo.V, wr, 4)
						}); okk {
							okStore = true
						}
					} else if m.key == "ctxResponseFormat" && o.V == ssa.Value(req) {
						// ResponseFormat stores only successful negotiations: returning the unchanged request is allowed on format == ""
						okStore = true
					} else {
						okStore = false
						break
					}
				}
				c.obI("R09.5", r, "miss-stores-result", okStore, "after computing, the returned request's context carries the result (a later asker holding that request gets a hit)", "the request returned after computing does not carry the result")
				if m.key == "ctxResponseFormat" && okStore {
					// … and "nothing to store" means exactly an EMPTY negotiated format: every other outcome is stored, whatever
					// the request looks like (an absent Accept header included — the first offer is a result like any other)
					if cv := comps[0].Value(); cv != nil {
						var stores []ssa.Instruction
						for _, in := range instrs(f) {
							if wc, isC := in.(*ssa.Call); isC && calleeName(&wc.Call) == "(*net/http.Request).WithContext" {
								if okk, _ := allOrigins(wc.Call.Args[1], func(oo Origin) bool { return ctxChainHas(oo.V, wr, 4) }); okk {
									stores = append(stores, wc)
								}
							}
						}
						unstored := pathExists(f, comps[0], r, factEqString(vOrigins(oIsValue(cv)), "", true), isOneOf(stores...))
						c.obI("R09.5", r, "non-empty-result-always-stored", len(stores) > 0 && !unstored, "a negotiated format is left unstored only when it is empty", "a non-empty negotiated format can be returned without being memoised: the next asker negotiates again, against its own offers")
					}
				}
				continue
			}
			if !pathExists(f, rd, r, nil, nil) || !guardedBy(r, rd, hit) {
				continue // early exits before the cache (e.g. Authorize without auth)
			}
			okSame, _ := allOrigins(r.Results[m.reqIdx], oIsValue(req))
			c.obI("R09.5", r, "hit-returns-same-request", okSame, "a cache hit returns the very request it was given", "")
			// … and the stored result itself (or its fields): what an earlier stage recorded in it is there for the next asker
			if hitVal != nil && len(r.Results) > 0 && m.reqIdx != 0 {
				isStored := func(o Origin) bool { // the value read from the context (provenance looks through the type assertion)
					return o.V == hitVal || o.V == ssa.Value(rd)
				}
				fromHit := func(o Origin) bool {
					if isStored(o) {
						return true
					}
					if ad, isLd := derefLoad(o.V); isLd {
						if fa, isFA := ad.(*ssa.FieldAddr); isFA {
							if al, isAl := fa.X.(*ssa.Alloc); isAl {
								// a result cached BY VALUE, spilled into a local before its fields are read
								sts := storesToCell(al)
								okAll := len(sts) > 0
								for _, st := range sts {
									if okS, _ := allOrigins(st.Val, isStored); !okS {
										okAll = false
									}
								}
								return okAll
							}
							okB, _ := allOrigins(fa.X, isStored)
							return okB
						}
					}
					if fl, isF := o.V.(*ssa.Field); isF {
						okB, _ := allOrigins(fl.X, isStored)
						return okB
					}
					return false
				}
				okHit, bad := allOrigins(r.Results[0], fromHit)
				c.obI("R09.5", r, "hit-returns-stored-result", okHit, "on a cache hit the accessor hands out the stored result itself (a copy made per asker loses what a stage recorded in it: the admitting alternative, the selected consumer)", "origin "+describeOrigin(bad))
			}
		}
		// what is written is what was computed
		if len(comps) == 1 {
			val := unboxed(wvArg(wr, 2))
			ok := false
			var foreign *Origin
			for _, o := range originsOf(val) {
				o := o
				switch x := o.V.(type) {
				case *ssa.Alloc: // &contentTypeValue{mt, cs}
					ok = true
				case *ssa.UnOp: // contentTypeValue{mt, cs} stored by value: the load of a literal built in a local
					if al, isAl := x.X.(*ssa.Alloc); isAl && x.Op == token.MUL && al.Parent() == x.Parent() {
						ok = true
					} else if foreign == nil {
						foreign = &o
					}
				case *ssa.Const:
				default:
					if x == comps[0].Value() {
						ok = true
					} else if foreign == nil {
						foreign = &o
					}
				}
			}
			c.obI("R09.5", wr, "stores-computed-value", ok, "the value memoised is the one just computed", "stored value "+describe(val))
			// … by THIS request's computation alone: nothing remembered from another request (a per-Context table keyed
			// by a header value, say) is ever written into a request's context in its place
			if ok {
				c.obI("R09.5", wr, "memo-holds-nothing-from-elsewhere", foreign == nil, "what a request's context memoises comes from the computing call made for this very request — on every path", "the memoised value can also be "+describeOrigin(foreign))
			}
		}
	}
	// the raw Content-Type parser is asked by the memoising accessor (and by the generated-server gate, which has no
	// request to thread the memo through) only: a stage parsing the header on its own neither uses nor leaves the memo
	for _, fn := range p.LibFuncs("rt/middleware") {
		for _, ci := range callsIn(fn, "rt.ContentType") {
			if ci.Parent() != fn {
				continue
			}
			n := fnName(fn)
			okC := n == "(*rt/middleware.Context).ContentType" || n == "(*rt/middleware.Context).BindValidRequest" ||
				n == "(*rt/middleware.untypedParamBinder).Bind" // (formData binding asks whether the body is multipart)
			if !okC && isTransparent(fn) {
				okC = true
				for _, rt := range rootsOf(fn) {
					if rn := fnName(rt); rn != "(*rt/middleware.Context).ContentType" && rn != "(*rt/middleware.Context).BindValidRequest" && rn != "(*rt/middleware.untypedParamBinder).Bind" {
						okC = false
					}
				}
			}
			c.obI("R09.5", ci, "content-type-parsed-by-the-memoising-accessor", okC, "within the middleware, runtime.ContentType is called by Context.ContentType (memoising), by BindValidRequest and by the formData binder only", "runtime.ContentType is called by "+n+": the parsed content type is recomputed outside the memo")
		}
	}
	// external readers
	type reader struct{ fn, key string }
	for _, rd := range []reader{{"rt/middleware.MatchedRouteFrom", "ctxMatchedRoute"}, {"rt/middleware.SecurityPrincipalFrom", "ctxSecurityPrincipal"}, {"rt/middleware.SecurityScopesFrom", "ctxSecurityScopes"}} {
		f := p.Fn(rd.fn)
		key := int64Const(p, "rt/middleware", rd.key)
		n := 0
		for _, ci := range callsIn(f, "(context.Context).Value") {
			call := ci.(*ssa.Call)
			k, ok := ctxKeyConst(call.Call.Args[0], ctxKeyT)
			n++
			c.obI("R09.4", call, "reader-key", ok && k == key, "the accessor reads "+rd.key, fmt.Sprintf("reads key %d", k))
			for _, ref := range *call.Referrers() {
				if ta, isTA := ref.(*ssa.TypeAssert); isTA {
					if written[key] == "" || written[key] == "any" || written[key] == "interface{}" {
						c.obRI("R09.4", ta, "reader-type", false, "the type asserted by the reader is the type its writer stores", "the writer of this key could not be identified (its WithValue call does not name the key constant)")
					} else {
						c.obI("R09.4", ta, "reader-type", typeStr(ta.AssertedType) == written[key], "the type asserted by the reader is the type its writer stores", "reads "+typeStr(ta.AssertedType)+", writer stores "+written[key])
					}
				}
			}
		}
		c.obRF("R09.4", f, "reader-reads", n == 1, "the accessor reads the request context once", "")
	}
	c.min("R09.4", 20)
	c.min("R09.5", 12)
}

func unboxed(v ssa.Value) ssa.Value {
	if mi, ok := v.(*ssa.MakeInterface); ok {
		return mi.X
	}
	return v
}

// ctxChainHas: the context value v is, or derives through WithValue from, the WithValue call w.
func ctxChainHas(v ssa.Value, w *ssa.Call, depth int) bool {
	if v == ssa.Value(w) {
		return true
	}
	if depth == 0 {
		return false
	}
	call := asCall(v)
	if call == nil || calleeName(&call.Call) != "context.WithValue" {
		return false
	}
	for _, o := range originsOf(call.Call.Args[0]) {
		if ctxChainHas(o.V, w, depth-1) {
			return true
		}
	}
	return false
}

// ruleMemoContextRooted (shared by C07 and C09): every context a memoising accessor writes into is derived — through
// WithValue steps only — from the Context() of the request the accessor was GIVEN. A stage result cached by another
// stage's private request copy therefore never leaks into the request handed back to the caller.
func ruleMemoContextRooted(c *Ctx, rule string) {
	p := c.P
	for _, name := range []string{"(*rt/middleware.Context).ContentType", "(*rt/middleware.Context).RouteInfo", "(*rt/middleware.Context).ResponseFormat",
		"(*rt/middleware.Context).Authorize", "(*rt/middleware.Context).BindAndValidate", "(*rt/middleware.Context).ResetAuth"} {
		f := p.Fn(name)
		var req *ssa.Parameter
		for _, prm := range f.Params {
			if typeStr(prm.Type()) == "*net/http.Request" {
				req = prm
			}
		}
		if req == nil {
			fatalf("anchor: %s has no *http.Request parameter", name)
		}
		var rooted func(v ssa.Value, depth int) (bool, string)
		rooted = func(v ssa.Value, depth int) (bool, string) {
			if depth == 0 {
				return false, "derivation too deep"
			}
			os := originsOf(v)
			if len(os) == 0 {
				return false, "no origin"
			}
			for _, o := range os {
				call := asCall(o.V)
				if call == nil {
					return false, "origin " + describeOrigin(&o)
				}
				switch calleeName(&call.Call) {
				case "(*net/http.Request).Context":
					recv, _ := callArgs(&call.Call)
					if ok, _ := allOrigins(recv, oIsValue(req)); !ok {
						return false, "the context of a request other than the one given: " + describe(recv)
					}
				case "context.WithValue":
					if ok, why := rooted(call.Call.Args[0], depth-1); !ok {
						return false, why
					}
				default:
					return false, "origin " + describeOrigin(&o)
				}
			}
			return true, ""
		}
		n := 0
		for _, site := range callSitesUnder(f, "context.WithValue") {
			ci := site.In.(ssa.CallInstruction)
			n++
			var ok bool
			var why string
			site.at(func() { ok, why = rooted(ci.Common().Args[0], 6) }) // (in this accessor's calling context when the store lives in a shared helper)
			c.obI(rule, ci, "memo-context-rooted-in-given-request", ok, "the context a stage result is stored into derives from the Context() of the request the accessor was given (through WithValue steps only), so the request handed back carries this stage's result on top of what the caller's request already carried — nothing cached by another stage's private copy", why)
		}
		c.obRF(rule, f, "memo-writes", n >= 1, "the accessor stores its result in a derived context", "")
	}
}

// reachesThroughAppends: v is target, or is built from it by phis and appends (the accumulator of a filter loop).
func reachesThroughAppends(v, target ssa.Value, seen map[ssa.Value]bool) bool {
	if v == target {
		return true
	}
	if seen[v] {
		return false
	}
	seen[v] = true
	switch x := v.(type) {
	case *ssa.Phi:
		for _, e := range x.Edges {
			if reachesThroughAppends(e, target, seen) {
				return true
			}
		}
	case *ssa.Call:
		if calleeName(&x.Call) == "builtin append" {
			return reachesThroughAppends(x.Call.Args[0], target, seen)
		}
	}
	return false
}

// ruleFreshMatchedRoute: the router's Lookup returns nil or a *MatchedRoute it has just allocated. (C09: no state
// shared between concurrent requests; C02: the authenticator that Authorize records in the route — and on which
// NeedsAuth answers — belongs to one request.)
func ruleFreshMatchedRoute(c *Ctx, rule, text, why string) {
	lk := c.P.Fn("(*rt/middleware.defaultRouter).Lookup")
	isFreshRoute := func(o Origin) bool {
		a, ok := o.V.(*ssa.Alloc)
		return ok && a.Heap && a.Parent() == lk && typeStr(a.Type()) == "*rt/middleware.MatchedRoute"
	}
	for _, r := range returnsOf(lk) {
		if len(r.Results) < 1 {
			continue
		}
		ok, bad := allOrigins(r.Results[0], oNil(), isFreshRoute)
		c.obI(rule, r, "fresh-matched-route", ok, text, why+": "+describeOrigin(bad))
	}
}

// ruleDencoParamsPerCall: the trie lookup collects the captured parameters into a slice made for this very call
// (C09: no memory shared between concurrent lookups; C05: the parameters a lookup returned keep carrying the matched
// text after later lookups).
func ruleDencoParamsPerCall(c *Ctx, rule string) {
	dl := c.P.Fn("(*rt/middleware/denco.Router).Lookup")
	n := 0
	for _, ci := range callsIn(dl, "(*rt/middleware/denco.doubleArray).lookup") {
		_, a := callArgs(ci.Common())
		var buf ssa.Value
		for _, x := range a {
			if typeStr(x.Type()) == "[]rt/middleware/denco.Param" {
				buf = x
			}
		}
		isMk := false
		if buf != nil {
			_, isMk = buf.(*ssa.MakeSlice)
			if !isMk {
				if isNilConst(buf) {
					isMk = true
				} else if ok, _ := allOrigins(buf, func(o Origin) bool { _, mk := o.V.(*ssa.MakeSlice); return mk }); ok {
					isMk = true
				}
			}
		}
		n++
		c.obI(rule, ci, "denco-params-per-call", isMk, "the trie lookup collects parameters into a slice made for this call", "params buffer "+describe(buf))
	}
	c.obRF(rule, dl, "denco-lookup-walks-trie", n >= 1, "Router.Lookup walks the double array", "")
}

// mapFieldMadePerRequest: every store to the map-typed field T.field, anywhere in the library, is made by
// request-reachable code and stores a map made right there (so the map held by a per-request object is itself per
// request). A field that is also filled at construction time holds a map shared by all requests.
func mapFieldMadePerRequest(p *Prog, reach map[*ssa.Function]bool, typeName, field string) bool {
	n := 0
	for _, fn := range p.LibFuncs() {
		for _, st := range fieldStores(fn, typeName, field) {
			if st.Parent() != fn {
				continue
			}
			n++
			if !reach[fn] {
				return false
			}
			for _, o := range originsOf(st.Val) {
				if _, isMk := o.V.(*ssa.MakeMap); !isMk {
					return false
				}
			}
		}
	}
	return n > 0
}

// ruleResetAuthShadows: ResetAuth ALWAYS hands back a shallow copy of the request whose context shadows principal and
// scopes with nil — whatever the request held (a principal cached for an alternative without scopes included) — and it
// never writes through the request it is given (the caller's value, and every stage result memoised in it, stay as
// they were). Shared by C09 (R09.4) and C02 (a reset really forgets the cached admission).
func ruleResetAuthShadows(c *Ctx, rule string) {
	ra := c.P.Fn("(*rt/middleware.Context).ResetAuth")
	req := paramOf(ra, 0)
	wvs := withValueCalls(ra, "rt/middleware.contextKey")
	princ, scopes := int64Const(c.P, "rt/middleware", "ctxSecurityPrincipal"), int64Const(c.P, "rt/middleware", "ctxSecurityScopes")
	n := 0
	for _, r := range realReturns(ra) {
		n++
		okCopy, bad := allOrigins(resOf(r, 0), oCallWhere(-1, "(*net/http.Request).WithContext", func(w *ssa.Call) bool {
			okR, _ := allOrigins(w.Call.Args[0], oIsValue(req))
			return okR
		}))
		c.obI(rule, r, "reset-returns-a-shadowing-copy", okCopy, "every exit of ResetAuth returns request.WithContext(…): a copy whose context shadows the security keys (no 'nothing to reset' shortcut hands the cached principal back)", "it can return "+describeOrigin(bad))
		for _, k := range []int64{princ, scopes} {
			passed := true
			var writers []ssa.Instruction
			for call, kk := range wvs {
				if kk == k {
					if isNilConst(unboxed(wvArg(call, 2))) || isNilConst(wvArg(call, 2)) {
						writers = append(writers, call)
					}
				}
			}
			if len(writers) == 0 || pathExists(ra, nil, r, nil, isOneOf(writers...)) {
				passed = false
			}
			c.obI(rule, r, fmt.Sprintf("reset-shadows-key-%d", k), passed, "on every path ResetAuth shadows the principal and the scopes key with nil", "an exit is reachable without the key having been shadowed")
		}
	}
	c.obRF(rule, ra, "reset-returns", n >= 1, "ResetAuth returns a request", "")
	for _, in := range instrs(ra) {
		if st, ok := in.(*ssa.Store); ok {
			if toReq, _ := allOrigins(st.Addr, oIsValue(req)); toReq {
				c.obD(rule, st, "reset-never-writes-the-given-request", false, "ResetAuth does not store through the *http.Request it is given", "the caller's request value is overwritten in place")
			}
		}
	}
}

// ruleContentTypeAccessorParses: what Context.ContentType answers (and memoises) as the media type and charset is what
// runtime.ContentType parsed from the header — lower-cased, parameter-free — or the memoised result of an earlier such
// parse; never the raw header text (the consumer tables are keyed by the parsed form). Shared by C09, C06 and C19.
func ruleContentTypeAccessorParses(c *Ctx, rule string) {
	f := c.P.Fn("(*rt/middleware.Context).ContentType")
	parses := callsIn(f, "rt.ContentType")
	if len(parses) != 1 {
		c.obRF(rule, f, "accessor-parses-content-type", false, "Context.ContentType parses the header with runtime.ContentType", fmt.Sprintf("%d calls", len(parses)))
		return
	}
	pc := parses[0].(*ssa.Call)
	n := 0
	for _, r := range realReturns(f) {
		if len(r.Results) < 4 || !isNilConst(resOf(r, 3)) {
			continue
		}
		n++
		for i, field := range []string{"MediaType", "Charset"} {
			ok, bad := allOrigins(resOf(r, i), oIsValue(resultOf(pc, i)), oFieldLoad("rt/middleware.contentTypeValue", field, nil))
			c.obI(rule, r, "accessor-answers-the-parsed-"+strings.ToLower(field), ok, "Context.ContentType answers runtime.ContentType's "+field+" (or the memoised one), never text taken from the header directly", "it can answer "+describeOrigin(bad))
		}
	}
	c.obRF(rule, f, "accessor-success-returns", n >= 2, "Context.ContentType has a cache-hit and a computed success return", fmt.Sprintf("%d", n))
	// … and the same holds for what it memoises
	for _, in := range instrs(f) {
		st, ok := in.(*ssa.Store)
		if !ok {
			continue
		}
		for i, field := range []string{"MediaType", "Charset"} {
			if _, isF := fieldAddrOf(st.Addr, "rt/middleware.contentTypeValue", field); isF {
				okV, bad := allOrigins(st.Val, oIsValue(resultOf(pc, i)))
				c.obI(rule, st, "memoised-"+strings.ToLower(field)+"-is-the-parsed-one", okV, "the "+field+" memoised in the request context is runtime.ContentType's", "it can be "+describeOrigin(bad))
			}
		}
	}
}

// onlyRootedIn: fn is the named function, or a looked-through helper entered only from it.
func onlyRootedIn(fn *ssa.Function, name string) bool {
	if fnName(fn) == name {
		return true
	}
	if !isTransparent(fn) {
		return false
	}
	rs := rootsOf(fn)
	for _, r := range rs {
		if fnName(r) != name {
			return false
		}
	}
	return len(rs) > 0
}

// fnPkgPathOfCallee: the package path of a call's statically resolved callee (or of the interface method's package).
func fnPkgPathOfCallee(c *ssa.CallCommon) string {
	if c.IsInvoke() {
		if c.Method.Pkg() != nil {
			return c.Method.Pkg().Path()
		}
		return ""
	}
	if sc := c.StaticCallee(); sc != nil {
		return fnPkgPath(sc)
	}
	return ""
}
