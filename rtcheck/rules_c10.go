package main

import (
	"fmt"
	"go/token"
	"sort"
	"strings"

	"golang.org/x/tools/go/ssa"
)

const clientReqT = "rt/client.request"

func init() {
	register(&Property{
		ID: "C10",
		Explanation: "Decides in request.buildHTTP / Runtime: R10.1 the URL text handed to http.NewRequestWithContext is path.Join(basePath.Path, pattern.Path) into which every placeholder is substituted AFTER the join by strings.ReplaceAll with url.PathEscape of the value (so a value can neither be cleaned away nor add a segment), plus the reinstated trailing slash which is appended only when the pattern ended in one; " +
			"Round 12: R10.3 the scheme choice depends on the list of schemes only. " +
			"R10.2 the query is only ever assigned from url.Values.Encode() of the request's query, static parameters reach it only when the caller has not set that name (key presence in the caller's parameters), and pattern values replace base-path values; R10.3 the scheme comes from pickScheme (transport's own list first), selectScheme scans the WHOLE list for https and returns an element of it, host comes from the runtime; " +
			"R10.4 every error of URL parsing, request construction and parameter setting is returned. " +
			"R10.2 also: the caller's parameters are read for the static merge only after the auth writer ran; R10.3 also: client.New stores the base path verbatim (at most a leading slash is added). " +
			"R10.2 also: SetQueryParam leaves an entry under the name on every successful call (an empty override is still an override). " +
			"R10.1 also: SetPathParam always records, and createHttpRequest neither replaces nor re-resolves the URL buildHTTP built. " +
			"R10.1 also: each placeholder is substituted on every iteration (only its absence from the text excuses one) and SetPathParam records the value verbatim; R10.2 also: a static parameter is merged whenever the caller did not set its name. " +
			"NOT decided: injectivity of escaping (url.PathEscape), value-level precedence outcomes.",
		Run: runC10,
	})
}

func runC10(c *Ctx) {
	p := c.P
	f := p.Fn("(*rt/client.request).buildHTTP")
	nrs := callsIn(f, "net/http.NewRequestWithContext")
	c.obRF("R10.1", f, "builds-request", len(nrs) == 1, "buildHTTP constructs one http.Request", fmt.Sprintf("%d", len(nrs)))
	if len(nrs) != 1 {
		return
	}
	nr := nrs[0].(*ssa.Call)
	isURLPath := func(parse string) VPred {
		return vFieldLoad("net/url.URL", "Path", vOrigins(oCall(0, parse)))
	}
	_ = isURLPath
	pathOfParsed := vFieldLoad("net/url.URL", "Path", vOrigins(oCall(0, "net/url.Parse")))
	// walk the construction of the URL text
	var joins, repls []*ssa.Call
	okShape := true
	why := ""
	seen := map[ssa.Value]bool{}
	var walk func(v ssa.Value)
	walk = func(v ssa.Value) {
		for _, o := range originsOf(v) {
			if seen[o.V] {
				continue
			}
			seen[o.V] = true
			switch x := o.V.(type) {
			case *ssa.Call:
				switch calleeName(&x.Call) {
				case "path.Join":
					joins = append(joins, x)
				case "strings.ReplaceAll":
					repls = append(repls, x)
					walk(x.Call.Args[0])
				case "strings.Replace":
					// strings.Replace(s, old, new, -1) is how ReplaceAll is defined
					if n, isK := constInt(x.Call.Args[3]); isK && n < 0 {
						repls = append(repls, x)
						walk(x.Call.Args[0])
					} else {
						okShape, why = false, "URL text derives from a bounded strings.Replace"
					}
				default:
					okShape, why = false, "URL text derives from "+calleeName(&x.Call)
				}
			case *ssa.BinOp:
				if s, ok := constString(x.Y); ok && x.Op == token.ADD && s == "/" {
					walk(x.X)
					// only when the pattern ended in a slash
					isReinstate := func(v ssa.Value) bool {
						ok, _ := allOrigins(v, func(o Origin) bool { _, isB := constBool(o.V); return isB })
						return ok
					}
					_ = isReinstate
					// the slash is appended on some paths only (conditionally on the pattern's shape)
					uncond := true
					for _, r := range successReturns(f, 1) {
						if pathExists(f, nil, r, nil, isOneOf(x)) {
							uncond = false
						}
					}
					if uncond {
						okShape, why = false, "a slash is appended unconditionally"
					}
				} else if x.Op == token.ADD && suffixIsSlashOrNothing(x.Y) {
					// urlPath += suffix with suffix "/" or "": the conditional slash, decided when the suffix was chosen
					walk(x.X)
				} else {
					okShape, why = false, "URL text is built by concatenation: "+describe(x)
				}
			default:
				okShape, why = false, "URL text derives from "+describe(o.V)
			}
		}
	}
	walk(nr.Call.Args[2])
	c.obI("R10.1", nr, "url-text-shape", okShape && len(joins) == 1 && len(repls) >= 1, "the URL text is path.Join(..) with placeholders substituted by strings.ReplaceAll and an optional reinstated trailing slash", why)
	for _, j := range joins {
		elems, ok := sliceLitElems(j.Call.Args[0])
		okJ := ok && len(elems) == 2 && pathOfParsed(elems[0]) && pathOfParsed(elems[1])
		c.obI("R10.1", j, "join-before-substitution", okJ, "path.Join is applied to the base path and the PATTERN (placeholders still in place): values are substituted after the join, so '..', '.' or an empty value cannot remove or collapse a segment", "an argument of path.Join is not the parsed base path / pattern path (a value substituted before the join could be cleaned away)")
	}
	for _, r := range repls {
		a := r.Call.Args
		okV, bad := allOrigins(a[2], oCall(-1, "net/url.PathEscape"))
		c.obI("R10.1", r, "value-escaped-at-substitution", okV, "every placeholder is replaced by url.PathEscape(value): a value can never add a separator, a query or a fragment", "replacement originates from "+describeOrigin(bad))
		// the placeholder searched is "{"+k+"}"
		lit, name := concatLiteral(a[1])
		c.obI("R10.1", r, "placeholder-braced", lit == 2 && name != nil, "the text replaced is the braced placeholder {name}", "")
		// it happens in a loop over r.pathParams
		inLoop := false
		for _, l := range mapLoops(f, vFieldLoadO(clientReqT, "pathParams")) {
			if l.Header.Dominates(r.Block()) {
				inLoop = true
				// … on EVERY iteration: no value — an empty one in particular — is a reason to leave its placeholder in place
				// (only "this placeholder does not occur in the text" excuses an iteration: the replacement would be a no-op)
				noPlaceholder := func(cond ssa.Value, branch bool) bool {
					cnd, b := stripNot(cond, branch)
					call := asCall(cnd)
					if call == nil || calleeName(&call.Call) != "strings.Contains" {
						return false
					}
					if lit2, nm := concatLiteral(call.Call.Args[1]); !(lit2 == 2 && nm != nil) {
						if k, isK := constString(call.Call.Args[1]); !isK || k != "{" {
							return false
						}
					}
					return !b
				}
				c.obI("R10.1", r, "substituted-on-every-iteration", l.everyIterationUnless(noPlaceholder, isOneOf(r)), "each path parameter's placeholder is substituted whatever the value is (an empty value yields an empty segment, not a leftover {name})", "an iteration of the substitution loop can skip the replacement: the placeholder reaches the wire as %7Bname%7D")
				if es := originsOf(a[2]); len(es) == 1 {
					if pe := asCall(es[0].V); pe != nil {
						okval, _ := allOrigins(pe.Call.Args[0], oIsValue(extractOf(l.Next, 2)))
						c.obI("R10.1", r, "escapes-the-parameter-value", okval, "the value escaped is the path parameter's value", "")
					}
				}
			}
		}
		c.obI("R10.1", r, "all-path-params-substituted", inLoop, "every path parameter is substituted", "")
	}
	// the joined-and-substituted text is never looked at again: it only flows on into the next substitution, into the
	// reinstated slash and into the request. (Whether the slash is reinstated is decided by the PATTERN alone — a test
	// on the substituted text makes an empty last value lose its segment.)
	{
		text := map[ssa.Value]bool{}
		for _, j := range joins {
			text[j] = true
		}
		for _, r := range repls {
			text[r] = true
		}
		for changed := true; changed; {
			changed = false
			for _, in := range instrs(f) {
				switch x := in.(type) {
				case *ssa.Phi:
					if text[x] {
						continue
					}
					for _, e := range x.Edges {
						if text[e] {
							text[x] = true
							changed = true
						}
					}
				case *ssa.BinOp:
					if !text[x] && x.Op == token.ADD && text[x.X] {
						text[x] = true
						changed = true
					}
				case *ssa.Call:
					// the text handed to a looked-through helper: the helper's parameter and what it returns carry it on
					if callee := transparentCallee(x); callee != nil {
						for i, a := range x.Call.Args {
							if text[a] && i < len(callee.Params) {
								if !text[callee.Params[i]] {
									text[callee.Params[i]] = true
									changed = true
								}
								if !text[x] && typeStr(x.Type()) == "string" {
									text[x] = true
									changed = true
								}
							}
						}
					}
				}
			}
		}
		var vals []ssa.Value
		for v := range text {
			vals = append(vals, v)
		}
		sort.Slice(vals, func(i, j int) bool { return vals[i].Pos() < vals[j].Pos() })
		for _, v := range vals {
			refs := v.Referrers()
			if refs == nil {
				continue
			}
			for _, ref := range *refs {
				okUse := false
				switch x := ref.(type) {
				case *ssa.Phi, *ssa.DebugRef:
					okUse = true
				case *ssa.BinOp:
					okUse = text[x]
				case *ssa.Call:
					switch calleeName(&x.Call) {
					case "strings.ReplaceAll":
						okUse = x.Call.Args[0] == v
					case "strings.Replace":
						n, isK := constInt(x.Call.Args[3])
						okUse = x.Call.Args[0] == v && isK && n < 0
					case "strings.Contains":
						// "is there a placeholder (this placeholder) left at all?" — skipping a substitution that would change
						// nothing decides nothing about the values
						if x.Call.Args[0] == v {
							if k, isK := constString(x.Call.Args[1]); isK && k == "{" {
								okUse = true
							} else if lit, name := concatLiteral(x.Call.Args[1]); lit == 2 && name != nil {
								okUse = true
							}
						}
					case "net/http.NewRequestWithContext":
						okUse = x.Call.Args[2] == v
					default:
						okUse = transparentCallee(x) != nil && text[x] // handed to a helper that carries it on
						if n := strings.ToLower(calleeName(&x.Call)); strings.Contains(n, "debug") || strings.Contains(n, "log.") || strings.Contains(n, "logger") {
							okUse = true // diagnostics: no decision hangs on it
						}
					}
				case *ssa.MakeInterface:
					okUse = true // boxed for a variadic diagnostics call (judged at the call, if it is one that decides anything)
				case *ssa.Return:
					okUse = isTransparent(x.Parent())
				case *ssa.Store:
					okUse = true // spilled to a cell: the loads are followed by provenance
				}
				if !okUse {
					c.obI("R10.1", ref, "url-text-not-inspected", false, "the joined and substituted path text is only substituted into further, given its reinstated slash and handed to the request: nothing — in particular not the trailing-slash decision — depends on what the substituted values look like", "the substituted path text is used by "+describe(refValue(ref)))
				}
			}
		}
	}
	c.min("R10.1", 6)

	// R10.2 query
	sts := fieldStores(f, "net/url.URL", "RawQuery")
	c.obRF("R10.2", f, "sets-raw-query", len(sts) == 1, "the query is assigned once", fmt.Sprintf("%d stores", len(sts)))
	for _, st := range sts {
		ok, bad := allOrigins(st.Val, oCallWhere(-1, "(net/url.Values).Encode", func(e *ssa.Call) bool {
			return vFieldLoad(clientReqT, "query", nil)(e.Call.Args[0])
		}))
		c.obI("R10.2", st, "query-encoded", ok, "the raw query is url.Values.Encode() of the request's query (never concatenated text)", "origin "+describeOrigin(bad))
	}
	for _, fn := range p.LibFuncs("rt/client") {
		if fn == f {
			continue
		}
		for _, st := range fieldStores(fn, "net/url.URL", "RawQuery") {
			c.obI("R10.2", st, "foreign-raw-query", false, "only buildHTTP assigns the query", "store in "+fnName(fn))
		}
	}
	// the caller's parameters: the GetQueryParams() snapshot, or the request's own query map read directly
	isCallerParams := func(v ssa.Value) bool {
		if ok, _ := allOrigins(v, oCall(-1, "(*rt/client.request).GetQueryParams")); ok {
			return true
		}
		return vFieldLoad(clientReqT, "query", nil)(v) || vFieldLoadO(clientReqT, "query")(v)
	}
	// SetQueryParam records the NAME whatever the number of values: buildHTTP tells "the caller set this name" by key
	// presence, so an override with no values (send nothing under this name) must still leave an entry
	if sqp := p.FnOpt("(*rt/client.request).SetQueryParam"); sqp != nil && len(sqp.Params) >= 2 {
		records := func(in ssa.Instruction) bool {
			if mu, ok := in.(*ssa.MapUpdate); ok {
				return (vFieldLoad(clientReqT, "query", nil)(mu.Map) || vFieldLoadO(clientReqT, "query")(mu.Map) || freshMapStoredTo(mu, clientReqT, "query")) && sameOrigins(mu.Key, sqp.Params[1])
			}
			if isCallInstrTo("(net/url.Values).Set")(in) {
				_, a := callArgs(in.(ssa.CallInstruction).Common())
				return len(a) > 0 && sameOrigins(a[0], sqp.Params[1])
			}
			return false
		}
		for _, r := range returnsOf(sqp) {
			if len(r.Results) != 1 || !isNilConst(r.Results[0]) {
				continue
			}
			c.obI("R10.2", r, "override-recorded-for-any-number-of-values", !pathExists(sqp, nil, r, nil, records), "SetQueryParam leaves an entry under the name on every successful call, also for an empty list of values: the caller's override is recognised by key presence", "a successful SetQueryParam can leave the name absent (e.g. values added one by one: none for an empty list) — the pattern's or base path's value of that name comes back")
		}
	}
	// a path parameter given to the request is always recorded: substitution runs over the JOINED base path and pattern,
	// so whether the pattern alone mentions the name says nothing about whether it is needed
	if spp := p.FnOpt("(*rt/client.request).SetPathParam"); spp != nil && len(spp.Params) >= 3 {
		records := func(in ssa.Instruction) bool {
			mu, ok := in.(*ssa.MapUpdate)
			return ok && (vFieldLoad(clientReqT, "pathParams", nil)(mu.Map) || vFieldLoadO(clientReqT, "pathParams")(mu.Map) || freshMapStoredTo(mu, clientReqT, "pathParams")) && sameOrigins(mu.Key, spp.Params[1])
		}
		// … and verbatim: the value recorded is the value given (escaping happens at substitution; trimming or folding here
		// makes different values build the same URL)
		for _, in := range instrs(spp) {
			if mu, ok := in.(*ssa.MapUpdate); ok && records(in) {
				okVal, bad := allOrigins(mu.Value, oIsValue(spp.Params[2]))
				c.obI("R10.1", mu, "path-parameter-recorded-verbatim", okVal, "SetPathParam records the value exactly as given", "the value recorded originates from "+describeOrigin(bad))
			}
		}
		for _, r := range returnsOf(spp) {
			if len(r.Results) != 1 || !isNilConst(r.Results[0]) {
				continue
			}
			c.obI("R10.1", r, "path-parameter-always-recorded", !pathExists(spp, nil, r, nil, records), "every successful SetPathParam records the value under the name (no filtering against the pattern: the base path can carry placeholders too)", "a successful SetPathParam can leave the parameter unrecorded: its placeholder reaches the wire unsubstituted")
		}
	}
	// setting a parameter of the request's query: SetQueryParam(k, v...) or, spelled out, r.query[k] = v
	type valuesOp struct {
		In       ssa.Instruction
		Map, Key ssa.Value
	}
	var sq []valuesOp
	for _, ci := range callsIn(f, "(*rt/client.request).SetQueryParam") {
		_, a := callArgs(ci.Common())
		sq = append(sq, valuesOp{ci, nil, a[0]})
	}
	for _, in := range instrs(f) {
		if mu, ok := in.(*ssa.MapUpdate); ok && in.Parent() == f && (vFieldLoad(clientReqT, "query", nil)(mu.Map) || vFieldLoadO(clientReqT, "query")(mu.Map)) {
			sq = append(sq, valuesOp{mu, mu.Map, mu.Key})
		}
	}
	var tests []*ssa.Lookup
	for _, in := range instrs(f) {
		if lk, ok := in.(*ssa.Lookup); ok && lk.CommaOk && isCallerParams(lk.X) {
			tests = append(tests, lk)
		}
	}
	c.obRF("R10.2", f, "merges-static-query", len(sq) == 1, "static query parameters are merged into the caller's", fmt.Sprintf("%d presence tests/%d SetQueryParam", len(tests), len(sq)))
	if len(sq) == 1 {
		absent := factBool(func(v ssa.Value) bool {
			ex, ok := v.(*ssa.Extract)
			if !ok || ex.Index != 1 {
				return false
			}
			lk, ok := ex.Tuple.(*ssa.Lookup)
			return ok && lk.CommaOk && isCallerParams(lk.X)
		}, false)
		c.obI("R10.2", sq[0].In, "caller-parameters-win", guardedBy(sq[0].In, nil, absent), "a static (pattern/base path) query parameter is set only when the caller's parameters do not contain that NAME (key presence, whatever its value — an explicitly empty value still wins)", "the static value can override a parameter the caller has set")
		// … and it IS set whenever they do not: nothing else about the static parameter (an empty value — a bare flag such as
		// ?pretty —, its length, its name) keeps it out of the URL
		present := factBool(func(v ssa.Value) bool {
			ex, ok := v.(*ssa.Extract)
			if !ok || ex.Index != 1 {
				return false
			}
			lk, ok := ex.Tuple.(*ssa.Lookup)
			return ok && lk.CommaOk && isCallerParams(lk.X)
		}, true)
		for _, l := range mapLoops(f, nil) {
			if !(l.Header.Dominates(sq[0].In.Block()) && reachableFrom(sq[0].In.Block(), l.Header)) {
				continue
			}
			c.obI("R10.2", sq[0].In, "static-parameter-kept-unless-overridden", l.everyIterationUnless(present, isOneOf(sq[0].In)), "every static query parameter whose name the caller did not set is merged into the request's query", "an iteration of the merge can skip a static parameter although the caller did not set its name (e.g. when its value is empty): a flag fixed in the pattern or base path disappears")
		}
		// the key tested is the key being set
		for _, lk := range tests {
			c.obI("R10.2", lk, "same-name-tested", lk.Index == sq[0].Key, "the name tested is the name being set", "")
		}
	}
	ruleQuerySnapshotAfterAuth(c, "R10.2")
	// pattern over base path
	// (Values.Del(k) or delete(m, k); Values.Add(k, v) or m[k] = append(m[k], v))
	isValuesMap := func(v ssa.Value) bool {
		t := typeStr(v.Type())
		return t == "net/url.Values" || t == "map[string][]string"
	}
	var dels, addsq []valuesOp
	for _, ci := range callsIn(f, "(net/url.Values).Del") {
		recv, a := callArgs(ci.Common())
		dels = append(dels, valuesOp{ci, recv, a[0]})
	}
	for _, ci := range callsIn(f, "(net/url.Values).Add") {
		recv, a := callArgs(ci.Common())
		addsq = append(addsq, valuesOp{ci, recv, a[0]})
	}
	for _, in := range instrs(f) {
		if in.Parent() != f {
			continue
		}
		if ci, ok := in.(*ssa.Call); ok && calleeName(&ci.Call) == "builtin delete" && len(ci.Call.Args) == 2 && isValuesMap(ci.Call.Args[0]) {
			dels = append(dels, valuesOp{ci, ci.Call.Args[0], ci.Call.Args[1]})
		}
		if mu, ok := in.(*ssa.MapUpdate); ok && isValuesMap(mu.Map) && !(vFieldLoad(clientReqT, "query", nil)(mu.Map) || vFieldLoadO(clientReqT, "query")(mu.Map)) {
			// m[k] = append(m[k], v)
			if ap := asCall(mu.Value); ap != nil && calleeName(&ap.Call) == "builtin append" {
				if lk, isLk := ap.Call.Args[0].(*ssa.Lookup); isLk && sameOrigins(lk.X, mu.Map) && lk.Index == mu.Key {
					addsq = append(addsq, valuesOp{mu, mu.Map, mu.Key})
				}
			}
		}
	}
	okPrec := len(dels) == 1 && len(addsq) == 1
	if okPrec {
		recvD, aD := dels[0].Map, []ssa.Value{dels[0].Key}
		recvA, aA := addsq[0].Map, []ssa.Value{addsq[0].Key}
		okPrec = sameOrigins(recvD, recvA) && aD[0] == aA[0]
		twoPass := false
		if sameOrigins(recvD, recvA) && aD[0] != aA[0] {
			// two passes over the pattern's query: first every colliding name is deleted, then all values are added
			var lD, lA *mapLoop
			ls := mapLoops(f, vOrigins(oURLQuery(nil)))
			for i := range ls {
				if k := extractOf(ls[i].Next, 1); k != nil {
					if k == aD[0] {
						lD = &ls[i]
					}
					if k == aA[0] {
						lA = &ls[i]
					}
				}
			}
			if lD != nil && lA != nil && lD.Header != lA.Header && sameOrigins(lD.X, lA.X) &&
				lD.Header.Dominates(lA.Header) && !reachableFrom(lA.Header, lD.Header) {
				present := factBool(func(v ssa.Value) bool {
					ex, ok := v.(*ssa.Extract)
					if !ok || ex.Index != 1 {
						return false
					}
					lk, ok := ex.Tuple.(*ssa.Lookup)
					return ok && lk.CommaOk && sameOrigins(lk.X, recvD)
				}, false)
				// every iteration of the first pass that finds the name present deletes it
				if !pathExists(f, lD.Next, lD.Next, present, isOneOf(dels[0].In)) {
					twoPass, okPrec = true, true
				}
			}
		}
		okB, _ := allOrigins(recvD, oURLQuery(func(u ssa.Value) bool {
			okk, _ := allOrigins(u, oCallWhere(0, "net/url.Parse", func(pp *ssa.Call) bool { return pp.Call.Args[0] == ssa.Value(paramOf(f, 1)) }))
			return okk
		}))
		okPrec = okPrec && okB
		// present -> Del before Add
		for _, l := range mapLoops(f, vOrigins(oURLQuery(nil))) {
			if twoPass || !l.Header.Dominates(addsq[0].In.Block()) {
				continue
			}
			present := factBool(func(v ssa.Value) bool {
				ex, ok := v.(*ssa.Extract)
				if !ok || ex.Index != 1 {
					return false
				}
				lk, ok := ex.Tuple.(*ssa.Lookup)
				return ok && lk.CommaOk && sameOrigins(lk.X, recvD)
			}, false)
			if pathExists(f, l.Next, addsq[0].In, present, isOneOf(dels[0].In)) {
				okPrec = false
			}
		}
	}
	c.obF("R10.2", f, "pattern-over-base-path", okPrec, "a query parameter fixed in the pattern replaces (Del then Add) the one of the same name fixed in the base path", "")
	c.min("R10.2", 5)

	// R10.3 scheme / host
	ch := p.Fn("(*rt/client.Runtime).createHttpRequest")
	for _, st := range fieldStores(ch, "net/url.URL", "Scheme") {
		ok, _ := allOrigins(st.Val, oCallWhere(-1, "(*rt/client.Runtime).pickScheme", func(ps *ssa.Call) bool {
			_, a := callArgs(&ps.Call)
			return vFieldLoadO("rt.ClientOperation", "Schemes")(a[0])
		}))
		if !ok {
			// a fallback to the constant "http" on the (never taken) branch "the scheme is still empty"
			if k, isK := constString(st.Val); isK && k == "http" {
				isScheme := func(v ssa.Value) bool {
					_, okF := fieldLoad(v, "net/url.URL", "Scheme")
					if okF {
						return true
					}
					okP, _ := allOrigins(v, oCall(-1, "(*rt/client.Runtime).pickScheme"))
					return okP
				}
				ok = guardedBy(st, nil, factEqString(isScheme, "", true))
			}
		}
		c.obI("R10.3", st, "scheme-from-pickScheme", ok, "the URL scheme is pickScheme(operation.Schemes)", "")
	}
	for _, fld := range []struct{ t, f string }{{"net/url.URL", "Host"}, {"net/http.Request", "Host"}, {"net/url.URL", "Scheme"}} {
		var sts []ssa.Instruction
		for _, st := range fieldStores(ch, fld.t, fld.f) {
			if fld.f == "Host" {
				c.obI("R10.3", st, "host-from-runtime", vFieldLoadO("rt/client.Runtime", "Host")(st.Val), "host is the runtime's host", "")
			}
			sts = append(sts, st)
		}
		// … assigned UNCONDITIONALLY: whatever the built URL happens to carry (a "//host" a path value produced), every
		// request handed out goes to the runtime's host under the picked scheme
		for _, r := range realReturns(ch) {
			if len(r.Results) != 3 || isNilConst(resOf(r, 1)) || len(sts) == 0 {
				continue
			}
			c.obI("R10.3", r, "target-"+strings.ToLower(fld.f)+"-always-assigned", !pathExists(ch, nil, r, nil, isOneOf(sts...)), "every request createHttpRequest hands out has had "+fld.t+"."+fld.f+" assigned from the runtime, on every path", "a request can be handed out with the "+fld.f+" the URL builder left in it")
		}
	}
	// the URL buildHTTP produced is kept as it is — only its Scheme and Host fields are assigned: it is not re-resolved,
	// re-parsed or replaced (ResolveReference / JoinPath / Parse clean dot segments, which substituted values may contain)
	{
		for _, st := range fieldStores(ch, "net/http.Request", "URL") {
			c.obD("R10.1", st, "built-url-not-replaced", false, "createHttpRequest never replaces the request's URL", "the request URL is replaced by "+describe(st.Val))
		}
		for _, ci := range allCalls(ch) {
			switch n := calleeName(ci.Common()); n {
			case "(*net/url.URL).ResolveReference", "(*net/url.URL).JoinPath", "net/url.JoinPath", "(*net/url.URL).Parse", "path.Clean", "path.Join":
				if ci.Parent() == ch {
					c.obD("R10.1", ci, "built-url-not-re-resolved", false, "after buildHTTP the path of the URL is final: nothing in createHttpRequest cleans, joins or resolves it again (a path value of '.' or '..' would be lost)", baseName(n)+" is applied while completing the request URL")
				}
			}
		}
	}
	// which scheme is preferred depends on the list alone (https whenever it is among several): selectScheme reads no
	// state of the transport (host, port, TLS settings)
	if ss := p.FnOpt("(*rt/client.Runtime).selectScheme"); ss != nil && len(ss.Params) > 0 && ss.Signature.Recv() != nil {
		for _, in := range instrs(ss) {
			if fa, ok := in.(*ssa.FieldAddr); ok && in.Parent() == ss {
				if okR, _ := allOrigins(fa.X, oIsValue(ss.Params[0])); okR {
					c.obI("R10.3", fa, "scheme-choice-depends-on-the-list-only", false, "selectScheme decides from the offered schemes alone", "selectScheme reads Runtime."+fieldNameAt(fa))
				}
			}
		}
	}
	ps := p.Fn("(*rt/client.Runtime).pickScheme")
	sels := callsIn(ps, "(*rt/client.Runtime).selectScheme")
	okPS := len(sels) == 2
	// (the candidate list: the argument, or the receiver when the helper became a method of a list type)
	listOperand := func(ci ssa.CallInstruction) []ssa.Value {
		recv, a := callArgs(ci.Common())
		if len(a) == 0 && recv != nil {
			a = []ssa.Value{recv}
		}
		if len(a) == 0 {
			a = ci.Common().Args
		}
		for i := range a {
			if ct, isCT := a[i].(*ssa.ChangeType); isCT {
				a[i] = ct.X
			}
		}
		return a
	}
	if okPS && (len(listOperand(sels[0])) == 0 || len(listOperand(sels[1])) == 0) {
		okPS = false
	}
	if okPS {
		a0 := listOperand(sels[0])
		a1 := listOperand(sels[1])
		first, second := sels[0], sels[1]
		if !dominates(first, second) {
			first, second = second, first
			a0, a1 = a1, a0
		}
		okPS = vFieldLoadO("rt/client.Runtime", "schemes")(a0[0]) && a1[0] == ssa.Value(paramOf(ps, 0))
	}
	recognised := len(sels) == 2
	if len(sels) == 2 {
		// the nested form selectScheme(r.schemes, selectScheme(schemes, "http")), selectScheme taking the answer for "nothing
		// to select" as a parameter: the OUTER call's list wins, the inner call is its fallback, http the inner one's
		for oi := 0; oi < 2; oi++ {
			outer, inner := sels[oi], sels[1-oi]
			_, oa := callArgs(outer.Common())
			_, ia := callArgs(inner.Common())
			if len(oa) != 2 || len(ia) != 2 || oa[1] != inner.Value() {
				continue
			}
			k, isK := constString(ia[1])
			okPS = vFieldLoadO("rt/client.Runtime", "schemes")(oa[0]) && ia[0] == ssa.Value(paramOf(ps, 0)) && isK && k == "http"
			for _, r := range returnsOf(ps) {
				okPS = okPS && resOf(r, 0) == outer.Value()
			}
		}
	}
	if len(sels) == 1 {
		// one call in a loop over an ordered table of candidate lists: the order is the order of the table's elements
		a := listOperand(sels[0])
		if len(a) == 0 {
			a = []ssa.Value{nil}
		}
		if ad, isLd := derefLoad(a[0]); isLd {
			if ia, isIA := ad.(*ssa.IndexAddr); isIA {
				if elems, isLit := sliceLitElems(ia.X); isLit && len(elems) == 2 {
					recognised = true
					okPS = vFieldLoadO("rt/client.Runtime", "schemes")(elems[0]) && elems[1] == ssa.Value(paramOf(ps, 0))
					for _, l := range sliceLoops(ps, vIs(ia.X)) {
						okPS = okPS && l.noEarlyExitExcept(func(r *ssa.Return) bool {
							// leaving early is fine only with the scheme just selected
							ok, _ := allOrigins(resOf(r, 0), oIsValue(sels[0].Value()))
							return ok
						})
					}
				}
			}
		}
	}
	if !recognised {
		c.obRF("R10.3", ps, "transport-schemes-first", false, "pickScheme prefers the transport's own scheme list, then the operation's, then http", fmt.Sprintf("%d selectScheme calls", len(sels)))
	} else {
		c.obF("R10.3", ps, "transport-schemes-first", okPS, "pickScheme prefers the transport's own scheme list, then the operation's, then http", "")
	}
	for _, r := range returnsOf(ps) {
		ok, _ := allOrigins(r.Results[0], oCall(-1, "(*rt/client.Runtime).selectScheme"), oConstString("http"))
		c.obI("R10.3", r, "pick-result", ok, "pickScheme returns a selected scheme or http", "")
	}
	ss := p.Fn("(*rt/client.Runtime).selectScheme")
	schemes := paramOf(ss, 0)
	isElem := func(o Origin) bool {
		ad, ok := derefLoad(o.V)
		if !ok {
			return false
		}
		ia, ok := ad.(*ssa.IndexAddr)
		if !ok {
			return false
		}
		if ia.X == ssa.Value(schemes) {
			return true
		}
		same, _ := allOrigins(ia.X, oIsValue(schemes)) // (the list handed on to a search helper)
		return same
	}
	elemIsHTTPS := factEqString(func(v ssa.Value) bool { ok, _ := allOrigins(v, isElem); return ok }, "https", true)
	for _, r := range returnsOf(ss) {
		ok, bad := allOrigins(r.Results[0], oConstString(""), isElem, func(o Origin) bool {
			// the caller's own answer for "nothing to select", handed in as a further string parameter (pickScheme's
			// rules judge what is handed in)
			if prm, isP := o.V.(*ssa.Parameter); isP && prm.Parent() == ss && prm != schemes && typeStr(prm.Type()) == "string" {
				return true
			}
			return false
		}, func(o Origin) bool {
			// the constant "https" stands for an element when the return is reached only after an element compared equal to it
			s, isC := constString(o.V)
			return isC && s == "https" && guardedBy(r, nil, elemIsHTTPS)
		})
		if phi, isPhi := r.Results[0].(*ssa.Phi); !ok && isPhi {
			// the constant may arrive on one edge of a merge only: that edge must lie behind "an element equals https"
			ok = true
			for i, e := range phi.Edges {
				if s, isC := constString(e); isC && s == "https" {
					if !edgeGuarded(phi.Block().Preds[i], phi.Block(), nil, elemIsHTTPS) {
						ok = false
					}
					continue
				}
				if okE, _ := allOrigins(e, oConstString(""), isElem); !okE {
					ok = false
				}
			}
		}
		c.obI("R10.3", r, "select-returns-element", ok, "selectScheme returns an element of the list it was given (or \"\")", "origin "+describeOrigin(bad))
	}
	loops := sliceLoops(ss, nil)
	okScan := len(loops) == 1
	if okScan && loops[0].X != ssa.Value(schemes) {
		okScan, _ = allOrigins(loops[0].X, oIsValue(schemes)) // (the whole list handed on to a search helper)
	}
	c.obF("R10.3", ss, "scans-whole-list", okScan, "the search for https ranges over the whole scheme list", "the loop does not range over the `schemes` parameter itself (a re-sliced or partial scan can miss https)")
	if len(loops) == 1 {
		l := loops[0]
		// the loop is left early only when https was found
		inLoop := map[*ssa.BasicBlock]bool{l.Header: true}
		for _, b := range l.Header.Parent().Blocks {
			if b != l.Header && l.Header.Dominates(b) && reachableFrom(b, l.Header) {
				inLoop[b] = true
			}
		}
		restoreEnv := func() {}
		if lf := l.Header.Parent(); lf != ss {
			// the scan lives in a helper: judge it in the calling context of selectScheme
			for _, fr := range framesUnder(ss) {
				if fr.fn == lf {
					saved := paramEnv
					paramEnv = fr.env
					restoreEnv = func() { paramEnv = saved }
					break
				}
			}
		}
		isHTTPS := factEqString(func(v ssa.Value) bool {
			ok, _ := allOrigins(v, func(o Origin) bool { ad, okk := derefLoad(o.V); return okk && ad == ssa.Value(l.Elem) })
			return ok
		}, "https", true)
		for b := range inLoop {
			for i, s := range b.Succs {
				if inLoop[s] || b == l.Header {
					continue
				}
				iff, ok := lastInstr(b).(*ssa.If)
				okE := ok && isHTTPS(iff.Cond, i == 0)
				if !okE {
					okE = guardedBy(lastInstr(b), l.Elem, isHTTPS)
				}
				c.obI("R10.3", lastInstr(b), "scan-stops-only-at-https", okE, "the scan is abandoned only when https has been found", "the scan can stop at another scheme")
			}
		}
		// assignment only of https
		for _, in := range instrs(ss) {
			phi, ok := in.(*ssa.Phi)
			if !ok {
				continue
			}
			for i, e := range phi.Edges {
				if ad, okk := derefLoad(e); okk && ad == ssa.Value(l.Elem) {
					c.obI("R10.3", lastInstr(phi.Block().Preds[i]), "chosen-in-scan-is-https", edgeGuarded(phi.Block().Preds[i], phi.Block(), l.Elem, isHTTPS), "the scan replaces the first scheme only by https", "")
				}
			}
		}
		restoreEnv()
	}
	c.min("R10.3", 8)

	// R10.4
	checkErrorsReturned(c, "R10.4", f, 1, func(call *ssa.Call) bool {
		// url.ParseQuery(u.RawQuery) with the error discarded is the definition of u.Query()
		return oURLQuery(nil)(Origin{V: call, Index: 0}) && errValueUnused(call)
	})
	checkErrorsReturned(c, "R10.4", ch, 2, nil)
	c.min("R10.4", 6)

	// the configured base path (and host) are kept verbatim: at most a missing leading slash is added — the static
	// query it may carry is never rewritten
	nw := p.Fn("rt/client.New")
	nBP := 0
	for _, fn := range p.LibFuncs("rt/client") {
		for _, st := range fieldStores(fn, "rt/client.Runtime", "BasePath") {
			if fn != nw {
				continue // (setters outside the constructor would be caught by R13.4's who-may-write)
			}
			nBP++
			var okV func(v ssa.Value, d int) bool
			okV = func(v ssa.Value, d int) bool {
				if d == 0 {
					return false
				}
				if v == ssa.Value(paramOf(nw, 1)) {
					return true
				}
				if vFieldLoad("rt/client.Runtime", "BasePath", nil)(v) {
					return true // re-reading what an earlier (checked) store put there
				}
				if bo, ok := v.(*ssa.BinOp); ok && bo.Op == token.ADD {
					if k, isK := constString(bo.X); isK && k == "/" {
						// "/" + basePath, or "/" + strings.TrimPrefix(basePath, "/") (the same text for every input)
						if tp := asCall(bo.Y); tp != nil && calleeName(&tp.Call) == "strings.TrimPrefix" {
							if pre, isP := constString(tp.Call.Args[1]); isP && pre == "/" {
								return okV(tp.Call.Args[0], d-1)
							}
						}
						return okV(bo.Y, d-1)
					}
				}
				if phi, ok := v.(*ssa.Phi); ok {
					for _, e := range phi.Edges {
						if !okV(e, d-1) {
							return false
						}
					}
					return true
				}
				return false
			}
			if k, isK := constString(st.Val); isK && k == "/" && !okV(st.Val, 4) {
				// the root path stored outright: what the normalisation yields for an empty base path. Whether the test in
				// front of the store admits anything else is a question about the VALUE the field holds there (a
				// re-assertion `if p == "" || p[0] != '/'` after the normalisation never fires) — not recognised, not a verdict
				c.obRI("R10.3", st, "base-path-verbatim", false, "the base path given to client.New is stored as given, at most prefixed with a missing '/': its static query values reach buildHTTP unchanged", "the constant \"/\" is stored; whether only for an empty base path is not decided")
				continue
			}
			c.obI("R10.3", st, "base-path-verbatim", okV(st.Val, 4), "the base path given to client.New is stored as given, at most prefixed with a missing '/': its static query values reach buildHTTP unchanged", "value "+describe(st.Val))
		}
	}
	c.obRF("R10.3", nw, "stores-base-path", nBP >= 1, "client.New records the base path", "")
	// the transport's own scheme list (which pickScheme prefers over the operation's) is only ever the list the
	// caller gave: a transport made without schemes leaves the choice to the operation's offer
	nSch := 0
	for _, fn := range p.LibFuncs("rt/client") {
		for _, st := range fieldStores(fn, "rt/client.Runtime", "schemes") {
			if st.Parent() != fn {
				continue
			}
			nSch++
			ok, bad := allOrigins(st.Val, func(o Origin) bool {
				prm, isP := o.V.(*ssa.Parameter)
				return isP && typeStr(prm.Type()) == "[]string"
			})
			c.obI("R10.3", st, "transport-schemes-are-the-callers", ok, "the transport's scheme list is the one its caller passed (no default list hides the schemes an operation offers: https is chosen whenever the operation offers it and the transport states no preference)", "origin "+describeOrigin(bad))
		}
	}
	c.obRF("R10.3", nw, "stores-schemes", nSch >= 1, "client.New records the caller's schemes", "")
}

// refValue is the value an instruction defines (nil for pure effects).
func refValue(in ssa.Instruction) ssa.Value {
	v, _ := in.(ssa.Value)
	return v
}

// suffixIsSlashOrNothing: v is a merge of the constants "/" and "" (both occur).
func suffixIsSlashOrNothing(v ssa.Value) bool {
	slash, empty := false, false
	for _, o := range originsOf(v) {
		k, ok := constString(o.V)
		switch {
		case ok && k == "/":
			slash = true
		case ok && k == "":
			empty = true
		default:
			return false
		}
	}
	return slash && empty
}

// oURLQuery: the origin is the query of a URL value — u.Query(), or url.ParseQuery(u.RawQuery) (what Query is defined
// as, with the parse error dropped). where, when given, judges the URL value u.
func oURLQuery(where func(u ssa.Value) bool) OPred {
	return func(o Origin) bool {
		call := asCall(o.V)
		if call == nil {
			return false
		}
		switch calleeName(&call.Call) {
		case "(*net/url.URL).Query":
			return where == nil || where(call.Call.Args[0])
		case "net/url.ParseQuery":
			if o.Index > 0 {
				return false
			}
			for _, og := range originsOf(call.Call.Args[0]) {
				u, ok := fieldLoad(og.V, "net/url.URL", "RawQuery")
				if !ok || (where != nil && !where(u)) {
					return false
				}
			}
			return true
		}
		return false
	}
}

// errValueUnused: the error result of the call is never read.
func errValueUnused(call *ssa.Call) bool {
	ev := errValueOf(call)
	if ev == nil {
		return true
	}
	refs := ev.Referrers()
	if refs == nil {
		return true
	}
	for _, r := range *refs {
		if _, isDbg := r.(*ssa.DebugRef); !isDbg {
			return false
		}
	}
	return true
}

// freshMapStoredTo: the map updated is one made in this function (a map literal) that is, in the same block and after
// the update, stored into the named field — `r.f = map[K]V{k: v}` records k in r.f.
func freshMapStoredTo(mu *ssa.MapUpdate, typ, field string) bool {
	m := mu.Map
	if _, isMk := m.(*ssa.MakeMap); !isMk {
		return false
	}
	for _, st := range fieldStores(mu.Parent(), typ, field) {
		v := st.Val
		if ct, isCT := v.(*ssa.ChangeType); isCT {
			v = ct.X
		}
		if v == m && st.Block() == mu.Block() && dominates(mu, st) {
			return true
		}
	}
	return false
}
