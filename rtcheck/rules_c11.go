package main

import (
	"fmt"
	"go/token"
	"go/types"
	"strings"

	"golang.org/x/tools/go/ssa"
)

func init() {
	register(&Property{
		ID: "C11",
		Explanation: "Decides in request.buildHTTP and NamedReader: R11.1 read-length discipline — after n, err := x.Read(buf) every later use of that buffer as data is buf[:n] with that very n (the sniffed content type is computed from the content read, and the bytes read are re-prepended to the REST of the stream: the part body is NamedReader(MultiReader(bytes.NewReader(buf[:n]), <original file>)) or the original file); " +
			"Round 12: R11.3 the buffer is fresh for every build; R11.2 getRequestBuffer shows the buffer's bytes unaltered; R11.1 the sniffing window is 512 bytes. " +
			"R11.2 what auth saw is what is sent: the GetBody override is installed whenever the body is not the request's own buffer, its first call copies the streaming body into the buffer, closes it, rebinds the body variable to the buffer before returning the bytes, later calls serve the buffer, copy/close errors are returned in preference to the auth error, and the body given to the http.Request is read from that variable after authentication; " +
			"R11.3 the Content-Type header is set from the chosen media type on every body-carrying path, and for multipart from the boundary of the very multipart.Writer that writes into the pipe whose read end is the body; R11.4 every form field value and every file is visited exactly by construction of the loops (no iteration skips WriteField / CreatePart+Copy), with the part header built from escapeQuotes(field name) and escapeQuotes(filepath.Base(file name)), a declared ContentType() taking precedence over sniffing, and escapeQuotes always applying the backslash-and-quote replacer; R11.5 NamedReader forwards Read/Close/Name and wraps non-closers in io.NopCloser. " +
			"R11.5 also: NamedReader always returns a wrapper allocated by this call. " +
			"R11.3 also: whenever there is a payload the Content-Type header is set unconditionally, and a payload that is no reader always goes through the producer. " +
			"R11.4 also: a file part's Content-Type is the declared or the sniffed type only, and no form value or file recorded on the request is removed again; R11.2 also: request.GetBody returns what the installed getBody function returns on every path. " +
			"R11.2 also: the client never installs http.Request.GetBody; R11.4 also: the file name sent is the base name of the file's own Name(). " +
			"NOT decided: byte-for-byte equality of what net/http then sends.",
		Run: runC11,
	})
}

func goClosure(f *ssa.Function) *ssa.Function {
	for _, in := range instrs(f) {
		if g, ok := in.(*ssa.Go); ok {
			if mc, ok := g.Call.Value.(*ssa.MakeClosure); ok {
				return mc.Fn.(*ssa.Function)
			}
			// the literal was turned into a named function or method: `go r.writeMultipartBody(mp, pw)`
			if sc := g.Call.StaticCallee(); sc != nil && sc.Blocks != nil && isRepoPath(fnPkgPath(sc)) {
				return sc
			}
		}
	}
	return nil
}

func theGo(f *ssa.Function) *ssa.Go {
	for _, in := range instrs(f) {
		if g, ok := in.(*ssa.Go); ok {
			return g
		}
	}
	return nil
}

func runC11(c *Ctx) {
	p := c.P
	f := p.Fn("(*rt/client.request).buildHTTP")
	g := goClosure(f)
	if g == nil {
		c.obRF("R11.4", f, "multipart-writer-goroutine", false, "the multipart document is written by a goroutine into a pipe", "no go statement with a function literal found")
		return
	}

	// R11.1 read-length discipline, library wide
	nRead := 0
	for _, fn := range p.LibFuncs() {
		for _, ci := range allCalls(fn) {
			cc := ci.Common()
			var buf ssa.Value
			switch {
			case cc.IsInvoke() && cc.Method.Name() == "Read" && len(cc.Args) == 1:
				buf = cc.Args[0]
			case calleeName(cc) == "io.ReadFull" && len(cc.Args) == 2:
				// fills the window: a source shorter than the window answers io.ErrUnexpectedEOF (io.EOF only when
				// empty) — both are "the file is short", not a failed upload
				buf = cc.Args[1]
				if call, isCall := ci.(*ssa.Call); isCall {
					ev := resultOf(call, 1)
					tolerated := false
					for _, in := range instrs(fn) {
						bo, isBo := in.(*ssa.BinOp)
						if !isBo || (bo.Op != token.EQL && bo.Op != token.NEQ) {
							continue
						}
						isE := func(v ssa.Value) bool {
							ad, okD := derefLoad(v)
							if !okD {
								return false
							}
							gl, okG := ad.(*ssa.Global)
							return okG && short(gl.String()) == "io.ErrUnexpectedEOF"
						}
						isEv := func(v ssa.Value) bool { okV, _ := allOrigins(v, oIsValue(ev)); return okV }
						if ev != nil && ((isEv(bo.X) && isE(bo.Y)) || (isEv(bo.Y) && isE(bo.X))) {
							tolerated = true
						}
					}
					if errorsIsCall(fn, ev, "io.ErrUnexpectedEOF") {
						tolerated = true
					}
					c.obI("R11.1", ci, "short-source-is-not-a-failure", tolerated, "when the sniffing window is filled with io.ReadFull, io.ErrUnexpectedEOF (a file shorter than the window) is told apart from a failed read", "the error of io.ReadFull is never compared with io.ErrUnexpectedEOF: every non-empty file shorter than the window fails the upload")
				}
			default:
				continue
			}
			var ms ssa.Value
			switch x := buf.(type) {
			case *ssa.MakeSlice:
				ms = x
			case *ssa.Slice:
				if al, ok := x.X.(*ssa.Alloc); ok && x.Low == nil && (x.High == nil || al.Comment == "makeslice") && al.Parent() == fn {
					if _, isArr := al.Type().Underlying().(*types.Pointer).Elem().Underlying().(*types.Array); isArr {
						ms = x // make([]byte, <const>) is lowered to a slice of a local array; `var head [N]byte; head[:]` is one
					}
				}
			}
			if ms == nil {
				continue // buffers handed in by the caller are the caller's business
			}
			call, isCall := ci.(*ssa.Call)
			if !isCall {
				continue
			}
			nRead++
			n := resultOf(call, 0)
			refs := append([]ssa.Instruction{}, (*ms.Referrers())...)
			if sl, isSl := ms.(*ssa.Slice); isSl {
				// the buffer is a local array: its other slicings (head[:n]) are uses of the same memory
				if al, isAl := sl.X.(*ssa.Alloc); isAl && al.Referrers() != nil {
					for _, r2 := range *al.Referrers() {
						if s2, ok2 := r2.(*ssa.Slice); ok2 && s2 != sl {
							refs = append(refs, s2)
						}
					}
				}
			}
			for _, ref := range refs {
				in, _ := ref.(ssa.Instruction)
				if in == ssa.Instruction(call) || !canFollow(call, in) {
					continue
				}
				switch x := ref.(type) {
				case *ssa.Slice:
					okS := x.Low == nil && x.High != nil && n != nil
					if okS {
						okS, _ = allOrigins(x.High, oIsValue(n))
					}
					c.obI("R11.1", x, "buffer-used-up-to-n", okS, "after n, err := x.Read(buf) the buffer is only consumed as buf[:n] with that very n", "the buffer is sliced with a bound other than the number of bytes read")
				case ssa.CallInstruction:
					c.obI("R11.1", x, "whole-buffer-used", false, "after n, err := x.Read(buf) the buffer is only consumed as buf[:n] with that very n", "the whole (zero-padded) buffer is handed to "+calleeName(x.Common())+": bytes that were never read are treated as content")
				}
			}
		}
	}
	c.obRF("R11.1", g, "sniffing-read", nRead >= 1, "the upload's first bytes are read for sniffing", "")
	// sniffed type from buf[:n]; part body = MultiReader(NewReader(buf[:n]), original)
	for _, d := range callsIn(g, "net/http.DetectContentType") {
		_, isSl := d.Common().Args[0].(*ssa.Slice)
		c.obI("R11.1", d, "sniffs-read-content", isSl, "the part's content type is sniffed from the bytes actually read", "")
	}
	ruleUploadFailuresPropagated(c, "R11.4", g) // (a part whose copy failed is never sent as if it were complete)
	copies := callsIn(g, "io.Copy")
	c.obRF("R11.4", g, "copies-files", len(copies) == 1, "each file is copied into its part", fmt.Sprintf("%d io.Copy", len(copies)))
	rulePartBodyIsWholeFile(c, "R11.1", g, copies)
	c.min("R11.1", 4)

	// R11.2 getBody override
	var gbStores []*ssa.Store
	for _, st := range fieldStores(f, clientReqT, "getBody") {
		gbStores = append(gbStores, st)
	}
	auths := callsIn(f, "(rt.ClientAuthInfoWriter).AuthenticateRequest")
	// every form value and every file given to the request is sent: nothing in the client removes an entry of the form
	// or file tables once a setter has recorded it (a later setter of the same name adds beside it)
	for _, fn := range p.LibFuncs("rt/client") {
		for _, ci := range allCalls(fn) {
			if ci.Parent() != fn {
				continue
			}
			name := calleeName(ci.Common())
			var tbl ssa.Value
			switch name {
			case "(net/url.Values).Del":
				tbl, _ = callArgs(ci.Common())
			case "builtin delete":
				tbl = ci.Common().Args[0]
			default:
				continue
			}
			if ct, isCT := tbl.(*ssa.ChangeType); isCT {
				tbl = ct.X
			}
			for _, fld := range []string{"formFields", "fileFields"} {
				if vFieldLoad(clientReqT, fld, nil)(tbl) || vFieldLoadO(clientReqT, fld)(tbl) {
					c.obD("R11.4", ci, "recorded-fields-never-removed", false, "no form value or file recorded on the request is removed again: the document sent contains every one of them", short(fn.String())+" deletes an entry of request."+fld)
				}
			}
		}
	}
	// every build starts from an EMPTY buffer: buildHTTP installs a fresh bytes.Buffer unconditionally (a buffer kept from
	// an earlier build would be sent, and shown to auth, in front of the new encoding)
	{
		isFresh := func(in ssa.Instruction) bool {
			st, ok := in.(*ssa.Store)
			if !ok {
				return false
			}
			if _, okF := fieldAddrOf(st.Addr, clientReqT, "buf"); !okF {
				return false
			}
			okN, _ := allOrigins(st.Val, oCall(-1, "bytes.NewBuffer"), oCall(-1, "bytes.NewBufferString"), func(o Origin) bool { _, isAl := o.V.(*ssa.Alloc); return isAl })
			return okN
		}
		for _, r := range realReturns(f) {
			if isNilConst(resOf(r, 0)) {
				continue
			}
			c.obI("R11.3", r, "buffer-fresh-for-every-build", !pathExists(f, nil, r, nil, isFresh), "every successful buildHTTP has installed a new, empty body buffer", "a request can be built on the buffer left by an earlier build: its bytes are sent (and shown to auth) twice")
		}
	}
	// what GetBody shows is the buffer's bytes AS THEY ARE (no trimming of a trailing line feed, no re-encoding)
	if grb := p.FnOpt("rt/client.getRequestBuffer"); grb != nil {
		for _, r := range realReturns(grb) {
			if isNilConst(resOf(r, 0)) {
				continue
			}
			okB, bad := allOrigins(resOf(r, 0), oCall(-1, "(*bytes.Buffer).Bytes"), oNil())
			c.obI("R11.2", r, "buffer-bytes-shown-unaltered", okB, "getRequestBuffer returns r.buf.Bytes() itself", "the bytes shown originate from "+describeOrigin(bad)+": auth sees other bytes than are sent")
		}
	}
	// the content type of a file is sniffed from up to 512 bytes — the window http.DetectContentType considers: a
	// smaller window changes what binary files announce
	for _, ci := range callsIn(g, "net/http.DetectContentType") {
		if sl, ok := ci.Common().Args[0].(*ssa.Slice); ok {
			n := int64(-1)
			switch x := sl.X.(type) {
			case *ssa.MakeSlice:
				n, _ = constInt(x.Len)
			case *ssa.Alloc:
				if pt, isP := x.Type().Underlying().(*types.Pointer); isP {
					if at, isA := pt.Elem().Underlying().(*types.Array); isA {
						n = at.Len()
					}
				}
			case *ssa.Slice:
				if al, isAl := x.X.(*ssa.Alloc); isAl {
					if pt, isP := al.Type().Underlying().(*types.Pointer); isP {
						if at, isA := pt.Elem().Underlying().(*types.Array); isA {
							n = at.Len()
						}
					}
				}
			}
			if n >= 0 {
				c.obI("R11.1", ci, "sniffing-window-is-512", n >= 512, "the sniffing window holds the 512 bytes DetectContentType looks at", fmt.Sprintf("the window is %d bytes", n))
			}
		}
	}
	// the library promises no replay it cannot deliver: http.Request.GetBody stays what http.NewRequest made it (nil for
	// a streamed body, so that net/http refuses to re-send on a 307/308 instead of sending an empty or partial buffer)
	for _, fn := range p.LibFuncs("rt/client") {
		for _, st := range fieldStores(fn, "net/http.Request", "GetBody") {
			if st.Parent() == fn {
				c.obD("R11.2", st, "no-replay-promised", false, "the client never installs http.Request.GetBody: the bytes of a streamed body exist once", short(fn.String())+" sets req.GetBody: a redirect or retry re-sends whatever the buffer happens to hold instead of the body that was sent")
			}
		}
	}
	// the accessor the auth writer calls hands on what the installed getBody function returns — for every method, media
	// type and body kind (no shortcut answers before or instead of it)
	if acc := p.FnOpt("(*rt/client.request).GetBody"); acc != nil {
		for _, r := range returnsOf(acc) {
			okG, bad := allOrigins(resOf(r, 0), func(o Origin) bool {
				call := asCall(o.V)
				return call != nil && !call.Call.IsInvoke() && (vFieldLoad(clientReqT, "getBody", nil)(call.Call.Value) || vFieldLoadO(clientReqT, "getBody")(call.Call.Value))
			})
			c.obI("R11.2", r, "accessor-asks-the-installed-function", okG, "request.GetBody returns what the request's getBody function (the buffer reader, or the buffering override buildHTTP installs) returns, on every path", "origin "+describeOrigin(bad)+": the auth writer is shown bytes other than the ones sent")
		}
	}
	c.obRF("R11.2", f, "override-and-auth", len(gbStores) == 1 && len(auths) == 1, "buildHTTP installs a GetBody override before calling the auth writer", fmt.Sprintf("%d stores, %d auth calls", len(gbStores), len(auths)))
	if len(gbStores) == 1 && len(auths) == 1 {
		st, au := gbStores[0], auths[0]
		var bodyCell *ssa.Alloc
		var gb *ssa.Function
		if mc, ok := st.Val.(*ssa.MakeClosure); ok {
			gb = mc.Fn.(*ssa.Function)
			if strings.HasSuffix(gb.Name(), "$bound") {
				// a method value (the literal became a method of a helper type)
				if obj, isFn := gb.Object().(*types.Func); isFn {
					if m := p.SSA.FuncValue(obj); m != nil && m.Blocks != nil {
						gb = m
					}
				}
			}
			// the body variable: the *io.Reader cell of buildHTTP the override reads and writes
			for _, in := range instrs(gb) {
				var addr ssa.Value
				switch x := in.(type) {
				case *ssa.UnOp:
					if x.Op == token.MUL {
						addr = x.X
					}
				case *ssa.Store:
					addr = x.Addr
				}
				if addr == nil {
					continue
				}
				if cell := cellOf(addr); cell != nil && cell.Parent() == f && typeStr(cell.Type()) == "*io.Reader" {
					bodyCell = cell
				}
			}
		}
		c.obRI("R11.2", st, "override-captures-body", gb != nil && bodyCell != nil, "the override closes over the body variable", "")
		if gb != nil && bodyCell != nil {
			isBody := func(v ssa.Value) bool { ad, ok := derefLoad(v); return ok && ad == ssa.Value(bodyCell) }
			noBody := factNil(isBody, true)
			ownBuffer := func(cond ssa.Value, branch bool) bool {
				// buf != r.buf false  /  buf == r.buf true, with buf the *bytes.Buffer behind body
				cnd, b := stripNot(cond, branch)
				bo, ok := cnd.(*ssa.BinOp)
				if !ok {
					return false
				}
				isBuf := func(v ssa.Value) bool {
					ex, ok := v.(*ssa.Extract)
					if !ok || ex.Index != 0 {
						return false
					}
					ta, ok := ex.Tuple.(*ssa.TypeAssert)
					return ok && isBody(ta.X)
				}
				isRBufFld := vFieldLoad(clientReqT, "buf", nil)
				// (or the local the buffer was made into before being put into the field: the one value buildHTTP ever
				// stores there)
				isRBuf := func(v ssa.Value) bool {
					if isRBufFld(v) {
						return true
					}
					sts := fieldStores(f, clientReqT, "buf")
					for _, s2 := range sts {
						if s2.Val != v {
							return false
						}
					}
					return len(sts) > 0
				}
				// body == io.Reader(r.buf): interface equality holds only for the same dynamic type and pointer
				isRBufI := func(v ssa.Value) bool {
					mi, ok := v.(*ssa.MakeInterface)
					return ok && isRBuf(mi.X)
				}
				if !((isBuf(bo.X) && isRBuf(bo.Y)) || (isBuf(bo.Y) && isRBuf(bo.X)) || (isBody(bo.X) && isRBufI(bo.Y)) || (isBody(bo.Y) && isRBufI(bo.X))) {
					return false
				}
				return (bo.Op.String() == "==") == b
			}
			authNil := factNil(vIs(paramOf(f, 4)), true)
			skipped := pathExists(f, nil, au, anyFact(noBody, ownBuffer, authNil), isOneOf(st))
			c.obI("R11.2", st, "override-whenever-body-is-foreign", !skipped, "the override is installed on every path to the auth writer unless there is no body or the body IS the request's own buffer (whose bytes GetBody already returns)", "a body that is not the request's own buffer (e.g. a caller-supplied *bytes.Buffer or reader) can reach the auth writer without the override: GetBody shows bytes that are not the ones sent")
			// inside the override
			copyCalls := callsIn(gb, "io.Copy")
			okCopy := len(copyCalls) == 1
			if okCopy {
				a := copyCalls[0].Common().Args
				okCopy = vFieldLoadO(clientReqT, "buf")(a[0]) && func() bool {
					ad, ok := derefLoad(a[1])
					return ok && cellOf(ad) == bodyCell
				}()
			}
			c.obF("R11.2", gb, "first-call-copies-body-into-buffer", okCopy, "the first GetBody call copies the streaming body into the request's buffer", "")
			var rebinds []ssa.Instruction
			for _, in := range instrs(gb) {
				if s2, ok := in.(*ssa.Store); ok {
					if cellOf(s2.Addr) == bodyCell {
						okV := vFieldLoadO(clientReqT, "buf")(s2.Val)
						c.obI("R11.2", s2, "rebinds-body-to-buffer", okV, "the body variable is re-bound to the buffer whose bytes are shown", "")
						rebinds = append(rebinds, s2)
					}
				}
			}
			for _, r := range realReturns(gb) {
				v := resOf(r, 0)
				if isNilConst(v) {
					continue
				}
				okB, _ := allOrigins(v, oCall(-1, "rt/client.getRequestBuffer"))
				c.obI("R11.2", r, "shows-buffer-bytes", okB, "GetBody returns the bytes of the request's buffer", "")
				// first call path: reached after the copy => body rebound before returning
				if len(copyCalls) == 1 && pathExists(gb, copyCalls[0], r, nil, nil) {
					miss := pathExists(gb, copyCalls[0], r, nil, isOneOf(rebinds...))
					c.obI("R11.2", r, "bytes-shown-are-bytes-sent", !miss && len(rebinds) > 0, "on the copying call the body that will be sent is re-bound to the buffer before its bytes are returned (what auth saw is what is sent)", "the bytes are shown without making the buffer the body that is sent")
				} else {
					// the "already copied" flag: a captured boolean variable (whatever it is called)
					copied := factBool(func(v ssa.Value) bool {
						ad, ok := derefLoad(v)
						if !ok {
							return false
						}
						if fv, isFV := ad.(*ssa.FreeVar); isFV {
							return typeStr(fv.Type()) == "*bool"
						}
						// the flag as a field of the helper type the literal was turned into
						if fa, isFA := ad.(*ssa.FieldAddr); isFA {
							n, _ := structOf(fa.X.Type())
							return n != nil && isNewType(n) && typeStr(fa.Type()) == "*bool"
						}
						return false
					}, true)
					// nothing to copy / nowhere to copy to: serving the buffer reads no stream either
					noStream := anyFact(factNil(func(v ssa.Value) bool {
						ad, ok := derefLoad(v)
						return ok && cellOf(ad) == bodyCell
					}, true), factNil(vFieldLoadO(clientReqT, "buf"), true))
					c.obI("R11.2", r, "later-calls-serve-buffer", guardedBy(r, nil, anyFact(copied, noStream)), "later calls serve the buffer without reading the stream again", "")
				}
			}
			if len(copyCalls) == 1 {
				// the stream is read at most once, WHATEVER the outcome: the "already copied" latch is set on every exit of
				// the copying call, failing ones included (a second GetBody after a failed copy must not copy the rest of
				// the stream and overwrite the recorded error)
				isFlagAddr := func(ad ssa.Value) bool {
					if fv, isFV := ad.(*ssa.FreeVar); isFV {
						return typeStr(fv.Type()) == "*bool"
					}
					if fa, isFA := ad.(*ssa.FieldAddr); isFA {
						n, _ := structOf(fa.X.Type())
						return n != nil && isNewType(n) && typeStr(fa.Type()) == "*bool"
					}
					return false
				}
				isLatch := func(in ssa.Instruction) bool {
					st, ok := in.(*ssa.Store)
					if !ok || !isFlagAddr(st.Addr) {
						return false
					}
					b, isB := constBool(st.Val)
					return isB && b
				}
				latched := false
				for _, d := range defersIn(gb) {
					if df := deferredBody(d); df != nil && dominates(d, copyCalls[0]) {
						all := true
						for _, r := range returnsOf(df) {
							if pathExists(df, nil, r, nil, isLatch) {
								all = false
							}
						}
						if all && len(returnsOf(df)) > 0 {
							latched = true
						}
					}
				}
				if !latched {
					latched = true
					for _, r := range realReturns(gb) {
						if pathExists(gb, copyCalls[0], r, nil, nil) && pathExists(gb, copyCalls[0], r, nil, isLatch) {
							latched = false
						}
					}
				}
				c.obI("R11.2", copyCalls[0], "stream-read-at-most-once", latched, "the call that copies the stream sets the 'copied' latch on every one of its exits, also when the copy or the close fails: no later GetBody reads the stream again", "an exit after the copy (a failing copy or close) leaves the latch unset: the next GetBody copies again and overwrites the recorded error")
				// errors of copy/close make GetBody return nil and are recorded in copyErr
				for _, r := range realReturns(gb) {
					if !isNilConst(resOf(r, 0)) && pathExists(gb, copyCalls[0], r, nil, nil) {
						ev := errValueOf(copyCalls[0].(*ssa.Call))
						okE := ev != nil
						if okE {
							// recorded into the captured copyErr before the test
							okE = false
							for _, in := range instrs(gb) {
								if s2, ok := in.(*ssa.Store); ok && s2.Val == ev {
									if cell := cellOf(s2.Addr); cell != nil && cell.Parent() == f && typeStr(cell.Type()) == "*error" {
										okE = true
									}
								}
							}
						}
						c.obI("R11.2", copyCalls[0], "copy-error-recorded", okE, "a failing copy is recorded for buildHTTP to return", "")
					}
				}
			}
			// body handed to the request is read from the cell after authentication
			for _, nr := range callsIn(f, "net/http.NewRequestWithContext") {
				b := nr.Common().Args[3]
				okRead := isBody(b) && canFollow(au, b.(ssa.Instruction)) && !dominates(b.(ssa.Instruction), au)
				c.obI("R11.2", nr, "request-body-read-after-auth", okRead, "the body given to the http.Request is read from the body variable after the auth writer ran (so a re-bound buffer is what gets sent)", "")
			}
			// copyErr preferred
			for _, r := range realReturns(f) {
				ev := resOf(r, 1)
				if okA, _ := allOrigins(ev, oIsValue(au.Value())); okA {
					isCopyErr := func(v ssa.Value) bool {
						ad, ok := derefLoad(v)
						if !ok {
							return false
						}
						al, ok := ad.(*ssa.Alloc)
						if !ok || typeStr(al.Type()) != "*error" {
							return false
						}
						// the error variable the override records copy/close failures into
						for _, s2 := range storesToCell(al) {
							root := s2.Parent()
							for root.Parent() != nil {
								root = root.Parent()
							}
							if root == gb || s2.Parent() == gb {
								return true
							}
						}
						return false
					}
					c.obI("R11.2", r, "copy-error-preferred", guardedBy(r, au, factNil(isCopyErr, true)), "a copy/close error is returned in preference to the auth error", "")
				}
			}
		}
	}
	c.min("R11.2", 8)

	// R11.3 content type
	mws := callsIn(f, "mime/multipart.NewWriter")
	pipes := callsIn(f, "io.Pipe")
	c.obRF("R11.3", f, "pipe-and-writer", len(mws) == 1 && len(pipes) == 1, "one pipe, one multipart writer", fmt.Sprintf("%d/%d", len(pipes), len(mws)))
	if len(mws) == 1 && len(pipes) == 1 {
		mw, pipe := mws[0].(*ssa.Call), pipes[0].(*ssa.Call)
		okW, _ := allOrigins(mw.Call.Args[0], oIsValue(resultOf(pipe, 1)), oNil()) // (nil: the variable's zero value on the paths that made no pipe)
		okW = okW && someOrigin(mw.Call.Args[0], oIsValue(resultOf(pipe, 1)))
		c.obI("R11.3", mw, "writer-writes-into-pipe", okW, "the multipart writer writes into the pipe's write end", "")
		for _, ci := range callsIn(f, "rt/client.mangleContentType") {
			okB, _ := allOrigins(ci.Common().Args[1], oCallWhere(-1, "(*mime/multipart.Writer).Boundary", func(b *ssa.Call) bool {
				okk, _ := allOrigins(b.Call.Args[0], oIsValue(mw))
				return okk
			}))
			if !okB {
				// the helper is handed the writer itself and asks it for its boundary
				if okWr, _ := allOrigins(ci.Common().Args[1], oIsValue(mw)); okWr {
					if callee := ci.Common().StaticCallee(); callee != nil && len(callee.Params) >= 2 {
						for _, bc := range callsIn(callee, "(*mime/multipart.Writer).Boundary") {
							if bc.Common().Args[0] == ssa.Value(callee.Params[1]) {
								okB = true
							}
						}
					}
				}
			}
			okM := ci.Common().Args[0] == ssa.Value(paramOf(f, 0))
			c.obI("R11.3", ci, "boundary-of-the-writer", okB && okM, "the multipart Content-Type carries the boundary of the very writer that produces the body", "")
		}
		// goroutine's mp and pw are those
		if _, isLit := theGo(f).Call.Value.(*ssa.MakeClosure); !isLit {
			// a named function started with the writer as an argument
			okk := false
			for _, a := range theGo(f).Call.Args {
				if okA, _ := allOrigins(a, oIsValue(mw)); okA {
					okk = true
				}
			}
			c.obI("R11.3", theGo(f), "goroutine-uses-the-writer", okk, "the goroutine writes through that writer", "")
		}
		for i, fv := range g.FreeVars {
			b := theGo(f).Call.Value.(*ssa.MakeClosure).Bindings[i]
			switch {
			case typeStr(fv.Type()) == "**mime/multipart.Writer":
				okk := false
				if al, ok := b.(*ssa.Alloc); ok {
					for _, s2 := range storesToCell(al) {
						okk = s2.Val == ssa.Value(mw)
					}
				}
				c.obI("R11.3", theGo(f), "goroutine-uses-the-writer", okk, "the goroutine writes through that writer", "")
			}
		}
		// body = pipe read end (the body variable: the local whose value is handed to http.NewRequest as the body)
		okBody := false
		bodyCells := map[*ssa.Alloc]bool{}
		for _, nr := range callsIn(f, "net/http.NewRequestWithContext", "net/http.NewRequest") {
			a := nr.Common().Args
			if ad, isLd := derefLoad(a[len(a)-1]); isLd {
				if al, isA := ad.(*ssa.Alloc); isA {
					bodyCells[al] = true
				}
			}
		}
		for _, in := range instrs(f) {
			if st, ok := in.(*ssa.Store); ok {
				if al, isA := st.Addr.(*ssa.Alloc); isA && bodyCells[al] {
					if okk, _ := allOrigins(st.Val, oIsValue(resultOf(pipe, 0))); okk {
						okBody = true
					}
				}
			}
		}
		c.obF("R11.3", f, "body-is-pipe-read-end", okBody, "for multipart the body is the pipe's read end", "")
	}
	nCT := 0
	for _, ci := range callsIn(f, "(net/http.Header).Set") {
		_, a := callArgs(ci.Common())
		if k, _ := constString(a[0]); k != "Content-Type" {
			continue
		}
		nCT++
		ok, bad := allOrigins(a[1], oIsValue(paramOf(f, 0)), oCall(-1, "rt/client.mangleContentType"))
		c.obI("R11.3", ci, "content-type-from-media-type", ok, "the Content-Type header is the chosen media type (with the boundary for multipart)", "origin "+describeOrigin(bad))
	}
	// the payload branch: the header is set unconditionally, and a payload that is no reader goes through the producer
	{
		isPayload := func(v ssa.Value) bool {
			return vFieldLoad(clientReqT, "payload", nil)(v) || vFieldLoadO(clientReqT, "payload")(v)
		}
		hasPayload := factNil(isPayload, false)
		var gate *ssa.If
		for _, b := range f.Blocks {
			if iff, ok := lastInstr(b).(*ssa.If); ok && hasPayload(iff.Cond, true) {
				gate = iff
			}
		}
		nrs := callsIn(f, "net/http.NewRequestWithContext", "net/http.NewRequest")
		c.obRF("R11.3", f, "payload-branch", gate != nil && len(nrs) == 1, "buildHTTP has a payload branch and builds one http.Request", "")
		if gate != nil && len(nrs) == 1 {
			noPayload := factNil(isPayload, true)
			isCTSet := func(in ssa.Instruction) bool {
				ci, ok := in.(ssa.CallInstruction)
				if !ok || calleeName(ci.Common()) != "(net/http.Header).Set" {
					return false
				}
				_, a := callArgs(ci.Common())
				k, _ := constString(a[0])
				return k == "Content-Type"
			}
			c.obI("R11.3", gate, "payload-always-labelled", !pathExists(f, gate, nrs[0], noPayload, isCTSet), "whenever there is a payload the Content-Type header is set to the chosen media type, unconditionally (a stale header left by the params writer, or a method outside POST/PUT/PATCH/DELETE, cannot leave the body mislabelled)", "a path with a payload reaches http.NewRequest without the Content-Type header having been set")
			isReader := factBool(func(v ssa.Value) bool {
				ex, ok := v.(*ssa.Extract)
				if !ok || ex.Index != 1 {
					return false
				}
				ta, ok := ex.Tuple.(*ssa.TypeAssert)
				if !ok || !isPayload(ta.X) {
					return false
				}
				t := typeStr(ta.AssertedType)
				return t == "io.Reader" || t == "io.ReadCloser"
			}, true)
			isProduce := func(in ssa.Instruction) bool {
				ci, ok := in.(ssa.CallInstruction)
				return ok && ci.Common().IsInvoke() && ci.Common().Method.Name() == "Produce"
			}
			c.obI("R11.3", gate, "payload-through-producer", !pathExists(f, gate, nrs[0], anyFact(noPayload, isReader), isProduce), "a payload that is not a reader is always encoded by the producer chosen for the media type (no Go type of payload bypasses it)", "a path with a non-reader payload reaches http.NewRequest without the producer having run")
		}
	}
	// the body is encoded by the producer registered for the media type the Content-Type header announces (mediaType):
	// the producer is producers[mediaType], on every path
	{
		mt := paramOfType(f, "string")
		prodMap := paramOfType(f, "map[string]rt.Producer")
		for _, ci := range allCalls(f) {
			cc := ci.Common()
			if ci.Parent() != f || !cc.IsInvoke() || cc.Method.Name() != "Produce" {
				continue
			}
			ok, bad := allOrigins(cc.Value, func(o Origin) bool {
				lk, isLk := o.V.(*ssa.Lookup)
				if !isLk {
					return false
				}
				okM, _ := allOrigins(lk.X, oIsValue(prodMap))
				okK, _ := allOrigins(lk.Index, oIsValue(f.Params[1]))
				return okM && okK
			})
			_ = mt
			c.obI("R11.3", ci, "producer-of-the-announced-media-type", ok, "the payload is encoded by producers[mediaType], the very type the Content-Type header is set to", "producer origin "+describeOrigin(bad))
		}
		// the multipart boundary is the writer's own (random, per request): a fixed boundary can occur in the content
		for _, fn := range p.LibFuncs("rt/client") {
			for _, ci := range callsIn(fn, "(*mime/multipart.Writer).SetBoundary") {
				if ci.Parent() != fn {
					continue
				}
				c.obD("R11.3", ci, "boundary-left-to-the-writer", false, "the client never sets the multipart boundary itself: each body gets the writer's random boundary, which cannot collide with uploaded content", "SetBoundary is called in "+fnName(fn))
			}
		}
	}
	// a reader payload is sent as the reader stands: buildHTTP never operates on it (no Seek, Read, Reset … before it
	// becomes the body) — "the exact bytes of a reader payload" are the bytes the reader yields from where it is
	{
		isPayloadV := func(v ssa.Value) bool {
			return vFieldLoad(clientReqT, "payload", nil)(v) || vFieldLoadO(clientReqT, "payload")(v)
		}
		fromPayload := func(v ssa.Value) bool {
			for _, o := range originsOf(v) {
				x := o.V
				for i := 0; i < 4; i++ {
					if ta, ok := x.(*ssa.TypeAssert); ok {
						x = ta.X
						continue
					}
					if ex, ok := x.(*ssa.Extract); ok {
						x = ex.Tuple
						continue
					}
					break
				}
				if isPayloadV(x) {
					return true
				}
			}
			return false
		}
		for _, ci := range allCalls(f) {
			if ci.Parent() != f || !ci.Common().IsInvoke() {
				continue
			}
			if !fromPayload(ci.Common().Value) {
				continue
			}
			c.obI("R11.3", ci, "reader-payload-untouched", false, "buildHTTP invokes nothing on the payload: a reader payload becomes the body exactly as it stands", "the payload's method "+ci.Common().Method.Name()+" is invoked before it is sent")
		}
	}
	// the URL-encoded form is written into the buffer only when the request is not multipart (for multipart the
	// buffer later receives the copy of the piped document shown to the auth writer: anything already in it would be
	// sent in front of the multipart document)
	{
		notMultipart := factBool(func(v ssa.Value) bool {
			call := asCall(v)
			return call != nil && calleeName(&call.Call) == "(*rt/client.request).isMultipart"
		}, false)
		// (the test spelled out where isMultipart was inlined: `len(r.fileFields) > 0 || mediaType == multipart/form-data` is
		// false only past the edge "the media type is not multipart/form-data")
		if len(callsIn(f, "(*rt/client.request).isMultipart")) == 0 {
			notMultipart = factEqString(vOrigins(oIsValue(paramOf(f, 0))), "multipart/form-data", false)
		}
		nForm := 0
		for _, ci := range callsIn(f, "(*bytes.Buffer).WriteString", "(*bytes.Buffer).Write", "io.WriteString") {
			if ci.Parent() != f {
				continue
			}
			_, a := callArgs(ci.Common())
			if calleeName(ci.Common()) == "io.WriteString" && len(a) == 2 {
				a = a[1:] // io.WriteString(r.buf, form)
			}
			if len(a) != 1 {
				continue
			}
			isForm, _ := allOrigins(a[0], oCallWhere(-1, "(net/url.Values).Encode", func(e *ssa.Call) bool {
				return isFormFieldsV(e.Call.Args[0])
			}))
			if !isForm {
				continue
			}
			nForm++
			c.obI("R11.3", ci, "form-encoding-only-when-not-multipart", guardedBy(ci, nil, notMultipart), "the URL-encoding of the form fields is written to the body buffer only on the path on which the request is not multipart", "the form encoding can be written although the request is multipart (the buffer is then served to the auth writer, and sent, in front of the multipart document)")
		}
		c.obRF("R11.3", f, "writes-form-encoding", nForm >= 1, "buildHTTP URL-encodes the form fields", "")
	}
	c.obRF("R11.3", f, "sets-content-type", nCT >= 3, "each body-carrying path sets the Content-Type", fmt.Sprintf("%d sites", nCT))
	mc := p.Fn("rt/client.mangleContentType")
	for _, r := range returnsOf(mc) {
		uses := valueMentions(r.Results[0], mc.Params[1], 6)
		c.obI("R11.3", r, "mangled-type-carries-boundary", uses, "every multipart content type carries the boundary", "")
	}
	for _, vr := range virtualReturns(mc) {
		if len(vr.Res) != 1 {
			continue
		}
		// the body written is a multipart/form-data document: that is what the header says — the operation's own media
		// type is kept only when it is the urlencoded form type (whose requests are sent as form-data when files are there)
		if valueMentions(vr.Res[0], mc.Params[0], 6) {
			isLower := vOrigins(oCallWhere(-1, "strings.ToLower", func(t *ssa.Call) bool { return t.Call.Args[0] == ssa.Value(mc.Params[0]) }), oIsValue(mc.Params[0]))
			isForm := func(cond ssa.Value, branch bool) bool {
				if factEqString(isLower, "application/x-www-form-urlencoded", true)(cond, branch) {
					return true
				}
				cnd, b := stripNot(cond, branch)
				if call := asCall(cnd); call != nil && calleeName(&call.Call) == "strings.EqualFold" && b {
					k0, ok0 := constString(call.Call.Args[0])
					k1, ok1 := constString(call.Call.Args[1])
					return ok0 && k0 == "application/x-www-form-urlencoded" && isLower(call.Call.Args[1]) || ok1 && k1 == "application/x-www-form-urlencoded" && isLower(call.Call.Args[0])
				}
				return false
			}
			c.obI("R11.3", vr.R, "multipart-body-labelled-form-data", vr.Guarded(isForm), "mangleContentType keeps the given media type only for application/x-www-form-urlencoded; every other type is labelled multipart/form-data (which is what the body is)", "another media type (multipart/related, multipart/mixed …) can be kept as the label of a form-data body")
		} else {
			pieces, okPc := concatPieces(vr.Res[0], 0)
			okFD := okPc && strings.HasPrefix(pieceText(pieces), "multipart/form-data")
			c.obI("R11.3", vr.R, "multipart-body-labelled-form-data", okFD, "a content type that does not keep the given media type starts with multipart/form-data", "")
		}
	}
	c.min("R11.3", 8)

	// R11.4 every field and file visited
	isCall := func(names ...string) func(ssa.Instruction) bool { return isCallInstrTo(names...) }
	isFormFields := func(v ssa.Value) bool {
		return vFieldLoad(clientReqT, "formFields", nil)(v) || vFieldLoadO(clientReqT, "formFields")(v)
	}
	for _, ml := range mapLoops(g, isFormFields) {
		for _, sl := range sliceLoops(g, vOrigins(oIsValue(extractOf(ml.Next, 2)))) {
			c.obI("R11.4", sl.Elem, "every-field-value-written", sl.everyIteration(isCall("(*mime/multipart.Writer).WriteField")), "every value of every form field is written", "")
			for _, wf := range callsIn(g, "(*mime/multipart.Writer).WriteField") {
				_, a := callArgs(wf.Common())
				okA := a[0] == extractOf(ml.Next, 1)
				okV := false
				if ad, ok := derefLoad(a[1]); ok {
					okV = ad == ssa.Value(sl.Elem)
				}
				c.obI("R11.4", wf, "field-name-and-value", okA && okV, "a field is written under its own name with its own value", "")
			}
		}
	}
	for _, ml := range mapLoops(g, vFieldLoad(clientReqT, "fileFields", nil)) {
		for _, sl := range sliceLoops(g, vOrigins(oIsValue(extractOf(ml.Next, 2)))) {
			okEach := sl.everyIteration(func(in ssa.Instruction) bool {
				return isCall("io.Copy")(in) || failsPipe(in)
			})
			c.obI("R11.4", sl.Elem, "every-file-copied", okEach, "every file of every file field is copied into a part (or its failure is propagated)", "")
			c.obI("R11.4", sl.Elem, "every-file-gets-a-part", sl.everyIteration(func(in ssa.Instruction) bool {
				return isCall("(*mime/multipart.Writer).CreatePart")(in) || failsPipe(in)
			}), "every file gets its own part", "")
		}
		// part header
		for _, sp := range callsIn(g, "fmt.Sprintf") {
			fm, _ := constString(sp.Common().Args[0])
			if !strings.HasPrefix(fm, "form-data;") {
				continue
			}
			elems, _ := sliceLitElems(sp.Common().Args[1])
			okH := len(elems) == 2
			if okH {
				okN, _ := allOrigins(elems[0], oCallWhere(-1, "rt/client.escapeQuotes", func(e *ssa.Call) bool { return e.Call.Args[0] == extractOf(ml.Next, 1) }))
				okF, _ := allOrigins(elems[1], oCallWhere(-1, "rt/client.escapeQuotes", func(e *ssa.Call) bool {
					okk, _ := allOrigins(e.Call.Args[0], oCallWhere(-1, "path/filepath.Base", func(b *ssa.Call) bool {
						// … the base name of the file's own Name(), as it is (not a rewritten name)
						okName, _ := allOrigins(b.Call.Args[0], func(o Origin) bool {
							nc := asCall(o.V)
							return nc != nil && ifaceMethodCalled(&nc.Call) == "Name"
						})
						return okName
					}))
					return okk
				}))
				okH = okN && okF
			}
			c.obI("R11.4", sp, "part-header-escaped-names", okH, "the part header names the field and the file's base name, both through escapeQuotes", "")
		}
	}
	// declared type precedence
	for _, in := range instrs(g) {
		ta, ok := in.(*ssa.TypeAssert)
		if !ok || !strings.Contains(typeStr(ta.AssertedType), "ContentType()") {
			continue
		}
		okv := extractOf(ta, 1)
		for _, d := range callsIn(g, "net/http.DetectContentType") {
			c.obI("R11.4", d, "declared-type-wins", okv != nil && guardedBy(d, ta, factBool(vIs(okv), false)), "a declared ContentType() takes precedence over sniffing", "")
		}
	}
	// the part's Content-Type is one of exactly two things: what the file declares, or what its content sniffs as
	// (never the file name's extension, a default, the request's media type …)
	{
		nCT := 0
		for _, ci := range callsIn(g, "(net/textproto.MIMEHeader).Set") {
			_, a := callArgs(ci.Common())
			if k, ok := constString(a[0]); !ok || !strings.EqualFold(k, "Content-Type") {
				continue
			}
			nCT++
			okT, bad := allOrigins(a[1], oCall(-1, "net/http.DetectContentType"), func(o Origin) bool {
				call := asCall(o.V)
				return call != nil && ifaceMethodCalled(&call.Call) == "ContentType"
			})
			c.obI("R11.4", ci, "part-type-declared-or-sniffed", okT, "a file part's Content-Type is the type the file declares or else the type sniffed from its content — nothing else", "origin "+describeOrigin(bad))
		}
		c.obRF("R11.4", g, "part-gets-a-content-type", nCT >= 1, "each file part is given a Content-Type", "")
	}
	eq := p.Fn("rt/client.escapeQuotes")
	for _, r := range returnsOf(eq) {
		ok, bad := allOrigins(r.Results[0], oCallWhere(-1, "(*strings.Replacer).Replace", func(rp *ssa.Call) bool {
			_, a := callArgs(&rp.Call)
			if a[0] != ssa.Value(eq.Params[0]) {
				return false
			}
			recv, _ := callArgs(&rp.Call)
			okR := false
			for _, o := range originsOf(recv) {
				var nrc *ssa.Call
				if cc := asCall(o.V); cc != nil && calleeName(&cc.Call) == "strings.NewReplacer" {
					nrc = cc
				} else if ad, isD := derefLoad(o.V); isD {
					if gl, isG := ad.(*ssa.Global); isG {
						nrc = globalInitCall(p, gl, "strings.NewReplacer")
					}
				}
				if nrc != nil {
					elems, _ := sliceLitElems(nrc.Call.Args[0])
					var got []string
					for _, e := range elems {
						s, _ := constString(e)
						got = append(got, s)
					}
					okR = strings.Join(got, "|") == "\\|\\\\|\"|\\\""
				}
			}
			return okR
		}))
		if !ok && len(callsIn(eq, "(*strings.Replacer).Replace")) == 0 {
			// escaping written by hand (a byte loop …): what it produces is a runtime value this rule cannot read
			c.obRI("R11.4", r, "escapeQuotes-always-replaces", false, "escapeQuotes returns the result of the replacer mapping \\ to \\\\ and \" to \\\"", "escapeQuotes no longer uses a strings.Replacer: its output cannot be decided structurally")
			continue
		}
		c.obI("R11.4", r, "escapeQuotes-always-replaces", ok, "escapeQuotes always returns the result of the replacer mapping \\ to \\\\ and \" to \\\" applied to its argument (no shortcut returns the text unescaped)", "origin "+describeOrigin(bad))
	}
	c.min("R11.4", 8)

	// R11.5 NamedReader
	nrd := p.Fn("rt.NamedReader")
	for _, st := range fieldStores(nrd, "rt.namedReadCloser", "cr") {
		ok, bad := allOrigins(st.Val, oIsValue(nrd.Params[1]), oCallWhere(-1, "io.NopCloser", func(n *ssa.Call) bool { return n.Call.Args[0] == ssa.Value(nrd.Params[1]) }))
		c.obI("R11.5", st, "wraps-reader", ok, "NamedReader keeps the reader it was given (through io.NopCloser when it is no closer)", "origin "+describeOrigin(bad))
	}
	for _, st := range fieldStores(nrd, "rt.namedReadCloser", "name") {
		c.obI("R11.5", st, "keeps-name", st.Val == ssa.Value(nrd.Params[0]), "NamedReader keeps the name", "")
	}
	for _, r := range realReturns(nrd) {
		ok, bad := allOrigins(resOf(r, 0), func(o Origin) bool {
			al, isAl := o.V.(*ssa.Alloc)
			if !isAl || !al.Heap {
				return false
			}
			n, _ := structOf(al.Type())
			return n != nil && typeFullName(n) == "rt.namedReadCloser"
		})
		c.obI("R11.5", r, "always-a-new-named-wrapper", ok, "NamedReader always returns a new wrapper carrying the name it was given (a reader that already has a name is still renamed: the part's file name is the name given here)", "origin "+describeOrigin(bad))
	}
	for _, m := range []string{"Read", "Close"} {
		mf := p.Fn("(*rt.namedReadCloser)." + m)
		n := 0
		for _, ci := range allCalls(mf) {
			if ci.Common().IsInvoke() && ci.Common().Method.Name() == m && vFieldLoad("rt.namedReadCloser", "cr", nil)(ci.Common().Value) {
				n++
			}
		}
		c.obRF("R11.5", mf, "forwards", n == 1, "namedReadCloser."+m+" forwards to the wrapped reader", "")
	}
	// the wrapper declares a content type only if it has one to declare: the multipart writer tests for the PRESENCE of
	// a ContentType() method and skips sniffing when it is there, so a method that can answer "" sends a part with an
	// empty Content-Type
	for _, name := range []string{"(*rt.namedReadCloser).ContentType", "(rt.namedReadCloser).ContentType"} {
		mf := p.FnOpt(name)
		if mf == nil || mf.Blocks == nil {
			continue
		}
		for _, r := range realReturns(mf) {
			if len(r.Results) != 1 {
				continue
			}
			empty := false
			for _, o := range originsOf(r.Results[0]) {
				if k, ok := constString(o.V); ok && k == "" {
					empty = true
				}
			}
			c.definite = true
			c.obI("R11.5", r, "named-wrapper-declares-no-empty-type", !empty, "the NamedReader wrapper never declares an empty content type (having the method at all switches content sniffing off)", "ContentType() of the wrapper can return \"\": the part is then sent with an empty Content-Type instead of the sniffed one")
			c.definite = false
		}
	}
	c.min("R11.5", 4)
}

// freeVarLoadIs: v is a load of the closure's free variable named name.
func freeVarLoadIs(v ssa.Value, name string) bool {
	ad, ok := derefLoad(v)
	if !ok {
		return false
	}
	fv, ok := ad.(*ssa.FreeVar)
	return ok && fv.Name() == name
}

// globalInitCall finds, in the package initialiser, the call to callee whose result is stored into the global.
func globalInitCall(p *Prog, g *ssa.Global, callee string) *ssa.Call {
	init := g.Pkg.Func("init")
	if init == nil {
		return nil
	}
	for _, in := range instrs(init) {
		if st, ok := in.(*ssa.Store); ok && st.Addr == ssa.Value(g) {
			if cc := asCall(st.Val); cc != nil && calleeName(&cc.Call) == callee {
				return cc
			}
		}
	}
	return nil
}

// valueMentions: the expression computing v (string concatenations, formatting calls, conversions, phis) has target
// among its operands.
func valueMentions(v, target ssa.Value, depth int) bool {
	if v == target {
		return true
	}
	if depth == 0 {
		return false
	}
	switch x := v.(type) {
	case *ssa.BinOp:
		return valueMentions(x.X, target, depth-1) || valueMentions(x.Y, target, depth-1)
	case *ssa.MakeInterface:
		return valueMentions(x.X, target, depth-1)
	case *ssa.ChangeType:
		return valueMentions(x.X, target, depth-1)
	case *ssa.Convert:
		return valueMentions(x.X, target, depth-1)
	case *ssa.Phi:
		for _, e := range x.Edges {
			if valueMentions(e, target, depth-1) {
				return true
			}
		}
	case *ssa.Call:
		for _, a := range x.Call.Args {
			if valueMentions(a, target, depth-1) {
				return true
			}
			if elems, ok := sliceLitElems(a); ok {
				for _, e := range elems {
					if valueMentions(e, target, depth-1) {
						return true
					}
				}
			}
		}
	}
	return false
}

func isFormFieldsV(v ssa.Value) bool {
	return vFieldLoad(clientReqT, "formFields", nil)(v) || vFieldLoadO(clientReqT, "formFields")(v)
}

// errorsIsCall: fn calls errors.Is(ev, <global name>).
func errorsIsCall(fn *ssa.Function, ev ssa.Value, global string) bool {
	if ev == nil {
		return false
	}
	for _, ci := range callsIn(fn, "errors.Is") {
		a := ci.Common().Args
		if len(a) != 2 {
			continue
		}
		okE, _ := allOrigins(a[0], oIsValue(ev))
		ad, okD := derefLoad(a[1])
		if !okE || !okD {
			continue
		}
		if gl, okG := ad.(*ssa.Global); okG && short(gl.String()) == global {
			return true
		}
	}
	return false
}

// globalConstStrings reads a package-level []string (or [N]string) initialised with a literal of constant strings.
func globalConstStrings(g *ssa.Global) ([]string, bool) {
	init := g.Pkg.Func("init")
	if init == nil {
		return nil, false
	}
	var arr ssa.Value
	for _, in := range instrs(init) {
		if st, ok := in.(*ssa.Store); ok && st.Addr == ssa.Value(g) {
			if sl, isSl := st.Val.(*ssa.Slice); isSl {
				arr = sl.X
			}
		}
	}
	if arr == nil {
		// an array global is filled in place
		if _, isArr := g.Type().Underlying().(*types.Pointer).Elem().Underlying().(*types.Array); isArr {
			arr = g
		} else {
			return nil, false
		}
	}
	var n int64 = -1
	if pt, ok := arr.Type().Underlying().(*types.Pointer); ok {
		if at, ok := pt.Elem().Underlying().(*types.Array); ok {
			n = at.Len()
		}
	}
	var out []string
	for _, in := range instrs(init) {
		st, ok := in.(*ssa.Store)
		if !ok {
			continue
		}
		ia, ok := st.Addr.(*ssa.IndexAddr)
		if !ok || ia.X != arr {
			continue
		}
		s, isS := constString(st.Val)
		if !isS {
			return nil, false
		}
		out = append(out, s)
	}
	return out, n >= 0 && int64(len(out)) == n
}

// rulePartBodyIsWholeFile: what is copied into a file part is the original upload source, or — after sniffing — the
// sniffed bytes followed by the REST of that source; never the sniffing buffer alone (a short first read is not the end
// of the source: the remainder, and a failure while reading it, would go unnoticed). Shared by C11 and C12.
func rulePartBodyIsWholeFile(c *Ctx, rule string, g *ssa.Function, copies []ssa.CallInstruction) {
	var fileLoopElem ssa.Value
	for _, l := range sliceLoops(g, nil) {
		if strings.Contains(typeStr(l.X.Type()), "NamedReadCloser") {
			fileLoopElem = l.Elem
		}
	}
	isOriginal := func(o Origin) bool {
		ad, ok := derefLoad(o.V)
		return ok && fileLoopElem != nil && ad == fileLoopElem
	}
	for _, cp := range copies {
		src := cp.Common().Args[1]
		ok, bad := allOrigins(src, isOriginal, oCallWhere(-1, "rt.NamedReader", func(nr *ssa.Call) bool {
			okk, _ := allOrigins(nr.Call.Args[1], oCallWhere(-1, "io.MultiReader", func(mr *ssa.Call) bool {
				elems, isLit := sliceLitElems(mr.Call.Args[0])
				if !isLit || len(elems) != 2 {
					return false
				}
				okHead, _ := allOrigins(elems[0], oCallWhere(-1, "bytes.NewReader", func(b *ssa.Call) bool {
					_, isSl := b.Call.Args[0].(*ssa.Slice)
					return isSl
				}))
				okRest, _ := allOrigins(elems[1], isOriginal)
				return okHead && okRest
			}))
			return okk
		}))
		c.obI(rule, cp, "part-body-is-whole-file", ok, "the content copied into a part is the original file, or — after sniffing — the sniffed bytes followed by the REST of that file (io.MultiReader(bytes.NewReader(buf[:n]), file)): nothing is dropped however short the first read was", "origin "+describeOrigin(bad))
	}
}
