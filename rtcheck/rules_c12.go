package main

import (
	"fmt"
	"go/constant"
	"go/token"
	"strings"

	"golang.org/x/tools/go/ssa"
)

func init() {
	register(&Property{
		ID: "C12",
		Explanation: "Resource typestate/pairing on every path: R12.1 Submit derives the request context from WithTimeout/WithCancel of (operation.Context, else Runtime.Context, else Background), defers its cancel before any later return and sends the request under that context; R12.2 on the success edge of client.Do the response body's Close is deferred before any further return; " +
			"Round 12: R12.6 after the go statement of the multipart writer the request body is never reset to nil. " +
			"R12.3 the multipart pipe is never orphaned: once the writer goroutine is started, every error return of buildHTTP releases the read end (a deferred guard that closes it unless the request was built, armed before the go statement, and disarmed only on the success return); R12.4 in the goroutine the closing of ALL upload files and of the pipe writer is registered before anything can fail, and every failing step reaches pw.CloseWithError (a failing upload source can never look like a complete body); " +
			"R12.5 keep-alive body: Close always closes the wrapped body and returns its error, drains only when the end was not seen, the end is recorded only on io.EOF or a zero-byte read, and the transport wraps only successful responses; R12.6 the only goroutines started by client calls are the multipart writer (and the CSV producer's errgroup). " +
			"R12.5 also: every successful response leaves the keep-alive RoundTrip with its body wrapped (only a nil or http.NoBody body may stay unwrapped). " +
			"R12.5 also: EnableConnectionReuse installs the draining transport in the client the runtime already holds, else in Runtime.Transport. " +
			"R12.4 also: the closer of a copied stream is looked up before the body variable is re-bound to the buffer, and client.Do is not reachable after a failed debug dump. " +
			"R12.4 also: the copying GetBody call latches on every exit; R12.3 also: createHttpRequest has no error exit after a successful buildHTTP. " +
			"NOT decided: wall-clock bounds, behaviour of net/http and of servers.",
		Run: runC12,
	})
}

func defersIn(f *ssa.Function) []*ssa.Defer {
	var out []*ssa.Defer
	for _, in := range instrs(f) {
		if d, ok := in.(*ssa.Defer); ok {
			out = append(out, d)
		}
	}
	return out
}

func runC12(c *Ctx) {
	p := c.P
	sub := p.Fn("(*rt/client.Runtime).Submit")
	op := paramOf(sub, 0)
	// R12.1
	var cancels []*ssa.Defer
	ctxCalls := callsIn(sub, "context.WithTimeout", "context.WithCancel")
	for _, d := range defersIn(sub) {
		ok, _ := allOrigins(d.Call.Value, oCall(1, "context.WithTimeout", "context.WithCancel"))
		if ok {
			cancels = append(cancels, d)
		}
	}
	c.obRF("R12.1", sub, "derives-context", len(ctxCalls) == 2 && len(cancels) == 1, "Submit derives a cancellable context and defers its cancel", fmt.Sprintf("%d derivations, %d deferred cancels", len(ctxCalls), len(cancels)))
	dos := callsIn(sub, "(*net/http.Client).Do")
	c.obRF("R12.1", sub, "sends", len(dos) == 1, "Submit sends the request once", "")
	if len(cancels) == 1 && len(dos) == 1 {
		d := cancels[0]
		do := dos[0].(*ssa.Call)
		for _, cc := range ctxCalls {
			for _, r := range realReturns(sub) {
				leak := pathExists(sub, cc, r, nil, isOneOf(d))
				c.obI("R12.1", r, "cancel-deferred-before-return", !leak, "after deriving the context no return is reachable before its cancel function has been deferred", "a return can leak the context's resources")
			}
			parent := cc.Common().Args[0]
			ok, bad := allOrigins(parent, oFieldLoad("rt.ClientOperation", "Context", nil), oFieldLoad("rt/client.Runtime", "Context", nil), oCall(-1, "context.Background"))
			c.obI("R12.1", cc, "parent-context", ok, "the parent context is the operation's, else the transport's, else Background", "origin "+describeOrigin(bad))
			if calleeName(cc.Common()) == "context.WithTimeout" {
				okT := vFieldLoadO(clientReqT, "timeout")(cc.Common().Args[1])
				if !okT {
					// the request builder hands the timeout back itself: every value it returns there is the request's timeout (or 0 on errors)
					const chr = "(*rt/client.Runtime).createHttpRequest"
					if viaBuilder, _ := allOrigins(cc.Common().Args[1], oCallT("time.Duration", chr)); viaBuilder {
						okT = true
						cf := p.Fn(chr)
						for _, r := range realReturns(cf) {
							for i := 0; i < len(r.Results); i++ {
								if typeStr(r.Results[i].Type()) != "time.Duration" {
									continue
								}
								if okR, _ := allOrigins(resOf(r, i), oFieldLoad(clientReqT, "timeout", nil), func(o Origin) bool { k, isK := constInt(o.V); return isK && k == 0 }); !okR {
									okT = false
								}
							}
						}
					}
				}
				c.obI("R12.1", cc, "timeout-is-request-timeout", okT, "the deadline is the request's timeout", "")
				// the derivation WITHOUT a deadline is taken only when the request has no timeout: nothing else (a client-side
				// Timeout, a debug flag …) may waive the request's deadline
				wtArg := cc.Common().Args[1]
				isT := func(v ssa.Value) bool {
					return vFieldLoadO(clientReqT, "timeout")(v) || vOrigins(oIsValue(wtArg))(v) || sameVal(v, wtArg)
				}
				for _, wc := range ctxCalls {
					if calleeName(wc.Common()) == "context.WithCancel" {
						c.obI("R12.1", wc, "no-deadline-only-without-timeout", guardedBy(wc, nil, factEqInt(isT, 0, true)), "the context without a deadline is derived only when the request's timeout is exactly zero (a negative timeout — a budget already spent — still yields a deadline, one that has passed)", "the deadline-less derivation is reachable with a non-zero request timeout")
					}
				}
			}
		}
		// precedence kept as an ordered table of candidates: the operation's context is listed before the transport's
		if found, okOrd := candidateTableOrder(sub, vFieldLoadO("rt.ClientOperation", "Context"), vFieldLoadO("rt/client.Runtime", "Context")); found {
			c.obF("R12.1", sub, "context-candidates-ordered", okOrd, "in the table of candidate parent contexts the operation's context comes before the transport-wide one", "the transport-wide context is listed first")
		}
		// precedence: runtime context only when the operation has none
		for _, in := range instrs(sub) {
			phi, ok := in.(*ssa.Phi)
			if !ok || typeStr(phi.Type()) != "context.Context" {
				continue
			}
			for i, e := range phi.Edges {
				if okR, _ := allOrigins(e, oFieldLoad("rt/client.Runtime", "Context", nil)); okR {
					noOp := factNil(vFieldLoadO("rt.ClientOperation", "Context"), true)
					g := edgeGuarded(phi.Block().Preds[i], phi.Block(), nil, noOp)
					if !g {
						// a provisional choice (default, then the transport's, then the operation's overriding it): what counts
						// is where the merged value can go on
						g = ctxUsesGuarded(phi, noOp, 3)
					}
					c.obI("R12.1", lastInstr(phi.Block().Preds[i]), "operation-context-first", g, "the transport-wide context is used only when the operation has none", "")
				}
			}
		}
		_, a := callArgs(&do.Call)
		okReq, _ := allOrigins(a[0], oCallWhere(-1, "(*net/http.Request).WithContext", func(w *ssa.Call) bool {
			okk, _ := allOrigins(w.Call.Args[1], oCall(0, "context.WithTimeout", "context.WithCancel"))
			okq, _ := allOrigins(w.Call.Args[0], oCallT("*net/http.Request", "(*rt/client.Runtime).createHttpRequest"))
			return okk && okq
		}))
		c.obI("R12.1", do, "request-under-derived-context", okReq, "the request is sent under the derived (deadline-carrying) context", "")
		c.obI("R12.1", d, "cancel-before-send", dominates(d, do), "the cancel is deferred before the request is sent", "")

		// R12.2
		derr := resultOf(do, 1)
		var closes []ssa.Instruction
		isRespBody := vFieldLoad("net/http.Response", "Body", vOrigins(oIsValue(resultOf(do, 0))))
		for _, df := range defersIn(sub) {
			if df.Call.IsInvoke() && df.Call.Method.Name() == "Close" && isRespBody(df.Call.Value) {
				closes = append(closes, df)
				continue
			}
			// defer func() { _ = body.Close() }() with body := res.Body captured when the defer is registered
			if body := deferredBody(df); body != nil && body.Parent() != nil {
				for _, ci := range allCalls(body) {
					if !ci.Common().IsInvoke() || ci.Common().Method.Name() != "Close" || !dominatesAllReturns(body, ci) {
						continue
					}
					if capturedValueIs(ci.Common().Value, isRespBody) {
						closes = append(closes, df)
					}
				}
			}
		}
		c.obRF("R12.2", sub, "defers-body-close", len(closes) == 1, "Submit defers closing the response body", fmt.Sprintf("%d", len(closes)))
		for _, r := range realReturns(sub) {
			if !pathExists(sub, do, r, nil, nil) {
				continue
			}
			// (a nil response has no body to close)
			// (a defensive `if res.Body != nil`: without a body there is nothing to close)
			noBody := factNil(func(v ssa.Value) bool {
				_, okF := fieldLoad(v, "net/http.Response", "Body")
				return okF
			}, true)
			leak := pathExists(sub, do, r, anyFact(factNil(errAlias(derr), false), factNil(vIs(resultOf(do, 0)), true), noBody), isOneOf(closes...))
			c.obI("R12.2", r, "body-close-deferred-before-return", !leak, "once client.Do succeeded, no return is reachable before res.Body.Close has been deferred (malformed content type, missing consumer and debug-dump failures included)", "a return after a successful Do leaves the response body open")
		}
		checkErrorsReturned(c, "R12.2", sub, 1, nil)
	}
	c.min("R12.1", 8)
	c.min("R12.2", 5)

	// R12.3
	f := p.Fn("(*rt/client.request).buildHTTP")
	gostmt := theGo(f)
	g := goClosure(f)
	c.obRF("R12.3", f, "starts-writer", gostmt != nil && g != nil, "the multipart writer goroutine", "")
	if gostmt == nil || g == nil {
		return
	}
	pipes := callsIn(f, "io.Pipe")
	var prCell *ssa.Alloc
	if len(pipes) == 1 {
		for _, ref := range *resultOf(pipes[0].(*ssa.Call), 0).Referrers() {
			if st, ok := ref.(*ssa.Store); ok {
				prCell, _ = st.Addr.(*ssa.Alloc)
			}
		}
	}
	// the guard
	var guard *ssa.Defer
	var builtCell *ssa.Alloc
	for _, d := range defersIn(f) {
		mc, ok := d.Call.Value.(*ssa.MakeClosure)
		if !ok {
			continue
		}
		gf := mc.Fn.(*ssa.Function)
		closesPr := false
		for _, ci := range callsIn(gf, "(*io.PipeReader).Close", "(*io.PipeReader).CloseWithError") {
			recv, _ := callArgs(ci.Common())
			if ad, ok := derefLoad(recv); ok {
				if fv, isFV := ad.(*ssa.FreeVar); isFV && freeVarCell(fv) == prCell && prCell != nil {
					closesPr = true
					// closed unless built
					for _, fv2 := range gf.FreeVars {
						if cell := freeVarCell(fv2); cell != nil && typeStr(cell.Type()) == "*bool" {
							isBuilt := func(v ssa.Value) bool {
								ad2, ok2 := derefLoad(v)
								return ok2 && ad2 == ssa.Value(fv2)
							}
							if guardedBy(ci, nil, factBool(isBuilt, false)) {
								builtCell = cell
							}
							// every path with pr != nil and !built closes
							for _, r := range returnsOf(gf) {
								isPr := func(v ssa.Value) bool { ad3, ok3 := derefLoad(v); return ok3 && ad3 == ad }
								if pathExists(gf, nil, r, anyFact(factBool(isBuilt, true), factNil(isPr, true)), isOneOf(ci)) {
									closesPr = false
								}
							}
						}
					}
				}
			}
		}
		if closesPr {
			guard = d
		}
	}
	released := func(r *ssa.Return) (bool, string) {
		// explicit release on the path from the go statement
		if !pathExists(f, gostmt, r, nil, func(in ssa.Instruction) bool {
			ci, ok := in.(ssa.CallInstruction)
			if !ok {
				return false
			}
			n := calleeName(ci.Common())
			return n == "(*io.PipeReader).Close" || n == "(*io.PipeReader).CloseWithError"
		}) {
			return true, ""
		}
		if guard == nil {
			return false, "no deferred guard closes the pipe's read end and the path does not close it either: the writer goroutine blocks forever and the files stay open"
		}
		if !dominates(guard, gostmt) {
			// registered where the pipe is created (not up front): armed on every path from the creation of the pipe to
			// the go statement — without a pipe there is no read end to release
			armed := false
			for _, pc := range callsIn(f, "io.Pipe") {
				if pc.Parent() == f && !pathExists(f, pc, gostmt, nil, isOneOf(guard)) {
					armed = true
				}
			}
			if !armed {
				return false, "the guard is not armed before the goroutine is started"
			}
		}
		if builtCell != nil {
			// disarmed only right before the success return
			for _, st := range storesToCell(builtCell) {
				if b, ok := constBool(st.Val); ok && b && st.Parent() == f && pathExists(f, st, r, nil, nil) {
					return false, "the guard is disarmed (built = true) on a path to this error return"
				}
			}
		}
		return true, ""
	}
	nErr := 0
	for _, r := range realReturns(f) {
		if !pathExists(f, gostmt, r, nil, nil) {
			continue
		}
		if !isNilConst(resOf(r, 0)) {
			continue // the request was handed out: net/http owns (and always closes) the body
		}
		nErr++
		ok, why := released(r)
		c.obI("R12.3", r, "pipe-released-on-error", ok, "every `return nil, err` of buildHTTP that is reachable after the writer goroutine was started releases the pipe's read end (so the goroutine terminates and closes the files)", why)
	}
	c.obRF("R12.3", f, "error-returns-after-go", nErr >= 5, "error exits after the go statement exist and are checked", fmt.Sprintf("%d", nErr))
	// success return hands out the request built over the body
	// … and in Submit: once the request is built (its upload goroutine may be running, its files are open), it is
	// handed to client.Do — whose contract is to close the body — on every path. An early exit in between (a fail-fast
	// on a cancelled context, a validation …) abandons the body. Exempted: the exit after a failing request dump in
	// Debug mode (diagnostics, not part of an exchange's ways to end).
	{
		creates := callsIn(sub, "(*rt/client.Runtime).createHttpRequest")
		sends := callsIn(sub, "(*net/http.Client).Do")
		if len(creates) == 1 && len(sends) >= 1 {
			cr := creates[0].(*ssa.Call)
			cerr := resultOf(cr, 2)
			failed := factNil(errAlias(cerr), false)
			debugOn := factBool(func(v ssa.Value) bool {
				return vFieldLoadO("rt/client.Runtime", "Debug")(v) || vFieldLoad("rt/client.Runtime", "Debug", nil)(v)
			}, true)
			for _, r := range realReturns(sub) {
				if !pathExists(sub, cr, r, nil, nil) {
					continue
				}
				abandoned := pathExists(sub, cr, r, anyFact(failed, debugOn), isOneOf(toInstrs(sends)...))
				c.obI("R12.3", r, "built-request-always-sent", !abandoned, "after the request was built, every exit of Submit lies behind client.Do (which closes the request body: the multipart goroutine ends and the upload files are closed)", "a return is reachable between building the request and client.Do: the request body is never closed (files stay open, the multipart writer stays blocked)")
			}
		} else {
			c.obRF("R12.3", sub, "builds-then-sends", false, "Submit builds one request and sends it", "")
		}
		// … and inside createHttpRequest: once buildHTTP has succeeded (the writer goroutine may be running, the files are
		// open) the function hands the request out — every refusal (an unregistered media type …) is decided BEFORE
		if chf := p.FnOpt("(*rt/client.Runtime).createHttpRequest"); chf != nil {
			for _, bi := range callsIn(chf, "(*rt/client.request).buildHTTP") {
				bcall, ok := bi.(*ssa.Call)
				if !ok {
					continue
				}
				berr := resultOf(bcall, 1)
				if berr == nil {
					continue
				}
				for _, r := range realReturns(chf) {
					if len(r.Results) != 3 || isNilConst(resOf(r, 2)) || !pathExists(chf, bcall, r, nil, nil) {
						continue
					}
					// (a defensive exit for a nil request / nil URL after a nil error abandons nothing: there is no request)
					breq := resultOf(bcall, 0)
					noReq := func(cond ssa.Value, branch bool) bool {
						if breq == nil {
							return false
						}
						isReq := vOrigins(oIsValue(breq))
						return factNil(isReq, true)(cond, branch) || factNil(vFieldLoad("net/http.Request", "URL", isReq), true)(cond, branch)
					}
					late := pathExists(chf, bcall, r, anyFact(factNil(errAlias(berr), false), noReq), nil)
					c.obI("R12.3", r, "no-refusal-after-the-request-was-built", !late, "after buildHTTP succeeded createHttpRequest returns the request: no error exit follows (it would abandon the body: the multipart writer stays blocked and the upload files stay open)", "an error return is reachable after a successful buildHTTP")
				}
			}
		}
		// the debug dump READS the request body: when it fails (a failing upload source), the body is left partly consumed
		// — the request is not sent after that (what remains of the source would go out as a complete-looking upload)
		for _, di := range callsIn(sub, "net/http/httputil.DumpRequestOut") {
			dump, ok := di.(*ssa.Call)
			if !ok {
				continue
			}
			derr := resultOf(dump, 1)
			if derr == nil {
				c.obI("R12.4", dump, "no-send-after-failed-dump", false, "the request is sent only when dumping it (which reads the whole body) succeeded", "the dump's error is dropped")
				continue
			}
			for _, snd := range sends {
				if !pathExists(sub, dump, snd, nil, nil) {
					continue
				}
				c.obI("R12.4", snd, "no-send-after-failed-dump", guardedBy(snd, dump, factNil(errAlias(derr), true)), "the request is sent only when dumping it (which reads the whole body) succeeded: a failing upload source ends the call with its error", "client.Do is reachable after DumpRequestOut failed: the partly read upload is sent and a 2xx reported as success")
			}
		}
	}
	// closing the request body must close the pipe: the body given to the request for a multipart upload IS the pipe's
	// read end (wrapped in anything that is no io.Closer — a bufio.Reader — http.NewRequest gives it a no-op Close, and
	// a transport error leaves the writer goroutine blocked with the files open)
	for _, pc := range callsIn(f, "io.Pipe") {
		pipe, okP := pc.(*ssa.Call)
		if !okP {
			continue
		}
		rdEnd := resultOf(pipe, 0)
		for _, in := range ownInstrs(f) {
			st, isSt := in.(*ssa.Store)
			if !isSt {
				continue
			}
			al, isAl := st.Addr.(*ssa.Alloc)
			if !isAl || typeStr(al.Type()) != "*io.Reader" || rdEnd == nil || !derivedFrom(st.Val, rdEnd, 3) {
				continue
			}
			okB, bad := allOrigins(st.Val, oIsValue(rdEnd))
			c.obI("R12.3", st, "body-is-the-pipe-read-end-itself", okB, "the multipart body handed to the request is the pipe's read end itself, so that the transport closing the body releases the writer goroutine", "the body is "+describeOrigin(bad)+", built around the pipe: its Close does not reach the pipe")
		}
	}
	c.min("R12.3", 7)

	// R12.4 goroutine
	var fileCloser, pipeCloser *ssa.Defer
	for _, d := range defersIn(g) {
		if calleeName(&d.Call) == "(*io.PipeWriter).Close" {
			pipeCloser = d // defer pw.Close()
			continue
		}
		df := deferredBody(d)
		if df == nil {
			continue
		}
		// file closer: ranges over r.fileFields and closes every entry
		isFileFields := func(v ssa.Value) bool {
			// the field itself, or what its plain accessor GetFileParam() returns
			return vFieldLoad(clientReqT, "fileFields", nil)(v) || vFieldLoadO(clientReqT, "fileFields")(v)
		}
		for _, ml := range mapLoops(df, isFileFields) {
			for _, sl := range sliceLoops(df, vOrigins(oIsValue(extractOf(ml.Next, 2)))) {
				if sl.everyIteration(func(in ssa.Instruction) bool {
					ci, ok := in.(ssa.CallInstruction)
					return ok && ci.Common().IsInvoke() && ci.Common().Method.Name() == "Close"
				}) {
					fileCloser = d
					// … and the sweep is never abandoned: a file whose Close fails does not keep the remaining ones open
					c.obI("R12.4", sl.Elem, "close-sweep-never-abandoned", sl.noEarlyExit(), "the deferred sweep over the upload files leaves its loops only when every file was visited (no return or break on a failing Close)", "the sweep can be left from inside the loop: the files not yet reached stay open")
				}
			}
		}
		if len(callsIn(df, "(*io.PipeWriter).Close")) == 1 {
			okAll := true
			for _, r := range returnsOf(df) {
				if pathExists(df, nil, r, nil, isCallInstrTo("(*io.PipeWriter).Close")) {
					okAll = false
				}
			}
			if okAll {
				pipeCloser = d
			}
		}
	}
	// files are closed somewhere in the goroutine (the mechanism is there) but not by an up-front closer over ALL of them:
	// a property violation — an early exit leaves the files not yet reached open
	closesSomeFile := false
	for _, fn := range withClosures(g) {
		for _, ci := range allCalls(fn) {
			if ci.Common().IsInvoke() && ci.Common().Method.Name() == "Close" && typeStr(ci.Common().Value.Type()) == "rt.NamedReadCloser" {
				closesSomeFile = true
			}
		}
	}
	if fileCloser == nil && closesSomeFile {
		c.obF("R12.4", g, "closes-all-files", false, "the goroutine defers closing EVERY file of every file field (one up-front closer over r.fileFields)", "files are closed one by one as they are reached: an early exit leaves later files unclosed")
	} else {
		c.obRF("R12.4", g, "closes-all-files", fileCloser != nil, "the goroutine defers closing EVERY file of every file field (one up-front closer over r.fileFields)", "no deferred closer ranging over all upload files: an early exit leaves later files unclosed")
	}
	c.obRF("R12.4", g, "closes-pipe-writer", pipeCloser != nil, "the goroutine defers closing the pipe writer", "")
	for _, r := range realReturns(g) {
		if fileCloser != nil {
			c.obI("R12.4", r, "file-closer-registered-on-every-exit", !pathExists(g, nil, r, nil, isOneOf(fileCloser)), "the file closer is registered before any exit of the goroutine", "an exit (e.g. a failing WriteField) precedes the registration of the file closer")
		}
		if pipeCloser != nil {
			c.obI("R12.4", r, "pipe-closer-registered-on-every-exit", !pathExists(g, nil, r, nil, isOneOf(pipeCloser)), "the pipe closer is registered before any exit", "")
		}
	}
	// the files are closed BEFORE the body is ended: the transport (and with it Submit) can only see the end of the request
	// body once the pipe writer is closed, so closing the files first is what makes "returned => files closed" hold
	if fileCloser != nil && pipeCloser != nil {
		const rule = "the upload files are closed before the pipe writer is (deferred calls run last-in first-out): the end of the body is never visible while a file is still open"
		if fileCloser != pipeCloser {
			c.obI("R12.4", fileCloser, "files-closed-before-body-ends", dominates(pipeCloser, fileCloser), rule, "the file closer is registered before the pipe closer, so it runs after the body was ended")
		} else if df := deferredBody(fileCloser); df != nil {
			late := false
			for _, pc := range callsIn(df, "(*io.PipeWriter).Close") {
				for _, ci := range allCalls(df) {
					if ci.Common().IsInvoke() && ci.Common().Method.Name() == "Close" && typeStr(ci.Common().Value.Type()) == "rt.NamedReadCloser" && pathExists(df, pc, ci, nil, nil) {
						late = true
					}
				}
			}
			c.obI("R12.4", fileCloser, "files-closed-before-body-ends", !late, rule, "in the deferred function a file is closed after the pipe writer was closed")
		}
	}
	ruleUploadFailuresPropagated(c, "R12.4", g)
	rulePartBodyIsWholeFile(c, "R12.4", g, callsIn(g, "io.Copy"))
	ruleCopyFailureKept(c, "R12.4")
	c.min("R12.4", 9)

	// R12.5 keep-alive
	cl := p.Fn("(*rt/client.drainingReadCloser).Close")
	isRdr := vFieldLoad("rt/client.drainingReadCloser", "rdr", nil)
	var inner []ssa.Instruction
	for _, ci := range allCalls(cl) {
		if ci.Common().IsInvoke() && ci.Common().Method.Name() == "Close" && isRdr(ci.Common().Value) {
			inner = append(inner, ci)
		}
	}
	c.obRF("R12.5", cl, "closes-wrapped-body", len(inner) >= 1, "Close closes the wrapped body", "")
	for _, r := range realReturns(cl) {
		c.obI("R12.5", r, "always-closes", !pathExists(cl, nil, r, nil, isOneOf(inner...)), "the wrapped body is closed on every path", "a path returns without closing the wrapped body")
		okE := false
		for _, ic := range inner {
			if okk, _ := allOrigins(resOf(r, 0), oIsValue(ic.(ssa.Value))); okk {
				okE = true
			}
		}
		c.obI("R12.5", r, "returns-close-error", okE, "Close returns the wrapped body's Close error", "")
	}
	for _, ci := range callsIn(cl, "io.Copy") {
		seen := func(v ssa.Value) bool {
			ld := asCall(v)
			return ld != nil && calleeName(&ld.Call) == "sync/atomic.LoadUint32"
		}
		_ = seen
		c.obI("R12.5", ci, "drain-only-when-end-unseen", guardedBy(ci, nil, endSeenFact(false)), "the body is drained only when its end was not seen", "")
		a := ci.Common().Args
		c.obI("R12.5", ci, "drains-wrapped-body", isRdr(unboxed(a[1])) || vFieldLoadO("rt/client.drainingReadCloser", "rdr")(a[1]), "the drain reads the wrapped body", "")
	}
	// the whole unread remainder is drained: when the end was not seen, the wrapped body is closed only after an
	// unbounded io.Copy(io.Discard, body) — a bounded or partial drain leaves a connection that cannot be reused
	{
		seen := func(v ssa.Value) bool {
			ld := asCall(v)
			return ld != nil && calleeName(&ld.Call) == "sync/atomic.LoadUint32"
		}
		var drains []ssa.Instruction
		for _, ci := range callsIn(cl, "io.Copy") {
			a := ci.Common().Args
			if isRdr(unboxed(a[1])) || vFieldLoadO("rt/client.drainingReadCloser", "rdr")(a[1]) {
				drains = append(drains, ci)
			}
		}
		for _, ic := range inner {
			_ = seen
			undrained := pathExists(cl, nil, ic, endSeenFact(true), isOneOf(drains...))
			c.obI("R12.5", ic, "unread-remainder-drained-before-close", !undrained, "when the end of the body was not seen, the body is read to its end (io.Copy to io.Discard, unbounded) before it is closed", "the wrapped body can be closed with an unread remainder that was not drained to the end")
		}
	}
	rd := p.Fn("(*rt/client.drainingReadCloser).Read")
	for _, ci := range allCalls(rd) {
		if !ci.Common().IsInvoke() || ci.Common().Method.Name() != "Read" {
			continue
		}
		call := ci.(*ssa.Call)
		n, err := resultOf(call, 0), resultOf(call, 1)
		isEOFfact := func(cond ssa.Value, branch bool) bool {
			cnd, b := stripNot(cond, branch)
			bo, ok := cnd.(*ssa.BinOp)
			if !ok || (bo.Op != token.EQL && bo.Op != token.NEQ) {
				return false
			}
			isE := func(v ssa.Value) bool {
				ad, ok := derefLoad(v)
				if !ok {
					return false
				}
				gl, ok := ad.(*ssa.Global)
				return ok && short(gl.String()) == "io.EOF"
			}
			isErr := vOrigins(oIsValue(err))
			if !((isErr(bo.X) && isE(bo.Y)) || (isErr(bo.Y) && isE(bo.X))) {
				return false
			}
			return b == (bo.Op == token.EQL)
		}
		zero := factEqInt(vOrigins(oIsValue(n)), 0, true)
		for _, st := range callsIn(rd, "sync/atomic.StoreUint32", "(*sync/atomic.Bool).Store") {
			c.obI("R12.5", st, "end-seen-only-at-eof-or-empty-read", guardedBy(st, call, anyFact(isEOFfact, zero)), "the end of the body is recorded only when Read returned io.EOF or no bytes — a merely short read is not the end (the drain must still run so the connection can be reused)", "the end is recorded on a condition other than io.EOF / n == 0")
		}
	}
	ruleDrainingReadTransparent(c, "R12.5")
	// the end-seen flag is raised by Read alone (where its condition is checked above): no other method or function of
	// the client — a WriteTo/ReadFrom shortcut, say — declares the body exhausted
	for _, fn := range p.LibFuncs("rt/client") {
		root := fn
		for root.Parent() != nil {
			root = root.Parent()
		}
		if fnName(root) == "(*rt/client.drainingReadCloser).Read" || isTransparent(root) {
			continue
		}
		for _, ci := range callsIn(fn, "sync/atomic.StoreUint32", "(*sync/atomic.Bool).Store", "(*sync/atomic.Uint32).Store", "sync/atomic.CompareAndSwapUint32", "(*sync/atomic.Bool).CompareAndSwap") {
			if ci.Parent() != fn {
				continue
			}
			recv, a := callArgs(ci.Common())
			target := recv
			if target == nil && len(a) > 0 {
				target = a[0]
			}
			if _, isFlag := fieldAddrOf(target, "rt/client.drainingReadCloser", "seenEOF"); !isFlag {
				continue
			}
			last := ci.Common().Args[len(ci.Common().Args)-1]
			if k, isK := constInt(last); isK && k == 0 {
				continue // a reset
			}
			if b, isB := constBool(last); isB && !b {
				continue
			}
			c.obD("R12.5", ci, "end-seen-raised-by-Read-only", false, "the end-seen flag of the draining wrapper is raised in Read only (on io.EOF or an empty read)", "raised in "+fnName(fn))
		}
		for _, st := range fieldStores(fn, "rt/client.drainingReadCloser", "seenEOF") {
			if k, isK := constInt(st.Val); isK && k == 0 {
				continue
			}
			if _, isAl := st.Addr.(*ssa.FieldAddr).X.(*ssa.Alloc); isAl {
				continue // initialising a wrapper being built
			}
			c.obD("R12.5", st, "end-seen-raised-by-Read-only", false, "the end-seen flag of the draining wrapper is raised in Read only (on io.EOF or an empty read)", "written in "+fnName(fn))
		}
	}
	rt := p.Fn("(*rt/client.keepAliveTransport).RoundTrip")
	for _, st := range fieldStores(rt, "net/http.Response", "Body") {
		var rtc *ssa.Call
		for _, ci := range allCalls(rt) {
			if ci.Common().IsInvoke() && ci.Common().Method.Name() == "RoundTrip" {
				rtc = ci.(*ssa.Call)
			}
		}
		ok := rtc != nil && guardedBy(st, rtc, factNil(vIs(resultOf(rtc, 1)), true))
		c.obI("R12.5", st, "wraps-only-successful-responses", ok, "only a successful response's body is wrapped", "")
		// every response gets a wrapper that has not seen any end yet: a new one (zero seenEOF), or one whose end flag is
		// reset before it is installed — a recycled wrapper still flagged from an earlier exchange would skip the drain
		w := st.Val
		if mi, isMI := w.(*ssa.MakeInterface); isMI {
			w = mi.X
		}
		fresh, bad := allOrigins(w, func(o Origin) bool {
			al, isAl := o.V.(*ssa.Alloc)
			if isAl && strings.HasSuffix(typeStr(al.Type()), "drainingReadCloser") {
				return true
			}
			// not new: its end flag must be reset on the way to the installation
			for _, fn := range withClosures(rt) {
				for _, fs := range fieldStores(fn, "rt/client.drainingReadCloser", "seenEOF") {
					if k, isK := constInt(fs.Val); isK && k == 0 && dominates(fs, st) {
						return true
					}
				}
				for _, ci := range callsIn(fn, "sync/atomic.StoreUint32", "(*sync/atomic.Bool).Store", "(*sync/atomic.Uint32).Store") {
					_, a := callArgs(ci.Common())
					last := a[len(a)-1]
					k, isK := constInt(last)
					if cb, isB := last.(*ssa.Const); isB && cb.Value != nil && cb.Value.Kind() == constant.Bool {
						isK, k = true, map[bool]int64{false: 0, true: 1}[constant.BoolVal(cb.Value)]
					}
					if isK && k == 0 && dominates(ci, st) {
						return true
					}
				}
			}
			return false
		})
		c.obI("R12.5", st, "wrapper-starts-with-end-unseen", fresh, "the draining wrapper installed for a response is new (or its end-seen flag is reset first): no response inherits the end-seen state of an earlier exchange", "wrapper origin "+describeOrigin(bad)+" is neither newly allocated nor reset")
	}
	{
		var rtc *ssa.Call
		for _, ci := range allCalls(rt) {
			if ci.Common().IsInvoke() && ci.Common().Method.Name() == "RoundTrip" {
				rtc = ci.(*ssa.Call)
			}
		}
		var wraps []ssa.Instruction
		for _, st := range fieldStores(rt, "net/http.Response", "Body") {
			wraps = append(wraps, st)
		}
		// a response without a body has nothing to drain
		isBody := vFieldLoad("net/http.Response", "Body", nil)
		noBody := func(cond ssa.Value, branch bool) bool {
			if factNil(isBody, true)(cond, branch) {
				return true
			}
			cd, b := stripNot(cond, branch)
			bo, ok := cd.(*ssa.BinOp)
			if !ok || !(bo.Op == token.EQL && b || bo.Op == token.NEQ && !b) {
				return false
			}
			isNoBody := func(v ssa.Value) bool {
				if mi, ok := v.(*ssa.MakeInterface); ok {
					v = mi.X
				}
				ld, ok := derefLoad(v)
				if !ok {
					return false
				}
				g, ok := ld.(*ssa.Global)
				return ok && g.Pkg.Pkg.Path() == "net/http" && g.Name() == "NoBody"
			}
			return isBody(bo.X) && isNoBody(bo.Y) || isBody(bo.Y) && isNoBody(bo.X)
		}
		for _, r := range successReturns(rt, 1) {
			ok := rtc != nil && !pathExists(rt, rtc, r, noBody, isOneOf(wraps...))
			c.obI("R12.5", r, "every-successful-response-is-wrapped", ok, "with connection reuse enabled every successful response leaves RoundTrip with its body wrapped in the draining closer (whatever its declared length: a chunked or unknown-length body is drained on Close like any other)", "a successful response can be returned with its body unwrapped")
		}
	}
	// enabling connection reuse installs the draining transport where Submit will find it: in the client the runtime
	// already holds (if any), else in Runtime.Transport (from which the default client is built)
	{
		ecr := p.Fn("(*rt/client.Runtime).EnableConnectionReuse")
		isKA := vOrigins(oCall(-1, "rt/client.KeepAliveTransport"))
		noClient := factNil(vFieldLoadO("rt/client.Runtime", "client"), true)
		hasClient := factNil(vFieldLoadO("rt/client.Runtime", "client"), false)
		var intoClient, intoRuntime []ssa.Instruction
		for _, st := range fieldStores(ecr, "net/http.Client", "Transport") {
			if isKA(st.Val) {
				intoClient = append(intoClient, st)
			}
		}
		for _, st := range fieldStores(ecr, "rt/client.Runtime", "Transport") {
			if isKA(st.Val) {
				intoRuntime = append(intoRuntime, st)
			}
		}
		for _, r := range realReturns(ecr) {
			missC := pathExists(ecr, nil, r, noClient, isOneOf(intoClient...))
			c.obI("R12.5", r, "reuse-installed-in-existing-client", !missC && len(intoClient) > 0, "when the runtime already holds an http.Client, the draining transport is installed in THAT client (its Transport field): Submit uses that client, not Runtime.Transport", "with a client present, EnableConnectionReuse can return without having wrapped the client's transport")
			missR := pathExists(ecr, nil, r, hasClient, isOneOf(intoRuntime...))
			c.obI("R12.5", r, "reuse-installed-in-runtime-transport", !missR && len(intoRuntime) > 0, "without a client yet, the draining transport is installed in Runtime.Transport (the default client is built from it)", "")
		}
	}
	c.min("R12.5", 11)

	// R12.6 who may spawn
	entries := []*ssa.Function{sub, p.Fn("(*rt/client.Runtime).CreateHttpRequest")}
	reach := p.Reach(entries)
	for fn := range reach {
		if p.isTestFn(fn) || isFixturePkg(fnPkgPath(fn)) {
			continue
		}
		for _, in := range instrs(fn) {
			if gi, ok := in.(*ssa.Go); ok {
				root := fn
				for root.Parent() != nil {
					root = root.Parent()
				}
				okG := fnName(root) == "(*rt/client.request).buildHTTP"
				c.obI("R12.6", gi, "who-may-spawn", okG, "the only goroutine a client call starts in the library is the multipart writer", "go statement in "+fnName(fn))
			}
		}
	}
	c.min("R12.6", 1)
	// once the writer goroutine runs, its pipe is the body: the body handed to the request is never reset to nil on a
	// path that follows the go statement (nobody would read or close the pipe: the writer blocks for ever)
	if bh := p.FnOpt("(*rt/client.request).buildHTTP"); bh != nil {
		var gos []*ssa.Go
		for _, in := range ownInstrs(bh) {
			if gi, ok := in.(*ssa.Go); ok {
				gos = append(gos, gi)
			}
		}
		for _, nr := range callsIn(bh, "net/http.NewRequestWithContext", "net/http.NewRequest") {
			if nr.Parent() != bh {
				continue
			}
			args := nr.Common().Args
			body := args[len(args)-1]
			seen := map[ssa.Value]bool{}
			var walk func(v ssa.Value)
			walk = func(v ssa.Value) {
				if seen[v] {
					return
				}
				seen[v] = true
				switch x := v.(type) {
				case *ssa.MakeInterface:
					walk(x.X)
				case *ssa.ChangeInterface:
					walk(x.X)
				case *ssa.UnOp:
					if ad, isLd := derefLoad(x); isLd {
						if cell, isCell := ad.(*ssa.Alloc); isCell {
							for _, st := range storesToCell(cell) {
								if st.Parent() != bh {
									continue
								}
								if !isNilConst(st.Val) {
									walk(st.Val)
									continue
								}
								// (a reset that cannot reach the request's construction any more — `pr = nil` once the request owns the
								// pipe — drops nothing)
								nrIn := nr.(ssa.Instruction)
								if !(st.Block() == nrIn.Block() && dominates(st, nrIn) || st.Block() != nrIn.Block() && reachableFrom(st.Block(), nrIn.Block())) {
									continue
								}
								for _, gi := range gos {
									if gi.Block() == st.Block() && dominates(gi, st) || gi.Block() != st.Block() && reachableFrom(gi.Block(), st.Block()) {
										c.obD("R12.6", st, "started-writer-keeps-its-reader", false, "after the multipart writer was started the request body is its pipe on every path (a body dropped afterwards leaves the writer blocked and the files open)", "the body is reset to nil ("+c.P.InstrPos(st)+") after the go statement at "+c.P.InstrPos(gi))
									}
								}
							}
						}
					}
				case *ssa.Phi:
					for i, e := range x.Edges {
						if isNilConst(e) {
							for _, gi := range gos {
								pred := x.Block().Preds[i]
								if gi.Block() == pred || reachableFrom(gi.Block(), pred) {
									c.obD("R12.6", x, "started-writer-keeps-its-reader", false, "after the multipart writer was started the request body is its pipe on every path (a body dropped afterwards leaves the writer blocked and the files open)", "the body can become nil again ("+c.P.InstrPos(x)+") after the go statement at "+c.P.InstrPos(gi))
								}
							}
							continue
						}
						walk(e)
					}
				}
			}
			walk(body)
		}
	}
	_ = op
}

// dominatesAllReturns: every return of f is reached only after instruction in.
func dominatesAllReturns(f *ssa.Function, in ssa.Instruction) bool {
	for _, r := range realReturns(f) {
		if pathExists(f, nil, r, nil, isOneOf(in)) {
			return false
		}
	}
	return true
}

// failsPipeWith: the instruction closes a pipe writer WITH the error ev — a call of (*io.PipeWriter).CloseWithError
// whose argument is ev, or a call of a repository helper that, on every path, does so with the parameter ev is
// bound to.
func failsPipeWith(in ssa.Instruction, ev ssa.Value) bool {
	ci, ok := in.(ssa.CallInstruction)
	if !ok {
		return false
	}
	if isCloseWithError(ci) {
		_, a := callArgs(ci.Common())
		return a[0] == ev || someOrigin(a[0], oIsValue(ev))
	}
	callee := ci.Common().StaticCallee()
	if callee == nil || callee.Blocks == nil || !isRepoPath(fnPkgPath(callee)) {
		return false
	}
	for i, arg := range ci.Common().Args {
		if i >= len(callee.Params) || (arg != ev && !someOrigin(arg, oIsValue(ev))) {
			continue
		}
		for _, k := range closeWithErrorCalls(callee) {
			_, a := callArgs(k.Common())
			if a[0] == ssa.Value(callee.Params[i]) && alwaysCallsUnlessNilReceiver(callee, k) {
				return true
			}
		}
	}
	return false
}

// failsPipe: failsPipeWith for any error value.
func failsPipe(in ssa.Instruction) bool {
	ci, ok := in.(ssa.CallInstruction)
	if !ok {
		return false
	}
	if isCloseWithError(ci) {
		return true
	}
	callee := ci.Common().StaticCallee()
	if callee == nil || callee.Blocks == nil || !isRepoPath(fnPkgPath(callee)) {
		return false
	}
	for _, k := range closeWithErrorCalls(callee) {
		if alwaysCallsUnlessNilReceiver(callee, k) {
			return true
		}
	}
	return false
}

// isCloseWithError: a call that fails the read end of a pipe with an error — (*io.PipeWriter).CloseWithError, or the
// same method invoked through an interface the pipe writer was passed as.
func isCloseWithError(ci ssa.CallInstruction) bool {
	cc := ci.Common()
	if cc.IsInvoke() {
		return cc.Method.Name() == "CloseWithError"
	}
	return calleeName(cc) == "(*io.PipeWriter).CloseWithError"
}

func closeWithErrorCalls(f *ssa.Function) []ssa.CallInstruction {
	var out []ssa.CallInstruction
	for _, ci := range allCalls(f) {
		if isCloseWithError(ci) {
			out = append(out, ci)
		}
	}
	return out
}

// deferredBody returns the function a defer statement runs when it has a body in the repository: the function literal,
// or the library function/method deferred directly.
func deferredBody(d *ssa.Defer) *ssa.Function {
	if mc, ok := d.Call.Value.(*ssa.MakeClosure); ok {
		if f, isFn := mc.Fn.(*ssa.Function); isFn {
			return f
		}
	}
	if sc := d.Call.StaticCallee(); sc != nil && sc.Blocks != nil && isRepoPath(fnPkgPath(sc)) {
		return sc
	}
	return nil
}

// capturedValueIs: v, evaluated inside a function literal, is (a load of) a captured variable every value of which
// satisfies m in the enclosing function.
func capturedValueIs(v ssa.Value, m VPred) bool {
	if m(v) {
		return true
	}
	var fv *ssa.FreeVar
	if ad, ok := derefLoad(v); ok {
		fv, _ = ad.(*ssa.FreeVar)
	} else {
		fv, _ = v.(*ssa.FreeVar)
	}
	if fv == nil {
		return false
	}
	if cell := freeVarCell(fv); cell != nil {
		sts := storesToCell(cell)
		if len(sts) == 0 {
			return false
		}
		for _, st := range sts {
			if !m(st.Val) {
				return false
			}
		}
		return true
	}
	if b := freeVarBinding(fv); b != nil {
		return m(b)
	}
	return false
}

// alwaysCallsUnlessNilReceiver: every path through f passes call k — except paths on which k's receiver (a parameter
// of f) was tested to be nil (there is no pipe to fail).
func alwaysCallsUnlessNilReceiver(f *ssa.Function, k ssa.CallInstruction) bool {
	recv, _ := callArgs(k.Common())
	var cut EdgePred
	if prm, ok := recv.(*ssa.Parameter); ok && prm.Parent() == f {
		cut = factNil(vIs(prm), true)
	}
	for _, r := range realReturns(f) {
		if pathExists(f, nil, r, cut, isOneOf(k)) {
			return false
		}
	}
	return true
}

// ruleCopyFailureKept: where the streamed body is copied into the request's buffer for the auth writer (the GetBody
// override of buildHTTP), a failed copy stays recorded: the variable that receives io.Copy's error is written again
// only on paths on which that error was nil (closing the source, whatever its outcome, never turns a truncated copy
// into a success), and the buffer becomes the body only then.
func ruleCopyFailureKept(c *Ctx, rule string) {
	f := c.P.Fn("(*rt/client.request).buildHTTP")
	cands := append(anonFuncsDeep(f), c.P.newTypeMethods()...)
	n := 0
	for _, g := range cands {
		for _, ci := range callsIn(g, "io.Copy") {
			call, ok := ci.(*ssa.Call)
			if !ok || call.Parent() != g {
				continue
			}
			if !vFieldLoadO(clientReqT, "buf")(call.Call.Args[0]) && !vFieldLoad(clientReqT, "buf", nil)(call.Call.Args[0]) {
				continue
			}
			cerr := resultOf(call, 1)
			if cerr == nil {
				continue
			}
			// where the copy error is kept
			var cell *ssa.Alloc
			var first *ssa.Store
			for _, in := range ownInstrs(g) {
				if st, isSt := in.(*ssa.Store); isSt && st.Val == cerr {
					if cl := cellOf(st.Addr); cl != nil {
						cell, first = cl, st
					}
				}
			}
			if cell == nil {
				c.obRI(rule, call, "copy-error-recorded", false, "the error of the copy into the buffer is recorded in a variable of buildHTTP", "the variable receiving io.Copy's error was not recognised")
				continue
			}
			n++
			isCopyErr := func(v ssa.Value) bool {
				if v == cerr {
					return true
				}
				ad, isLd := derefLoad(v)
				return isLd && cellOf(ad) == cell
			}
			// the stream is copied at most once, whatever the outcome: the "already copied" latch is set on EVERY exit of the
			// copying call (a second GetBody after a failed copy would copy what is left and overwrite the recorded error
			// with nil — the truncated buffer then goes out as a successful request)
			{
				isFlagAddr := func(ad ssa.Value) bool {
					if fv, isFV := ad.(*ssa.FreeVar); isFV {
						return typeStr(fv.Type()) == "*bool"
					}
					if fa, isFA := ad.(*ssa.FieldAddr); isFA {
						n, _ := structOf(fa.X.Type())
						return n != nil && isNewType(n) && typeStr(fa.Type()) == "*bool"
					}
					return false
				}
				isLatch := func(in ssa.Instruction) bool {
					st, ok := in.(*ssa.Store)
					if !ok || !isFlagAddr(st.Addr) {
						return false
					}
					b, isB := constBool(st.Val)
					return isB && b
				}
				hasLatch := false
				for _, fn2 := range append([]*ssa.Function{g}, anonFuncsDeep(g)...) {
					for _, in := range ownInstrs(fn2) {
						if isLatch(in) {
							hasLatch = true
						}
					}
				}
				if hasLatch {
					latched := false
					for _, d := range defersIn(g) {
						if df := deferredBody(d); df != nil && dominates(d, call) {
							all := len(returnsOf(df)) > 0
							for _, r := range returnsOf(df) {
								if pathExists(df, nil, r, nil, isLatch) {
									all = false
								}
							}
							if all {
								latched = true
							}
						}
					}
					if !latched {
						latched = true
						for _, r := range realReturns(g) {
							if pathExists(g, call, r, nil, nil) && pathExists(g, call, r, nil, isLatch) {
								latched = false
							}
						}
					}
					c.obI(rule, call, "failed-copy-never-retried", latched, "the call that copies the stream sets the 'copied' latch on every one of its exits, also when the copy or the close fails", "an exit after the copy leaves the latch unset: the next GetBody copies the rest of the stream and replaces the recorded failure by nil")
				} else {
					c.obRI(rule, call, "failed-copy-never-retried", false, "the copying call latches that it ran", "no boolean latch found (sync.Once or another device: not decided)")
				}
			}
			// the source that was copied is then closed — the SOURCE, i.e. what the body variable held when it was copied:
			// once the variable is re-bound to the buffer, a type assertion on it finds no closer and the stream stays open
			if srcAd, isLd := derefLoad(call.Call.Args[1]); isLd && cellOf(srcAd) != nil {
				bodyCell := cellOf(srcAd)
				var rebinds []*ssa.Store
				for _, in := range ownInstrs(g) {
					if st, isSt := in.(*ssa.Store); isSt && cellOf(st.Addr) == bodyCell && pathExists(g, call, st, nil, nil) {
						rebinds = append(rebinds, st)
					}
				}
				nClose, nFresh := 0, 0
				var at ssa.Instruction = call
				for _, ci := range allCalls(g) {
					if ci.Parent() != g || ifaceMethodCalled(ci.Common()) != "Close" {
						continue
					}
					ex, isEx := ifaceReceiver(ci.Common()).(*ssa.Extract)
					if !isEx {
						continue
					}
					ta, isTA := ex.Tuple.(*ssa.TypeAssert)
					if !isTA {
						continue
					}
					ld, isL := ta.X.(*ssa.UnOp)
					if !isL || ld.Op != token.MUL || cellOf(ld.X) != bodyCell {
						continue
					}
					nClose++
					stale := false
					for _, rb := range rebinds {
						if pathExists(g, rb, ld, nil, nil) {
							stale = true
						}
					}
					if !stale {
						nFresh++
					} else {
						at = ci
					}
				}
				if nClose > 0 {
					c.obI(rule, at, "copied-source-is-closed", nFresh > 0, "after the streamed body was copied into the buffer, the stream itself is closed: the closer is looked for in the body variable while it still holds the stream", "the body variable is re-bound to the buffer before the closer is looked up in it: the copied stream (an upload file, the multipart pipe) is never closed")
				} else {
					c.obRI(rule, call, "copied-source-is-closed", false, "after the streamed body was copied into the buffer, the stream itself is closed", "no Close on a closer found in the body variable")
				}
			}
			for _, in := range ownInstrs(g) {
				st, isSt := in.(*ssa.Store)
				if !isSt || st == first || cellOf(st.Addr) != cell {
					continue
				}
				if !pathExists(g, call, st, nil, nil) {
					continue
				}
				c.obI(rule, st, "copy-failure-not-overwritten", guardedBy(st, first, factNil(isCopyErr, true)), "the recorded copy error is overwritten (by the result of closing the source) only when the copy itself succeeded: a failed, truncated copy is never turned into a success", "the copy error can be overwritten by a later result although the copy failed (the truncated buffer is then sent as the body and the request reports success)")
			}
		}
	}
	c.obRF(rule, f, "auth-copy-site", n >= 1, "buildHTTP copies a streamed body into the buffer for the auth writer", "")
}

// ruleUploadFailuresPropagated: in the multipart writer goroutine every failing step (field write, sniffing read, part
// creation, copy) reaches pw.CloseWithError(err) before the goroutine exits, so the reader of the pipe sees the
// failure instead of a complete-looking document. (C12: a failing upload source is never a successful request; C11:
// the document sent contains every file with its full content — or the send fails.)
func ruleUploadFailuresPropagated(c *Ctx, rule string, g *ssa.Function) {
	// failures reach CloseWithError (directly, or through a helper such as logClose that does so on every path)
	for _, in := range instrs(g) {
		call, ok := in.(*ssa.Call)
		if !ok || errorResultIndex(call.Call.Signature()) < 0 {
			continue
		}
		n := calleeName(&call.Call)
		if infallible[n] || isCloseWithError(call) {
			continue // the error of CloseWithError itself is not a failure of the upload
		}
		ev := errValueOf(call)
		if ev == nil {
			c.obI(rule, call, "failure-propagated-"+n, false, "every failing step of the upload reaches pw.CloseWithError(err)", "error dropped")
			continue
		}
		isProp := func(i2 ssa.Instruction) bool { return failsPipeWith(i2, ev) }
		isEOF := func(cond ssa.Value, branch bool) bool {
			// err == io.EOF is not a failure of the sniffing read
			cnd, b := stripNot(cond, branch)
			bo, ok := cnd.(*ssa.BinOp)
			if !ok || (bo.Op != token.EQL && bo.Op != token.NEQ) {
				return false
			}
			isE := func(v ssa.Value) bool {
				ad, ok := derefLoad(v)
				if !ok {
					return false
				}
				gl, ok := ad.(*ssa.Global)
				return ok && short(gl.String()) == "io.EOF"
			}
			isEv := errAlias(ev)
			if !((isEv(bo.X) && isE(bo.Y)) || (isEv(bo.Y) && isE(bo.X))) {
				return false
			}
			return b == (bo.Op == token.EQL)
		}
		lost := false
		for _, r := range realReturns(g) {
			if pathExists(g, call, r, anyFact(factNil(errAlias(ev), true), isEOF), isProp) {
				lost = true
			}
		}
		c.obI(rule, call, "failure-propagated-"+n, !lost, "every failing step of the upload (field write, sniffing read, part creation, copy) reaches pw.CloseWithError(err) before the goroutine exits, so the transport's read of the body fails", "a failure can end the goroutine through the plain Close: the body looks complete")
	}
}

// derivedFrom: some origin of v is target, or the result of a call one of whose arguments is derived from target.
func derivedFrom(v, target ssa.Value, depth int) bool {
	for _, o := range originsOf(v) {
		if o.V == target {
			return true
		}
		if ex, isEx := target.(*ssa.Extract); isEx && o.V == ex.Tuple && o.Index == ex.Index {
			return true
		}
		if depth == 0 {
			continue
		}
		if call := asCall(o.V); call != nil {
			for _, a := range call.Call.Args {
				if derivedFrom(a, target, depth-1) {
					return true
				}
			}
		}
	}
	return false
}

// endSeenFact: the edge establishes that the "end of body seen" flag of the draining wrapper is set (want) or clear:
// the flag may be a uint32 read with atomic.LoadUint32 and compared with 1, or an atomic.Bool read with Load().
func endSeenFact(want bool) EdgePred {
	isLoadU32 := func(v ssa.Value) bool {
		ld := asCall(v)
		return ld != nil && calleeName(&ld.Call) == "sync/atomic.LoadUint32"
	}
	isLoadBool := func(v ssa.Value) bool {
		ld := asCall(v)
		return ld != nil && calleeName(&ld.Call) == "(*sync/atomic.Bool).Load"
	}
	return anyFact(factEqInt(isLoadU32, 1, want), factBool(isLoadBool, want))
}

// ruleDrainingReadTransparent: the draining wrapper hands every Read to the wrapped body and returns that very result: the
// reader sees the body unchanged (shared by C12 and C13).
func ruleDrainingReadTransparent(c *Ctx, rule string) {
	rd := c.P.Fn("(*rt/client.drainingReadCloser).Read")
	n0 := 0
	for _, ci := range allCalls(rd) {
		if !ci.Common().IsInvoke() || ci.Common().Method.Name() != "Read" {
			continue
		}
		call, isCall := ci.(*ssa.Call)
		if !isCall {
			continue
		}
		n0++
		n, err := resultOf(call, 0), resultOf(call, 1)
		for _, r := range realReturns(rd) {
			ok0, _ := allOrigins(resOf(r, 0), oIsValue(n))
			ok1, _ := allOrigins(resOf(r, 1), oIsValue(err))
			c.obI(rule, r, "read-transparent", ok0 && ok1, "Read returns the wrapped body's results unchanged (on every path: no answer is made up without asking the wrapped body)", "")
		}
		_, a := callArgs(&call.Call)
		c.obI(rule, call, "read-into-callers-buffer", len(a) == 1 && sameVal(a[0], rd.Params[1]), "the wrapped body reads into the caller's buffer itself", "")
	}
	c.obRF(rule, rd, "reads-wrapped-body", n0 == 1, "Read reads the wrapped body once", fmt.Sprintf("%d reads", n0))
}
