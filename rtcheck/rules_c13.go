package main

import (
	"fmt"
	"go/token"
	"go/types"
	"strings"

	"golang.org/x/tools/go/ssa"
)

const runtimeT = "rt/client.Runtime"

func init() {
	register(&Property{
		ID: "C13",
		Explanation: "Decides in Runtime.Submit and the response adapter: R13.1 the consumer handed to the response reader is Consumers[<mime.ParseMediaType(content type)>] or, on a miss, Consumers[\"*/*\"]; otherwise an error built from the content type is returned; the content type is the response header, the default media type only when the header is empty; a parse error is returned; " +
			"Round 12: R13.3 follows Runtime.Context through locals and function literals Submit starts. " +
			"R13.2 the reader sees the response of this very exchange through the transparent adapter (each accessor returns the corresponding field of the http.Response) and Submit never writes a field of the response; R13.3 the per-operation client takes precedence over the transport's; " +
			"R13.4 shared transport state: the only field of Runtime written on a call path is `client`, inside the sync.Once, and the value is a fresh http.Client built from Runtime.Transport and Runtime.Jar (never a caller's per-operation client); no package-level variable is written; the request object mutated by buildHTTP is freshly allocated per call. " +
			"R13.3 also: Runtime.Context is consulted only when the operation carries no context of its own. " +
			"R13.1 also: once the catch-all consumer was found nothing but the reader ends the call; R13.4 also: no call appends to a slice held in the shared Runtime. " +
			"NOT decided: that concurrent callers each get their own response (net/http).",
		Run: runC13,
	})
}

func runC13(c *Ctx) {
	p := c.P
	sub := p.Fn("(*rt/client.Runtime).Submit")
	dos := callsIn(sub, "(*net/http.Client).Do")
	rrs := callsIn(sub, "(rt.ClientResponseReader).ReadResponse")
	pms := callsIn(sub, "mime.ParseMediaType")
	c.obRF("R13.1", sub, "shape", len(dos) == 1 && len(rrs) >= 1 && len(pms) == 1, "Submit sends, parses the content type and hands the response to the reader", fmt.Sprintf("%d Do, %d ReadResponse, %d ParseMediaType", len(dos), len(rrs), len(pms)))
	if len(dos) != 1 || len(rrs) < 1 || len(pms) != 1 {
		return
	}
	for _, one := range rrs {
		ruleC13For(c, sub, dos[0].(*ssa.Call), one.(*ssa.Call), pms[0].(*ssa.Call), one == rrs[0])
	}
}

// ruleC13For checks one hand-over of the response to the reader (there is usually exactly one).
func ruleC13For(c *Ctx, sub *ssa.Function, do, rr, pm *ssa.Call, first bool) {
	p := c.P
	res := resultOf(do, 0)
	// (nil: what a sending helper returns beside its error — never used past the error test)
	isRes := func(v ssa.Value) bool {
		ok, _ := allOrigins(v, oIsValue(res), oNil())
		return ok && someOrigin(v, oIsValue(res))
	}
	mt := resultOf(pm, 0)
	// content type
	ct := pm.Call.Args[0]
	hdr := oCallWhere(-1, "(net/http.Header).Get", func(g *ssa.Call) bool {
		recv, a := callArgs(&g.Call)
		k, _ := constString(a[0])
		return k == "Content-Type" && vFieldLoad("net/http.Response", "Header", isRes)(recv)
	})
	okCT, bad := allOrigins(ct, hdr, oFieldLoad(runtimeT, "DefaultMediaType", nil))
	why := "origin " + describeOrigin(bad)
	if okCT {
		if phi, isPhi := ct.(*ssa.Phi); isPhi {
			for i, e := range phi.Edges {
				if okD, _ := allOrigins(e, oFieldLoad(runtimeT, "DefaultMediaType", nil)); okD {
					if !edgeGuarded(phi.Block().Preds[i], phi.Block(), nil, factEqString(vOrigins(hdr), "", true)) {
						okCT, why = false, "the default media type can replace a non-empty header"
					}
				}
			}
		}
	}
	c.obI("R13.1", pm, "content-type-source", okCT, "the media type parsed is the response's Content-Type header, the transport's default only when that header is empty", why)
	// consumer provenance
	_, a := callArgs(&rr.Call)
	cons := a[1]
	isConsumers := vFieldLoad(runtimeT, "Consumers", nil)
	exact := func(o Origin) bool {
		lk, ok := o.V.(*ssa.Lookup)
		if !ok || !isConsumers(lk.X) || (o.Index != 0 && o.Index != -1) {
			return false
		}
		okK, _ := allOrigins(lk.Index, oIsValue(mt))
		return okK
	}
	catchAll := func(o Origin) bool {
		lk, ok := o.V.(*ssa.Lookup)
		if !ok || !isConsumers(lk.X) || (o.Index != 0 && o.Index != -1) {
			return false
		}
		s, okS := constString(lk.Index)
		return okS && s == "*/*"
	}
	// both keys tried through ONE lookup, in the order of a local candidate table {mediaType, "*/*"}
	isMT := vOrigins(oIsValue(mt))
	isAny := func(v ssa.Value) bool { k, okk := constString(v); return okk && k == "*/*" }
	tabled := func(o Origin) bool {
		lk, ok := o.V.(*ssa.Lookup)
		if !ok || !isConsumers(lk.X) || (o.Index != 0 && o.Index != -1) {
			return false
		}
		okK, _ := allOrigins(lk.Index, oIsValue(mt), oConstString("*/*"))
		return okK
	}
	okC, badC := allOrigins(cons, exact, catchAll, tabled, oNil()) // (nil: a helper's result on its error path; the reader runs only when a consumer was found, checked below)
	c.obI("R13.1", rr, "consumer-provenance", okC, "the consumer handed to the reader is Consumers[mediaType] with mediaType the result of mime.ParseMediaType, or the catch-all Consumers[\"*/*\"] — never another consumer and never a key taken from the raw header", "origin "+describeOrigin(badC))
	// catch-all only on a miss; missing both -> error
	var exactLk, anyLk *ssa.Lookup
	for _, in := range instrs(sub) {
		if lk, ok := in.(*ssa.Lookup); ok && isConsumers(lk.X) {
			if s, isS := constString(lk.Index); isS && s == "*/*" {
				anyLk = lk
			} else {
				exactLk = lk
			}
		}
	}
	if exactLk != nil && anyLk != nil && exactLk.CommaOk && anyLk.CommaOk {
		c.obI("R13.1", anyLk, "catch-all-only-on-miss", guardedBy(anyLk, exactLk, factBool(vIs(extractOf(exactLk, 1)), false)), "the catch-all consumer is consulted only when the media type has no consumer of its own", "")
		found := anyFact(factBool(vIs(extractOf(exactLk, 1)), true), factBool(vIs(extractOf(anyLk, 1)), true))
		c.obI("R13.1", rr, "reader-needs-a-consumer", guardedBy(rr, exactLk, found), "the reader runs only when a consumer was found; otherwise the call fails", "ReadResponse reachable without a consumer")
		// … and a registered catch-all always gets the response: between its lookup and the reader nothing but its
		// absence ends the call (not the status, not a header, not the body's size)
		anyReader := func(in ssa.Instruction) bool {
			ci, ok := in.(ssa.CallInstruction)
			return ok && (in == ssa.Instruction(rr) || ifaceMethodCalled(ci.Common()) == "ReadResponse")
		}
		for _, r := range realReturns(sub) {
			if !pathExists(sub, anyLk, r, nil, anyReader) {
				continue
			}
			lost := pathExists(sub, anyLk, r, factBool(vIs(extractOf(anyLk, 1)), false), anyReader)
			c.obI("R13.1", r, "catch-all-serves-every-response", !lost, "when the media type has no consumer of its own and a catch-all is registered, the reader is called with it — for every status code", "a return is reachable after the catch-all consumer was found, without the reader having been called")
		}
	} else if exactLk != nil && anyLk == nil && exactLk.CommaOk {
		// table form
		found, okOrd := candidateTableOrder(sub, isMT, isAny)
		c.obRF("R13.1", sub, "lookups", found, "Submit looks the consumer up with comma-ok, exact then catch-all", "one lookup, but no candidate table {mediaType, \"*/*\"} found")
		if found {
			c.obI("R13.1", exactLk, "catch-all-only-on-miss", okOrd, "the catch-all consumer is consulted only when the media type has no consumer of its own (the media type comes first in the table of keys)", "\"*/*\" is tried before the media type")
			c.obI("R13.1", rr, "reader-needs-a-consumer", guardedBy(rr, nil, factBool(vIs(extractOf(exactLk, 1)), true)), "the reader runs only when a consumer was found; otherwise the call fails", "ReadResponse reachable without a consumer")
		}
	} else {
		c.obRF("R13.1", sub, "lookups", false, "Submit looks the consumer up with comma-ok, exact then catch-all", "")
	}
	checkErrorsReturned(c, "R13.1", sub, 1, nil)
	// the error for a missing consumer names the content type
	for _, r := range realReturns(sub) {
		ev := resOf(r, 1)
		for _, o := range originsOf(ev) {
			if e := asCall(o.V); e != nil && calleeName(&e.Call) == "fmt.Errorf" {
				fm, _ := constString(e.Call.Args[0])
				if strings.HasPrefix(fm, "no consumer") {
					elems, _ := sliceLitElems(e.Call.Args[1])
					okN := len(elems) == 1 && sameOrigins(unboxed(elems[0]), ct)
					c.obI("R13.1", r, "error-names-content-type", okN, "the failure for a missing consumer names the content type", "")
				}
			}
		}
	}
	if !first {
		return
	}
	c.min("R13.1", 7)

	// R13.2 adapter
	okResp := false
	if rc := asCall(a[0]); rc != nil {
		okF := vFieldLoadO(runtimeT, "response")(rc.Call.Value)
		if !okF {
			// r.response with the default adapter as the fallback for a nil field
			nF, okAll := 0, true
			for _, o := range originsOf(rc.Call.Value) {
				switch {
				case vFieldLoad(runtimeT, "response", nil)(o.V):
					nF++
				case isFuncValue(o.V, "rt/client.newResponse"):
				default:
					okAll = false
				}
			}
			okF = okAll && nF > 0
		}
		okA := len(rc.Call.Args) == 1 && isRes(rc.Call.Args[0])
		okResp = okF && okA
	}
	c.obI("R13.2", rr, "reader-gets-this-response", okResp, "the reader is handed r.response(res) for the response of this very exchange", "")
	ruleDrainingReadTransparent(c, "R13.2")
	for _, fn := range p.LibFuncs("rt/client") {
		for _, in := range instrs(fn) {
			st, ok := in.(*ssa.Store)
			if !ok {
				continue
			}
			fa, ok := st.Addr.(*ssa.FieldAddr)
			if !ok {
				continue
			}
			n, _ := structOf(fa.X.Type())
			if typeFullName(n) != "net/http.Response" {
				continue
			}
			okW := fnName(fn) == "(*rt/client.keepAliveTransport).RoundTrip"
			c.obI("R13.2", st, "response-untouched", okW, "client code never writes a field of the http.Response (the reader sees status, headers and body unchanged); the keep-alive transport's draining wrapper is the one tabled exception", "store to http.Response field in "+fnName(fn))
		}
	}
	// … nor edits them through their methods: no Set / Add / Del on the response's header map, no write to the shared
	// or caller-supplied http.Client either (its fields are read concurrently by every call in flight)
	for _, fn := range p.LibFuncs("rt/client") {
		for _, ci := range allCalls(fn) {
			if ci.Parent() != fn {
				continue
			}
			n := calleeName(ci.Common())
			if n != "(net/http.Header).Set" && n != "(net/http.Header).Add" && n != "(net/http.Header).Del" {
				continue
			}
			recv, _ := callArgs(ci.Common())
			if !vFieldLoad("net/http.Response", "Header", nil)(recv) && !vFieldLoadO("net/http.Response", "Header")(recv) {
				continue
			}
			c.obD("R13.2", ci, "response-headers-untouched", false, "client code never edits the headers of the http.Response it hands to the reader", n+" on the response's headers in "+fnName(fn))
		}
	}
	type acc struct{ m, field, via string }
	for _, ac := range []acc{{"Code", "StatusCode", ""}, {"Message", "Status", ""}, {"Body", "Body", ""}, {"GetHeader", "Header", "(net/http.Header).Get"}, {"GetHeaders", "Header", "(net/http.Header).Values"}} {
		f := p.Fn("(rt/client.response)." + ac.m)
		for _, r := range returnsOf(f) {
			var ok bool
			if ac.via == "" {
				ok = vFieldLoadO("net/http.Response", ac.field)(r.Results[0])
			} else {
				ok, _ = allOrigins(r.Results[0], oCallWhere(-1, ac.via, func(g *ssa.Call) bool {
					recv, ga := callArgs(&g.Call)
					return vFieldLoadO("net/http.Response", ac.field)(recv) && ga[0] == ssa.Value(paramOf(f, 0))
				}))
			}
			if !ok && ac.via != "" {
				// "no values" answered outright for a nil header map: what Get / Values answer for it themselves
				k, isK := constString(r.Results[0])
				if (isNilConst(r.Results[0]) || isK && k == "") && guardedBy(r, nil, factNil(vFieldLoadO("net/http.Response", ac.field), true)) {
					ok = true
				}
			}
			c.obI("R13.2", r, "adapter-"+ac.m, ok, "the adapter's "+ac.m+" returns the response's "+ac.field, "")
		}
	}
	nrf := p.Fn("rt/client.newResponse")
	for _, st := range fieldStores(nrf, "rt/client.response", "resp") {
		c.obI("R13.2", st, "adapter-wraps-given-response", st.Val == ssa.Value(nrf.Params[0]), "the adapter wraps the response it is given", "")
	}
	// each call gets its own adapter: newResponse hands out a value it has just made (an adapter taken from a pool or
	// a cache is re-pointed at another call's response while a reader still holds it)
	for _, r := range realReturns(nrf) {
		if len(r.Results) != 1 {
			continue
		}
		ok, bad := allOrigins(unboxed(r.Results[0]), func(o Origin) bool {
			v := o.V
			if ad, isLd := derefLoad(v); isLd {
				v = ad
			}
			al, isAl := v.(*ssa.Alloc)
			return isAl && al.Parent() == nrf
		})
		c.obI("R13.2", r, "adapter-made-for-this-call", ok, "the response adapter handed to the reader is made by this very call (never recycled: a reader may keep it, e.g. inside an APIError)", "origin "+describeOrigin(bad))
	}
	c.min("R13.2", 8)

	// R13.3 precedence
	recvDo, _ := callArgs(&do.Call)
	okP, badP := allOrigins(recvDo, oFieldLoad("rt.ClientOperation", "Client", nil), oFieldLoad(runtimeT, "client", nil), oNil())
	whyP := "origin " + describeOrigin(badP)
	if okP {
		if phi, isPhi := recvDo.(*ssa.Phi); isPhi {
			for i, e := range phi.Edges {
				if okR, _ := allOrigins(e, oFieldLoad(runtimeT, "client", nil)); okR {
					if !edgeGuarded(phi.Block().Preds[i], phi.Block(), nil, factNil(vFieldLoadO("rt.ClientOperation", "Client"), true)) {
						okP, whyP = false, "the transport's client can be used although the operation has its own"
					}
				}
			}
		} else if call := asCall(recvDo); call != nil && transparentCallee(call) != nil {
			// the choice made in a helper / an immediately invoked literal: each of its returns that yields the transport's
			// client lies behind `operation.Client == nil`
			callee := transparentCallee(call)
			for _, r := range returnsOf(callee) {
				if okR, _ := allOrigins(resOf(r, 0), oFieldLoad(runtimeT, "client", nil)); okR {
					if !guardedBy(r, nil, factNil(vFieldLoadO("rt.ClientOperation", "Client"), true)) {
						okP, whyP = false, "the transport's client can be used although the operation has its own"
					}
				}
			}
		} else {
			okP, whyP = false, "no choice between the operation's and the transport's client"
		}
	}
	if found, okOrd := candidateTableOrder(sub, vFieldLoadO("rt.ClientOperation", "Client"), vFieldLoadO(runtimeT, "client")); found && !okOrd {
		okP, whyP = false, "in the table of candidate clients the transport's client is listed before the operation's"
	}
	if found, okOrd := candidateTableOrder(sub, vFieldLoadO("rt.ClientOperation", "Context"), vFieldLoadO(runtimeT, "Context")); found {
		c.obF("R13.3", sub, "context-candidates-ordered", okOrd, "in the table of candidate parent contexts the operation's context comes before the transport-wide one", "the transport-wide context is listed first")
	}
	c.obI("R13.3", do, "operation-client-first", okP, "the per-operation HTTP client takes precedence over the transport-wide one", whyP)

	nCtx := 0
	noOpCtx := factNil(vFieldLoadO("rt.ClientOperation", "Context"), true)
	for _, in := range instrs(sub) {
		ld, ok := in.(*ssa.UnOp)
		if !ok {
			continue
		}
		if _, isF := fieldLoad(ld, runtimeT, "Context"); !isF {
			continue
		}
		nCtx++
		// what matters is every USE of the transport-wide context (a method called on it, handing it to a call, selecting
		// it as the parent): comparing it with nil or listing it as a candidate consults nothing
		okU, whyU := true, ""
		// (a merge that may carry the transport-wide context without the operation's having been looked at is judged on ITS
		// uses in turn: `ctx := Background(); if r.Context != nil { ctx = r.Context }; if op.Context != nil { ctx = op.Context }`
		// lets the provisional choice through only on the edge "the operation has none")
		var usesOK func(v ssa.Value, depth int)
		usesOK = func(v ssa.Value, depth int) {
			if v.Referrers() == nil {
				return
			}
			for _, ref := range *v.Referrers() {
				switch u := ref.(type) {
				case ssa.CallInstruction:
					if !guardedBy(u, nil, noOpCtx) {
						okU, whyU = false, "Runtime.Context is used by "+calleeName(u.Common())+" although the operation has its own context"
					}
				case *ssa.Phi:
					for i, e := range u.Edges {
						if e == v && !edgeGuarded(u.Block().Preds[i], u.Block(), nil, noOpCtx) {
							if depth > 0 {
								usesOK(u, depth-1)
							} else {
								okU, whyU = false, "Runtime.Context can be selected although the operation has its own context"
							}
						}
					}
				}
			}
		}
		usesOK(ld, 3)
		// (the same through a local the context was put into, also when a function literal started by Submit uses it)
		if okU {
			var walk func(fn *ssa.Function, site ssa.Instruction)
			walk = func(fn *ssa.Function, site ssa.Instruction) {
				for _, in2 := range ownInstrs(fn) {
					switch u := in2.(type) {
					case ssa.CallInstruction:
						vals := append([]ssa.Value{}, u.Common().Args...)
						if u.Common().IsInvoke() {
							vals = append(vals, u.Common().Value)
						}
						for _, a := range vals {
							if a == ssa.Value(ld) || !types.Identical(a.Type(), ld.Type()) {
								continue
							}
							// a local that holds exactly this load (a captured local lives in a cell)
							ad, isLd := derefLoad(a)
							if !isLd {
								continue
							}
							var cell *ssa.Alloc
							switch x := ad.(type) {
							case *ssa.Alloc:
								cell = x
							case *ssa.FreeVar:
								cell = freeVarCell(x)
							}
							if cell == nil {
								continue
							}
							sts := storesToCell(cell)
							only := len(sts) > 0
							for _, st := range sts {
								only = only && st.Val == ssa.Value(ld)
							}
							if !only {
								continue
							}
							at := site
							if at == nil {
								at = in2
							}
							if !guardedBy(at, nil, noOpCtx) {
								okU, whyU = false, "Runtime.Context, kept in a local, is used by "+calleeName(u.Common())+" ("+c.P.InstrPos(in2)+") although the operation has its own context"
							}
						}
					case *ssa.MakeClosure:
						if g, isF := u.Fn.(*ssa.Function); isF {
							at := site
							if at == nil {
								at = in2
							}
							walk(g, at)
						}
					}
				}
			}
			walk(sub, nil)
		}
		c.obI("R13.3", ld, "operation-context-first", okU, "the transport-wide context is used (as parent, or asked for its state) only when the operation carries none: a per-operation context takes precedence, and the state of the transport-wide context cannot fail or bound a call that brought its own", whyU)
	}
	c.obRF("R13.3", sub, "reads-transport-context", nCtx >= 1, "Submit falls back to the transport-wide context", fmt.Sprintf("%d reads", nCtx))

	// R13.4 shared state
	entries := []*ssa.Function{sub, p.Fn("(*rt/client.Runtime).CreateHttpRequest")}
	for _, n := range []string{"(*rt/client.tracingTransport).Submit", "(*rt/client.openTelemetryTransport).Submit"} {
		if f := p.FnOpt(n); f != nil {
			entries = append(entries, f)
		}
	}
	reach := p.Reach(entries)
	nOnce := 0
	for fn := range reach {
		if p.isTestFn(fn) || isFixturePkg(fnPkgPath(fn)) {
			continue
		}
		for _, in := range instrs(fn) {
			// appending to a slice held in the shared Runtime writes into its backing array whenever there is spare
			// capacity: concurrent calls overwrite (and read) each other's elements
			if ap, isCall := in.(*ssa.Call); isCall && in.Parent() == fn && calleeName(&ap.Call) == "builtin append" && len(ap.Call.Args) == 2 {
				base := ap.Call.Args[0]
				if sl, isSl := base.(*ssa.Slice); isSl {
					base = sl.X
				}
				if ad, isLd := derefLoad(base); isLd {
					if fa, isFA := ad.(*ssa.FieldAddr); isFA {
						if n, stt := structOf(fa.X.Type()); n != nil && typeFullName(n) == runtimeT {
							c.obD("R13.4", ap, "no-append-into-runtime-slice", false, "a call never appends to a slice of the shared Runtime (the elements land in the backing array every concurrent call shares)", short(fn.String())+" appends to Runtime."+stt.Field(fa.Field).Name())
						}
					}
				}
			}
			st, ok := in.(*ssa.Store)
			if !ok {
				continue
			}
			if g, isG := st.Addr.(*ssa.Global); isG && isRepoPath(g.Pkg.Pkg.Path()) && !strings.HasPrefix(g.Name(), "init$") {
				c.obD("R13.4", st, "global-write", false, "a client call never writes package-level variables", "store to "+short(g.String()))
				continue
			}
			fa, ok := st.Addr.(*ssa.FieldAddr)
			if !ok {
				continue
			}
			n, _ := structOf(fa.X.Type())
			if n != nil && typeFullName(n) == "net/http.Client" {
				if al, isAl := fa.X.(*ssa.Alloc); isAl && al.Parent() == st.Parent() {
					continue // a client this function is constructing
				}
				c.obD("R13.4", st, "http-client-not-written", false, "a call never writes a field of an http.Client it did not just construct (the lazily created shared client and a caller's per-operation client are used by concurrent calls)", "store to a field of an existing http.Client in "+fnName(st.Parent()))
				continue
			}
			_, stt := structOf(fa.X.Type())
			field := ""
			if typeFullName(n) == runtimeT {
				field = fieldNameOf(n, stt, fa.Field)
			} else if stt != nil && fa.Field < stt.NumFields() {
				// a Runtime field regrouped into an embedded struct unknown to the baseline
				if _, moved := regroupedField(fa, runtimeT, stt.Field(fa.Field).Name()); moved {
					field = stt.Field(fa.Field).Name()
				}
			}
			if field == "" {
				continue
			}
			// allowed: r.client inside the closure passed to clientOnce.Do in Submit
			okW := false
			whyW := "store to Runtime." + field + " on a call path in " + fnName(fn)
			underSub := false
			if fn.Parent() != nil {
				for _, rt := range rootsOf(fn.Parent()) {
					if rt == sub {
						underSub = true
					}
				}
			}
			if field == "client" && underSub {
				for _, od := range callsIn(sub, "(*sync.Once).Do") {
					_, oa := callArgs(od.Common())
					if mc, isMC := oa[0].(*ssa.MakeClosure); isMC && mc.Fn == ssa.Value(fn) {
						recvO, _ := callArgs(od.Common())
						okW = vFieldLoadO(runtimeT, "clientOnce")(recvO)
					}
				}
				if okW {
					nOnce++
					// value: fresh http.Client{Transport: r.Transport, Jar: r.Jar}
					okV := false
					for _, o := range originsOf(st.Val) {
						if al, isA := o.V.(*ssa.Alloc); isA && al.Heap && typeStr(al.Type()) == "*net/http.Client" {
							okT, okJ := false, false
							for _, s2 := range fieldStores(fn, "net/http.Client", "Transport") {
								if s2.Addr.(*ssa.FieldAddr).X == ssa.Value(al) {
									okT = vFieldLoadO(runtimeT, "Transport")(s2.Val)
								}
							}
							for _, s2 := range fieldStores(fn, "net/http.Client", "Jar") {
								if s2.Addr.(*ssa.FieldAddr).X == ssa.Value(al) {
									okJ = vFieldLoadO(runtimeT, "Jar")(s2.Val)
								}
							}
							okV = okT && okJ
						}
					}
					if !okV {
						okW, whyW = false, "the shared client is not a fresh http.Client built from Runtime.Transport and Runtime.Jar (e.g. a caller's per-operation client would be pinned for everybody)"
					}
				}
			}
			c.obD("R13.4", st, "runtime-write-"+field, okW, "the only field of the shared Runtime written on a call path is `client`, once, under sync.Once, with a fresh http.Client built from the transport's own Transport and Jar", whyW)
		}
	}
	// the shared client is READ only after the Once has been passed: sync.Once.Do is what orders the write of r.client
	// before every reader — a read (a nil test as "fast path") in front of it races with the first call's write
	{
		onces := callsIn(sub, "(*sync.Once).Do")
		if len(onces) == 1 {
			for _, in := range instrs(sub) {
				if in.Parent() != sub {
					continue
				}
				ld, isLd := in.(*ssa.UnOp)
				if !isLd || ld.Op != token.MUL {
					continue
				}
				if _, isClient := fieldAddrOf(ld.X, runtimeT, "client"); !isClient {
					continue
				}
				c.obI("R13.4", ld, "shared-client-read-behind-the-once", dominates(onces[0], ld), "Submit reads Runtime.client only after clientOnce.Do returned (the Once orders the creation before every read)", "r.client is read on a path that has not passed the Once: a data race with the creating call")
			}
		}
	}
	c.obRF("R13.4", sub, "lazy-client-under-once", nOnce == 1, "the shared client is created lazily under the sync.Once", fmt.Sprintf("%d guarded initialisations", nOnce))
	ch := p.Fn("(*rt/client.Runtime).createHttpRequest")
	for _, b := range callsIn(ch, "(*rt/client.request).buildHTTP") {
		recvB, _ := callArgs(b.Common())
		okF, _ := allOrigins(recvB, oCall(-1, "rt/client.newRequest"))
		c.obI("R13.4", b, "request-object-per-call", okF, "the request object mutated while building is created for this call", "")
	}
	nq := p.Fn("rt/client.newRequest")
	for _, r := range returnsOf(nq) {
		okA := false
		for _, o := range originsOf(r.Results[0]) {
			if al, ok := o.V.(*ssa.Alloc); ok && al.Heap {
				okA = true
			}
		}
		c.obI("R13.4", r, "newRequest-allocates", okA, "newRequest returns a fresh object", "")
	}
	c.min("R13.4", 4)
}

// ctxUsesGuarded: every use of the (merged) context value v — a call it is handed to or invoked on, a further merge it
// enters — lies behind the fact noOp ("the operation carries no context"), merges being followed up to depth levels.
func ctxUsesGuarded(v ssa.Value, noOp EdgePred, depth int) bool {
	if v.Referrers() == nil {
		return true
	}
	for _, ref := range *v.Referrers() {
		switch u := ref.(type) {
		case ssa.CallInstruction:
			if !guardedBy(u, nil, noOp) {
				return false
			}
		case *ssa.Phi:
			for i, e := range u.Edges {
				if e == v && !edgeGuarded(u.Block().Preds[i], u.Block(), nil, noOp) {
					if depth <= 0 || !ctxUsesGuarded(u, noOp, depth-1) {
						return false
					}
				}
			}
		case *ssa.DebugRef:
		default:
			if _, isVal := ref.(ssa.Value); isVal {
				return false
			}
		}
	}
	return true
}
