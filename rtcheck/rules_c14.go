package main

import (
	"fmt"
	"go/constant"
	"go/token"
	"go/types"
	"net/http"
	"strings"

	"golang.org/x/tools/go/ssa"
)

func init() {
	register(&Property{
		ID: "C14",
		Explanation: "Decides in security/authenticator.go, client/auth_info.go and client/runtime.go: R14.1 the principal an authenticator returns is the application callback's (or nil), the error is the callback's, and the callback receives exactly r.BasicAuth()'s user and password, resp. the extracted token and the operation's required scopes; R14.2 'not applicable' (false, nil, nil) is returned exactly on the no-credential edge (ok == false / token == \"\") and every other exit applies; " +
			"Round 12: R14.1 every exit behind the callback returns the callback's principal itself; R14.2 the basic callback is always asked. " +
			"R14.3 bearer precedence: the Authorization header (prefix constant \"Bearer \") is read first, the access_token query parameter only when no token was found, the form body only when still none and only for the two form media types — the form read can never pre-empt the query read; R14.4 the context-aware and plain variants agree on the sequence of credential reads and constants; " +
			"R14.5 the client writers use the same header constant as the server reads, base64.StdEncoding for user:password (what net/http's BasicAuth decodes), the \"Bearer \" prefix, and the given key name/location; R14.6 the transport-wide default credential is wrapped in only when the operation has no AuthInfo, and applied only when no Authorization header is set. " +
			"R14.5 also: the snapshot of client-set query parameters in buildHTTP is taken after the auth writer ran. " +
			"R14.2 also: the HttpAuthenticator / ScopedAuthenticator adapters call the scheme for every parameter they recognise as a request. " +
			"R14.5 also: a caller's list of auth writers is never filtered in place; R14.6 also: an operation rebuilt by a transport wrapper keeps its AuthInfo. " +
			"NOT decided: string round-trip equality of the encodings (net/http, encoding/base64).",
		Run: runC14,
	})
}

func authClosure(p *Prog, outer string) *ssa.Function {
	f := p.Fn(outer)
	var best *ssa.Function
	for _, a := range literalsOrBoundMethods(f, func(s *types.Signature) bool { return s.Results().Len() == 3 }) {
		best = a
	}
	if best == nil {
		fatalf("anchor: %s has no authenticator closure", outer)
	}
	return best
}

// callbackCall finds the call of the captured application callback: a dynamic call whose function value is a
// func-typed parameter of the constructor the closure was made in (whatever that parameter is called).
func callbackCall(f *ssa.Function) *ssa.Call {
	outer := f.Parent()
	for outer != nil && outer.Parent() != nil {
		outer = outer.Parent()
	}
	isCallbackParam := func(o Origin) bool {
		prm, ok := o.V.(*ssa.Parameter)
		if !ok || prm.Parent() == f || (outer != nil && prm.Parent() != outer) {
			return false
		}
		_, isSig := prm.Type().Underlying().(*types.Signature)
		return isSig
	}
	for _, in := range instrs(f) {
		call, ok := in.(*ssa.Call)
		if !ok || call.Call.IsInvoke() {
			continue
		}
		if _, isFn := call.Call.Value.(*ssa.Function); isFn {
			continue
		}
		if _, isB := call.Call.Value.(*ssa.Builtin); isB {
			continue
		}
		if okc, _ := allOrigins(call.Call.Value, isCallbackParam); okc {
			return call
		}
	}
	return nil
}

func runC14(c *Ctx) {
	p := c.P
	ruleBasicAlwaysAsksCallback(c, "R14.2")
	ruleAdaptersAlwaysAskTheScheme(c, "R14.2")
	// the client never rewrites a list of writers it was handed (Compose(list...) shares the caller's backing array: an
	// in-place filter shifts the caller's elements, and a writer taken from that list later is another credential)
	for _, fn := range p.LibFuncs("rt/client") {
		for _, in := range ownInstrs(fn) {
			sl, ok := in.(*ssa.Slice)
			if !ok || sl.High == nil || sl.Low != nil {
				continue
			}
			if k, isK := constInt(sl.High); !isK || k != 0 {
				continue
			}
			fromParam, _ := allOrigins(sl.X, func(o Origin) bool { _, isP := o.V.(*ssa.Parameter); return isP })
			if !fromParam || !strings.Contains(typeStr(sl.Type()), "ClientAuthInfoWriter") {
				continue
			}
			for _, ci := range callsIn(fn, "builtin append") {
				if call, isCall := ci.(*ssa.Call); isCall && ci.Parent() == fn && typeStr(call.Type()) == typeStr(sl.Type()) && pathExists(fn, sl, ci, nil, nil) {
					c.obD("R14.5", ci, "caller-writer-list-not-rewritten", false, "a list of auth writers handed to the client is read, never filtered in place", short(fn.String())+" appends into "+describe(sl)+": the caller's slice is shifted")
				}
			}
		}
	}
	// a transport wrapper that submits a COPY of the caller's operation copies its credentials too: an operation rebuilt
	// field by field without AuthInfo goes out with the transport-wide default credential (or none)
	for _, fn := range p.LibFuncs("rt/client") {
		for _, in := range ownInstrs(fn) {
			al, ok := in.(*ssa.Alloc)
			if !ok || typeStr(al.Type()) != "*rt.ClientOperation" {
				continue
			}
			stored := map[string]bool{}
			whole := false
			if al.Referrers() != nil {
				for _, ref := range *al.Referrers() {
					switch x := ref.(type) {
					case *ssa.FieldAddr:
						if _, stt := structOf(x.X.Type()); stt != nil {
							stored[stt.Field(x.Field).Name()] = true
						}
					case *ssa.Store:
						if x.Addr == ssa.Value(al) {
							whole = true // *copy = *op
						}
					}
				}
			}
			if whole {
				continue
			}
			submitted := false
			for _, ci := range allCalls(fn) {
				for _, a := range ci.Common().Args {
					if a == ssa.Value(al) && (ifaceMethodCalled(ci.Common()) == "Submit" || strings.HasSuffix(calleeName(ci.Common()), ").Submit")) {
						submitted = true
					}
				}
			}
			if submitted {
				c.obD("R14.6", al, "copied-operation-keeps-its-credentials", stored["AuthInfo"], "an operation a transport rebuilds before submitting it carries the caller's AuthInfo", short(fn.String())+" submits a ClientOperation built field by field without AuthInfo: the operation's own credential is dropped")
			}
		}
	}
	type variant struct {
		outer string
		ctx   bool
		kind  string
	}
	vs := []variant{
		{"rt/security.BasicAuthRealm", false, "basic"}, {"rt/security.BasicAuthRealmCtx", true, "basic"},
		{"rt/security.APIKeyAuth", false, "key"}, {"rt/security.APIKeyAuthCtx", true, "key"},
		{"rt/security.BearerAuth", false, "bearer"}, {"rt/security.BearerAuthCtx", true, "bearer"},
	}
	events := map[string][]string{}
	delegated := map[string]string{}
	for _, v := range vs {
		if sib, ok := delegatesToSibling(c, p.Fn(v.outer), vs2names(vs)); ok {
			// this variant is the sibling with an adapter callback: the sibling's obligations cover it
			delegated[v.outer] = sib
			continue
		}
		f := authClosure(p, v.outer)
		cb := callbackCall(f)
		c.obRF("R14.1", f, "calls-callback", cb != nil, "the authenticator consults the application's callback", "")
		if cb == nil {
			continue
		}
		pIdx, eIdx, off := 0, 1, 0
		if v.ctx {
			pIdx, eIdx, off = 1, 2, 1
		}
		princ, cerr := resultOf(cb, pIdx), resultOf(cb, eIdx)
		// credential source
		var noCred EdgePred
		var credOK bool
		var credFlag ssa.Value // the boolean "a credential was found", when the source hands one back (r.BasicAuth's ok)
		switch v.kind {
		case "basic":
			bas := callsIn(f, "(*net/http.Request).BasicAuth")
			credOK = len(bas) == 1
			if credOK {
				ba := bas[0].(*ssa.Call)
				okU, _ := allOrigins(cb.Call.Args[off], oIsValue(resultOf(ba, 0)))
				okP, _ := allOrigins(cb.Call.Args[off+1], oIsValue(resultOf(ba, 1)))
				okR, _ := allOrigins(ba.Call.Args[0], oIsValue(paramOfType(f, "*net/http.Request")))
				credOK = okU && okP && okR
				noCred = factBool(vIs(resultOf(ba, 2)), false)
				credFlag = resultOf(ba, 2)
				c.obI("R14.1", cb, "callback-needs-credentials", guardedBy(cb, ba, factBool(vIs(resultOf(ba, 2)), true)), "the callback is consulted only when basic credentials are present", "")
			}
			c.obI("R14.1", cb, "callback-gets-transmitted-credentials", credOK, "the callback receives exactly the user and password r.BasicAuth() decoded", "")
		case "key":
			tok := cb.Call.Args[off]
			isGetter := func(o Origin) bool {
				call := asCall(o.V)
				if call == nil || call.Call.IsInvoke() {
					return false
				}
				// getToken(r): a call of the local func value
				return len(call.Call.Args) == 1 && call.Call.Args[0] == ssa.Value(f.Params[0]) && calleeName(&call.Call) == ""
			}
			credOK, _ = allOrigins(tok, isGetter)
			c.obI("R14.1", cb, "callback-gets-transmitted-credentials", credOK, "the callback receives exactly the token extracted from the request", "")
			noCred = factEqString(vOrigins(isGetter), "", true)
			// the getters read the configured name from the configured location
			outer := p.Fn(v.outer)
			nHdr, nQry := 0, 0
			// (the getters may live in a helper shared by the plain and the Ctx constructor: the name is then the name
			// parameter of either constructor)
			isName := func(v ssa.Value) bool {
				ok, _ := allOrigins(v, func(o Origin) bool {
					for _, n := range []string{"rt/security.APIKeyAuth", "rt/security.APIKeyAuthCtx"} {
						if o.V == ssa.Value(p.Fn(n).Params[0]) {
							return true
						}
					}
					return false
				})
				return ok
			}
			for _, a := range anonFuncsDeep(outer) {
				if a.Signature.Results().Len() != 1 {
					continue
				}
				for _, g := range callsIn(a, "(net/http.Header).Get") {
					_, ga := callArgs(g.Common())
					if isName(ga[0]) {
						nHdr++
					}
				}
				for _, g := range callsIn(a, "(net/url.Values).Get") {
					recv, ga := callArgs(g.Common())
					okQ, _ := allOrigins(recv, oCall(-1, "(*net/url.URL).Query"))
					if okQ && isName(ga[0]) {
						nQry++
					}
				}
			}
			// what a getter hands on is what the lookup by name found — on every path (a shortcut answering "" while the
			// request carries the key reports 'not applicable' for a transmitted credential)
			for _, a := range anonFuncsDeep(outer) {
				if a.Signature.Results().Len() != 1 || a.Signature.Params().Len() != 1 || typeStr(a.Signature.Results().At(0).Type()) != "string" {
					continue
				}
				for _, r := range realReturns(a) {
					ok, bad := allOrigins(r.Results[0], oCallWhere(-1, "(net/http.Header).Get", func(g *ssa.Call) bool {
						_, ga := callArgs(&g.Call)
						return isName(ga[0])
					}), oCallWhere(-1, "(net/url.Values).Get", func(g *ssa.Call) bool {
						recv, ga := callArgs(&g.Call)
						okQ, _ := allOrigins(recv, oCall(-1, "(*net/url.URL).Query"))
						return okQ && isName(ga[0])
					}))
					c.obI("R14.1", r, "getter-returns-the-lookup", ok, "the API-key getter returns exactly what Header.Get(name) / URL.Query().Get(name) found, on every path", "the getter can return "+describeOrigin(bad))
				}
			}
			// a header key is read through Header.Get (which canonicalises the configured name), never by indexing the map
			for _, a := range anonFuncsDeep(outer) {
				for _, in := range instrs(a) {
					if lk, ok := in.(*ssa.Lookup); ok && typeStr(lk.X.Type()) == "net/http.Header" {
						k, isK := constString(lk.Index)
						c.obD("R14.1", lk, "header-key-read-canonically", isK && http.CanonicalHeaderKey(k) == k, "an API key in a header is read with Header.Get(name): the configured name is matched case-insensitively, as the client's header is canonicalised in transit", "the header map is indexed directly with the configured name")
					}
				}
			}
			// which getter is installed is decided on the VALIDATED location — strings.ToLower(in), the value the constructor
			// checked to be "header" or "query" — never on the raw argument ("Header" validates, and must read the header)
			{
				var inPrm *ssa.Parameter
				for _, prm := range outer.Params {
					if prm.Name() == "in" || (inPrm == nil && typeStr(prm.Type()) == "string" && prm != outer.Params[0]) {
						inPrm = prm
					}
				}
				nLoc := 0
				for _, in := range instrs(outer) {
					bo, ok := in.(*ssa.BinOp)
					if !ok || (bo.Op != token.EQL && bo.Op != token.NEQ) {
						continue
					}
					k, isK := constString(bo.Y)
					side := bo.X
					if !isK {
						k, isK = constString(bo.X)
						side = bo.Y
					}
					if !isK || (k != "header" && k != "query") {
						continue
					}
					nLoc++
					isLoc := func(o Origin) bool {
						// the location argument of this constructor — or of its sibling, when both share a helper
						prm, isP := o.V.(*ssa.Parameter)
						if !isP || prm.Parent() == nil || inPrm == nil {
							return false
						}
						if prm == inPrm {
							return true
						}
						return strings.Contains(prm.Parent().Name(), "APIKeyAuth") && prm.Name() == inPrm.Name()
					}
					okL, bad := allOrigins(side, oCallWhere(-1, "strings.ToLower", func(t *ssa.Call) bool {
						okA, _ := allOrigins(t.Call.Args[0], isLoc)
						return okA
					}))
					c.obI("R14.1", bo, "location-compared-in-validated-form", okL && inPrm != nil, "the key's location is compared in its lower-cased form — the form that was validated", "the location compared is "+describeOrigin(bad))
				}
				c.obRF("R14.1", outer, "location-decides-the-getter", nLoc >= 2, "the constructor compares the location with \"header\" / \"query\"", fmt.Sprintf("%d comparisons", nLoc))
			}
			c.obRF("R14.1", outer, "key-read-by-name-from-location", nHdr == 1 && nQry == 1, "an API key is read under its configured name from the header or from the query", fmt.Sprintf("header getters %d, query getters %d", nHdr, nQry))
		case "bearer":
			tok := cb.Call.Args[off]
			hdrs := callsIn(f, "(net/http.Header).Get")
			qrys := callsIn(f, "(net/url.Values).Get")
			frms := callsIn(f, "(*net/http.Request).FormValue")
			okShape := len(hdrs) == 1 && len(qrys) == 1 && len(frms) == 1
			c.obF("R14.3", f, "three-sources", okShape, "a bearer token is looked for in the Authorization header, the access_token query parameter and the form body", fmt.Sprintf("%d/%d/%d", len(hdrs), len(qrys), len(frms)))
			if okShape {
				h, q, fm := hdrs[0].(*ssa.Call), qrys[0].(*ssa.Call), frms[0].(*ssa.Call)
				_, ha := callArgs(&h.Call)
				hk, _ := constString(ha[0])
				okH := hk == "Authorization"
				okPrefix := false
				var prefixFound ssa.Value // the "prefix was present" boolean, when the header is cut by strings.CutPrefix
				for _, tp := range callsIn(f, "strings.TrimPrefix") {
					s, _ := constString(tp.Common().Args[1])
					if s == "Bearer " && tp.Common().Args[0] == ssa.Value(h) {
						okPrefix = true
						hp := false
						for _, hpc := range callsIn(f, "strings.HasPrefix") {
							s2, _ := constString(hpc.Common().Args[1])
							if s2 == "Bearer " && hpc.Common().Args[0] == ssa.Value(h) && guardedBy(tp, nil, factBool(vIs(hpc.Value()), true)) {
								hp = true
							}
						}
						okPrefix = hp
					}
				}
				// strings.CutPrefix(hdr, "Bearer "): the remainder is taken as the token only when the prefix was found
				for _, cpi := range callsIn(f, "strings.CutPrefix") {
					cp := cpi.(*ssa.Call)
					s, _ := constString(cp.Call.Args[1])
					if s != "Bearer " || cp.Call.Args[0] != ssa.Value(h) {
						continue
					}
					rest, found := resultOf(cp, 0), resultOf(cp, 1)
					if rest == nil || found == nil {
						continue
					}
					uses, okUses := 0, true
					for _, in := range instrs(f) {
						phi, isPhi := in.(*ssa.Phi)
						if !isPhi {
							continue
						}
						for i, e := range phi.Edges {
							if e != rest {
								continue
							}
							uses++
							if !edgeGuarded(phi.Block().Preds[i], phi.Block(), nil, factBool(vIs(found), true)) {
								okUses = false
							}
						}
					}
					// (early-return style: the remainder is handed back directly)
					for _, ret := range returnsOf(cp.Parent()) {
						for _, res := range ret.Results {
							if res != rest {
								continue
							}
							uses++
							if !guardedBy(ret, cp, factBool(vIs(found), true)) {
								okUses = false
							}
						}
					}
					okPrefix = uses > 0 && okUses
					prefixFound = found
				}
				// hdr[:7] == "Bearer " then hdr[7:]: the manual spelling of HasPrefix/TrimPrefix
				var manualRest ssa.Value
				for _, in := range instrs(f) {
					sl, isSl := in.(*ssa.Slice)
					if !isSl || sl.X != ssa.Value(h) || sl.High != nil || sl.Low == nil {
						continue
					}
					if k, isK := constInt(sl.Low); !isK || k != int64(len("Bearer ")) {
						continue
					}
					headIsPrefix := factEqString(func(v ssa.Value) bool {
						hs, ok := v.(*ssa.Slice)
						if !ok || hs.X != ssa.Value(h) || hs.Low != nil || hs.High == nil {
							return false
						}
						k, isK := constInt(hs.High)
						return isK && k == int64(len("Bearer "))
					}, "Bearer ", true)
					okPrefix = guardedBy(sl, h, headIsPrefix)
					manualRest = sl
				}
				c.obI("R14.3", h, "header-first-with-bearer-prefix", okH && okPrefix && dominates(h, q) && dominates(h, fm), "the Authorization header is read first and a token is taken from it only behind the \"Bearer \" prefix", "")
				_, qa := callArgs(&q.Call)
				qk, _ := constString(qa[0])
				var isTokenV func(v ssa.Value, d int) bool
				isTokenV = func(v ssa.Value, d int) bool {
					if manualRest != nil && d < 6 {
						// (origins look through a slice expression to the header itself: walk the merge by hand)
						if v == manualRest {
							return true
						}
						if phi, isPhi := v.(*ssa.Phi); isPhi {
							for _, e := range phi.Edges {
								if !isTokenV(e, d+1) {
									return false
								}
							}
							return true
						}
					}
					ok, _ := allOrigins(v, oConstString(""), oCall(-1, "strings.TrimPrefix"), oCall(0, "strings.CutPrefix"), oCall(-1, "(net/url.Values).Get"), oCall(-1, "(*net/http.Request).FormValue"))
					return ok
				}
				isTokenEmpty := factEqString(func(v ssa.Value) bool { return isTokenV(v, 0) }, "", true)
				// "the header gave no token": the token so far is empty, or the header did not carry the prefix at all
				noHeaderToken := isTokenEmpty
				if prefixFound != nil {
					noHeaderToken = anyFact(isTokenEmpty, factBool(vIs(prefixFound), false))
				}
				// (or, tested on the header itself: it does not start with the prefix, or is no longer than the prefix)
				{
					noPrefix := factBool(func(v ssa.Value) bool {
						hp := asCall(v)
						if hp == nil || calleeName(&hp.Call) != "strings.HasPrefix" || hp.Call.Args[0] != ssa.Value(h) {
							return false
						}
						k, isK := constString(hp.Call.Args[1])
						return isK && k == "Bearer "
					}, false)
					nothingAfterPrefix := func(cond ssa.Value, branch bool) bool {
						cnd, b := stripNot(cond, branch)
						bo, isBo := cnd.(*ssa.BinOp)
						if !isBo {
							return false
						}
						l, isLen := lenOf(bo.X)
						k, isK := constInt(bo.Y)
						if !isLen || l != ssa.Value(h) || !isK || k != int64(len("Bearer ")) {
							return false
						}
						switch bo.Op {
						case token.GTR:
							return !b
						case token.LEQ:
							return b
						}
						return false
					}
					noHeaderToken = anyFact(noHeaderToken, noPrefix, nothingAfterPrefix)
				}
				c.obI("R14.3", q, "query-only-without-header-token", qk == "access_token" && guardedBy(q, h, noHeaderToken), "the access_token query parameter is read only when the header gave no token", "")
				fk, _ := constString(fm.Call.Args[1])
				isForm := func(cond ssa.Value, branch bool) bool {
					ct := vOrigins(oCall(0, "rt.ContentType"))
					return factEqString(ct, "application/x-www-form-urlencoded", true)(cond, branch) || factEqString(ct, "multipart/form-data", true)(cond, branch)
				}
				c.obI("R14.3", fm, "form-only-for-form-media-types", fk == "access_token" && guardedBy(fm, nil, isForm) && guardedBy(fm, h, noHeaderToken), "the form body is consulted only for the two form media types and only when no token was found before", "")
				// nothing else decides whether the form body is consulted: every test that can steer past the form read is about
				// the token found so far or about the content type (never the method, a length, a flag …)
				{
					ff := fm.Parent()
					ctErr := vOrigins(oCall(1, "rt.ContentType"), oCall(2, "rt.ContentType"))
					for _, b := range ff.Blocks {
						iff, isIf := lastInstr(b).(*ssa.If)
						if !isIf || len(b.Succs) != 2 || !reachableFrom(ff.Blocks[0], b) {
							continue
						}
						r0 := b.Succs[0] == fm.Block() || reachableFrom(b.Succs[0], fm.Block())
						r1 := b.Succs[1] == fm.Block() || reachableFrom(b.Succs[1], fm.Block())
						if r0 == r1 {
							continue
						}
						var condKnown func(cond ssa.Value, depth int) bool
						condKnown = func(cond ssa.Value, depth int) bool {
							if depth > 4 {
								return false
							}
							if u, isU := cond.(*ssa.UnOp); isU && u.Op == token.NOT {
								return condKnown(u.X, depth+1)
							}
							// a condition computed ahead of its test (`isForm := ct == a || ct == b`): every contribution is a known test or a constant
							if phi, isPhi := cond.(*ssa.Phi); isPhi {
								for _, e := range phi.Edges {
									if k, isK := e.(*ssa.Const); isK && k.Value != nil && k.Value.Kind() == constant.Bool {
										continue
									}
									if !condKnown(e, depth+1) {
										return false
									}
								}
								return true
							}
							for _, br := range []bool{true, false} {
								if noHeaderToken(cond, br) || isForm(cond, br) || factNil(ctErr, true)(cond, br) || factNil(ctErr, false)(cond, br) {
									return true
								}
								if prefixFound != nil && factBool(vIs(prefixFound), br)(cond, true) {
									return true
								}
							}
							return false
						}
						known := condKnown(iff.Cond, 0)
						for _, br := range []bool{true, false} {
							if noHeaderToken(iff.Cond, br) || isForm(iff.Cond, br) || factEqString(func(ssa.Value) bool { return true }, "", true)(iff.Cond, br) && isTokenEmpty(iff.Cond, br) ||
								factNil(ctErr, true)(iff.Cond, br) || factNil(ctErr, false)(iff.Cond, br) {
								known = true
							}
							if prefixFound != nil && factBool(vIs(prefixFound), br)(iff.Cond, true) {
								known = true
							}
						}
						c.obI("R14.3", iff, "form-consulted-whatever-else", known, "whether the form body is consulted depends only on the token found so far and on the content type being one of the two form media types: a bearer token in a form body is recovered for every method", "a test on something else can steer past the form read")
					}
				}
				// the token tested right before the form read: every way it can be empty has gone through the query read
				okPre, whyPre := false, "no `token == \"\"` test on a merged token value guards the form read"
				for _, in := range instrs(f) {
					phi, isPhi := in.(*ssa.Phi)
					if !isPhi || !pathExists(f, phi, fm, nil, nil) || !guardedBy(fm, phi, factEqString(vIs(phi), "", true)) {
						continue
					}
					okPre, whyPre = true, ""
					for i, e := range phi.Edges {
						viaQuery, _ := allOrigins(e, oIsValue(q))
						if viaQuery {
							continue
						}
						// this way of reaching the test skipped the query: it must carry a non-empty token
						// (… shown by a test of the token itself, or by the header being LONGER than the prefix it starts with)
						longerThanPrefix := func(cond ssa.Value, branch bool) bool {
							cnd, b := stripNot(cond, branch)
							bo, isBo := cnd.(*ssa.BinOp)
							if !isBo {
								return false
							}
							l, isLen := lenOf(bo.X)
							k, isK := constInt(bo.Y)
							if !isLen || l != ssa.Value(h) || !isK || k != int64(len("Bearer ")) {
								return false
							}
							switch bo.Op {
							case token.GTR:
								return b
							case token.LEQ:
								return !b
							}
							return false
						}
						fromTrim, _ := allOrigins(e, oCall(-1, "strings.TrimPrefix"))
						if fromTrim && edgeGuarded(phi.Block().Preds[i], phi.Block(), nil, longerThanPrefix) {
							continue
						}
						if !edgeGuarded(phi.Block().Preds[i], phi.Block(), nil, factEqString(vIs(e), "", false)) {
							okPre, whyPre = false, "the form body can be read although the query parameter was not tried (FormValue would then let the body pre-empt the query)"
						}
					}
				}
				if !okPre && q.Parent() == fm.Parent() && dominates(q, fm) && guardedBy(fm, q, factEqString(vIs(q), "", true)) {
					// early-return style: the form read lies behind the query read and behind "the query gave nothing"
					okPre, whyPre = true, ""
				}
				c.obI("R14.3", fm, "form-never-pre-empts-query", okPre,
					"every way of reaching the form read with an empty token has tried the query parameter first (FormValue merges query and body, body first: reading it alone would invert the precedence)", whyPre)
				okT, bad := allOrigins(tok, oConstString(""), oIsValue(h), oCall(-1, "strings.TrimPrefix"), oCall(0, "strings.CutPrefix"), oIsValue(q), oIsValue(fm))
				c.obI("R14.1", cb, "callback-gets-transmitted-credentials", okT, "the callback receives exactly the token found", "origin "+describeOrigin(bad))
				okS := vFieldLoadO("rt/security.ScopedAuthRequest", "RequiredScopes")(cb.Call.Args[off+1])
				c.obI("R14.1", cb, "callback-gets-required-scopes", okS, "the callback receives the operation's required scopes", "")
				noCred = factEqString(func(v ssa.Value) bool { return v == tok }, "", true)
			}
		}
		// R14.1 / R14.2 returns
		for _, vr := range virtualReturns(f) {
			r := vr.R
			if len(vr.Res) < 3 {
				continue
			}
			r0 := vr.Res[0]
			if b, ok := constBool(r0); ok && !b {
				g := noCred != nil && vr.Guarded(noCred)
				// (named results left at their zero values count as the nil results)
				isZero := func(v ssa.Value) bool {
					if isNilConst(v) {
						return true
					}
					ok, _ := allOrigins(v, oNil(), func(o Origin) bool { al, isAl := o.V.(*ssa.Alloc); return isAl && al.Parent() == f })
					return ok
				}
				c.obI("R14.2", r, "not-applicable-only-without-credential", g && isZero(vr.Res[1]) && isZero(vr.Res[2]), "(false, nil, nil) is returned exactly when the request carries no such credential", "")
				continue
			}
			// `return ok, p, err` with ok the credential flag itself: applies IS "a credential was found"; principal and error
			// are nil or the callback's, and the callback only runs behind the flag (callback-needs-credentials), so they
			// are nil whenever the flag is false
			if credFlag != nil && noCred != nil {
				if isFlag, _ := allOrigins(r0, oIsValue(credFlag)); isFlag {
					okP, _ := allOrigins(vr.Res[1], oNil(), oIsValue(princ))
					okE, _ := allOrigins(vr.Res[2], oNil(), oIsValue(cerr))
					gcb := guardedBy(cb, nil, negate(noCred))
					c.obI("R14.2", r, "applies-is-the-credential-flag", okP && okE && gcb && princ != nil, "applies is reported as the very flag 'credentials were found'; principal and error are the callback's, which runs only behind that flag — so (false, nil, nil) exactly without credentials", "")
					continue
				}
			}
			b, ok := constBool(r0)
			c.obI("R14.2", r, "applies-otherwise", ok && b, "every other exit reports applies == true", "")
			okP, bad := allOrigins(vr.Res[1], oNil(), oIsValue(princ))
			c.obI("R14.1", r, "principal-is-callbacks", okP && princ != nil, "the principal returned is the application callback's — never the credential itself or another value", "origin "+describeOrigin(bad))
			okE, _ := allOrigins(vr.Res[2], oNil(), oIsValue(cerr))
			c.obI("R14.1", r, "error-is-callbacks", okE, "the error returned is the callback's", "")
			if cb != nil && princ != nil && cb.Parent() == f && r.Parent() == f && dominates(cb, r) {
				// once the callback has answered, its principal is what goes back — also next to an error
				okK, _ := allOrigins(vr.Res[1], oIsValue(princ))
				c.obI("R14.1", r, "callbacks-principal-never-dropped", okK, "every exit behind the callback hands back the callback's principal itself (a nil in its place would be 'a principal other than the callback's' whenever the callback reports one together with an error)", "")
			}
			if noCred != nil {
				c.obI("R14.2", r, "applies-only-with-credential", vr.Guarded(negate(noCred)), "an applying exit is reached only when a credential was found", "")
			}
		}
		// event sequence for sibling agreement
		var ev []string
		for _, fn := range append([]*ssa.Function{f}, siblingGetters(p.Fn(v.outer))...) {
			for _, ci := range allCalls(fn) {
				n := calleeName(ci.Common())
				switch n {
				case "(*net/http.Request).BasicAuth", "(net/http.Header).Get", "(*net/url.URL).Query", "(net/url.Values).Get", "(*net/http.Request).FormValue", "rt.ContentType", "strings.HasPrefix", "strings.TrimPrefix":
					s := n
					for _, a := range ci.Common().Args {
						if k, ok := constString(a); ok {
							s += " " + k
						}
					}
					ev = append(ev, s)
				}
			}
			for _, in := range instrs(fn) {
				if bo, ok := in.(*ssa.BinOp); ok {
					if k, isC := constString(bo.Y); isC && k != "" {
						ev = append(ev, "cmp "+k)
					}
				}
			}
		}
		events[v.outer] = ev
	}
	for i := 0; i+1 < len(vs); i += 2 {
		if delegated[vs[i].outer] == vs[i+1].outer || delegated[vs[i+1].outer] == vs[i].outer {
			c.ob("R14.4", vs[i].outer, "sibling-agreement", "-", true, "the plain and the context-aware variant read the same credential sources with the same constants in the same order (one delegates to the other)", "")
			continue
		}
		a, b := events[vs[i].outer], events[vs[i+1].outer]
		c.ob("R14.4", vs[i].outer, "sibling-agreement", "-", strings.Join(a, ";") == strings.Join(b, ";") && len(a) > 0,
			"the plain and the context-aware variant read the same credential sources with the same constants in the same order", fmt.Sprintf("plain: %v\nctx: %v", a, b))
	}
	// "together with the operation's required scopes": the scopes an authenticator is handed are those of its own
	// requirement alternative (the table is built per alternative; one table shared by the alternatives hands every
	// one of them the scopes of the last)
	ruleAlternativeStorageFresh(c, "R14.1")
	ruleRequiredScopesPerScheme(c, "R14.1")
	nDel := len(delegated) // (a delegating variant contributes its pass-through obligations instead of its own)
	c.min("R14.1", 20-4*nDel)
	c.min("R14.2", 12-3*nDel)
	c.min("R14.3", 8-4*nDel)

	// R14.5 client writers
	serverHdr := "Authorization"
	ba := onlyClosure(p.Fn("rt/client.BasicAuth"))
	baOuter := p.Fn("rt/client.BasicAuth")
	opaque := func(ps []ssa.Value) []ssa.Value {
		var out []ssa.Value
		for _, x := range ps {
			if _, isK := x.(*ssa.Const); !isK {
				out = append(out, x)
			}
		}
		return out
	}
	for _, sh := range callsIn(ba, "(rt.ClientRequest).SetHeaderParam") {
		_, a := callArgs(sh.Common())
		k, _ := constString(a[0])
		elems, _ := sliceLitElems(a[1])
		okV := false
		if len(elems) == 1 {
			// whatever the spelling of the assembly: the value is the pieces "Basic ", base64.StdEncoding(user ":" password)
			// (the header value may be computed once in the constructor and captured)
			top, okT := concatPieces(elems[0], 0)
			if okT && pieceText(top) == "Basic \x00" {
				if enc := asCall(resolve1(opaque(top)[0])); enc != nil && calleeName(&enc.Call) == "(*encoding/base64.Encoding).EncodeToString" {
					recv, ea := callArgs(&enc.Call)
					isStd := false
					if ad, okk := derefLoad(recv); okk {
						if g, isG := ad.(*ssa.Global); isG {
							isStd = short(g.String()) == "encoding/base64.StdEncoding"
						}
					}
					cred, okC := concatPieces(ea[0], 0)
					okCred := okC && pieceText(cred) == "\x00:\x00"
					if okCred {
						ops := opaque(cred)
						okCred = isOuterParam(ops[0], baOuter, 0) && isOuterParam(ops[1], baOuter, 1)
					}
					okV = isStd && okCred
				}
			}
		}
		c.obI("R14.5", sh, "basic-writer", k == serverHdr && okV, "BasicAuth writes \"Basic \" + base64.StdEncoding(user + \":\" + password) to the Authorization header — the encoding net/http's Request.BasicAuth decodes", "")
	}
	bt := onlyClosure(p.Fn("rt/client.BearerToken"))
	for _, sh := range callsIn(bt, "(rt.ClientRequest).SetHeaderParam") {
		_, a := callArgs(sh.Common())
		k, _ := constString(a[0])
		elems, _ := sliceLitElems(a[1])
		okV := false
		if len(elems) == 1 {
			top, okT := concatPieces(elems[0], 0)
			if okT && pieceText(top) == "Bearer \x00" {
				okV = isOuterParam(opaque(top)[0], p.Fn("rt/client.BearerToken"), 0)
			}
		}
		c.obI("R14.5", sh, "bearer-writer", k == serverHdr && okV, "BearerToken writes \"Bearer \" + token to the Authorization header (the prefix the server strips)", "")
	}
	ak := p.Fn("rt/client.APIKeyAuth")
	nQ, nH := 0, 0
	for _, a := range anonFuncsDeep(ak) {
		for _, kind := range []string{"(rt.ClientRequest).SetQueryParam", "(rt.ClientRequest).SetHeaderParam"} {
			for _, ci := range callsIn(a, kind) {
				_, ca := callArgs(ci.Common())
				elems, _ := sliceLitElems(ca[1])
				okW := isOuterParam(ca[0], ak, 0) && len(elems) == 1 && isOuterParam(elems[0], ak, 2)
				c.obI("R14.5", ci, "key-written-verbatim", okW, "the API key writer sets exactly the given value under the given name (no escaping or rewriting of the credential: the server compares what it receives with what was issued)", "the name or the value written is not the constructor's argument")
				if okW && strings.HasSuffix(kind, "SetQueryParam") {
					nQ++
				} else if okW {
					nH++
				}
			}
		}
	}
	c.obRF("R14.5", ak, "key-writer", nQ == 1 && nH == 1, "APIKeyAuth writes the value under the given name to the query or to the header", fmt.Sprintf("query writers %d, header writers %d", nQ, nH))
	// the header constant shared by both sides
	c.ob("R14.5", "rt", "shared-header-constant", "-", strings.Trim(p.ConstVal("rt", "HeaderAuthorization"), "\"") == serverHdr, "client and server use the same Authorization header constant", "")
	sh := p.Fn("(*rt/client.request).SetHeaderParam")
	okCanon := false
	for _, in := range instrs(sh) {
		if mu, ok := in.(*ssa.MapUpdate); ok {
			okCanon, _ = allOrigins(mu.Key, oCall(-1, "net/http.CanonicalHeaderKey"))
		}
	}
	c.obF("R14.5", sh, "header-writes-canonical", okCanon, "header parameters are written under their canonical name", "")
	ruleQuerySnapshotAfterAuth(c, "R14.5")
	// Compose applies EVERY non-nil writer it was given, in order: a writer is skipped only for being nil (an API key
	// composed after a bearer token is still attached)
	{
		co := onlyClosure(p.Fn("rt/client.Compose"))
		loops := sliceLoops(co, nil)
		c.obRF("R14.5", co, "compose-iterates-writers", len(loops) == 1, "Compose iterates over its writers", fmt.Sprintf("%d loops", len(loops)))
		for _, l := range loops {
			isElem := func(v ssa.Value) bool {
				ad, ok := derefLoad(v)
				return ok && ad == ssa.Value(l.Elem)
			}
			isApply := func(in ssa.Instruction) bool {
				ci, ok := in.(ssa.CallInstruction)
				return ok && ci.Common().IsInvoke() && ci.Common().Method.Name() == "AuthenticateRequest" && isElem(ci.Common().Value)
			}
			skipped := pathExists(co, l.Body, l.Test, factNil(isElem, true), isApply)
			c.obI("R14.5", l.Elem, "compose-applies-every-writer", !skipped, "every non-nil writer composed is applied to the request", "an iteration can move on to the next writer without applying a non-nil one")
		}
	}
	c.min("R14.5", 8)

	// R14.6 default credential
	ch := p.Fn("(*rt/client.Runtime).createHttpRequest")
	for _, b := range callsIn(ch, "(*rt/client.request).buildHTTP") {
		_, a := callArgs(b.Common())
		auth := a[4]
		// (the operation's AuthInfo may reach the function as a parameter every caller fills with operation.AuthInfo)
		var authParam *ssa.Parameter
		if curProg != nil && curProg.ti != nil {
			for pos, prm := range ch.Params {
				if typeStr(prm.Type()) != "rt.ClientAuthInfoWriter" {
					continue
				}
				sites := curProg.ti.callers[ch]
				all := len(sites) > 0
				for _, cs := range sites {
					if pos >= len(cs.Common().Args) {
						all = false
						continue
					}
					if okS, _ := allOrigins(cs.Common().Args[pos], oFieldLoad("rt.ClientOperation", "AuthInfo", nil)); !okS {
						all = false
					}
				}
				if all {
					authParam = prm
				}
			}
		}
		isOwnAuth := func(v ssa.Value) bool {
			if vFieldLoadO("rt.ClientOperation", "AuthInfo")(v) {
				return true
			}
			if authParam != nil {
				okP, _ := allOrigins(v, oIsValue(authParam))
				return okP
			}
			return false
		}
		okA, bad := allOrigins(auth, oFieldLoad("rt.ClientOperation", "AuthInfo", nil), func(o Origin) bool { _, ok := o.V.(*ssa.MakeClosure); return ok },
			func(o Origin) bool { return authParam != nil && o.V == ssa.Value(authParam) })
		why := "origin " + describeOrigin(bad)
		if okA {
			if phi, isPhi := auth.(*ssa.Phi); isPhi {
				for i, e := range phi.Edges {
					if okC, _ := allOrigins(e, func(o Origin) bool { _, ok := o.V.(*ssa.MakeClosure); return ok }); okC {
						noOwn := factNil(isOwnAuth, true)
						hasDef := factNil(vFieldLoadO(runtimeT, "DefaultAuthentication"), false)
						if !edgeGuarded(phi.Block().Preds[i], phi.Block(), nil, noOwn) || !edgeGuarded(phi.Block().Preds[i], phi.Block(), nil, hasDef) {
							okA, why = false, "the default-credential wrapper can be installed although the operation has its own AuthInfo"
						}
					}
				}
			} else if _, isMC := unboxed(auth).(*ssa.MakeClosure); isMC {
				okA, why = false, "the default-credential wrapper is installed unconditionally"
			} else {
				// the choice was moved into a helper: the wrapper is created only under both conditions
				noOwn := factNil(isOwnAuth, true)
				hasDef := factNil(vFieldLoadO(runtimeT, "DefaultAuthentication"), false)
				for _, o := range originsOf(auth) {
					mc, isMC := o.V.(*ssa.MakeClosure)
					if !isMC {
						continue
					}
					if pathExistsUnder(ch, nil, mc, noOwn, nil) || pathExistsUnder(ch, nil, mc, hasDef, nil) {
						okA, why = false, "the default-credential wrapper can be created although the operation has its own AuthInfo (or without a default)"
					}
				}
			}
		}
		c.obI("R14.6", b, "default-only-without-own-auth", okA, "the transport-wide default credential is wrapped in only when the operation has no AuthInfo of its own (and a default exists)", why)
	}
	wrappers := anonFuncsDeep(ch)
	// (the wrapper may be a method of the transport installed as a method value)
	wrappers = append(wrappers, literalsOrBoundMethods(ch, func(sg *types.Signature) bool { return sg.Results().Len() == 1 && sg.Params().Len() == 2 })...)
	seenW := map[*ssa.Function]bool{}
	for _, a := range wrappers {
		if seenW[a] {
			continue
		}
		seenW[a] = true
		for _, d := range callsIn(a, "(rt.ClientAuthInfoWriter).AuthenticateRequest") {
			noHdr := factEqString(vOrigins(oConstString(""), oCallWhere(-1, "(net/http.Header).Get", func(g *ssa.Call) bool {
				recv, ga := callArgs(&g.Call)
				k, _ := constString(ga[0])
				okR, _ := allOrigins(recv, oCall(-1, "(rt.ClientRequest).GetHeaderParams"))
				return k == serverHdr && okR
			})), "", true)
			// a nil header map holds no Authorization either
			noMap := factNil(vOrigins(oCall(-1, "(rt.ClientRequest).GetHeaderParams")), true)
			c.obI("R14.6", d, "default-only-without-authorization-header", guardedBy(d, nil, anyFact(noHdr, noMap)), "the default credential is applied only when no Authorization header is already set", "")
			recv, _ := callArgs(d.Common())
			c.obI("R14.6", d, "applies-the-default", vFieldLoadO(runtimeT, "DefaultAuthentication")(recv), "what is applied is the transport's default credential", "")
			// the wrapper applies nothing else
			n := 0
			for _, ci := range allCalls(a) {
				if calleeName(ci.Common()) == "(rt.ClientAuthInfoWriter).AuthenticateRequest" {
					n++
				}
			}
			c.obI("R14.6", d, "wrapper-applies-one-credential", n == 1, "the wrapper applies exactly one credential", "")
		}
	}
	c.min("R14.6", 4)
	// the caller's ClientOperation is read, never written: installing the default credential (or anything else) INTO it
	// would make the operation carry that credential to later submissions and to other transports
	sub := p.Fn("(*rt/client.Runtime).Submit")
	for _, root := range []*ssa.Function{sub, ch} {
		for _, in := range instrs(root) {
			st, ok := in.(*ssa.Store)
			if !ok {
				continue
			}
			fa, isFA := st.Addr.(*ssa.FieldAddr)
			if !isFA {
				continue
			}
			if n, _ := structOf(fa.X.Type()); n != nil && typeFullName(n) == "rt.ClientOperation" {
				if _, isAl := fa.X.(*ssa.Alloc); isAl {
					continue // an operation value built locally
				}
				c.obD("R14.6", st, "callers-operation-not-written", false, "Submit and createHttpRequest never assign a field of the caller's ClientOperation", "a field of the operation is written in "+fnName(st.Parent()))
			}
		}
	}
	// once built (and authenticated) the outgoing request's headers are sent as they are: Submit — debug dump included —
	// never writes into the value slices of its header map
	for _, in := range instrs(sub) {
		st, ok := in.(*ssa.Store)
		if !ok {
			continue
		}
		switch ad := st.Addr.(type) {
		case *ssa.IndexAddr:
			if typeStr(ad.X.Type()) != "[]string" {
				continue
			}
			fromHeader, _ := allOrigins(ad.X, func(o Origin) bool {
				lk, isLk := o.V.(*ssa.Lookup)
				if !isLk {
					if ex, isEx := o.V.(*ssa.Extract); isEx {
						_, isNext := ex.Tuple.(*ssa.Next)
						return isNext // a value slice ranged out of a header map
					}
					return false
				}
				t := typeStr(lk.X.Type())
				return t == "net/http.Header" || t == "map[string][]string"
			})
			if fromHeader {
				c.obD("R14.5", st, "sent-headers-untouched", false, "Submit never writes into the value slices of a header map (they are shared with the request that is sent)", "a header value is overwritten in "+fnName(st.Parent()))
			}
		}
	}
}

func siblingGetters(outer *ssa.Function) []*ssa.Function {
	var out []*ssa.Function
	for _, a := range anonFuncsDeep(outer) { // (also the getters built by a helper the constructor calls)
		if a.Signature.Results().Len() == 1 {
			out = append(out, a)
		}
	}
	return out
}

func onlyClosure(f *ssa.Function) *ssa.Function {
	if len(f.AnonFuncs) != 1 {
		fatalf("anchor: %s should contain exactly one function literal", f)
	}
	return f.AnonFuncs[0]
}

func isFreeVarNamed(v ssa.Value, name string) bool {
	fv, ok := v.(*ssa.FreeVar)
	return ok && fv.Name() == name
}

// concatLiteralN returns the concatenation of the constant parts of a string concatenation with exactly two
// non-constant operands (user + ":" + password).
func concatLiteralN(v ssa.Value) (string, int) {
	lit := ""
	n := 0
	var walk func(x ssa.Value)
	walk = func(x ssa.Value) {
		if s, ok := constString(x); ok {
			lit += s
			return
		}
		if bo, ok := x.(*ssa.BinOp); ok && bo.Op.String() == "+" {
			walk(bo.X)
			walk(bo.Y)
			return
		}
		n++
	}
	walk(v)
	return lit, n
}

// ruleQuerySnapshotAfterAuth (shared by C10 and C14): parameters the auth writer puts into the query are caller-set
// parameters, so whatever reads "the caller's parameters" for the static-parameter merge runs after the auth writer.
func ruleQuerySnapshotAfterAuth(c *Ctx, rule string) {
	p := c.P
	// a key written to the query by the auth writer is a client-set parameter: the snapshot of client-set parameters
	// that wins over static query parameters of the base path is taken after the auth writer ran
	bh := p.Fn("(*rt/client.request).buildHTTP")
	var authCalls []ssa.Instruction
	for _, ci := range allCalls(bh) {
		if ci.Common().IsInvoke() && ci.Common().Method.Name() == "AuthenticateRequest" {
			authCalls = append(authCalls, ci)
		}
	}
	// the read of the client-set query parameters: the GetQueryParams snapshot or a direct presence test on r.query
	var snaps []ssa.Instruction
	for _, ci := range callsIn(bh, "(*rt/client.request).GetQueryParams") {
		snaps = append(snaps, ci)
	}
	for _, in := range instrs(bh) {
		if lk, ok := in.(*ssa.Lookup); ok && lk.CommaOk && (vFieldLoad("rt/client.request", "query", nil)(lk.X) || vFieldLoadO("rt/client.request", "query")(lk.X)) {
			snaps = append(snaps, lk)
		}
	}
	c.obRF(rule, bh, "auth-writer-and-snapshot", len(authCalls) >= 1 && len(snaps) >= 1, "buildHTTP runs the auth writer and snapshots the client-set query parameters", fmt.Sprintf("%d auth writer calls, %d snapshots", len(authCalls), len(snaps)))
	for _, sn := range snaps {
		late := true
		for _, a := range authCalls {
			if pathExists(bh, sn, a, nil, nil) {
				late = false
			}
		}
		c.obI(rule, sn, "query-snapshot-after-auth-writer", late, "the client-set query parameters that take precedence over static ones are read after the auth writer ran (an API key written to the query is transmitted as written, whatever the base path carries)", "the auth writer can run after the snapshot: a static query parameter of the same name then replaces the credential")
	}
}

// isOuterParam: v (inside a function literal) is the constructor's parameter #idx, captured by the literal —
// whatever the parameter is called.
func isOuterParam(v ssa.Value, outer *ssa.Function, idx int) bool {
	if idx >= len(outer.Params) {
		return false
	}
	ok, _ := allOrigins(v, oIsValue(outer.Params[idx]))
	return ok
}

// resolve1 follows a value to its single origin (through captured variables, locals and conversions); a value with
// several origins is returned as it is.
func resolve1(v ssa.Value) ssa.Value {
	os := originsOf(v)
	if len(os) == 1 && os[0].Index < 0 {
		return os[0].V
	}
	return v
}

// ruleRequiredScopesPerScheme: the scopes handed to an authenticator (and by it to the application's callback) are the
// ones the operation requires for THAT scheme: RouteAuthenticator.Authenticate fills ScopedAuthRequest.RequiredScopes
// from ra.Scopes[scheme] — not from the union or the intersection over the requirement's schemes.
func ruleRequiredScopesPerScheme(c *Ctx, rule string) {
	f := c.P.Fn("(*rt/middleware.RouteAuthenticator).Authenticate")
	n := 0
	for _, st := range fieldStores(f, "rt/security.ScopedAuthRequest", "RequiredScopes") {
		n++
		ok := false
		if l, isL := st.Val.(*ssa.Lookup); isL {
			_, ok = fieldLoad(l.X, routeAuthT, "Scopes")
		}
		why := "value " + describe(st.Val)
		if !ok {
			_, bad := allOrigins(st.Val, func(Origin) bool { return false })
			why += ": origin " + describeOrigin(bad)
		}
		c.obI(rule, st, "required-scopes-of-the-same-scheme", ok, "the callback is given the scopes the operation requires for the scheme being checked (ra.Scopes[scheme])", why)
	}
	c.obRF(rule, f, "hands-over-required-scopes", n >= 1, "Authenticate hands the required scopes to the authenticator", "")
}

func vs2names(vs interface{}) []string {
	return []string{"rt/security.BasicAuthRealm", "rt/security.BasicAuthRealmCtx", "rt/security.APIKeyAuth", "rt/security.APIKeyAuthCtx", "rt/security.BearerAuth", "rt/security.BearerAuthCtx"}
}

// delegatesToSibling: the constructor returns what a sibling constructor of the same family returns, handing it its
// own configuration parameters unchanged and, as the callback, a function literal that calls the constructor's own
// callback with the credential it is given and hands back that callback's principal and error unchanged. The
// credential reading, the 'not applicable' answer and the principal provenance are then the sibling's.
func delegatesToSibling(c *Ctx, outer *ssa.Function, family []string) (string, bool) {
	var del *ssa.Call
	sib := ""
	for _, ci := range allCallsShallow(outer) {
		call, ok := ci.(*ssa.Call)
		if !ok || call.Parent() != outer {
			continue
		}
		n := calleeName(&call.Call)
		for _, fam := range family {
			if n == fam && fam != fnName(outer) {
				del, sib = call, fam
			}
		}
	}
	if del == nil {
		return "", false
	}
	for _, r := range realReturns(outer) {
		if ok, _ := allOrigins(r.Results[0], oIsValue(del)); !ok {
			return "", false
		}
	}
	// configuration passes through; the last argument is the adapter
	okCfg := true
	var adapter *ssa.Function
	for i, a := range del.Call.Args {
		for k := 0; k < 3; k++ {
			switch x := a.(type) {
			case *ssa.ChangeType:
				a = x.X
			case *ssa.MakeInterface:
				a = x.X
			}
		}
		if fnv, isFn := a.(*ssa.Function); isFn && fnv.Parent() == outer {
			adapter = fnv // a literal that captures nothing
			continue
		}
		if mc, isMC := a.(*ssa.MakeClosure); isMC {
			adapter, _ = mc.Fn.(*ssa.Function)
			continue
		}
		if i < len(outer.Params) {
			if okA, _ := allOrigins(a, oIsValue(outer.Params[i])); !okA {
				okCfg = false
			}
		}
	}
	c.obI("R14.4", del, "delegation-passes-configuration", okCfg, "a variant that delegates to its sibling hands its configuration (realm / name / location) on unchanged", "")
	okAd := false
	if adapter != nil {
		if cb := callbackCall(adapter); cb != nil {
			okAd = true
			// the credential handed to the application's callback is the one the adapter received
			for _, a := range cb.Call.Args {
				if okP, _ := allOrigins(a, func(o Origin) bool { prm, isP := o.V.(*ssa.Parameter); return isP && prm.Parent() == adapter }); !okP {
					okAd = false
				}
			}
			// principal and error come back unchanged
			for _, r := range realReturns(adapter) {
				n := len(r.Results)
				if n < 2 {
					okAd = false
					continue
				}
				okPr, _ := allOrigins(r.Results[n-2], oIsValue(resultOf(cb, 0)))
				okEr, _ := allOrigins(r.Results[n-1], oIsValue(resultOf(cb, 1)))
				if !okPr || !okEr {
					okAd = false
				}
			}
		}
	}
	c.obI("R14.1", del, "delegation-adapter-is-transparent", okAd, "the adapter callback passes the credential to the application's callback and returns its principal and error unchanged", "the adapter between the variants alters the credential, the principal or the error")
	return sib, true
}

// ruleBearerCallbackGetsScopes: the application's token callback is handed the operation's required scopes themselves
// (ScopedAuthRequest.RequiredScopes) — the value the route builder prepared for this scheme, not a copy that may come
// out empty, a subset or another list. Shared by C02 (scopes decide admission) and C14.
func ruleBearerCallbackGetsScopes(c *Ctx, rule string) {
	n := 0
	for _, outer := range []string{"rt/security.BearerAuth", "rt/security.BearerAuthCtx"} {
		of := c.P.Fn(outer)
		for _, fn := range withClosures(of) {
			for _, ci := range allCalls(fn) {
				cc := ci.Common()
				if cc.IsInvoke() || cc.StaticCallee() != nil {
					continue
				}
				// a call of the captured authenticate function
				isCb, _ := allOrigins(cc.Value, func(o Origin) bool {
					prm, isP := o.V.(*ssa.Parameter)
					return isP && prm.Parent() == of
				})
				if !isCb {
					continue
				}
				for _, a := range cc.Args {
					if typeStr(a.Type()) != "[]string" {
						continue
					}
					n++
					c.obI(rule, ci, "token-callback-gets-the-required-scopes", vFieldLoadO("rt/security.ScopedAuthRequest", "RequiredScopes")(a), "the token callback receives ScopedAuthRequest.RequiredScopes itself — the scopes the operation requires from this scheme", "scopes argument "+describe(a))
				}
			}
		}
	}
	c.obR(rule, "-", "token-callbacks", "-", n >= 2, "both bearer variants hand the required scopes to the callback", fmt.Sprintf("%d", n))
}

// ruleAdaptersAlwaysAskTheScheme: the two adapters every authenticator is wrapped in (HttpAuthenticator,
// ScopedAuthenticator) hand the request to the scheme whenever the parameter they are given IS a request of a kind they
// know — "not applicable" is their own answer only for a parameter of another type, never on grounds of what the
// request asks for (scopes listed, a method, a header).
func ruleAdaptersAlwaysAskTheScheme(c *Ctx, rule string) {
	p := c.P
	for _, outerName := range []string{"rt/security.HttpAuthenticator", "rt/security.ScopedAuthenticator"} {
		outer := p.FnOpt(outerName)
		if outer == nil {
			continue
		}
		f := codecFuncOf(outer, 1, 3)
		if f == nil {
			c.obR(rule, outerName, "adapter-closure", "", false, "the adapter returns an authenticator function", "no func(interface{}) (bool, interface{}, error) literal found")
			continue
		}
		isHandlerCall := func(in ssa.Instruction) bool {
			call, ok := in.(*ssa.Call)
			if !ok || call.Call.IsInvoke() {
				return false
			}
			okH, _ := allOrigins(call.Call.Value, oIsValue(outer.Params[0]))
			return okH
		}
		n := 0
		for _, in := range instrs(f) {
			ta, ok := in.(*ssa.TypeAssert)
			if !ok || !ta.CommaOk || in.Parent() != f {
				continue
			}
			okV := extractOf(ta, 1)
			if okV == nil {
				continue
			}
			n++
			lost := false
			for _, r := range realReturns(f) {
				if pathExists(f, ta, r, factBool(vIs(okV), false), isHandlerCall) {
					lost = true
				}
			}
			c.obI(rule, ta, "recognised-request-always-reaches-the-scheme", !lost, "once the adapter has recognised its parameter as a request ("+typeStr(ta.AssertedType)+") it calls the wrapped scheme: whether credentials apply is the scheme's answer", "a return is reachable for a recognised request without the scheme having been asked (e.g. only when no scopes are listed): the authenticator reports 'not applicable' for a request that carries its credential")
		}
		c.obRF(rule, f, "adapter-recognises-requests", n >= 1, "the adapter tests the type of its parameter", "")
	}
}

// ruleBasicAlwaysAsksCallback (shared by C02 and C14): whenever the request carries Basic credentials (r.BasicAuth()
// reports ok) the application's callback is asked — the scheme does not judge the credentials itself (an empty user
// name, a short password …): "not applicable" is its answer only when there are no Basic credentials at all, so a
// rejected credential is a rejection (its error is what the client sees, and no anonymous alternative is taken).
func ruleBasicAlwaysAsksCallback(c *Ctx, rule string) {
	p := c.P
	for _, outerName := range []string{"rt/security.BasicAuthRealm", "rt/security.BasicAuthRealmCtx"} {
		outer := p.FnOpt(outerName)
		if outer == nil {
			continue
		}
		for _, f := range anonFuncsDeep(outer) {
			for _, bi := range callsIn(f, "(*net/http.Request).BasicAuth") {
				ba, ok := bi.(*ssa.Call)
				if !ok || ba.Parent() != f {
					continue
				}
				okV := resultOf(ba, 2)
				if okV == nil {
					continue
				}
				isCallback := func(in ssa.Instruction) bool {
					call, isCall := in.(*ssa.Call)
					if !isCall || call.Call.IsInvoke() {
						return false
					}
					okCb, _ := allOrigins(call.Call.Value, oIsValue(outer.Params[len(outer.Params)-1]))
					return okCb
				}
				lost := false
				for _, r := range realReturns(f) {
					if pathExists(f, ba, r, factBool(vIs(okV), false), isCallback) {
						lost = true
					}
				}
				c.obI(rule, ba, "presented-basic-credentials-reach-the-callback", !lost, "once r.BasicAuth() found credentials the application callback is asked about them, whatever they look like", "a return is reachable with Basic credentials present and the callback not asked (e.g. for an empty user name): rejected credentials count as 'no credentials'")
			}
		}
	}
}
