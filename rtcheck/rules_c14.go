package main

import (
	"fmt"
	"go/types"
	"net/http"
	"strings"

	"golang.org/x/tools/go/ssa"
)

func init() {
	register(&Property{
		ID: "C14",
		Explanation: "Decides in security/authenticator.go, client/auth_info.go and client/runtime.go: R14.1 the principal an authenticator returns is the application callback's (or nil), the error is the callback's, and the callback receives exactly r.BasicAuth()'s user and password, resp. the extracted token and the operation's required scopes; R14.2 'not applicable' (false, nil, nil) is returned exactly on the no-credential edge (ok == false / token == \"\") and every other exit applies; " +
			"R14.3 bearer precedence: the Authorization header (prefix constant \"Bearer \") is read first, the access_token query parameter only when no token was found, the form body only when still none and only for the two form media types — the form read can never pre-empt the query read; R14.4 the context-aware and plain variants agree on the sequence of credential reads and constants; " +
			"R14.5 the client writers use the same header constant as the server reads, base64.StdEncoding for user:password (what net/http's BasicAuth decodes), the \"Bearer \" prefix, and the given key name/location; R14.6 the transport-wide default credential is wrapped in only when the operation has no AuthInfo, and applied only when no Authorization header is set. " +
			"R14.5 also: the snapshot of client-set query parameters in buildHTTP is taken after the auth writer ran. " +
			"NOT decided: string round-trip equality of the encodings (net/http, encoding/base64).",
		Run: runC14,
	})
}

func authClosure(p *Prog, outer string) *ssa.Function {
	f := p.Fn(outer)
	var best *ssa.Function
	for _, a := range literalsOrBoundMethods(f, func(s *types.Signature) bool { return s.Results().Len() == 3 }) {
		best = a
	}
	if best == nil {
		fatalf("anchor: %s has no authenticator closure", outer)
	}
	return best
}

// callbackCall finds the call of the captured application callback: a dynamic call whose function value is a
// func-typed parameter of the constructor the closure was made in (whatever that parameter is called).
func callbackCall(f *ssa.Function) *ssa.Call {
	outer := f.Parent()
	for outer != nil && outer.Parent() != nil {
		outer = outer.Parent()
	}
	isCallbackParam := func(o Origin) bool {
		prm, ok := o.V.(*ssa.Parameter)
		if !ok || prm.Parent() == f || (outer != nil && prm.Parent() != outer) {
			return false
		}
		_, isSig := prm.Type().Underlying().(*types.Signature)
		return isSig
	}
	for _, in := range instrs(f) {
		call, ok := in.(*ssa.Call)
		if !ok || call.Call.IsInvoke() {
			continue
		}
		if _, isFn := call.Call.Value.(*ssa.Function); isFn {
			continue
		}
		if _, isB := call.Call.Value.(*ssa.Builtin); isB {
			continue
		}
		if okc, _ := allOrigins(call.Call.Value, isCallbackParam); okc {
			return call
		}
	}
	return nil
}

func runC14(c *Ctx) {
	p := c.P
	type variant struct {
		outer string
		ctx   bool
		kind  string
	}
	vs := []variant{
		{"rt/security.BasicAuthRealm", false, "basic"}, {"rt/security.BasicAuthRealmCtx", true, "basic"},
		{"rt/security.APIKeyAuth", false, "key"}, {"rt/security.APIKeyAuthCtx", true, "key"},
		{"rt/security.BearerAuth", false, "bearer"}, {"rt/security.BearerAuthCtx", true, "bearer"},
	}
	events := map[string][]string{}
	for _, v := range vs {
		f := authClosure(p, v.outer)
		cb := callbackCall(f)
		c.obRF("R14.1", f, "calls-callback", cb != nil, "the authenticator consults the application's callback", "")
		if cb == nil {
			continue
		}
		pIdx, eIdx, off := 0, 1, 0
		if v.ctx {
			pIdx, eIdx, off = 1, 2, 1
		}
		princ, cerr := resultOf(cb, pIdx), resultOf(cb, eIdx)
		// credential source
		var noCred EdgePred
		var credOK bool
		switch v.kind {
		case "basic":
			bas := callsIn(f, "(*net/http.Request).BasicAuth")
			credOK = len(bas) == 1
			if credOK {
				ba := bas[0].(*ssa.Call)
				okU, _ := allOrigins(cb.Call.Args[off], oIsValue(resultOf(ba, 0)))
				okP, _ := allOrigins(cb.Call.Args[off+1], oIsValue(resultOf(ba, 1)))
				okR, _ := allOrigins(ba.Call.Args[0], oIsValue(paramOfType(f, "*net/http.Request")))
				credOK = okU && okP && okR
				noCred = factBool(vIs(resultOf(ba, 2)), false)
				c.obI("R14.1", cb, "callback-needs-credentials", guardedBy(cb, ba, factBool(vIs(resultOf(ba, 2)), true)), "the callback is consulted only when basic credentials are present", "")
			}
			c.obI("R14.1", cb, "callback-gets-transmitted-credentials", credOK, "the callback receives exactly the user and password r.BasicAuth() decoded", "")
		case "key":
			tok := cb.Call.Args[off]
			isGetter := func(o Origin) bool {
				call := asCall(o.V)
				if call == nil || call.Call.IsInvoke() {
					return false
				}
				// getToken(r): a call of the local func value
				return len(call.Call.Args) == 1 && call.Call.Args[0] == ssa.Value(f.Params[0]) && calleeName(&call.Call) == ""
			}
			credOK, _ = allOrigins(tok, isGetter)
			c.obI("R14.1", cb, "callback-gets-transmitted-credentials", credOK, "the callback receives exactly the token extracted from the request", "")
			noCred = factEqString(vOrigins(isGetter), "", true)
			// the getters read the configured name from the configured location
			outer := p.Fn(v.outer)
			nHdr, nQry := 0, 0
			// (the getters may live in a helper shared by the plain and the Ctx constructor: the name is then the name
			// parameter of either constructor)
			isName := func(v ssa.Value) bool {
				ok, _ := allOrigins(v, func(o Origin) bool {
					for _, n := range []string{"rt/security.APIKeyAuth", "rt/security.APIKeyAuthCtx"} {
						if o.V == ssa.Value(p.Fn(n).Params[0]) {
							return true
						}
					}
					return false
				})
				return ok
			}
			for _, a := range anonFuncsDeep(outer) {
				if a.Signature.Results().Len() != 1 {
					continue
				}
				for _, g := range callsIn(a, "(net/http.Header).Get") {
					_, ga := callArgs(g.Common())
					if isName(ga[0]) {
						nHdr++
					}
				}
				for _, g := range callsIn(a, "(net/url.Values).Get") {
					recv, ga := callArgs(g.Common())
					okQ, _ := allOrigins(recv, oCall(-1, "(*net/url.URL).Query"))
					if okQ && isName(ga[0]) {
						nQry++
					}
				}
			}
			// a header key is read through Header.Get (which canonicalises the configured name), never by indexing the map
			for _, a := range anonFuncsDeep(outer) {
				for _, in := range instrs(a) {
					if lk, ok := in.(*ssa.Lookup); ok && typeStr(lk.X.Type()) == "net/http.Header" {
						k, isK := constString(lk.Index)
						c.obD("R14.1", lk, "header-key-read-canonically", isK && http.CanonicalHeaderKey(k) == k, "an API key in a header is read with Header.Get(name): the configured name is matched case-insensitively, as the client's header is canonicalised in transit", "the header map is indexed directly with the configured name")
					}
				}
			}
			c.obRF("R14.1", outer, "key-read-by-name-from-location", nHdr == 1 && nQry == 1, "an API key is read under its configured name from the header or from the query", fmt.Sprintf("header getters %d, query getters %d", nHdr, nQry))
		case "bearer":
			tok := cb.Call.Args[off]
			hdrs := callsIn(f, "(net/http.Header).Get")
			qrys := callsIn(f, "(net/url.Values).Get")
			frms := callsIn(f, "(*net/http.Request).FormValue")
			okShape := len(hdrs) == 1 && len(qrys) == 1 && len(frms) == 1
			c.obF("R14.3", f, "three-sources", okShape, "a bearer token is looked for in the Authorization header, the access_token query parameter and the form body", fmt.Sprintf("%d/%d/%d", len(hdrs), len(qrys), len(frms)))
			if okShape {
				h, q, fm := hdrs[0].(*ssa.Call), qrys[0].(*ssa.Call), frms[0].(*ssa.Call)
				_, ha := callArgs(&h.Call)
				hk, _ := constString(ha[0])
				okH := hk == "Authorization"
				okPrefix := false
				for _, tp := range callsIn(f, "strings.TrimPrefix") {
					s, _ := constString(tp.Common().Args[1])
					if s == "Bearer " && tp.Common().Args[0] == ssa.Value(h) {
						okPrefix = true
						hp := false
						for _, hpc := range callsIn(f, "strings.HasPrefix") {
							s2, _ := constString(hpc.Common().Args[1])
							if s2 == "Bearer " && hpc.Common().Args[0] == ssa.Value(h) && guardedBy(tp, nil, factBool(vIs(hpc.Value()), true)) {
								hp = true
							}
						}
						okPrefix = hp
					}
				}
				// strings.CutPrefix(hdr, "Bearer "): the remainder is taken as the token only when the prefix was found
				for _, cpi := range callsIn(f, "strings.CutPrefix") {
					cp := cpi.(*ssa.Call)
					s, _ := constString(cp.Call.Args[1])
					if s != "Bearer " || cp.Call.Args[0] != ssa.Value(h) {
						continue
					}
					rest, found := resultOf(cp, 0), resultOf(cp, 1)
					if rest == nil || found == nil {
						continue
					}
					uses, okUses := 0, true
					for _, in := range instrs(f) {
						phi, isPhi := in.(*ssa.Phi)
						if !isPhi {
							continue
						}
						for i, e := range phi.Edges {
							if e != rest {
								continue
							}
							uses++
							if !edgeGuarded(phi.Block().Preds[i], phi.Block(), nil, factBool(vIs(found), true)) {
								okUses = false
							}
						}
					}
					okPrefix = uses > 0 && okUses
				}
				c.obI("R14.3", h, "header-first-with-bearer-prefix", okH && okPrefix && dominates(h, q) && dominates(h, fm), "the Authorization header is read first and a token is taken from it only behind the \"Bearer \" prefix", "")
				_, qa := callArgs(&q.Call)
				qk, _ := constString(qa[0])
				isTokenEmpty := factEqString(func(v ssa.Value) bool {
					ok, _ := allOrigins(v, oConstString(""), oCall(-1, "strings.TrimPrefix"), oCall(0, "strings.CutPrefix"), oCall(-1, "(net/url.Values).Get"), oCall(-1, "(*net/http.Request).FormValue"))
					return ok
				}, "", true)
				c.obI("R14.3", q, "query-only-without-header-token", qk == "access_token" && guardedBy(q, h, isTokenEmpty), "the access_token query parameter is read only when the header gave no token", "")
				fk, _ := constString(fm.Call.Args[1])
				isForm := func(cond ssa.Value, branch bool) bool {
					ct := vOrigins(oCall(0, "rt.ContentType"))
					return factEqString(ct, "application/x-www-form-urlencoded", true)(cond, branch) || factEqString(ct, "multipart/form-data", true)(cond, branch)
				}
				c.obI("R14.3", fm, "form-only-for-form-media-types", fk == "access_token" && guardedBy(fm, nil, isForm) && guardedBy(fm, h, isTokenEmpty), "the form body is consulted only for the two form media types and only when no token was found before", "")
				// the token tested right before the form read: every way it can be empty has gone through the query read
				okPre, whyPre := false, "no `token == \"\"` test on a merged token value guards the form read"
				for _, in := range instrs(f) {
					phi, isPhi := in.(*ssa.Phi)
					if !isPhi || !pathExists(f, phi, fm, nil, nil) || !guardedBy(fm, phi, factEqString(vIs(phi), "", true)) {
						continue
					}
					okPre, whyPre = true, ""
					for i, e := range phi.Edges {
						viaQuery, _ := allOrigins(e, oIsValue(q))
						if viaQuery {
							continue
						}
						// this way of reaching the test skipped the query: it must carry a non-empty token
						if !edgeGuarded(phi.Block().Preds[i], phi.Block(), nil, factEqString(vIs(e), "", false)) {
							okPre, whyPre = false, "the form body can be read although the query parameter was not tried (FormValue would then let the body pre-empt the query)"
						}
					}
				}
				c.obI("R14.3", fm, "form-never-pre-empts-query", okPre,
					"every way of reaching the form read with an empty token has tried the query parameter first (FormValue merges query and body, body first: reading it alone would invert the precedence)", whyPre)
				okT, bad := allOrigins(tok, oConstString(""), oIsValue(h), oCall(-1, "strings.TrimPrefix"), oCall(0, "strings.CutPrefix"), oIsValue(q), oIsValue(fm))
				c.obI("R14.1", cb, "callback-gets-transmitted-credentials", okT, "the callback receives exactly the token found", "origin "+describeOrigin(bad))
				okS := vFieldLoadO("rt/security.ScopedAuthRequest", "RequiredScopes")(cb.Call.Args[off+1])
				c.obI("R14.1", cb, "callback-gets-required-scopes", okS, "the callback receives the operation's required scopes", "")
				noCred = factEqString(func(v ssa.Value) bool { return v == tok }, "", true)
			}
		}
		// R14.1 / R14.2 returns
		for _, r := range realReturns(f) {
			r0 := resOf(r, 0)
			if b, ok := constBool(r0); ok && !b {
				g := noCred != nil && guardedBy(r, nil, noCred)
				c.obI("R14.2", r, "not-applicable-only-without-credential", g && isNilConst(resOf(r, 1)) && isNilConst(resOf(r, 2)), "(false, nil, nil) is returned exactly when the request carries no such credential", "")
				continue
			}
			b, ok := constBool(r0)
			c.obI("R14.2", r, "applies-otherwise", ok && b, "every other exit reports applies == true", "")
			okP, bad := allOrigins(resOf(r, 1), oNil(), oIsValue(princ))
			c.obI("R14.1", r, "principal-is-callbacks", okP && princ != nil, "the principal returned is the application callback's — never the credential itself or another value", "origin "+describeOrigin(bad))
			okE, _ := allOrigins(resOf(r, 2), oNil(), oIsValue(cerr))
			c.obI("R14.1", r, "error-is-callbacks", okE, "the error returned is the callback's", "")
			if noCred != nil {
				c.obI("R14.2", r, "applies-only-with-credential", guardedBy(r, nil, negate(noCred)), "an applying exit is reached only when a credential was found", "")
			}
		}
		// event sequence for sibling agreement
		var ev []string
		for _, fn := range append([]*ssa.Function{f}, siblingGetters(p.Fn(v.outer))...) {
			for _, ci := range allCalls(fn) {
				n := calleeName(ci.Common())
				switch n {
				case "(*net/http.Request).BasicAuth", "(net/http.Header).Get", "(*net/url.URL).Query", "(net/url.Values).Get", "(*net/http.Request).FormValue", "rt.ContentType", "strings.HasPrefix", "strings.TrimPrefix":
					s := n
					for _, a := range ci.Common().Args {
						if k, ok := constString(a); ok {
							s += " " + k
						}
					}
					ev = append(ev, s)
				}
			}
			for _, in := range instrs(fn) {
				if bo, ok := in.(*ssa.BinOp); ok {
					if k, isC := constString(bo.Y); isC && k != "" {
						ev = append(ev, "cmp "+k)
					}
				}
			}
		}
		events[v.outer] = ev
	}
	for i := 0; i+1 < len(vs); i += 2 {
		a, b := events[vs[i].outer], events[vs[i+1].outer]
		c.ob("R14.4", vs[i].outer, "sibling-agreement", "-", strings.Join(a, ";") == strings.Join(b, ";") && len(a) > 0,
			"the plain and the context-aware variant read the same credential sources with the same constants in the same order", fmt.Sprintf("plain: %v\nctx: %v", a, b))
	}
	c.min("R14.1", 18)
	c.min("R14.2", 12)
	c.min("R14.3", 8)

	// R14.5 client writers
	serverHdr := "Authorization"
	ba := onlyClosure(p.Fn("rt/client.BasicAuth"))
	for _, sh := range callsIn(ba, "(rt.ClientRequest).SetHeaderParam") {
		_, a := callArgs(sh.Common())
		k, _ := constString(a[0])
		elems, _ := sliceLitElems(a[1])
		okV := false
		if len(elems) == 1 {
			// (the header value may be computed once in the constructor and captured)
			if bo, ok := resolve1(elems[0]).(*ssa.BinOp); ok {
				pre, _ := constString(bo.X)
				enc := asCall(resolve1(bo.Y))
				if pre == "Basic " && enc != nil && calleeName(&enc.Call) == "(*encoding/base64.Encoding).EncodeToString" {
					recv, ea := callArgs(&enc.Call)
					isStd := false
					if ad, okk := derefLoad(recv); okk {
						if g, isG := ad.(*ssa.Global); isG {
							isStd = short(g.String()) == "encoding/base64.StdEncoding"
						}
					}
					// []byte(username + ":" + password)
					okCred := false
					if cv, isCv := ea[0].(*ssa.Convert); isCv {
						lit, _ := concatLiteralN(cv.X)
						okCred = lit == ":"
					}
					okV = isStd && okCred
				}
			}
		}
		c.obI("R14.5", sh, "basic-writer", k == serverHdr && okV, "BasicAuth writes \"Basic \" + base64.StdEncoding(user + \":\" + password) to the Authorization header — the encoding net/http's Request.BasicAuth decodes", "")
	}
	bt := onlyClosure(p.Fn("rt/client.BearerToken"))
	for _, sh := range callsIn(bt, "(rt.ClientRequest).SetHeaderParam") {
		_, a := callArgs(sh.Common())
		k, _ := constString(a[0])
		elems, _ := sliceLitElems(a[1])
		okV := false
		if len(elems) == 1 {
			if bo, ok := resolve1(elems[0]).(*ssa.BinOp); ok {
				pre, _ := constString(bo.X)
				okV = pre == "Bearer " && isOuterParam(bo.Y, p.Fn("rt/client.BearerToken"), 0)
			}
		}
		c.obI("R14.5", sh, "bearer-writer", k == serverHdr && okV, "BearerToken writes \"Bearer \" + token to the Authorization header (the prefix the server strips)", "")
	}
	ak := p.Fn("rt/client.APIKeyAuth")
	nQ, nH := 0, 0
	for _, a := range anonFuncsDeep(ak) {
		for _, kind := range []string{"(rt.ClientRequest).SetQueryParam", "(rt.ClientRequest).SetHeaderParam"} {
			for _, ci := range callsIn(a, kind) {
				_, ca := callArgs(ci.Common())
				elems, _ := sliceLitElems(ca[1])
				okW := isOuterParam(ca[0], ak, 0) && len(elems) == 1 && isOuterParam(elems[0], ak, 2)
				c.obI("R14.5", ci, "key-written-verbatim", okW, "the API key writer sets exactly the given value under the given name (no escaping or rewriting of the credential: the server compares what it receives with what was issued)", "the name or the value written is not the constructor's argument")
				if okW && strings.HasSuffix(kind, "SetQueryParam") {
					nQ++
				} else if okW {
					nH++
				}
			}
		}
	}
	c.obRF("R14.5", ak, "key-writer", nQ == 1 && nH == 1, "APIKeyAuth writes the value under the given name to the query or to the header", fmt.Sprintf("query writers %d, header writers %d", nQ, nH))
	// the header constant shared by both sides
	c.ob("R14.5", "rt", "shared-header-constant", "-", strings.Trim(p.ConstVal("rt", "HeaderAuthorization"), "\"") == serverHdr, "client and server use the same Authorization header constant", "")
	sh := p.Fn("(*rt/client.request).SetHeaderParam")
	okCanon := false
	for _, in := range instrs(sh) {
		if mu, ok := in.(*ssa.MapUpdate); ok {
			okCanon, _ = allOrigins(mu.Key, oCall(-1, "net/http.CanonicalHeaderKey"))
		}
	}
	c.obF("R14.5", sh, "header-writes-canonical", okCanon, "header parameters are written under their canonical name", "")
	ruleQuerySnapshotAfterAuth(c, "R14.5")
	c.min("R14.5", 7)

	// R14.6 default credential
	ch := p.Fn("(*rt/client.Runtime).createHttpRequest")
	for _, b := range callsIn(ch, "(*rt/client.request).buildHTTP") {
		_, a := callArgs(b.Common())
		auth := a[4]
		okA, bad := allOrigins(auth, oFieldLoad("rt.ClientOperation", "AuthInfo", nil), func(o Origin) bool { _, ok := o.V.(*ssa.MakeClosure); return ok })
		why := "origin " + describeOrigin(bad)
		if okA {
			if phi, isPhi := auth.(*ssa.Phi); isPhi {
				for i, e := range phi.Edges {
					if okC, _ := allOrigins(e, func(o Origin) bool { _, ok := o.V.(*ssa.MakeClosure); return ok }); okC {
						noOwn := factNil(vFieldLoadO("rt.ClientOperation", "AuthInfo"), true)
						hasDef := factNil(vFieldLoadO(runtimeT, "DefaultAuthentication"), false)
						if !edgeGuarded(phi.Block().Preds[i], phi.Block(), nil, noOwn) || !edgeGuarded(phi.Block().Preds[i], phi.Block(), nil, hasDef) {
							okA, why = false, "the default-credential wrapper can be installed although the operation has its own AuthInfo"
						}
					}
				}
			} else if _, isMC := unboxed(auth).(*ssa.MakeClosure); isMC {
				okA, why = false, "the default-credential wrapper is installed unconditionally"
			} else {
				// the choice was moved into a helper: the wrapper is created only under both conditions
				noOwn := factNil(vFieldLoadO("rt.ClientOperation", "AuthInfo"), true)
				hasDef := factNil(vFieldLoadO(runtimeT, "DefaultAuthentication"), false)
				for _, o := range originsOf(auth) {
					mc, isMC := o.V.(*ssa.MakeClosure)
					if !isMC {
						continue
					}
					if pathExistsUnder(ch, nil, mc, noOwn, nil) || pathExistsUnder(ch, nil, mc, hasDef, nil) {
						okA, why = false, "the default-credential wrapper can be created although the operation has its own AuthInfo (or without a default)"
					}
				}
			}
		}
		c.obI("R14.6", b, "default-only-without-own-auth", okA, "the transport-wide default credential is wrapped in only when the operation has no AuthInfo of its own (and a default exists)", why)
	}
	for _, a := range anonFuncsDeep(ch) {
		for _, d := range callsIn(a, "(rt.ClientAuthInfoWriter).AuthenticateRequest") {
			noHdr := factEqString(vOrigins(oConstString(""), oCallWhere(-1, "(net/http.Header).Get", func(g *ssa.Call) bool {
				recv, ga := callArgs(&g.Call)
				k, _ := constString(ga[0])
				okR, _ := allOrigins(recv, oCall(-1, "(rt.ClientRequest).GetHeaderParams"))
				return k == serverHdr && okR
			})), "", true)
			// a nil header map holds no Authorization either
			noMap := factNil(vOrigins(oCall(-1, "(rt.ClientRequest).GetHeaderParams")), true)
			c.obI("R14.6", d, "default-only-without-authorization-header", guardedBy(d, nil, anyFact(noHdr, noMap)), "the default credential is applied only when no Authorization header is already set", "")
			recv, _ := callArgs(d.Common())
			c.obI("R14.6", d, "applies-the-default", vFieldLoadO(runtimeT, "DefaultAuthentication")(recv), "what is applied is the transport's default credential", "")
			// the wrapper applies nothing else
			n := 0
			for _, ci := range allCalls(a) {
				if calleeName(ci.Common()) == "(rt.ClientAuthInfoWriter).AuthenticateRequest" {
					n++
				}
			}
			c.obI("R14.6", d, "wrapper-applies-one-credential", n == 1, "the wrapper applies exactly one credential", "")
		}
	}
	c.min("R14.6", 4)
}

func siblingGetters(outer *ssa.Function) []*ssa.Function {
	var out []*ssa.Function
	for _, a := range anonFuncsDeep(outer) { // (also the getters built by a helper the constructor calls)
		if a.Signature.Results().Len() == 1 {
			out = append(out, a)
		}
	}
	return out
}

func onlyClosure(f *ssa.Function) *ssa.Function {
	if len(f.AnonFuncs) != 1 {
		fatalf("anchor: %s should contain exactly one function literal", f)
	}
	return f.AnonFuncs[0]
}

func isFreeVarNamed(v ssa.Value, name string) bool {
	fv, ok := v.(*ssa.FreeVar)
	return ok && fv.Name() == name
}

// concatLiteralN returns the concatenation of the constant parts of a string concatenation with exactly two
// non-constant operands (user + ":" + password).
func concatLiteralN(v ssa.Value) (string, int) {
	lit := ""
	n := 0
	var walk func(x ssa.Value)
	walk = func(x ssa.Value) {
		if s, ok := constString(x); ok {
			lit += s
			return
		}
		if bo, ok := x.(*ssa.BinOp); ok && bo.Op.String() == "+" {
			walk(bo.X)
			walk(bo.Y)
			return
		}
		n++
	}
	walk(v)
	return lit, n
}

// ruleQuerySnapshotAfterAuth (shared by C10 and C14): parameters the auth writer puts into the query are caller-set
// parameters, so whatever reads "the caller's parameters" for the static-parameter merge runs after the auth writer.
func ruleQuerySnapshotAfterAuth(c *Ctx, rule string) {
	p := c.P
	// a key written to the query by the auth writer is a client-set parameter: the snapshot of client-set parameters
	// that wins over static query parameters of the base path is taken after the auth writer ran
	bh := p.Fn("(*rt/client.request).buildHTTP")
	var authCalls []ssa.Instruction
	for _, ci := range allCalls(bh) {
		if ci.Common().IsInvoke() && ci.Common().Method.Name() == "AuthenticateRequest" {
			authCalls = append(authCalls, ci)
		}
	}
	// the read of the client-set query parameters: the GetQueryParams snapshot or a direct presence test on r.query
	var snaps []ssa.Instruction
	for _, ci := range callsIn(bh, "(*rt/client.request).GetQueryParams") {
		snaps = append(snaps, ci)
	}
	for _, in := range instrs(bh) {
		if lk, ok := in.(*ssa.Lookup); ok && lk.CommaOk && (vFieldLoad("rt/client.request", "query", nil)(lk.X) || vFieldLoadO("rt/client.request", "query")(lk.X)) {
			snaps = append(snaps, lk)
		}
	}
	c.obRF(rule, bh, "auth-writer-and-snapshot", len(authCalls) >= 1 && len(snaps) >= 1, "buildHTTP runs the auth writer and snapshots the client-set query parameters", fmt.Sprintf("%d auth writer calls, %d snapshots", len(authCalls), len(snaps)))
	for _, sn := range snaps {
		late := true
		for _, a := range authCalls {
			if pathExists(bh, sn, a, nil, nil) {
				late = false
			}
		}
		c.obI(rule, sn, "query-snapshot-after-auth-writer", late, "the client-set query parameters that take precedence over static ones are read after the auth writer ran (an API key written to the query is transmitted as written, whatever the base path carries)", "the auth writer can run after the snapshot: a static query parameter of the same name then replaces the credential")
	}
}

// isOuterParam: v (inside a function literal) is the constructor's parameter #idx, captured by the literal —
// whatever the parameter is called.
func isOuterParam(v ssa.Value, outer *ssa.Function, idx int) bool {
	if idx >= len(outer.Params) {
		return false
	}
	ok, _ := allOrigins(v, oIsValue(outer.Params[idx]))
	return ok
}

// resolve1 follows a value to its single origin (through captured variables, locals and conversions); a value with
// several origins is returned as it is.
func resolve1(v ssa.Value) ssa.Value {
	os := originsOf(v)
	if len(os) == 1 && os[0].Index < 0 {
		return os[0].V
	}
	return v
}
