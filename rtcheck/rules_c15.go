package main

import (
	"fmt"
	"go/types"
	"os"
	"reflect"
	"strings"

	"golang.org/x/tools/go/ssa"
)

func init() {
	register(&Property{
		ID: "C15",
		Explanation: "Decides in the built-in codecs (byte stream, text, JSON, XML, YAML): R15.1 every read/write/marshal error reaches the closure's return (nothing is shortened to success; only the deferred closers' errors are discarded); " +
			"Round 12: R15.1 a producer's format string is a constant, and a later call's error is merged into the variable of an earlier one only behind err == nil; R15.2 producer and consumer of a pair test for the same encoding.* family. " +
			"R15.2 the stream's Close is taken only under the closing option and is deferred before any I/O, and a closable source payload gets its Close deferred before any I/O on it, whatever its other interfaces; R15.3 reflect validity typestate: a reflect.Value obtained by Indirect/Elem is used (Type, Set*, Bytes, Len …) only under IsValid() — a typed nil pointer is a non-nil interface, so `data != nil` does not discharge it; " +
			"R15.4 nil reader/writer/data are refused before use; R15.5 no aliasing: the bytes stored into a destination come from a buffer private to the call; R15.6 the JSON consumer preserves numbers (UseNumber) and the producer does not HTML-escape; the YAML encoder is closed. " +
			"R15.2 also: the text producer asks for encoding.TextMarshaler before any other interface of the value (sibling of the consumer's TextUnmarshaler-first). " +
			"R15.1 also: the only deferred calls whose error is ignored are closes; R15.2 also: every Close invoked on the stream itself sits behind the closing option. " +
			"R15.1 also: a consumer never reads a counted portion of its stream (CopyN, LimitReader, ReadFull), and the buffered bytes of the text / byte-stream consumers are not trimmed or rewritten before they are judged or stored. " +
			"R15.6 also: the stream of the JSON / XML consumers is read by their decoder only. " +
			"R15.2 also: the deferred function calls the closer on each of its paths. " +
			"NOT decided: round-trip equality and chunk-exactness themselves (encoding/json, xml, yaml, bytes, io are trusted).",
		Run: runC15,
	})
}

type codec struct {
	outer  string
	stream int // index of the reader/writer parameter
	data   int
}

var validityOps = map[string]bool{
	"(reflect.Value).Type": true, "(reflect.Value).SetString": true, "(reflect.Value).SetBytes": true, "(reflect.Value).Set": true,
	"(reflect.Value).Bytes": true, "(reflect.Value).Len": true, "(reflect.Value).Grow": true, "(reflect.Value).SetCap": true,
	"(reflect.Value).SetLen": true, "(reflect.Value).Index": true, "(reflect.Value).Elem": true, "(reflect.Value).Field": true,
	"(reflect.Value).Interface": true, "(reflect.Value).Int": true, "(reflect.Value).Float": true, "(reflect.Value).Bool": true,
	"(reflect.Value).NumField": true, "(reflect.Value).MapKeys": true, "(reflect.Value).Cap": true,
}

// ruleReflectValidity: R15.3 for one closure.
func ruleReflectValidity(c *Ctx, rule string, f *ssa.Function) int {
	n := 0
	for _, src := range callsIn(f, "reflect.Indirect", "(reflect.Value).Elem") {
		v := src.Value()
		if v == nil {
			continue
		}
		isV := func(x ssa.Value) bool {
			if x == v {
				return true
			}
			// (the value merged with the not-a-pointer case: `if v.Kind() == Ptr { v = v.Elem() }`)
			_, isPhi := x.(*ssa.Phi)
			return isPhi && someOrigin(x, oIsValue(v))
		}
		valid := factBool(func(x ssa.Value) bool {
			k := asCall(x)
			if k == nil || calleeName(&k.Call) != "(reflect.Value).IsValid" {
				return false
			}
			r, _ := callArgs(&k.Call)
			return isV(r)
		}, true)
		for _, ci := range allCalls(f) {
			name := calleeName(ci.Common())
			if !validityOps[name] {
				continue
			}
			recv, args := callArgs(ci.Common())
			uses := recv != nil && isV(recv)
			for _, a := range args {
				if isV(a) {
					uses = true
				}
			}
			if !uses {
				continue
			}
			n++
			c.obI(rule, ci, "valid-before-"+strings.TrimPrefix(name, "(reflect.Value)."), guardedBy(ci, src, valid),
				"a reflect.Value obtained through Indirect/Elem is used only under IsValid(): a typed nil pointer (a non-nil interface) yields the zero Value, on which "+strings.TrimPrefix(name, "(reflect.Value).")+" panics",
				"no IsValid() test between reflect.Indirect/Elem and this use: a typed nil pointer such as (*string)(nil) panics instead of yielding an error")
		}
	}
	return n
}

func runC15(c *Ctx) {
	p := c.P
	// the discarding codecs are black holes: they never touch the stream they are handed (a nil reader or writer is as
	// good as any — the other codecs refuse one with an error, these simply have no use for it)
	for _, gname := range []string{"DiscardConsumer", "DiscardProducer"} {
		var lit *ssa.Function
		if pkg := p.SSA.Package(p.TypesPkg("rt")); pkg != nil {
			if g, ok := pkg.Members[gname].(*ssa.Global); ok {
				if init := pkg.Func("init"); init != nil {
					for _, in := range instrs(init) {
						if st, isSt := in.(*ssa.Store); isSt && st.Addr == ssa.Value(g) {
							v := st.Val
							for {
								if ct, isCT := v.(*ssa.ChangeType); isCT {
									v = ct.X
									continue
								}
								break
							}
							if fn, isFn := v.(*ssa.Function); isFn {
								lit = fn
							}
							if mc, isMC := v.(*ssa.MakeClosure); isMC {
								lit, _ = mc.Fn.(*ssa.Function)
							}
						}
					}
				}
			}
		}
		if lit == nil || len(lit.Params) == 0 {
			c.obR("R15.4", "rt."+gname, "discard-codec-literal", "-", false, "the discarding codec is a function literal", "")
			continue
		}
		used := false
		if refs := lit.Params[0].Referrers(); refs != nil {
			for _, r := range *refs {
				if _, isDbg := r.(*ssa.DebugRef); !isDbg {
					used = true
				}
			}
		}
		c.obF("R15.4", lit, "discard-codec-ignores-its-stream", !used, "rt."+gname+" never uses the stream it is handed (so a nil one cannot make it panic)", "the stream parameter is used")
	}
	codecs := []codec{
		{"rt.ByteStreamConsumer", 0, 1}, {"rt.ByteStreamProducer", 0, 1},
		{"rt.TextConsumer", 0, 1}, {"rt.TextProducer", 0, 1},
		{"rt.JSONConsumer", 0, 1}, {"rt.JSONProducer", 0, 1},
		{"rt.XMLConsumer", 0, 1}, {"rt.XMLProducer", 0, 1},
		{"rt/yamlpc.YAMLConsumer", 0, 1}, {"rt/yamlpc.YAMLProducer", 0, 1},
	}
	nValid := 0
	var codecFns []*ssa.Function
	defer func() { checkBounds(c, "R15.3", codecFns, map[string]string{}) }()
	for _, cd := range codecs {
		outer := p.Fn(cd.outer)
		f := codecFuncOf(outer, 2, 1)
		if f == nil {
			fatalf("anchor: %s has no codec closure", cd.outer)
		}
		stream, data := f.Params[cd.stream], f.Params[cd.data]
		// R15.1
		checkErrorsReturned(c, "R15.1", f, 0, nil)
		checkErrorNotOverwritten(c, "R15.1", f, 0)
		// every return's error is nil, a fresh error, or a fallible call's error
		for _, r := range realReturns(f) {
			v := resOf(r, 0)
			ok := true
			for _, o := range originsOf(v) {
				if isNilConst(o.V) {
					continue
				}
				if call := asCall(o.V); call != nil {
					continue
				}
				if _, isExtract := o.V.(*ssa.Extract); isExtract {
					continue
				}
				ok = false
			}
			c.obI("R15.1", r, "returns-call-error", ok, "a codec returns nil, a constructed error or the error of the I/O call that failed", "")
		}
		// dropped errors of deferred calls: only a Close may be deferred with its error ignored — a deferred Flush (or
		// any other write) that fails would be reported as success
		for _, d := range defersIn(f) {
			if errorResultIndex(d.Call.Signature()) < 0 {
				continue
			}
			name := calleeName(&d.Call)
			isClose := d.Call.IsInvoke() && d.Call.Method.Name() == "Close" || strings.HasSuffix(name, ").Close") || name == ""
			c.obI("R15.1", d, "deferred-error-only-of-close", isClose, "the only deferred calls whose error a codec ignores are closes; every write (Flush included) has its error returned", "the error of deferred "+name+" is dropped: a failed write is reported as success")
		}
		// a deferred function that assigns the codec's (named) error result must not wipe out an earlier failure:
		// it assigns only when the result is still nil
		checkDeferredErrAssign(c, "R15.1", f)
		// R15.4 nil guards
		isIface := func(v *ssa.Parameter) bool {
			return strings.HasPrefix(typeStr(v.Type()), "io.") || typeStr(v.Type()) == "interface{}" || typeStr(v.Type()) == "any"
		}
		if strings.Contains(cd.outer, "ByteStream") || strings.Contains(cd.outer, "TextProducer") || strings.Contains(cd.outer, "TextConsumer") {
			for _, prm := range []*ssa.Parameter{stream, data} {
				if !isIface(prm) {
					continue
				}
				if prm == data && strings.Contains(cd.outer, "TextConsumer") {
					continue // TextConsumer tests data != nil at its single reflective use (covered by R15.3)
				}
				nUse := 0
				okAll := true
				for _, ci := range allCalls(f) {
					uses := false
					for _, a := range ci.Common().Args {
						if a == ssa.Value(prm) {
							uses = true
						} else if _, isP := a.(*ssa.Parameter); isP {
							// the parameter of a helper the codec hands it to
							if someOrigin(a, oIsValue(prm)) { // (some: the helper may be shared with other codecs)
								uses = true
							}
						}
					}
					if ci.Common().IsInvoke() && ci.Common().Value == ssa.Value(prm) {
						uses = true
					}
					if !uses {
						continue
					}
					nUse++
					if os.Getenv("RTDEBUG") != "" {
						fmt.Fprintf(os.Stderr, "nil-use %s prm=%s at %s in %s\n", cd.outer, prm.Name(), c.P.InstrPos(ci), ci.Parent())
					}
					if ci.Parent() != f && isTransparent(ci.Parent()) {
						// a use inside a helper shared with other codecs: judged on the paths that enter it from this codec
						if pathExistsUnder(f, nil, ci, factNil(vIs(prm), false), nil) {
							okAll = false
						}
					} else if !guardedBy(ci, nil, factNil(vIs(prm), false)) {
						okAll = false
					}
				}
				c.obF("R15.4", f, "nil-"+prm.Name()+"-refused", okAll && nUse > 0, "a nil "+prm.Name()+" is refused with an error before it is used", "use without a nil test")
			}
		}
		// R15.2 closing
		if strings.Contains(cd.outer, "ByteStream") {
			// (the option as read from the folded options, directly or through a flag copied out of them once)
			isOptClose := vFieldLoad("rt.byteStreamOpts", "Close", nil)
			optClose := factBool(func(v ssa.Value) bool { return isOptClose(v) || vFieldLoadO("rt.byteStreamOpts", "Close")(v) }, true)
			var closerDefer *ssa.Defer
			isCloserType := func(t types.Type) bool {
				sig, ok := t.Underlying().(*types.Signature)
				return ok && sig.Params().Len() == 0 && sig.Results().Len() == 1 && typeStr(sig.Results().At(0).Type()) == "error"
			}
			// one candidate value of the closer variable, with the check "this value is only taken under fact"
			judge := func(at ssa.Instruction, val ssa.Value, guarded func(EdgePred) bool) {
				if bm, isMC := val.(*ssa.MakeClosure); isMC && strings.Contains(bm.Fn.String(), "Close$bound") {
					okStream := false
					for _, bb := range bm.Bindings {
						okStream, _ = allOrigins(bb, oIsValue(stream))
					}
					c.obI("R15.2", at, "stream-close-only-on-request", guarded(optClose) && okStream, "the stream's Close is taken only when the closing option was requested", "the stream can be closed although closing was not requested")
				} else if fn, isFn := val.(*ssa.Function); isFn {
					c.obI("R15.2", at, "default-closer-is-noop", fnName(fn) == "rt.defaultCloser", "without the option the closer does nothing", "")
				}
			}
			for _, d := range defersIn(f) {
				if mc, ok := d.Call.Value.(*ssa.MakeClosure); ok {
					// defer func() { _ = closer() }(): the closure captures the closer variable
					for _, bnd := range mc.Bindings {
						al, isA := bnd.(*ssa.Alloc)
						if !isA {
							continue
						}
						pt, isPtr := al.Type().Underlying().(*types.Pointer)
						if !isPtr || !isCloserType(pt.Elem()) {
							continue
						}
						closerDefer = d
						for _, st := range storesToCell(al) {
							st := st
							judge(st, st.Val, func(fact EdgePred) bool { return guardedBy(st, nil, fact) })
						}
						// the deferred literal calls the closer on EVERY one of its paths: "closed if and only if requested"
						// holds for failing calls too (a closure that returns early on an error leaves the stream open)
						if df := deferredBody(d); df != nil {
							callsCloser := func(in ssa.Instruction) bool {
								call, isCall := in.(*ssa.Call)
								if !isCall || call.Call.IsInvoke() {
									return false
								}
								ad, isLd := derefLoad(call.Call.Value)
								if !isLd {
									return false
								}
								fv, isFV := ad.(*ssa.FreeVar)
								return isFV && freeVarBinding(fv) == ssa.Value(al)
							}
							skips := false
							for _, r := range returnsOf(df) {
								if pathExists(df, nil, r, nil, callsCloser) {
									skips = true
								}
							}
							c.obI("R15.2", d, "deferred-closer-runs-on-every-exit", !skips, "the deferred function calls the closer on each of its paths (whatever the codec's result was)", "the deferred function can return without calling the closer: with the closing option set, a failing call leaves the stream open")
						}
					}
					continue
				}
				// defer closer(): the variable itself is the deferred function value
				if d.Call.IsInvoke() || !isCloserType(d.Call.Value.Type()) || len(d.Call.Args) != 0 {
					continue
				}
				if _, isFn := d.Call.Value.(*ssa.Function); isFn {
					continue
				}
				closerDefer = d
				if phi, isPhi := d.Call.Value.(*ssa.Phi); isPhi {
					for i, e := range phi.Edges {
						pred := phi.Block().Preds[i]
						judge(lastInstr(pred), e, func(fact EdgePred) bool { return edgeGuarded(pred, phi.Block(), nil, fact) })
					}
				} else {
					judge(d, d.Call.Value, func(fact EdgePred) bool { return guardedBy(d, nil, fact) })
				}
			}
			// no other way of closing the stream: every Close invoked on the stream itself sits behind the option
			for _, ci := range allCalls(f) {
				cc := ci.Common()
				if !cc.IsInvoke() || cc.Method.Name() != "Close" {
					continue
				}
				if okS, _ := allOrigins(cc.Value, oIsValue(stream)); !okS {
					continue
				}
				c.obI("R15.2", ci, "stream-close-only-on-request", guardedBy(ci, nil, optClose), "the stream's Close is called only when the closing option was requested (also on failures: a broken stream is still the caller's to close)", "the stream is closed on a path on which closing was not requested")
			}
			c.obRF("R15.2", f, "closer-deferred", closerDefer != nil, "the (possibly no-op) closer is deferred", "")
			if closerDefer != nil {
				// deferred before any I/O on the stream
				for _, ci := range allCalls(f) {
					touches := false
					for _, a := range ci.Common().Args {
						if a == ssa.Value(stream) {
							touches = true
						}
					}
					if ci.Common().IsInvoke() && ci.Common().Value == ssa.Value(stream) {
						touches = true
					}
					if _, isDefer := ci.(*ssa.Defer); isDefer || !touches {
						continue
					}
					c.obI("R15.2", ci, "closer-before-io", dominates(closerDefer, ci), "the closer is registered before any I/O on the stream", "")
				}
			}
		}
		if cd.outer == "rt.ByteStreamProducer" {
			ruleSourceAlwaysClosed(c, "R15.2", f, data)
			// the payload is produced from where it stands: the producer performs no operation on it beyond the transfer
			// itself (WriteTo / Read through io.Copy / MarshalBinary / Error) and the final Close — no Seek, Reset, Discard …
			allowed := map[string]bool{"WriteTo": true, "Read": true, "Close": true, "MarshalBinary": true, "Error": true, "MarshalText": true, "String": true}
			for _, fn := range withClosures(f) {
				for _, ci := range allCalls(fn) {
					cc := ci.Common()
					if !cc.IsInvoke() || allowed[cc.Method.Name()] {
						continue
					}
					if fromData, _ := allOrigins(cc.Value, oIsValue(data)); fromData {
						c.obI("R15.2", ci, "payload-produced-as-it-stands", false, "the byte-stream producer only transfers the payload (and closes it): it never repositions or otherwise operates on it, so exactly the bytes the source still had to deliver are written", "calls "+cc.Method.Name()+" on the payload")
					}
				}
			}
		}
		// R15.3
		nValid += ruleReflectValidity(c, "R15.3", f)
		// "never panic": every index / slice expression of a codec (and of the helpers it is moved into) is in range
		codecFns = append(codecFns, f)
		// … and no variable of its constructor is WRITTEN by a call: whatever the codec's function (or a literal inside it)
		// assigns is its own local — a captured variable assigned per call is shared by all calls of that codec value
		for _, g2 := range append([]*ssa.Function{f}, anonFuncsDeep(f)...) {
			for _, in := range ownInstrs(g2) {
				st, isSt := in.(*ssa.Store)
				if !isSt {
					continue
				}
				fv, isFV := st.Addr.(*ssa.FreeVar)
				if !isFV {
					continue
				}
				// (a literal inside the codec writing the codec's OWN local is fine: the variable must belong to the constructor)
				owner := g2
				var bind ssa.Value = fv
				for owner != nil && owner != f {
					b := freeVarBinding(bind.(*ssa.FreeVar))
					if b == nil {
						break
					}
					bind = b
					owner = owner.Parent()
					if _, still := bind.(*ssa.FreeVar); !still {
						break
					}
				}
				if fv2, still := bind.(*ssa.FreeVar); still && fv2.Parent() == f {
					c.obD("R15.5", st, "codec-writes-no-variable-of-its-constructor", false, "a call of a codec assigns only its own locals: nothing one call stores is seen by another call", "the codec assigns the captured variable '"+fv2.Name()+"' of "+fnName(outer)+": concurrent or successive calls read each other's value")
				}
			}
		}
		// a codec holds no scratch memory across calls: the function literal captures no byte buffer made by its
		// constructor (one producer/consumer value serves concurrent requests; a shared copy buffer interleaves them)
		for _, in := range instrs(outer) {
			mc, isMC := in.(*ssa.MakeClosure)
			if !isMC || mc.Fn != ssa.Value(f) {
				continue
			}
			for i, b := range mc.Bindings {
				shared := ""
				for _, o := range originsOf(b) {
					switch x := o.V.(type) {
					case *ssa.MakeSlice:
						shared = "a " + typeStr(x.Type()) + " made by " + fnName(outer)
					case *ssa.Alloc:
						if t := typeStr(x.Type()); x.Parent() == outer && (t == "*bytes.Buffer" || strings.HasPrefix(t, "*[") && strings.HasSuffix(t, "]byte")) {
							shared = "a " + t + " declared by " + fnName(outer)
						}
					case *ssa.Slice:
						if al, isAl := x.X.(*ssa.Alloc); isAl && al.Parent() == outer && strings.HasSuffix(typeStr(x.Type()), "[]byte") {
							shared = "a []byte made by " + fnName(outer)
						}
					}
				}
				name := "?"
				if i < len(f.FreeVars) {
					name = f.FreeVars[i].Name()
				}
				if shared != "" {
					c.obD("R15.5", mc, "codec-captures-no-scratch-buffer", false, "the codec's function captures no buffer of its constructor", "captured variable '"+name+"' is "+shared+": every call of this codec value reads and writes the same memory")
				}
			}
		}
		// a consumer takes in its stream to the END: the reader is never handed to a primitive that stops after a byte
		// count (CopyN, LimitReader, ReadFull …) — a length announced by the reader (Size(), Len()) is the total or the
		// remainder depending on its type, and the bytes consumed have to be all that were left
		if strings.HasSuffix(cd.outer, "Consumer") {
			for _, ci := range allCalls(f) {
				n := calleeName(ci.Common())
				switch n {
				case "io.CopyN", "io.LimitReader", "io.ReadFull", "io.ReadAtLeast", "io.NewSectionReader":
				default:
					continue
				}
				for _, a := range ci.Common().Args {
					if !types.IsInterface(a.Type()) {
						continue
					}
					if someOrigin(a, oIsValue(stream)) {
						c.obD("R15.1", ci, "stream-consumed-to-its-end", false, "a consumer reads its stream to the end (ReadFrom, Copy, ReadAll, a decoder): never a counted portion of it", baseName(n)+" bounds what is read from the stream by a byte count")
					}
				}
			}
		}
		// a producer never lets the payload act as a format string: whatever is data reaches the writer as an operand
		if strings.HasSuffix(cd.outer, "Producer") {
			for _, ci := range allCalls(f) {
				n := calleeName(ci.Common())
				at := -1
				switch n {
				case "fmt.Fprintf":
					at = 1
				case "fmt.Sprintf", "fmt.Appendf":
					at = 0
					if n == "fmt.Appendf" {
						at = 1
					}
				}
				if at < 0 || at >= len(ci.Common().Args) {
					continue
				}
				if _, isConst := constString(ci.Common().Args[at]); !isConst {
					c.obD("R15.1", ci, "payload-is-never-a-format", false, "what a producer formats with is a constant layout; the payload is an operand of it, never the layout itself (a '%' in the data would be rewritten)", baseName(n)+" is given a computed format string")
				}
			}
		}
		// what was read is what is delivered — and what decides whether anything is delivered: the buffered bytes are not
		// trimmed, folded or otherwise rewritten on their way (a blank body is still a body)
		if cd.outer == "rt.TextConsumer" || cd.outer == "rt.ByteStreamConsumer" {
			for _, ci := range allCalls(f) {
				n := calleeName(ci.Common())
				if !(strings.HasPrefix(n, "bytes.") || strings.HasPrefix(n, "strings.")) {
					continue
				}
				bn := baseName(n)
				if !(strings.HasPrefix(bn, "Trim") || strings.HasPrefix(bn, "To") || strings.HasPrefix(bn, "Replace") || strings.HasPrefix(bn, "Fields") || bn == "Map") {
					continue
				}
				for _, a := range ci.Common().Args {
					if someOrigin(a, oCall(-1, "(*bytes.Buffer).Bytes", "(*bytes.Buffer).String", "io.ReadAll")) {
						c.obD("R15.1", ci, "bytes-read-are-not-rewritten", false, "the bytes a text / byte-stream consumer has read reach the destination as they are, and an input counts as empty only when it has no bytes", n+" rewrites the bytes read before they are judged or stored")
					}
				}
			}
		}
		// ByteStreamConsumer's buffered path reports success only after the bytes read — however few — were delivered
		// to the destination (an "empty input, nothing to do" shortcut leaves a reused destination with its old content
		// and accepts destinations of unsupported types)
		if cd.outer == "rt.ByteStreamConsumer" {
			for _, rf := range callsIn(f, "(*bytes.Buffer).ReadFrom") {
				isDeliver := func(in ssa.Instruction) bool {
					if ci, ok := in.(ssa.CallInstruction); ok {
						n := calleeName(ci.Common())
						if n == "(reflect.Value).SetBytes" || n == "(reflect.Value).SetString" {
							return true
						}
						if ci.Common().IsInvoke() && (ci.Common().Method.Name() == "UnmarshalBinary" || ci.Common().Method.Name() == "UnmarshalText") {
							return true
						}
					}
					if st, ok := in.(*ssa.Store); ok {
						_, isMI := st.Val.(*ssa.MakeInterface)
						return isMI && typeStr(st.Addr.Type()) == "*interface{}" || typeStr(st.Addr.Type()) == "*any"
					}
					return false
				}
				for _, r := range realReturns(f) {
					if !isNilConst(resOf(r, 0)) || !pathExists(f, rf, r, nil, nil) {
						continue
					}
					c.obI("R15.5", r, "success-only-after-delivery", !pathExists(f, rf, r, nil, isDeliver), "after buffering the stream, ByteStreamConsumer returns nil only once the bytes were stored into the destination", "a nil error is returned after buffering although nothing was delivered")
				}
			}
		}
		// a *interface{} destination is filled according to what it holds: a string where it holds a string, the bytes
		// where it holds a []byte — each store sits behind the matching type test of the current content; any other
		// content is left alone and ends in the "not supported" error
		if cd.outer == "rt.ByteStreamConsumer" {
			for _, in := range instrs(f) {
				st, ok := in.(*ssa.Store)
				if !ok || (typeStr(st.Addr.Type()) != "*interface{}" && typeStr(st.Addr.Type()) != "*any") {
					continue
				}
				mi, isMI := st.Val.(*ssa.MakeInterface)
				if !isMI {
					continue
				}
				if isDest, _ := allOrigins(st.Addr, oIsValue(data)); !isDest {
					continue
				}
				want := typeStr(mi.X.Type())
				holds := func(cond ssa.Value, branch bool) bool {
					cnd, b := stripNot(cond, branch)
					ex, isEx := cnd.(*ssa.Extract)
					if !isEx || ex.Index != 1 || !b {
						return false
					}
					ta, isTA := ex.Tuple.(*ssa.TypeAssert)
					if !isTA || typeStr(ta.AssertedType) != want {
						return false
					}
					ld, isLd := derefLoad(ta.X)
					if !isLd {
						return false
					}
					okD, _ := allOrigins(ld, oIsValue(data))
					return okD
				}
				c.obI("R15.3", st, "interface-destination-keeps-its-kind", guardedBy(st, nil, holds), "a *interface{} destination receives a "+want+" only when it currently holds a "+want+" (anything else is an unsupported destination, reported as an error)", "the destination is overwritten with a "+want+" whatever it held")
			}
		}
		// reflect.Value.SetBytes needs a slice of BYTES, SetString a string: each is called only behind the matching kind
		// test (a pointer to any other slice — *[]int — must end in the "not supported" error, not in a panic)
		if cd.outer == "rt.ByteStreamConsumer" || cd.outer == "rt.TextConsumer" {
			kindIs := func(k int64, ofElem bool) EdgePred {
				return factEqInt(func(v ssa.Value) bool {
					kc := asCall(v)
					if kc == nil || !strings.HasSuffix(calleeName(&kc.Call), ".Kind") && !(kc.Call.IsInvoke() && kc.Call.Method.Name() == "Kind") {
						return false
					}
					_ = ofElem
					return true
				}, k, true)
			}
			for _, ci := range callsIn(f, "(reflect.Value).SetBytes") {
				ok := guardedBy(ci, nil, kindIs(int64(reflect.Uint8), true))
				c.obI("R15.3", ci, "SetBytes-needs-byte-slice", ok, "SetBytes is reached only after the destination's element kind was tested to be Uint8", "SetBytes is reachable for a slice whose element kind was not tested: a pointer to a non-byte slice panics")
			}
			for _, ci := range callsIn(f, "(reflect.Value).SetString") {
				ok := guardedBy(ci, nil, kindIs(int64(reflect.String), false))
				c.obI("R15.3", ci, "SetString-needs-string", ok, "SetString is reached only after the destination's kind was tested to be String", "SetString is reachable without the kind test")
			}
		}
		// a decoding consumer hands the STREAM ITSELF to its decoder: the document is decoded as it arrives, not a trimmed,
		// re-buffered or otherwise edited copy of it (leading/trailing bytes can be significant: YAML block scalars)
		if strings.HasSuffix(cd.outer, "Consumer") {
			for _, ci := range allCalls(f) {
				n := calleeName(ci.Common())
				if !strings.HasSuffix(n, ".NewDecoder") || ci.Common().IsInvoke() {
					continue
				}
				okS, bad := allOrigins(ci.Common().Args[0], oIsValue(stream))
				c.obI("R15.6", ci, "decoder-reads-the-stream-itself", okS, "the consumer's decoder is constructed over the reader it was given", "the decoder reads "+describeOrigin(bad))
			}
			// … and for EVERY destination: a decoding consumer (JSON, XML, YAML) has no way round its decoder — what it stores
			// is what the decoder accepted (one well-formed document; errors for truncated input; a nil destination refused)
			if cd.outer == "rt.JSONConsumer" || cd.outer == "rt.XMLConsumer" {
				for _, ci := range allCalls(f) {
					n := calleeName(ci.Common())
					if strings.HasSuffix(n, ".NewDecoder") && !ci.Common().IsInvoke() {
						continue
					}
					// (only the raw byte readers of the standard library are judged: a constructor kept in a variable, a new
					// helper … may well build the decoder)
					if !(strings.HasPrefix(n, "io.") || strings.HasPrefix(n, "io/ioutil.") || strings.HasPrefix(n, "bufio.") || n == "(*bytes.Buffer).ReadFrom") {
						continue
					}
					for _, a := range ci.Common().Args {
						if a == ssa.Value(stream) || (types.IsInterface(a.Type()) && someOrigin(a, oIsValue(stream)) && !strings.Contains(strings.ToLower(n), "log")) {
							c.obD("R15.6", ci, "stream-read-by-the-decoder-only", false, "the stream of a decoding consumer is handed to its decoder and to nothing else", n+" reads the stream beside the decoder: what it yields is stored without having been decoded")
						}
					}
				}
			}
		}
		// reflect.Value.Bytes needs a SLICE of bytes (a byte array only when addressable, which a payload passed by value is
		// not): it is reached only behind Kind() == Slice and an element kind of Uint8
		{
			kindEq := func(k int64) EdgePred {
				return factEqInt(func(v ssa.Value) bool {
					kc := asCall(v)
					return kc != nil && (strings.HasSuffix(calleeName(&kc.Call), ".Kind") || kc.Call.IsInvoke() && kc.Call.Method.Name() == "Kind")
				}, k, true)
			}
			for _, ci := range callsIn(f, "(reflect.Value).Bytes") {
				ok := guardedBy(ci, nil, kindEq(int64(reflect.Slice))) && guardedBy(ci, nil, kindEq(int64(reflect.Uint8)))
				c.obI("R15.3", ci, "Bytes-needs-byte-slice", ok, "reflect.Value.Bytes is reached only after the value's kind was tested to be Slice and its element kind Uint8", "Bytes is reachable for a value that is not a byte slice (a byte array passed by value panics: not addressable)")
			}
		}
		// R15.5 no aliasing of stored bytes
		if cd.outer == "rt.ByteStreamConsumer" || cd.outer == "rt.TextConsumer" {
			private := func(o Origin) bool {
				call := asCall(o.V)
				if call == nil || calleeName(&call.Call) != "(*bytes.Buffer).Bytes" {
					return false
				}
				recv, _ := callArgs(&call.Call)
				al, ok := recv.(*ssa.Alloc)
				if !ok {
					// buf := new(bytes.Buffer)
					okN, _ := allOrigins(recv, func(oo Origin) bool {
						a2, isA := oo.V.(*ssa.Alloc)
						return isA && (a2.Parent() == f || isTransparent(a2.Parent()))
					})
					return okN
				}
				return al.Parent() == f || isTransparent(al.Parent()) // (a buffer declared by a helper this call runs)
			}
			n := 0
			for _, ci := range allCalls(f) {
				name := calleeName(ci.Common())
				var val ssa.Value
				switch name {
				case "(reflect.Value).SetBytes", "(encoding.BinaryUnmarshaler).UnmarshalBinary", "(encoding.TextUnmarshaler).UnmarshalText":
					_, a := callArgs(ci.Common())
					val = a[0]
				default:
					continue
				}
				n++
				ok, bad := allOrigins(val, private)
				c.obI("R15.5", ci, "stored-bytes-private", ok, "the bytes handed to the destination come from a buffer allocated by this call (they never alias the reader's or another caller's memory)", "origin "+describeOrigin(bad))
			}
			for _, in := range instrs(f) {
				st, ok := in.(*ssa.Store)
				if !ok {
					continue
				}
				if mi, isMI := st.Val.(*ssa.MakeInterface); isMI && typeStr(mi.X.Type()) == "[]byte" {
					n++
					okB, bad := allOrigins(mi.X, private)
					c.obI("R15.5", st, "stored-bytes-private", okB, "the bytes stored into an interface destination come from a buffer allocated by this call", "origin "+describeOrigin(bad))
				}
			}
			c.obRF("R15.5", f, "stores-bytes", n >= 1, "the consumer stores what it read", "")
			// and the buffer is filled from the reader by ReadFrom
			for _, site := range callSitesUnder(f, "(*bytes.Buffer).ReadFrom") {
				rf := site.In.(ssa.CallInstruction)
				_, a := callArgs(rf.Common())
				okS := a[0] == ssa.Value(stream)
				if !okS {
					site.at(func() { okS, _ = allOrigins(a[0], oIsValue(stream)) }) // (the stream handed to a buffering helper)
				}
				c.obI("R15.5", rf, "reads-whole-stream", okS, "the private buffer is filled by reading the stream to its end", "")
			}
		}
	}
	c.obRF("R15.3", p.Fn("rt.ByteStreamConsumer"), "reflect-sites", nValid >= 6, "reflective uses after Indirect are enumerated", fmt.Sprintf("%d uses", nValid))
	c.min("R15.1", 20)
	c.min("R15.2", 6)
	c.min("R15.4", 5)
	c.min("R15.5", 5)

	// sibling agreement of each pair on the marshaling family: the interfaces of package encoding the consumer tests its
	// destination for are the counterparts of those the producer tests its payload for (a destination that implements
	// both families must be fed through the one the producer wrote with)
	for _, pair := range [][2]string{{"rt.ByteStreamProducer", "rt.ByteStreamConsumer"}, {"rt.TextProducer", "rt.TextConsumer"}} {
		fam := func(outer string) map[string]bool {
			m := map[string]bool{}
			f := codecFuncOf(p.Fn(outer), 2, 1)
			for fn := range staticReach(p, f) {
				if fn.Pkg == nil || !strings.HasPrefix(fn.Pkg.Pkg.Path(), "github.com/go-openapi/runtime") {
					continue
				}
				for _, in := range instrs(fn) {
					if ta, ok := in.(*ssa.TypeAssert); ok {
						t := typeStr(ta.AssertedType)
						if strings.HasPrefix(t, "encoding.") {
							t = strings.TrimPrefix(t, "encoding.")
							t = strings.TrimSuffix(strings.TrimSuffix(t, "Unmarshaler"), "Marshaler")
							m[t] = true
						}
					}
				}
			}
			return m
		}
		pf, cf := fam(pair[0]), fam(pair[1])
		same := len(pf) == len(cf)
		for k := range pf {
			same = same && cf[k]
		}
		c.obF("R15.2", codecFuncOf(p.Fn(pair[1]), 2, 1), "pair-agrees-on-marshaling-family", same, "the consumer tests its destination for the unmarshaler counterparts of exactly the encoding interfaces its producer writes with", fmt.Sprintf("producer %v, consumer %v", pf, cf))
	}
	// sibling agreement of the text codec: the consumer's first choice is encoding.TextUnmarshaler, so the producer's
	// first choice is encoding.TextMarshaler (a value that also is an error or a Stringer is still written as its text form)
	{
		tpc := codecFuncOf(p.Fn("rt.TextProducer"), 2, 1)
		var tm *ssa.TypeAssert
		var others []*ssa.TypeAssert
		for _, in := range instrs(tpc) {
			ta, ok := in.(*ssa.TypeAssert)
			if !ok || ta.X != ssa.Value(tpc.Params[1]) {
				continue
			}
			if typeStr(ta.AssertedType) == "encoding.TextMarshaler" {
				tm = ta
			} else {
				others = append(others, ta)
			}
		}
		c.obRF("R15.2", tpc, "text-marshaler-supported", tm != nil, "the text producer writes a TextMarshaler's text form", "")
		for _, o := range others {
			c.obI("R15.2", o, "text-marshaler-first", tm != nil && dominates(tm, o), "the text producer asks for encoding.TextMarshaler before any other interface of the value (the text consumer reads into encoding.TextUnmarshaler first, so what is written for such a value is what reading it back expects)", "the value is tested for "+typeStr(o.AssertedType)+" before encoding.TextMarshaler")
		}
	}

	// R15.6
	jc := codecFuncOf(p.Fn("rt.JSONConsumer"), 2, 1)
	un := callsIn(jc, "(*encoding/json.Decoder).UseNumber")
	dc := callsIn(jc, "(*encoding/json.Decoder).Decode")
	okJ := len(un) == 1 && len(dc) == 1 && dominates(un[0], dc[0])
	if okJ {
		r1, _ := callArgs(un[0].Common())
		r2, a2 := callArgs(dc[0].Common())
		okJ = r1 == r2 && a2[0] == ssa.Value(jc.Params[1])
		nd := asCall(r2)
		okJ = okJ && nd != nil && calleeName(&nd.Call) == "encoding/json.NewDecoder" && nd.Call.Args[0] == ssa.Value(jc.Params[0])
	}
	c.obF("R15.6", jc, "json-preserves-numbers", okJ, "the JSON consumer decodes the reader with UseNumber (numbers beyond float64 precision survive)", "")
	// the XML consumer parses XML as XML: the decoder keeps its strict defaults (a decoder switched to the lenient
	// HTML settings auto-closes elements such as <link> or <meta> and drops their content without an error)
	{
		xc := codecFuncOf(p.Fn("rt.XMLConsumer"), 2, 1)
		for _, fn := range append([]*ssa.Function{xc}, anonFuncsDeep(xc)...) {
			for _, in := range instrs(fn) {
				st, isSt := in.(*ssa.Store)
				if !isSt {
					continue
				}
				fa, isFA := st.Addr.(*ssa.FieldAddr)
				if !isFA {
					continue
				}
				n, stt := structOf(fa.X.Type())
				if n == nil || typeFullName(n) != "encoding/xml.Decoder" {
					continue
				}
				fld := stt.Field(fa.Field).Name()
				lenient := fld == "Strict" || fld == "AutoClose" || fld == "Entity"
				c.definite = true
				c.obI("R15.6", st, "xml-decoder-stays-strict", !lenient, "the XML consumer leaves the decoder's Strict / AutoClose / Entity settings alone (well-formed XML round-trips; malformed XML is an error, not a shorter success)", "the decoder's "+fld+" is set: documents are parsed leniently")
				c.definite = false
			}
		}
	}
	jp := codecFuncOf(p.Fn("rt.JSONProducer"), 2, 1)
	se := callsIn(jp, "(*encoding/json.Encoder).SetEscapeHTML")
	en := callsIn(jp, "(*encoding/json.Encoder).Encode")
	okE := len(se) == 1 && len(en) == 1 && dominates(se[0], en[0])
	if okE {
		_, a := callArgs(se[0].Common())
		b, isB := constBool(a[0])
		okE = isB && !b
	}
	c.obF("R15.6", jp, "json-no-html-escaping", okE, "the JSON producer does not HTML-escape", "")
	yp := codecFuncOf(p.Fn("rt/yamlpc.YAMLProducer"), 2, 1)
	okY := false
	for _, d := range defersIn(yp) {
		if calleeName(&d.Call) == "(*gopkg.in/yaml.v3.Encoder).Close" {
			okY = true
		}
		// defer func() { _ = enc.Close() }()
		if df := deferredBody(d); df != nil {
			closes := callsIn(df, "(*gopkg.in/yaml.v3.Encoder).Close")
			if len(closes) >= 1 {
				all := true
				for _, r := range returnsOf(df) {
					if pathExists(df, nil, r, nil, isCallInstrTo("(*gopkg.in/yaml.v3.Encoder).Close")) {
						all = false
					}
				}
				if all {
					okY = true
				}
			}
		}
	}
	c.obF("R15.6", yp, "yaml-encoder-closed", okY, "the YAML encoder is closed (flushes the document)", "")
}

// ruleSourceAlwaysClosed: a payload that is an io.ReadCloser has its Close deferred before any I/O on the payload.
func ruleSourceAlwaysClosed(c *Ctx, rule string, f *ssa.Function, data *ssa.Parameter) {
	var ta *ssa.TypeAssert
	for _, in := range instrs(f) {
		if t, ok := in.(*ssa.TypeAssert); ok && t.X == ssa.Value(data) && typeStr(t.AssertedType) == "io.ReadCloser" && t.CommaOk {
			ta = t
		}
	}
	if ta == nil {
		// the producer does read from reader payloads (the mechanism is there) but never asks whether they can be closed
		readsPayload := false
		for _, in := range instrs(f) {
			if t, ok := in.(*ssa.TypeAssert); ok && t.X == ssa.Value(data) && (typeStr(t.AssertedType) == "io.Reader" || typeStr(t.AssertedType) == "io.WriterTo") {
				readsPayload = true
			}
		}
		if readsPayload {
			c.obF(rule, f, "recognises-closable-source", false, "a closable source payload (data.(io.ReadCloser)) is recognised and always closed", "reader payloads are consumed but never tested for io.ReadCloser: a closable source stays open")
		} else {
			c.obRF(rule, f, "recognises-closable-source", false, "the producer recognises a closable source payload (data.(io.ReadCloser))", "no type assertion of the payload to io.ReadCloser")
		}
		return
	}
	c.obRF(rule, f, "recognises-closable-source", true, "the producer recognises a closable source payload (data.(io.ReadCloser))", "")
	okv, val := extractOf(ta, 1), extractOf(ta, 0)
	var d *ssa.Defer
	for _, df := range defersIn(f) {
		if df.Call.IsInvoke() && df.Call.Method.Name() == "Close" && df.Call.Value == val {
			d = df
		}
		// defer func() { _ = rc.Close() }()
		if mc, ok := df.Call.Value.(*ssa.MakeClosure); ok {
			if cf, isFn := mc.Fn.(*ssa.Function); isFn {
				for _, ci := range allCalls(cf) {
					if !ci.Common().IsInvoke() || ci.Common().Method.Name() != "Close" {
						continue
					}
					if sameOrigins(ci.Common().Value, val) && dominatesAllReturns(cf, ci) {
						d = df
					}
				}
			}
		}
	}
	c.obI(rule, ta, "defers-source-close", d != nil && okv != nil, "the closable source's Close is deferred", "")
	if d == nil || okv == nil {
		return
	}
	notClosable := factBool(vIs(okv), false)
	n := 0
	for _, ci := range allCalls(f) {
		if _, isDefer := ci.(*ssa.Defer); isDefer {
			continue
		}
		// I/O on the payload: any call whose receiver or argument derives from data (through type switches)
		touches := false
		recv, args := callArgs(ci.Common())
		for _, v := range append([]ssa.Value{recv}, args...) {
			if v == nil {
				continue
			}
			if ok, _ := allOrigins(v, oIsValue(data)); ok {
				touches = true
			}
		}
		name := calleeName(ci.Common())
		if !touches || strings.HasPrefix(name, "reflect.") || strings.HasPrefix(name, "fmt.") || strings.HasPrefix(name, "(reflect.") {
			continue
		}
		n++
		unclosed := !dominates(ta, ci) || pathExists(f, ta, ci, notClosable, isOneOf(d))
		c.obI(rule, ci, "source-close-deferred-before-"+strings.TrimLeft(name, "("), !unclosed, "a closable source payload has its Close deferred before any use of the payload, whatever other interfaces (WriterTo, Reader, BinaryMarshaler …) it implements", "the payload can be consumed through this call without its Close having been deferred")
	}
	c.obRF(rule, f, "source-io-sites", n >= 3, "the producer's uses of the payload are enumerated", fmt.Sprintf("%d", n))
}

// isResultCell: the local cell is a named result of f (its value is what the returns of f hand back).
func isResultCell(f *ssa.Function, cell *ssa.Alloc) bool {
	for _, r := range returnsOf(f) {
		for _, res := range r.Results {
			if ad, ok := derefLoad(res); ok && ad == ssa.Value(cell) {
				return true
			}
		}
	}
	return false
}

// checkDeferredErrAssign: a deferred function that assigns f's (named) error result assigns it only while it is still nil.
func checkDeferredErrAssign(c *Ctx, rule string, f *ssa.Function) {
	for _, g := range f.AnonFuncs {
		for _, in := range ownInstrs(g) {
			st, isSt := in.(*ssa.Store)
			if !isSt {
				continue
			}
			fv, isFV := st.Addr.(*ssa.FreeVar)
			if !isFV || typeStr(fv.Type()) != "*error" {
				continue
			}
			cell := freeVarCell(fv)
			if cell == nil || cell.Parent() != f || !isResultCell(f, cell) {
				continue
			}
			stillNil := factNil(func(v ssa.Value) bool {
				ad, ok := derefLoad(v)
				return ok && ad == ssa.Value(fv)
			}, true)
			c.obI(rule, st, "deferred-assignment-keeps-earlier-error", guardedBy(st, nil, stillNil), "a deferred function assigns the codec's error result only while it is still nil (the outcome of closing never replaces an earlier read, write or marshal failure)", "the deferred function overwrites the error result unconditionally: a failed transfer followed by a successful close is reported as success")
		}
	}
}
