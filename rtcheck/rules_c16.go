package main

import (
	"fmt"
	"go/token"
	"strings"

	"golang.org/x/tools/go/ssa"
)

func init() {
	register(&Property{
		ID: "C16",
		Explanation: "Decides in csv.go / csv_options.go: R16.1 every csv.Reader the codec creates or is handed passes through o.applyToReader, and every csv.Writer through o.applyToWriter, before it is used — the necessary condition of 'all kinds agree under non-default options'; the option copier copies each conditional field exactly when it is non-zero and the boolean fields always; " +
			"Round 12: R16.4 deferred functions assign the error result only while nil, later outcomes never replace a failure, and reflect mutators behind pipeCSV run only after its error was seen nil. " +
			"R16.2 reflect slice typestate: SetCap is applied only after SetLen(0) (Len <= n <= Cap), and on every successful parse the record-table destination is overwritten (SetLen + Copy), never left stale; R16.3 a record obtained from a reader is retained only as a copy (record reuse cannot alias delivered records); " +
			"R16.4 parser and writer errors are returned, only io.EOF is absorbed, the piped path ends with Flush then Error, and the goroutines of the WriterTo branch close their pipe ends on every exit and their errors are waited for; R16.5 nil/typed-nil/unsupported sources and destinations yield an error (reflect validity typestate as in C15). " +
			"R16.1 also: fields of csvOpts are written only by option setters at construction or in a per-call copy. " +
			"R16.2 also: the container a consumer pipes records into starts empty; R16.3 also: a record returned by a reader's Read is never appended to a table as it is; R16.4 also: a failed call may not be re-executed by a loop without its error having been returned. " +
			"R16.2 also: the emptied destination is grown by the very n its capacity is then set to. " +
			"R16.4 also: an io.WriterTo source never writes straight to the output, and in-memory sources are parsed completely before anything is written. " +
			"R16.4 also: the producer's reflective branch dispatches on the dereferenced source value. " +
			"NOT decided: record-for-record equality with encoding/csv.",
		Run: runC16,
	})
}

func runC16(c *Ctx) {
	p := c.P
	cons := p.Fn("rt.CSVConsumer")
	prod := p.Fn("rt.CSVProducer")
	pick := func(outer *ssa.Function) *ssa.Function {
		if f := codecFuncOf(outer, 2, 1); f != nil {
			return f
		}
		fatalf("anchor: %s has no codec closure", outer)
		return nil
	}
	fc, fp := pick(cons), pick(prod)

	// never panic: a reflective re-slicing / indexing of the caller's value (v.Slice(i, j), v.Index(i)) has its bounds
	// tested against v.Len() first — skipping more header lines than an in-memory source has is not an error of the caller
	for _, f := range []*ssa.Function{fc, fp} {
		for _, fn := range withClosures(f) {
			for _, ci := range callsIn(fn, "(reflect.Value).Slice", "(reflect.Value).Slice3", "(reflect.Value).Index") {
				recv, a := callArgs(ci.Common())
				if k, isK := constInt(a[0]); isK && k == 0 {
					continue
				}
				isLen := func(v ssa.Value) bool {
					lc := asCall(v)
					if lc == nil || calleeName(&lc.Call) != "(reflect.Value).Len" {
						return false
					}
					r2, _ := callArgs(&lc.Call)
					return sameOrigins(r2, recv) || r2 == recv
				}
				low := a[0]
				isLow := func(v ssa.Value) bool { return v == low || sameVal(v, low) }
				inRange := func(cond ssa.Value, branch bool) bool {
					cnd, b := stripNot(cond, branch)
					bo, ok := cnd.(*ssa.BinOp)
					if !ok {
						return false
					}
					switch {
					case isLow(bo.X) && isLen(bo.Y):
						return (bo.Op == token.LEQ || bo.Op == token.LSS) && b || (bo.Op == token.GTR || bo.Op == token.GEQ) && !b && bo.Op == token.GTR
					case isLen(bo.X) && isLow(bo.Y):
						return (bo.Op == token.GEQ || bo.Op == token.GTR) && b || bo.Op == token.LSS && !b
					}
					return false
				}
				// a loop counter below Len() is in range as well
				okIdx := guardedBy(ci, nil, inRange)
				c.obI("R16.3", ci, "reflective-bounds-tested", okIdx, "a reflective Slice/Index with a non-zero lower bound is preceded by a test of that bound against Len() (an out-of-range bound panics in package reflect)", calleeName(ci.Common())+" with an untested bound "+describe(low))
			}
		}
	}
	// R16.1
	for _, f := range []*ssa.Function{fc, fp} {
		fns := withClosures(f)
		// readers
		type obj struct {
			v     ssa.Value
			apply string
			kind  string
		}
		var objs []obj
		for _, ci := range callsIn(f, "encoding/csv.NewReader") {
			objs = append(objs, obj{ci.Value(), "(rt.csvOpts).applyToReader", "reader"})
		}
		for _, ci := range callsIn(f, "encoding/csv.NewWriter") {
			objs = append(objs, obj{ci.Value(), "(rt.csvOpts).applyToWriter", "writer"})
		}
		for _, in := range instrs(f) {
			// *csv.Reader / *csv.Writer handed in by the caller (type switch on data)
			ta, ok := in.(*ssa.TypeAssert)
			if !ok {
				continue
			}
			switch typeStr(ta.AssertedType) {
			case "*encoding/csv.Reader":
				objs = append(objs, obj{typeSwitchValue(ta), "(rt.csvOpts).applyToReader", "reader"})
			case "*encoding/csv.Writer":
				objs = append(objs, obj{typeSwitchValue(ta), "(rt.csvOpts).applyToWriter", "writer"})
			}
		}
		for _, o := range objs {
			if o.v == nil {
				continue
			}
			is := vOrigins(oIsValue(o.v))
			if _, isEx := o.v.(*ssa.Extract); isEx {
				// a value bound by a type switch: identity up to interface boxing (provenance would look through the assertion)
				ov := o.v
				is = func(v ssa.Value) bool { return v == ov || unboxed(v) == ov }
			}
			// the applying call
			var applies []ssa.Instruction
			for _, ci := range callsIn(f, o.apply) {
				// (the object is whichever argument has the reader/writer type: the options may be the receiver or a parameter)
				for _, a := range ci.Common().Args {
					if is(a) {
						applies = append(applies, ci)
						break
					}
				}
			}
			// uses: passed to pipeCSV / bufferedCSV / method calls, in f or its closures (through captured cells)
			nUse := 0
			okAll := len(applies) >= 1
			for _, fn := range fns {
				for _, ci := range allCalls(fn) {
					name := calleeName(ci.Common())
					if name == o.apply || name == "encoding/csv.NewReader" || name == "encoding/csv.NewWriter" {
						continue
					}
					uses := false
					recv, args := callArgs(ci.Common())
					for _, v := range append([]ssa.Value{recv}, args...) {
						if v != nil && is(v) {
							uses = true
						}
					}
					if !uses {
						continue
					}
					nUse++
					if fn == f {
						def, _ := o.v.(ssa.Instruction)
						if def != nil && pathExists(f, def, ci, nil, isOneOf(applies...)) {
							okAll = false
						}
					} else {
						// use inside a goroutine closure: the options must have been applied before the closure was created
						for _, mk := range instrs(f) {
							if mc, isMC := mk.(*ssa.MakeClosure); isMC && mc.Fn == ssa.Value(fn) {
								def, _ := o.v.(ssa.Instruction)
								if def != nil && pathExists(f, def, mc, nil, isOneOf(applies...)) {
									okAll = false
								}
							}
						}
					}
				}
			}
			pos := "-"
			if in, ok := o.v.(ssa.Instruction); ok {
				pos = p.InstrPos(in)
			}
			c.ob("R16.1", obFnName(f), "options-applied-to-"+o.kind, pos, okAll && nUse > 0,
				"every csv."+strings.Title(o.kind)+" the codec creates or is handed passes through "+strings.TrimPrefix(o.apply, "(rt.csvOpts).")+" before its first use, so every source/destination kind honours the same options",
				"this "+o.kind+" is used without the options having been applied (separator, comment, quoting … would silently differ from the other kinds)")
		}
	}
	// a *csv.Writer (resp. *csv.Reader) handed in by the caller also satisfies the CSVWriter (CSVReader) interface: it must be
	// told apart from the generic case somewhere, or the options can never be applied to it
	for _, pr := range [][3]string{{"rt.CSVWriter", "*encoding/csv.Writer", "writer"}, {"rt.CSVReader", "*encoding/csv.Reader", "reader"}} {
		var generic []ssa.Instruction
		concrete := 0
		for _, fn := range p.LibFuncs("rt") {
			for _, in := range instrs(fn) {
				ta, ok := in.(*ssa.TypeAssert)
				if !ok {
					continue
				}
				switch typeStr(ta.AssertedType) {
				case pr[0]:
					generic = append(generic, in)
				case pr[1]:
					concrete++
				}
			}
		}
		for _, g := range generic {
			c.obD("R16.1", g, "csv-"+pr[2]+"-object-told-apart", concrete > 0, "a "+pr[1]+" supplied by the caller is recognised as such (it also satisfies "+pr[0]+"): only then can the configured options be applied to it like to every other kind", "no code tells a "+pr[1]+" apart from the generic "+pr[0]+": the options are never applied to it")
		}
	}
	// … and nothing but applyToReader / applyToWriter configures them: no other function of the package writes a field
	// of a csv.Reader or csv.Writer (a setting forced for one destination kind — ReuseRecord, say — makes the kinds
	// disagree and overrides the caller's option)
	for _, fn := range p.LibFuncs("rt") {
		name := fnName(fn)
		if name == "(rt.csvOpts).applyToReader" || name == "(rt.csvOpts).applyToWriter" {
			continue
		}
		for _, in := range ownInstrs(fn) {
			st, ok := in.(*ssa.Store)
			if !ok {
				continue
			}
			fa, ok := st.Addr.(*ssa.FieldAddr)
			if !ok {
				continue
			}
			n, stt := structOf(fa.X.Type())
			if n == nil || (typeFullName(n) != "encoding/csv.Reader" && typeFullName(n) != "encoding/csv.Writer") {
				continue
			}
			if isTransparent(fn) {
				// a helper the two appliers delegate to
				onlyFromAppliers := true
				for _, rt := range rootsOf(fn) {
					if rn := fnName(rt); rn != "(rt.csvOpts).applyToReader" && rn != "(rt.csvOpts).applyToWriter" {
						onlyFromAppliers = false
					}
				}
				if onlyFromAppliers {
					continue
				}
			}
			c.obD("R16.1", st, "csv-settings-only-through-the-options", false, "the fields of a csv.Reader / csv.Writer are written only by applyToReader / applyToWriter", typeFullName(n)+"."+stt.Field(fa.Field).Name()+" is set by "+name)
		}
	}
	c.min("R16.1", 14)
	// the options of a codec are shared by all its calls: the only functions writing a field of csvOpts through a pointer
	// are the option setters run at construction; the skip countdown (and any other per-call state) works on a copy
	nOptW := 0
	for _, fn := range p.LibFuncs("rt") {
		for _, in := range ownInstrs(fn) {
			st, ok := in.(*ssa.Store)
			if !ok {
				continue
			}
			root, rootT, immT, field := chainRoot(st.Addr)
			if immT == nil || (typeFullName(immT) != "rt.csvOpts" && (rootT == nil || typeFullName(rootT) != "rt.csvOpts")) {
				continue
			}
			nOptW++
			al, isLocal := root.(*ssa.Alloc)
			okW := isLocal && al.Parent() == fn
			if !okW {
				// an option setter: func(*csvOpts) literal returned by a CSVOpt constructor, writing its parameter
				if prm, isP := root.(*ssa.Parameter); isP && fn.Parent() != nil && fn.Signature.Params().Len() == 1 && fn.Signature.Results().Len() == 0 && typeStr(prm.Type()) == "*rt.csvOpts" {
					okW = true
				}
			}
			c.obD("R16.1", st, "options-written-only-per-call-copy-"+field, okW, "a field of the codec's options is written only by an option setter at construction or in a copy local to the call: the skipped-lines countdown of one call never changes what the next call of the same codec skips", "store to csvOpts."+field+" through a pointer that is not local to this call")
		}
	}
	c.obRF("R16.1", p.Fn("rt.pipeCSV"), "skip-countdown-found", nOptW >= 3, "writes to csvOpts fields found (option setters and the skip countdowns)", fmt.Sprintf("%d writes", nOptW))
	// the option copier
	ar := p.Fn("(rt.csvOpts).applyToReader")
	in0 := paramOfType(ar, "*encoding/csv.Reader")
	for _, fld := range []string{"Comma", "Comment", "FieldsPerRecord"} {
		sts := fieldStores(ar, "encoding/csv.Reader", fld)
		okS := len(sts) == 1
		if okS {
			st := sts[0]
			src := vFieldLoad("encoding/csv.Reader", fld, nil)
			okS = src(st.Val) && st.Addr.(*ssa.FieldAddr).X == ssa.Value(in0)
			nonZero := factEqInt(src, 0, false)
			okS = okS && guardedBy(st, nil, nonZero)
			// and copied on EVERY path on which it is non-zero
			for _, r := range returnsOf(ar) {
				if pathExists(ar, nil, r, factEqInt(src, 0, true), isOneOf(st)) {
					okS = false
				}
			}
		}
		c.obF("R16.1", ar, "copies-"+fld+"-iff-nonzero", okS, "reader option "+fld+" is copied exactly when it is non-zero (a negative FieldsPerRecord — 'no check' — included)", "the option is copied under a condition other than != 0")
	}
	for _, fld := range []string{"LazyQuotes", "TrimLeadingSpace", "ReuseRecord"} {
		sts := fieldStores(ar, "encoding/csv.Reader", fld)
		okS := len(sts) == 1 && vFieldLoad("encoding/csv.Reader", fld, nil)(sts[0].Val) && dominatesAllReturns(ar, sts[0])
		c.obF("R16.1", ar, "copies-"+fld, okS, "reader option "+fld+" is always copied", "")
	}
	aw := p.Fn("(rt.csvOpts).applyToWriter")
	for _, fld := range []string{"UseCRLF"} {
		sts := fieldStores(aw, "encoding/csv.Writer", fld)
		okS := len(sts) == 1 && vFieldLoad("encoding/csv.Writer", fld, nil)(sts[0].Val) && dominatesAllReturns(aw, sts[0])
		c.obF("R16.1", aw, "copies-"+fld, okS, "writer option "+fld+" is always copied", "")
	}
	{
		sts := fieldStores(aw, "encoding/csv.Writer", "Comma")
		src := vFieldLoad("encoding/csv.Writer", "Comma", nil)
		okS := len(sts) == 1 && src(sts[0].Val) && guardedBy(sts[0], nil, factEqInt(src, 0, false))
		c.obF("R16.1", aw, "copies-Comma-iff-nonzero", okS, "writer option Comma is copied when non-zero", "")
	}

	// the producer never writes a source's text to the output unparsed, and never streams an in-memory source: whatever
	// the source kind, what reaches the writer went through the CSV reader and writer (malformed input yields the parser's
	// error) — and for sources held in memory only after the WHOLE input has parsed (no partial output before the error)
	{
		out := fp.Params[0]
		for _, ci := range allCalls(fp) {
			cc := ci.Common()
			if ifaceMethodCalled(cc) == "WriteTo" || strings.HasSuffix(calleeName(cc), ").WriteTo") {
				_, a := callArgs(cc)
				if len(a) == 1 {
					if direct, _ := allOrigins(a[0], oIsValue(out)); direct {
						c.obD("R16.4", ci, "source-text-never-copied-unparsed", false, "an io.WriterTo source writes into the pipe the CSV reader parses — never straight to the producer's output", "WriteTo is called on the output writer: malformed input is reported as success and copied verbatim")
					}
				}
			}
		}
		for _, ci := range callsIn(fp, "rt.pipeCSV") {
			_, a := callArgs(ci.Common())
			if len(a) < 2 {
				continue
			}
			inMem := false
			for _, o := range originsOf(a[1]) {
				if nr := asCall(o.V); nr != nil && calleeName(&nr.Call) == "encoding/csv.NewReader" {
					if mem, _ := allOrigins(unboxed(nr.Call.Args[0]), oCall(-1, "bytes.NewBuffer", "bytes.NewBufferString", "bytes.NewReader", "strings.NewReader")); mem {
						inMem = true
					}
				}
			}
			c.obI("R16.4", ci, "in-memory-source-written-only-when-parsed", !inMem, "a source held in memory ([]byte, string, a marshaler's output) is parsed completely before anything is written (bufferedCSV): a malformed input leaves the output untouched", "an in-memory source is streamed record by record (pipeCSV): records before the bad one have reached the writer when the parser's error is returned")
		}
	}
	// the reflective branch of the producer judges the VALUE a pointer source points at: kinds and types are asked of
	// reflect.Indirect(reflect.ValueOf(data)) — asked of the pointer itself, *[][]string, *[]byte and *string (documented
	// sources) are "not supported"
	{
		n := 0
		for _, ci := range allCalls(fp) {
			name := calleeName(ci.Common())
			if name != "(reflect.Value).Type" && name != "(reflect.Value).Kind" {
				continue
			}
			recv, _ := callArgs(ci.Common())
			if fromData, _ := allOrigins(recv, oCall(-1, "reflect.Indirect"), oCall(-1, "reflect.ValueOf"), oCall(-1, "(reflect.Value).Elem")); !fromData {
				continue
			}
			n++
			direct, _ := allOrigins(recv, oCall(-1, "reflect.ValueOf"))
			if direct {
				// reflect.ValueOf(data).Kind() == reflect.Ptr is a test ABOUT the pointer: fine as a condition, not as the kind dispatched on
				if name == "(reflect.Value).Kind" {
					continue
				}
				c.obI("R16.4", ci, "source-judged-after-indirection", false, "the producer dispatches on the type of the dereferenced source value", "the type is taken of reflect.ValueOf(data) itself: pointer sources are refused")
				continue
			}
			c.obI("R16.4", ci, "source-judged-after-indirection", true, "the producer dispatches on the type of the dereferenced source value", "")
		}
		c.obRF("R16.4", fp, "reflective-dispatch", n >= 1, "the producer has a reflective branch", "")
	}
	// R16.2 slice typestate and overwrite
	for _, sc := range callsIn(fc, "(reflect.Value).SetCap") {
		recv, _ := callArgs(sc.Common())
		okZ := false
		for _, sl := range callsIn(fc, "(reflect.Value).SetLen") {
			r2, a2 := callArgs(sl.Common())
			if k, ok := constInt(a2[0]); ok && k == 0 && r2 == recv && dominates(sl, sc) {
				okZ = true
			}
		}
		c.obI("R16.2", sc, "SetCap-after-SetLen0", okZ, "reflect.Value.SetCap(n) needs Len() <= n <= Cap(): the destination is reset to length 0 first, so a destination already holding more records than were parsed cannot make it panic", "SetCap is applied to a slice whose length may exceed the requested capacity")
	}
	// … and n <= Cap(): room for n elements is made by Grow(n) on the emptied slice (Grow guarantees Len()+n, i.e. n after
	// SetLen(0)) — Grow by any other amount leaves destinations whose capacity lies between the two too small
	for _, sc := range callsIn(fc, "(reflect.Value).SetCap") {
		recv, a := callArgs(sc.Common())
		var grows []ssa.CallInstruction
		for _, g := range callsIn(fc, "(reflect.Value).Grow") {
			if r2, _ := callArgs(g.Common()); r2 == recv && pathExists(fc, g, sc, nil, nil) {
				grows = append(grows, g)
			}
		}
		what := "reflect.Value.SetCap(n) needs n <= Cap(): the emptied destination is grown by that very n first"
		if len(grows) == 0 {
			c.obRI("R16.2", sc, "SetCap-within-grown-capacity", false, what, "no Grow on the destination before SetCap")
			continue
		}
		for _, g := range grows {
			_, ga := callArgs(g.Common())
			same := sameVal(ga[0], a[0]) || sameOrigins(ga[0], a[0])
			switch {
			case !same:
				c.obI("R16.2", g, "SetCap-within-grown-capacity", false, what, "the destination is grown by "+describe(ga[0])+" but its capacity is then set to "+describe(a[0])+": a destination with some, but not enough, capacity makes SetCap panic")
			case dominates(g, sc):
				c.obI("R16.2", g, "SetCap-within-grown-capacity", true, what, "")
			default:
				c.obRI("R16.2", g, "SetCap-within-grown-capacity", false, what, "Grow is skipped on some path to SetCap")
			}
		}
	}
	// overwrite on every success after the piping in the record-table branch
	for _, cp := range callsIn(fc, "reflect.Copy") {
		// the pipeCSV call feeding the csvRecordsWriter
		for _, pc := range callsIn(fc, "rt.pipeCSV") {
			if !pathExists(fc, pc, cp, nil, nil) {
				continue
			}
			ev := pc.Value()
			for _, r := range successReturns(fc, 0) {
				if !pathExists(fc, pc, r, nil, nil) {
					continue
				}
				stale := pathExists(fc, pc, r, factNil(vIs(ev), false), isOneOf(cp))
				c.obI("R16.2", r, "destination-always-overwritten", !stale, "after a successful parse the record table is always overwritten (SetLen + Copy) — also when zero records were parsed, so a pre-populated destination never keeps stale records", "a success return is reachable without copying the parsed records into the destination")
			}
			// length set to the number of records
			for _, sl := range callsIn(fc, "(reflect.Value).SetLen") {
				_, a := callArgs(sl.Common())
				if _, isK := constInt(a[0]); isK {
					continue
				}
				l := asCall(a[0])
				okL := l != nil && calleeName(&l.Call) == "builtin len" && (vFieldLoad("rt.csvRecordsWriter", "records", nil)(l.Call.Args[0]) || vFieldLoadO("rt.csvRecordsWriter", "records")(l.Call.Args[0]))
				c.obI("R16.2", sl, "length-is-record-count", okL && dominates(sl, cp), "the destination's length becomes the number of parsed records", "")
			}
		}
	}
	// a destination is given EXACTLY the output: wherever the consumer copies into the caller's value in place
	// (reflect.Copy), the value's length has been set to the length of what is copied first — a longer pre-populated
	// destination never keeps a stale tail (SetBytes / SetString replace the content wholesale and need no such step)
	for _, cp := range callsIn(fc, "reflect.Copy") {
		if cp.Parent() != fc {
			continue
		}
		dst := cp.Common().Args[0]
		sized := false
		for _, sl := range callsIn(fc, "(reflect.Value).SetLen") {
			recv, a := callArgs(sl.Common())
			if _, isK := constInt(a[0]); isK {
				continue
			}
			if (recv == dst || sameOrigins(recv, dst)) && dominates(sl, cp) {
				sized = true
			}
		}
		c.obI("R16.2", cp, "in-place-copy-only-after-resizing", sized, "an in-place copy into the destination is preceded by SetLen(<length copied>) on that destination", "the destination is copied into without its length having been set: what it held beyond the output stays")
	}
	// the container that collects the parsed records of a Consume call starts EMPTY (whatever capacity it is given)
	for _, st := range fieldStores(fc, "rt.csvRecordsWriter", "records") {
		okE := isNilConst(st.Val)
		why := "value " + describe(st.Val)
		for _, o := range originsOf(st.Val) {
			if mk, isMk := o.V.(*ssa.MakeSlice); isMk {
				k, isK := constInt(mk.Len)
				okE = isK && k == 0
				if !okE {
					why = "the container is created with a non-zero LENGTH: it starts with that many empty records before the parsed ones"
				}
			}
		}
		c.obI("R16.2", st, "destination-container-starts-empty", okE, "the in-memory container a consumer pipes the parsed records into starts with length 0 (records delivered = records parsed)", why)
	}
	// bytes delivered into a []byte destination are this call's own storage: SetBytes is given the contents of a
	// buffer declared by this very call (a pooled or shared buffer is rewritten by the next call while the caller still
	// holds the earlier result)
	nSB := 0
	for _, sb := range callsIn(fc, "(reflect.Value).SetBytes") {
		_, a := callArgs(sb.Common())
		nSB++
		ok, bad := allOrigins(a[0], oCallWhere(-1, "(*bytes.Buffer).Bytes", func(b *ssa.Call) bool {
			okB, _ := allOrigins(b.Call.Args[0], func(o Origin) bool {
				al, isAl := o.V.(*ssa.Alloc)
				return isAl && al.Parent() == b.Parent() && typeStr(al.Type()) == "*bytes.Buffer"
			})
			return okB
		}))
		c.obI("R16.2", sb, "delivered-bytes-are-this-calls-own", ok, "the bytes stored into a []byte destination come from a buffer declared by this call", "the delivered bytes are the storage of "+describeOrigin(bad))
	}
	c.obRF("R16.2", fc, "delivers-bytes", nSB >= 1, "the consumer can deliver into a []byte destination", "")
	c.min("R16.2", 4)

	// R16.3 retention
	wr := p.Fn("(*rt.csvRecordsWriter).Write")
	rec := paramOf(wr, 0)
	nRet := 0
	for _, in := range instrs(wr) {
		call, ok := in.(*ssa.Call)
		if !ok || calleeName(&call.Call) != "builtin append" || typeStr(call.Type()) != "[][]string" {
			continue
		}
		nRet++
		elems, isLit := sliceLitElems(call.Call.Args[1])
		okC := isLit && len(elems) == 1
		if okC {
			okC = false
			for _, o := range originsOf(elems[0]) {
				if cp := asCall(o.V); cp != nil && calleeName(&cp.Call) == "builtin append" && cp.Call.Args[1] == ssa.Value(rec) {
					// append(<fresh>, record...)
					okC = freshSlice(cp.Call.Args[0], 0) || isNilConst(cp.Call.Args[0])
				}
				if o.V == ssa.Value(rec) {
					okC = false
					break
				}
			}
		}
		c.obI("R16.3", call, "record-retained-as-copy", okC, "a record handed to the in-memory container is retained only as a copy: with csv.Reader.ReuseRecord the reader reuses the backing array, so retaining the slice itself makes all delivered records alias the last one", "the record slice itself is retained")
	}
	c.obRF("R16.3", wr, "retains", nRet == 1, "the container retains records", "")
	// the same holds wherever the codec itself reads record by record: a record returned by Read is handed on (written)
	// or copied, never retained as it is
	for _, fn := range p.LibFuncs("rt") {
		for _, in := range instrs(fn) {
			call, ok := in.(*ssa.Call)
			if !ok {
				continue
			}
			n := calleeName(&call.Call)
			if n != "(*encoding/csv.Reader).Read" && n != "(rt.CSVReader).Read" {
				continue
			}
			rec0 := resultOf(call, 0)
			if rec0 == nil {
				continue
			}
			for _, in2 := range instrs(fn) {
				ap, ok := in2.(*ssa.Call)
				if !ok || calleeName(&ap.Call) != "builtin append" || typeStr(ap.Type()) != "[][]string" {
					continue
				}
				elems, isLit := sliceLitElems(ap.Call.Args[1])
				if !isLit {
					continue
				}
				for _, e := range elems {
					if e == rec0 {
						c.obI("R16.3", ap, "read-record-retained-as-copy", false, "a record returned by a reader's Read is never retained as it is (ReuseRecord lets the reader overwrite it on the next Read)", "the slice returned by Read is appended to a record table in "+fnName(fn))
					}
				}
			}
		}
	}

	// R16.4 errors, EOF, Flush/Error, pipe ends
	eofAbsorb := func(ev ssa.Value) EdgePred {
		return factBool(func(v ssa.Value) bool {
			call := asCall(v)
			if call == nil || calleeName(&call.Call) != "errors.Is" {
				return false
			}
			okE, _ := allOrigins(call.Call.Args[0], oIsValue(ev))
			isEOF := false
			if ad, ok := derefLoad(call.Call.Args[1]); ok {
				if g, isG := ad.(*ssa.Global); isG {
					isEOF = short(g.String()) == "io.EOF"
				}
			}
			return okE && isEOF
		}, true)
	}
	pc := p.Fn("rt.pipeCSV")
	bc := p.Fn("rt.bufferedCSV")
	checkErrorsReturnedX(c, "R16.4", pc, 0, nil, eofAbsorb)
	checkErrorsReturnedX(c, "R16.4", bc, 0, nil, eofAbsorb)
	checkErrorsReturned(c, "R16.4", fc, 0, nil)
	checkErrorsReturned(c, "R16.4", fp, 0, nil)
	for _, fn := range []*ssa.Function{pc, bc, fc, fp} {
		checkErrorNotOverwritten(c, "R16.4", fn, 0)
		checkDeferredErrAssign(c, "R16.4", fn)
	}
	// a failed parse delivers nothing: the consumer touches its destination (reflect mutators, stores through the
	// destination pointer) behind a pipe only once that pipe's error was seen to be nil
	for _, fn := range []*ssa.Function{fc} {
		for _, ci := range allCalls(fn) {
			call, isCall := ci.(*ssa.Call)
			if !isCall || call.Parent() != fn || calleeName(&call.Call) != "rt.pipeCSV" {
				continue
			}
			ev := errValueOf(call)
			if ev == nil {
				continue
			}
			isErr := func(v ssa.Value) bool {
				ok, _ := allOrigins(v, oIsValue(ev))
				return v == ev || ok
			}
			for _, mi := range allCalls(fn) {
				m, isC := mi.(*ssa.Call)
				if !isC || m.Parent() != fn {
					continue
				}
				n := calleeName(&m.Call)
				switch n {
				case "reflect.Copy", "(reflect.Value).Set", "(reflect.Value).SetLen", "(reflect.Value).SetCap", "(reflect.Value).Grow", "(reflect.Value).SetBytes", "(reflect.Value).SetString":
				default:
					continue
				}
				if pathExists(fn, call, m, factNil(isErr, true), nil) {
					c.obD("R16.4", m, "destination-untouched-by-a-failed-parse", false, "the destination is modified behind a pipe only after that pipe's error was seen to be nil (malformed input yields the parser's error, not the records parsed so far)", baseName(n)+" can run although pipeCSV ("+c.P.InstrPos(call)+") failed")
				}
			}
		}
	}
	// the piped path ends with Flush then Error
	flushes := callsIn(pc, "(rt.CSVWriter).Flush")
	errs := callsIn(pc, "(rt.CSVWriter).Error")
	okFE := len(flushes) == 1 && len(errs) == 1 && dominates(flushes[0], errs[0])
	if okFE {
		for _, r := range returnsOf(pc) {
			if pathExists(pc, flushes[0], r, nil, nil) {
				okR, _ := allOrigins(r.Results[0], oIsValue(errs[0].Value()))
				okFE = okFE && okR
			}
		}
		// end of input on the main loop reaches Flush (not a bare return nil)
		for _, r := range returnsOf(pc) {
			if !isNilConst(r.Results[0]) {
				continue
			}
			// constant-nil returns are allowed only while skipping header lines
			skipping := factLessConstGT(func(v ssa.Value) bool {
				if vFieldLoad("rt.csvOpts", "skippedLines", nil)(v) {
					return true
				}
				// the skip counter handed in as a plain int (parameter or the loop variable made from it)
				if !isIntegerType(v.Type()) {
					return false
				}
				ok, _ := allOrigins(v, func(o Origin) bool {
					if _, isP := o.V.(*ssa.Parameter); isP {
						return true
					}
					if bo, isB := o.V.(*ssa.BinOp); isB && bo.Op.String() == "-" {
						return true
					}
					return vFieldLoad("rt.csvOpts", "skippedLines", nil)(o.V)
				})
				return ok
			})
			okFE = okFE && guardedBy(r, nil, skipping)
		}
	}
	c.obF("R16.4", pc, "flush-then-error", okFE, "at the end of input the writer is flushed and its Error() is the result (a write error is not lost); a bare nil is returned only when the input ends within the skipped lines", "")
	// the copy ends only at the end of the input: after a Read, the final Flush is reached either through the Write of
	// that record (next round) or through "the error is io.EOF" — a nil record, an empty record or any other value of
	// the record never ends the copy (a nil record inside a table source does not cut the rest off)
	{
		isEOFGlobal := func(v ssa.Value) bool {
			ad, ok := derefLoad(v)
			if !ok {
				return false
			}
			gl, ok := ad.(*ssa.Global)
			return ok && short(gl.String()) == "io.EOF"
		}
		for _, rdi := range callsIn(pc, "(rt.CSVReader).Read") {
			rd, ok := rdi.(*ssa.Call)
			if !ok {
				continue
			}
			ev := resultOf(rd, 1)
			if ev == nil {
				continue
			}
			// (a variable that holds the error of whichever Read ran last: on a path from this Read that executes no
			// other Read — the search below cuts at every other one — it holds this Read's error)
			isEv := func(v ssa.Value) bool {
				if okV, _ := allOrigins(v, oIsValue(ev)); okV {
					return true
				}
				okAll, _ := allOrigins(v, oCall(1, "(rt.CSVReader).Read"))
				return okAll && someOrigin(v, oIsValue(ev))
			}
			atEOF := func(cond ssa.Value, branch bool) bool {
				cnd, b := stripNot(cond, branch)
				if call := asCall(cnd); call != nil && calleeName(&call.Call) == "errors.Is" && len(call.Call.Args) == 2 {
					return b && isEv(call.Call.Args[0]) && isEOFGlobal(call.Call.Args[1])
				}
				if bo, isBo := cnd.(*ssa.BinOp); isBo && (bo.Op == token.EQL || bo.Op == token.NEQ) {
					if (isEv(bo.X) && isEOFGlobal(bo.Y)) || (isEv(bo.Y) && isEOFGlobal(bo.X)) {
						return b == (bo.Op == token.EQL)
					}
				}
				return false
			}
			isWrite := isCallInstrTo("(rt.CSVWriter).Write")
			for _, fl := range callsIn(pc, "(rt.CSVWriter).Flush") {
				early := pathExists(pc, rd, fl, atEOF, func(in ssa.Instruction) bool {
					return isWrite(in) || (in != ssa.Instruction(rd) && isCallInstrTo("(rt.CSVReader).Read")(in))
				})
				c.obI("R16.4", rd, "copy-ends-only-at-EOF", !early, "after a record was read, the end of the copy (Flush) is reached only through writing it and reading on, or through the reader's io.EOF", "the copy can end after a Read that did not report io.EOF (the remaining records are silently dropped)")
			}
		}
	}
	// records are written in order: every record read in the main loop is written
	for _, w := range callsIn(pc, "(rt.CSVWriter).Write") {
		_, a := callArgs(w.Common())
		okW, _ := allOrigins(a[0], oCall(0, "(rt.CSVReader).Read"))
		c.obI("R16.4", w, "writes-what-was-read", okW, "every record read is handed to the writer unchanged", "")
		// … and none is passed over: from a successful Read of the copy loop, the next Read is reached only through Write
		// (no record — an empty one, a single empty field — is judged not worth copying)
		for _, o := range originsOf(a[0]) {
			rd, isRd := o.V.(*ssa.Call)
			if !isRd || rd.Parent() != pc {
				continue
			}
			readFailed := factNil(vIs(resultOf(rd, 1)), false)
			// (one fused loop: the leading lines to skip are dropped while a counter taken from the skipped-lines option is
			// still positive — the only records that may go unwritten)
			isSkipCounter := func(v ssa.Value) bool {
				seenC := map[ssa.Value]bool{}
				var okC func(x ssa.Value, d int) bool
				okC = func(x ssa.Value, d int) bool {
					if seenC[x] {
						return true
					}
					seenC[x] = true
					if d > 6 {
						return false
					}
					switch y := x.(type) {
					case *ssa.Phi:
						for _, e := range y.Edges {
							if !okC(e, d+1) {
								return false
							}
						}
						return true
					case *ssa.BinOp:
						if k, isK := constInt(y.Y); isK && k == 1 && y.Op == token.SUB {
							return okC(y.X, d+1)
						}
						return false
					}
					okF, _ := allOrigins(x, oFieldLoad("rt.csvOpts", "skippedLines", nil))
					return okF
				}
				return okC(v, 0)
			}
			stillSkipping := factLessConstGT(isSkipCounter)
			skipped := pathExists(pc, rd, rd, anyFact(readFailed, stillSkipping), isOneOf(w))
			c.obI("R16.4", rd, "every-record-read-is-written", !skipped, "in the copy loop the next record is read only after the one just read was written: no record is skipped", "a record that was read can be dropped without being written")
		}
	}
	// WriterTo branch: pipe ends closed on every exit; Wait's error returned
	gos := callsIn(fp, "(*golang.org/x/sync/errgroup.Group).Go")
	waits := callsIn(fp, "(*golang.org/x/sync/errgroup.Group).Wait")
	c.obRF("R16.4", fp, "writerto-pipeline", len(gos) == 2 && len(waits) == 1, "the WriterTo source is piped through two goroutines that are waited for", fmt.Sprintf("%d Go, %d Wait", len(gos), len(waits)))
	for _, g := range gos {
		_, a := callArgs(g.Common())
		mc, ok := a[0].(*ssa.MakeClosure)
		if !ok {
			continue
		}
		gf := mc.Fn.(*ssa.Function)
		isWriterSide := len(callsIn(gf, "(io.WriterTo).WriteTo")) == 1
		closeName := "(*io.PipeReader).Close"
		if isWriterSide {
			closeName = "(*io.PipeWriter).Close"
		}
		okClose := false
		// either a deferred closure/Close, or a Close call on every path to every return
		for _, d := range defersIn(gf) {
			if dmc, isMC := d.Call.Value.(*ssa.MakeClosure); isMC {
				df := dmc.Fn.(*ssa.Function)
				if len(callsIn(df, closeName, strings.TrimSuffix(closeName, "Close")+"CloseWithError")) >= 1 && dominatesAllRealReturns(gf, d) {
					okClose = true
				}
			} else if n := calleeName(&d.Call); (n == closeName || n == strings.TrimSuffix(closeName, "Close")+"CloseWithError") && dominatesAllRealReturns(gf, d) {
				okClose = true
			}
		}
		if !okClose {
			cls := callsIn(gf, closeName, strings.TrimSuffix(closeName, "Close")+"CloseWithError")
			okClose = len(cls) >= 1
			for _, r := range realReturns(gf) {
				if pathExists(gf, nil, r, nil, isOneOf(toInstrs(cls)...)) {
					okClose = false
				}
			}
		}
		side := "reading"
		if isWriterSide {
			side = "writing"
		}
		c.obF("R16.4", gf, "pipe-end-closed-on-every-exit", okClose, "the "+side+" goroutine closes its end of the pipe on every exit (otherwise the peer blocks forever: malformed input would hang instead of yielding the parser's error)", "an exit leaves the pipe end open")
		// its error is returned
		for _, r := range realReturns(gf) {
			v := resOf(r, 0)
			okE := false
			for _, o := range originsOf(v) {
				if call := asCall(o.V); call != nil {
					n := calleeName(&call.Call)
					okE = n == "(io.WriterTo).WriteTo" || n == "rt.pipeCSV"
				}
			}
			c.obI("R16.4", r, "goroutine-returns-its-error", okE, "the goroutine returns the error of its copy step", "")
		}
	}
	for _, w := range waits {
		for _, r := range realReturns(fp) {
			if pathExists(fp, w, r, nil, nil) {
				okW, _ := allOrigins(resOf(r, 0), oIsValue(w.Value()))
				c.obI("R16.4", r, "wait-error-returned", okW, "the pipeline's error is what Produce returns", "")
			}
		}
	}
	// an in-memory source ([]byte, string, marshaler output) is parsed from its full content, by the same CSV parser as
	// every other source: the reader is built over exactly the bytes the source holds (lines skipped by raw text
	// surgery are counted in physical lines, not in records: quoted newlines, comments and blank lines differ)
	for _, ci := range callsIn(fp, "bytes.NewBuffer", "bytes.NewBufferString", "bytes.NewReader", "strings.NewReader") {
		a := ci.Common().Args
		if len(a) != 1 {
			continue
		}
		ok, bad := allOrigins(a[0], oCall(-1, "(reflect.Value).Bytes", "(reflect.Value).String"), func(o Origin) bool {
			call := asCall(o.V)
			return call != nil && call.Call.IsInvoke() && (call.Call.Method.Name() == "MarshalBinary" || call.Call.Method.Name() == "MarshalText")
		})
		c.obI("R16.4", ci, "in-memory-source-parsed-whole", ok, "the CSV reader over an in-memory source reads exactly the source's bytes (v.Bytes(), v.String(), the marshaler's output)", "the reader is built over "+describeOrigin(bad))
	}
	c.min("R16.4", 20)

	// R16.5
	n := 0
	for _, f := range []*ssa.Function{fc, fp} {
		n += ruleReflectValidity(c, "R16.5", f)
		for i, prm := range f.Params {
			nUse, okAll := 0, true
			for _, ci := range allCalls(f) {
				uses := false
				for _, a := range ci.Common().Args {
					if a == ssa.Value(prm) {
						uses = true
					}
				}
				if ci.Common().IsInvoke() && ci.Common().Value == ssa.Value(prm) {
					uses = true
				}
				if !uses {
					continue
				}
				nUse++
				if !guardedBy(ci, nil, factNil(vIs(prm), false)) {
					okAll = false
				}
			}
			c.obF("R16.5", f, fmt.Sprintf("nil-param-%d-refused", i), okAll && nUse > 0, "a nil "+prm.Name()+" is refused with an error before it is used", "")
		}
	}
	c.obRF("R16.5", fc, "reflect-sites", n >= 6, "reflective uses after Indirect are enumerated", fmt.Sprintf("%d", n))
}

// typeSwitchValue returns the value bound by a type-switch case `case T:` (the Extract #0 of a comma-ok assertion, or
// the assertion itself).
func typeSwitchValue(ta *ssa.TypeAssert) ssa.Value {
	if ta.CommaOk {
		return extractOf(ta, 0)
	}
	return ta
}

func dominatesAllRealReturns(f *ssa.Function, in ssa.Instruction) bool {
	for _, r := range realReturns(f) {
		if pathExists(f, nil, r, nil, isOneOf(in)) {
			return false
		}
	}
	return true
}

// factLessConstGT: the edge establishes v > 0 (the skip counter still positive).
func factLessConstGT(m VPred) EdgePred {
	return func(cond ssa.Value, branch bool) bool {
		c, b := stripNot(cond, branch)
		bo, ok := c.(*ssa.BinOp)
		if !ok {
			return false
		}
		// counting up instead of down: `i < skippedLines` (the bound is the skip count)
		if _, isK := constInt(bo.Y); !isK && m(bo.Y) && isIntegerType(bo.X.Type()) {
			switch bo.Op.String() {
			case "<":
				return b
			case ">=":
				return !b
			}
			return false
		}
		if !m(bo.X) {
			return false
		}
		k, ok := constInt(bo.Y)
		if !ok || k != 0 {
			return false
		}
		switch bo.Op.String() {
		case ">":
			return b
		case "<=":
			return !b
		}
		return false
	}
}
