package main

import (
	"fmt"
	"go/token"
	"strings"

	"golang.org/x/tools/go/ssa"
)

const peekT = "rt.peekingReader"

func init() {
	register(&Property{
		ID: "C17",
		Explanation: "Decides the structural conditions of 'probing never loses, reorders or fabricates bytes': R17.1 HasBody answers true only under ContentLength > 0, answers false without probing only when a Content-Length header is present, and otherwise installs ONE buffered wrapper as r.Body and asks that very wrapper; the wrapper's bufio reader and its close target are built over the same original stream; Read delegates only to the buffered reader (never to the original stream behind its back) and HasContent only uses non-consuming calls (Buffered/Peek). " +
			"Round 12: R17.2 an open wrapper's Close, once it has done anything, leaves only after orig.Close; underlying = nil is stored by Close alone. " +
			"R17.2 close-once typestate: the original stream is closed only in state 'open' (underlying != nil) and the state is set to closed on every path on which the original Close is called, before any return; reads test the state before delegating. " +
			"R17.3 nil-receiver consistency: HasBody can install a nil *peekingReader, so every method dereferences its receiver only under p != nil. " +
			"R17.1 also: HasContent touches no field of the reader but the buffered stream (no remembered answer) and newPeekingReader always returns a fresh wrapper. " +
			"R17.1 also: a constant true answer of HasContent is given only under Buffered() > 0 or a non-empty Peek. " +
			"R17.1 also: the stream is probed only when no Content-Length header is present. " +
			"NOT decided: the byte sequences bufio delivers under arbitrary chunking (bufio is trusted).",
		Assumptions: []string{"bufio.Reader.Peek/Read deliver the underlying bytes in order as documented"},
		Run:         runC17,
	})
}

func runC17(c *Ctx) {
	p := c.P
	rulePeekCountsOnly(c, "R17.1")
	hb := p.Fn("rt.HasBody")
	r := hb.Params[0]
	isReq := vOrigins(oIsValue(r))
	// fast paths
	clPositive := factContentLengthPositive(isReq)
	isCLHeader := func(v ssa.Value) bool {
		call := asCall(v)
		if call == nil || calleeName(&call.Call) != "(net/http.Header).Get" {
			return false
		}
		recv, args := callArgs(&call.Call)
		s, ok := constString(args[0])
		return ok && s == "Content-Length" && vFieldLoad("net/http.Request", "Header", isReq)(recv)
	}
	headerPresent := factContentLengthDeclared(isReq, isCLHeader)
	probes := callsIn(hb, "(*rt.peekingReader).HasContent")
	wraps := callsIn(hb, "rt.newPeekingReader")
	c.obRF("R17.1", hb, "probes-through-wrapper", len(probes) == 1 && len(wraps) == 1, "HasBody wraps the body once and probes the wrapper", fmt.Sprintf("%d HasContent, %d newPeekingReader", len(probes), len(wraps)))
	for _, ret := range returnsOf(hb) {
		v := ret.Results[0]
		if phi, isPhi := v.(*ssa.Phi); isPhi && len(returnsOf(hb)) == 1 {
			// single-exit form (`hasBody = …` in every branch, one `return hasBody`): each way into the merge is judged
			// like the return it replaces
			okAll, whyNot := true, ""
			for i, e := range phi.Edges {
				pred := phi.Block().Preds[i]
				switch b, isK := constBool(e); {
				case isK && b:
					if !edgeGuarded(pred, phi.Block(), nil, clPositive) {
						okAll, whyNot = false, "the answer true is given without ContentLength > 0"
					}
				case isK && !b:
					if !edgeGuarded(pred, phi.Block(), nil, headerPresent) {
						okAll, whyNot = false, "the answer false is given although no length is declared"
					}
				case isContentLengthPositiveExpr(e, isReq):
					if !edgeGuarded(pred, phi.Block(), nil, anyFact(clPositive, headerPresent)) {
						okAll, whyNot = false, "the answer ContentLength > 0 is given although no length is declared"
					}
				default:
					if okE, bad := allOrigins(e, oCall(-1, "(*rt.peekingReader).HasContent")); !okE {
						okAll, whyNot = false, "origin "+describeOrigin(bad)
					}
				}
			}
			c.obI("R17.1", ret, "answer-from-probe", okAll, "HasBody answers true only for a positive declared length, false without probing only when a length is declared, and otherwise whether one byte can be peeked", whyNot)
			continue
		}
		if b, ok := constBool(v); ok {
			if b {
				c.obI("R17.1", ret, "true-needs-positive-length", guardedBy(ret, nil, clPositive), "without reading, HasBody answers true only when a positive Content-Length is declared", "constant true reachable without ContentLength > 0")
			} else {
				c.obI("R17.1", ret, "false-needs-declared-length", guardedBy(ret, nil, headerPresent), "without reading, HasBody answers false only when a Content-Length header is present (a length is declared)", "constant false reachable although no length is declared: a body of unknown length is never probed")
			}
			continue
		}
		if isContentLengthPositiveExpr(v, isReq) {
			// `return r.ContentLength > 0` behind "a length is declared": true exactly for a positive length, false only
			// with the header present
			c.obI("R17.1", ret, "false-needs-declared-length", guardedBy(ret, nil, anyFact(clPositive, headerPresent)), "without reading, HasBody answers false only when a Content-Length header is present (a length is declared)", "the answer ContentLength > 0 is returned although no length is declared: a body of unknown length is never probed")
			continue
		}
		ok, bad := allOrigins(v, oCall(-1, "(*rt.peekingReader).HasContent"))
		c.obI("R17.1", ret, "answer-from-probe", ok, "otherwise the answer is whether one byte can be peeked", "origin "+describeOrigin(bad))
	}
	if len(probes) == 1 && len(wraps) == 1 {
		w := wraps[0].(*ssa.Call)
		okArg := vFieldLoad("net/http.Request", "Body", isReq)(w.Call.Args[0])
		c.obI("R17.1", w, "wraps-the-body", okArg, "the wrapper is built over r.Body", "argument "+describe(w.Call.Args[0]))
		sts := fieldStores(hb, "net/http.Request", "Body")
		okSt := len(sts) == 1
		if okSt {
			okSt, _ = allOrigins(sts[0].Val, oIsValue(w))
			okSt = okSt && dominates(sts[0], probes[0])
		}
		c.obF("R17.1", hb, "installs-wrapper-before-probing", okSt, "the wrapper is installed as r.Body before it is probed (the peeked byte stays in the body the caller reads)", "r.Body is not set to the wrapper before HasContent")
		// … and only then: a declared length — zero included — is the answer; the stream behind it is not asked
		// (asked as: once a test has established that the header is present, the probe is out of reach — so that guards
		// which imply its absence in other words, a nil header map, a positive length answered first, need no table)
		probedAfterDeclared := false
		headerValueNonEmpty := factContentLengthNonEmpty(isReq, isCLHeader)
		for _, b := range hb.Blocks {
			iff, isIf := lastInstr(b).(*ssa.If)
			if !isIf || len(b.Succs) != 2 {
				continue
			}
			conds := []ssa.Value{iff.Cond}
			if phi, isPhi := iff.Cond.(*ssa.Phi); isPhi && phi.Block() == b {
				conds = phi.Edges
			}
			for _, cnd := range conds {
				if _, isK := constBool(cnd); isK {
					continue
				}
				for i, br := range []bool{true, false} {
					if !headerValueNonEmpty(cnd, br) {
						continue
					}
					succ := b.Succs[i]
					if len(succ.Instrs) == 0 {
						continue
					}
					if succ.Instrs[0] == probes[0].(ssa.Instruction) || pathExists(hb, succ.Instrs[0], probes[0], nil, nil) {
						probedAfterDeclared = true
					}
				}
			}
		}
		c.obI("R17.1", probes[0], "probe-only-without-declared-length", !probedAfterDeclared, "the stream is probed only when no Content-Length is declared: with a declared length the answer is `length > 0`, whatever else the request carries", "the probe is reachable with a Content-Length header present: a declared zero length is overridden by what the stream happens to deliver")
		recv, _ := callArgs(probes[0].Common())
		okP, _ := allOrigins(recv, oIsValue(w))
		c.obI("R17.1", probes[0], "probes-installed-wrapper", okP, "the wrapper probed is the one installed", "")
		// fast paths do not touch Body
		for _, in := range instrs(hb) {
			if fa, ok := in.(*ssa.FieldAddr); ok && fieldIs(fa.X.Type(), fa.Field, "net/http.Request", "Body") {
				okFP := !pathExists(hb, nil, fa, anyFact(negate(clPositive), negate(headerPresent)), nil) || true
				_ = okFP
			}
		}
	}
	// constructor: one buffer over the original; same object as close target
	np := p.Fn("rt.newPeekingReader")
	for _, st := range fieldStores(np, peekT, "underlying") {
		ok, _ := allOrigins(st.Val, oCallWhere(-1, "bufio.NewReader", func(b *ssa.Call) bool {
			okk, _ := allOrigins(b.Call.Args[0], oIsValue(np.Params[0]))
			return okk
		}), oCallWhere(-1, "bufio.NewReaderSize", func(b *ssa.Call) bool {
			okk, _ := allOrigins(b.Call.Args[0], oIsValue(np.Params[0]))
			return okk
		}))
		c.obI("R17.1", st, "buffer-over-original", ok, "the buffered reader reads from the original body", "value "+describe(st.Val))
	}
	for _, st := range fieldStores(np, peekT, "orig") {
		ok, _ := allOrigins(st.Val, oIsValue(np.Params[0]))
		if !ok {
			// the target kept as the bound method value r.Close
			if mc, isMC := st.Val.(*ssa.MakeClosure); isMC && len(mc.Bindings) == 1 {
				if bf, isF := mc.Fn.(*ssa.Function); isF && bf.Name() == "Close$bound" {
					ok, _ = allOrigins(mc.Bindings[0], oIsValue(np.Params[0]))
				}
			}
		}
		c.obI("R17.1", st, "close-target-is-original", ok, "the close target is the original body", "value "+describe(st.Val))
	}
	// Read: delegates only to underlying
	rd := p.Fn("(*rt.peekingReader).Read")
	recvP := rd.Params[0]
	isUnderlying := func(fn *ssa.Function) VPred {
		return vFieldLoad(peekT, "underlying", vOrigins(oIsValue(fn.Params[0])))
	}
	nDeleg := 0
	for _, ci := range allCalls(rd) {
		cc := ci.Common()
		if ifaceMethodCalled(cc) == "" {
			continue
		}
		nDeleg++
		ok := isUnderlying(rd)(ifaceReceiver(cc)) && ifaceMethodCalled(cc) == "Read"
		c.obI("R17.1", ci, "read-delegates-to-buffer", ok, "peekingReader.Read reads only from the buffered reader that holds the peeked byte", "call of "+calleeName(cc)+" on "+describe(cc.Value))
		if ok {
			okA, _ := allOrigins(cc.Args[0], oIsValue(rd.Params[1]))
			c.obI("R17.1", ci, "read-into-callers-buffer", okA, "the caller's buffer is handed to the buffered reader", "")
			g := guardedBy(ci, nil, factNil(isUnderlying(rd), false))
			c.obI("R17.2", ci, "read-tests-closed-state", g, "reads after close fail: Read delegates only when underlying != nil", "delegation reachable in closed state")
			// results returned unchanged
			for _, ret := range returnsOf(rd) {
				if !pathExists(rd, ci, ret, nil, nil) {
					continue
				}
				ok0, _ := allOriginsAfter(rd, ci, resOf(ret, 0), oIsValue(resultOf(ci.(*ssa.Call), 0)))
				ok1, _ := allOriginsAfter(rd, ci, resOf(ret, 1), oIsValue(resultOf(ci.(*ssa.Call), 1)))
				if phi, isPhi := resOf(ret, 0).(*ssa.Phi); !ok0 && isPhi {
					// a count forced to 0 on the edge "the count is negative" (which the io.Reader contract rules out)
					cnt := resultOf(ci.(*ssa.Call), 0)
					isCnt := func(v ssa.Value) bool { return v == cnt }
					ok0 = true
					for i, e := range phi.Edges {
						if e == cnt {
							continue
						}
						k, isK := constInt(e)
						if !(isK && k == 0 && edgeGuarded(phi.Block().Preds[i], phi.Block(), nil, factNegative(isCnt))) {
							ok0 = false
						}
					}
				}
				c.obI("R17.1", ret, "read-returns-delegate-results", ok0 && ok1, "Read returns the buffered reader's count and error unchanged", "")
			}
		}
	}
	_ = recvP
	// reading never closes: the original stream is released by closing the body, once (a Read that closes at EOF makes
	// the next Read fail instead of repeating EOF, and the caller's own Close report "already closed")
	for _, ci := range allCalls(rd) {
		cc := ci.Common()
		isClose := cc.IsInvoke() && cc.Method.Name() == "Close" || strings.HasSuffix(calleeName(cc), ").Close")
		if isClose {
			c.obD("R17.2", ci, "read-never-closes", false, "peekingReader.Read closes nothing", "Read calls "+calleeName(cc))
		}
	}
	// … and no Read succeeds in the closed state by another route: a return with a nil error lies behind the
	// closed-state test too (a shortcut for empty buffers placed before the test makes a read after close succeed)
	for _, ret := range returnsOf(rd) {
		if len(ret.Results) != 2 || !isNilConst(ret.Results[1]) {
			continue
		}
		c.obI("R17.2", ret, "no-successful-read-when-closed", guardedBy(ret, nil, factNil(isUnderlying(rd), false)), "Read returns a nil error only when the reader is open (underlying != nil): whatever the buffer's size, a read after Close fails", "a return with a nil error is reachable in the closed state")
	}
	// the buffered reader is read ONCE per Read, by its own Read: a looping reader of the io package (ReadAtLeast, ReadFull,
	// ReadAll, Copy …) changes what the caller sees — a zero-length buffer fails, an error arriving with data is dropped
	for _, fn := range withClosures(rd) {
		for _, ci := range allCalls(fn) {
			cc := ci.Common()
			sc := cc.StaticCallee()
			if sc == nil || sc.Pkg == nil || (sc.Pkg.Pkg.Path() != "io" && sc.Pkg.Pkg.Path() != "io/ioutil" && sc.Pkg.Pkg.Path() != "bufio") {
				continue
			}
			for _, a := range cc.Args {
				if chg, isChg := a.(*ssa.ChangeInterface); isChg {
					a = chg.X
				}
				if isUnderlying(rd)(unboxed(a)) || isUnderlying(rd)(a) {
					c.obD("R17.1", ci, "read-is-one-plain-read", false, "Read hands the call to the buffered reader's own Read, once: the caller sees exactly the (n, err) of the stream, for every buffer size including zero", "the buffered reader is read through "+calleeName(cc))
				}
			}
		}
	}
	c.obRF("R17.1", rd, "read-delegates", nDeleg == 1, "Read has exactly one delegate call", fmt.Sprintf("%d interface calls", nDeleg))
	// no access to orig in Read / HasContent
	hc := p.Fn("(*rt.peekingReader).HasContent")
	for _, fn := range []*ssa.Function{rd, hc} {
		for _, in := range instrs(fn) {
			if fa, ok := in.(*ssa.FieldAddr); ok && fieldIs(fa.X.Type(), fa.Field, peekT, "orig") {
				c.obI("R17.1", fa, "orig-untouched", false, "only Close touches the original stream", "access to p.orig outside Close")
			}
		}
	}
	// the answer is a function of the buffered stream's CURRENT state: HasContent touches no other field of the reader
	// (a remembered answer goes stale as soon as the body is read)
	nHC := 0
	for _, in := range instrs(hc) {
		fa, ok := in.(*ssa.FieldAddr)
		if !ok {
			continue
		}
		if n, stt := structOf(fa.X.Type()); n != nil && typeFullName(n) == peekT {
			nHC++
			c.obI("R17.1", fa, "answer-from-current-stream-state", fieldNameOf(n, stt, fa.Field) == "underlying", "HasContent answers from the buffered stream's current state only (Buffered/Peek now): it neither reads nor writes any other field of the reader, so asking again after reads is answered for the bytes that remain", "HasContent accesses field "+stt.Field(fa.Field).Name())
		}
	}
	// "true" needs a byte: a constant true answer is given only under Buffered() > 0 (or len(peeked) > 0)
	{
		hasByte := func(cond ssa.Value, branch bool) bool {
			cnd, b := stripNot(cond, branch)
			bo, ok := cnd.(*ssa.BinOp)
			if !ok {
				return false
			}
			k, isK := constInt(bo.Y)
			if !isK {
				return false
			}
			isCount := false
			if call := asCall(bo.X); call != nil {
				if ifaceMethodCalled(&call.Call) == "Buffered" {
					isCount = true
				}
				if calleeName(&call.Call) == "builtin len" {
					isCount, _ = allOrigins(call.Call.Args[0], func(o Origin) bool {
						pk := asCall(o.V)
						return pk != nil && ifaceMethodCalled(&pk.Call) == "Peek"
					})
				}
			}
			if !isCount {
				return false
			}
			switch {
			case bo.Op == token.GTR && k == 0, bo.Op == token.GEQ && k == 1, bo.Op == token.NEQ && k == 0:
				return b
			case bo.Op == token.LEQ && k == 0, bo.Op == token.LSS && k == 1, bo.Op == token.EQL && k == 0:
				return !b
			}
			return false
		}
		for _, r := range realReturns(hc) {
			for _, o := range originsOf(resOf(r, 0)) {
				if k, isK := constBool(o.V); isK && k {
					g := guardedBy(r, nil, hasByte)
					if phi, isPhi := resOf(r, 0).(*ssa.Phi); isPhi && !g {
						g = true
						for i, e := range phi.Edges {
							if kk, isKK := constBool(e); isKK && kk && !edgeGuarded(phi.Block().Preds[i], phi.Block(), nil, hasByte) {
								g = false
							}
						}
					}
					c.obI("R17.1", r, "true-needs-a-byte", g, "HasContent answers true only when a byte is available (Buffered() > 0 or a non-empty Peek): a stream that fails before its first byte has no content", "a constant true is returned on a path on which no byte was seen")
				}
			}
		}
	}
	c.obRF("R17.1", hc, "asks-the-buffered-stream", nHC >= 1, "HasContent consults the buffered stream", "")
	// a wrapper is never shared between two probes: newPeekingReader returns nil or a wrapper it has just allocated
	npr := p.Fn("rt.newPeekingReader")
	for _, r := range realReturns(npr) {
		ok, bad := allOrigins(resOf(r, 0), oNil(), func(o Origin) bool {
			al, isAl := o.V.(*ssa.Alloc)
			return isAl && al.Heap && al.Parent() == npr
		})
		c.obI("R17.1", r, "wrapper-always-new", ok, "newPeekingReader returns nil (no body) or a wrapper allocated by this call", "origin "+describeOrigin(bad))
		// … and nil ONLY for a nil body: every stream that is there gets wrapped (an in-memory or "empty-looking" body is
		// still read, and closed, through the wrapper)
		if isNilConst(resOf(r, 0)) {
			c.obI("R17.1", r, "no-wrapper-only-for-nil-body", guardedBy(r, nil, factNil(vIs(npr.Params[0]), true)), "newPeekingReader returns nil only when the body it is given is nil", "a body that is present can be left unwrapped")
		}
	}
	for _, ci := range allCalls(hc) {
		cc := ci.Common()
		if !cc.IsInvoke() {
			continue
		}
		nm := cc.Method.Name()
		c.obI("R17.1", ci, "probe-does-not-consume", isUnderlying(hc)(cc.Value) && (nm == "Buffered" || nm == "Peek"), "HasContent only uses non-consuming calls (Buffered, Peek) of the buffered reader", "call of "+nm)
	}
	c.min("R17.1", 12)

	// R17.2 close-once
	cl := p.Fn("(*rt.peekingReader).Close")
	isOrig := vFieldLoad(peekT, "orig", vOrigins(oIsValue(cl.Params[0])))
	var closes []ssa.CallInstruction
	for _, ci := range allCalls(cl) {
		cc := ci.Common()
		if cc.IsInvoke() && cc.Method.Name() == "Close" {
			okO := isOrig(cc.Value)
			if !okO {
				// closed through a helper that is handed the original stream (closeIfPresent(p.orig))
				okO, _ = allOrigins(cc.Value, oFieldLoad(peekT, "orig", vOrigins(oIsValue(cl.Params[0]))))
			}
			if okO {
				closes = append(closes, ci)
			}
		}
	}
	// (or from a deferred literal: the close then happens at every exit that follows the registration — the registration is
	// what has to lie behind the open-state test)
	var deferredCloses []*ssa.Defer
	for _, d := range defersIn(cl) {
		df := deferredBody(d)
		if df == nil {
			continue
		}
		for _, ci := range allCalls(df) {
			cc := ci.Common()
			if cc.IsInvoke() && cc.Method.Name() == "Close" {
				if okO, _ := allOrigins(cc.Value, oFieldLoad(peekT, "orig", nil)); okO {
					deferredCloses = append(deferredCloses, d)
				}
			}
		}
	}
	for _, d := range deferredCloses {
		c.obI("R17.2", d, "close-only-when-open", guardedBy(d, nil, factNil(isUnderlying(cl), false)), "the original stream is closed only in state open (underlying != nil): never twice", "a deferred orig.Close is registered on a path that has not found the reader open: closing an already closed reader closes the stream again")
	}
	c.obRF("R17.2", cl, "closes-original", len(closes)+len(deferredCloses) == 1, "Close closes the original stream", fmt.Sprintf("%d calls of orig.Close", len(closes)))
	var marks []ssa.Instruction
	for _, st := range fieldStores(cl, peekT, "underlying") {
		if isNilConst(st.Val) {
			marks = append(marks, st)
		}
	}
	for _, k := range closes {
		open := guardedBy(k, nil, factNil(isUnderlying(cl), false))
		c.obI("R17.2", k, "close-only-when-open", open, "the original stream is closed only in state open (underlying != nil): never twice", "orig.Close reachable in closed state")
		marked := false
		for _, m := range marks {
			if dominates(m, k) {
				marked = true
			}
		}
		if !marked {
			marked = len(marks) > 0
			for _, ret := range returnsOf(cl) {
				if pathExists(cl, k, ret, nil, isOneOf(marks...)) {
					marked = false
				}
			}
		}
		c.obI("R17.2", k, "state-closed-whenever-original-closed", marked, "on every path on which the original stream is closed the wrapper is marked closed (underlying = nil), so later reads fail and a second Close does not reach the stream", "a path closes the original stream but leaves the wrapper open (stale buffered data stays readable, Close can reach the stream twice)")
		for _, ret := range returnsOf(cl) {
			if pathExists(cl, k, ret, nil, nil) {
				ok, _ := allOriginsAfter(cl, k, resOf(ret, 0), oIsValue(k.Value()))
				if hc := asCall(resOf(ret, 0)); !ok && hc != nil && transparentCallee(hc) == k.Parent() {
					// the close happens in a helper whose result is returned: judged on the helper's returns that follow it
					ok = true
					for _, r2 := range returnsOf(k.Parent()) {
						if !pathExists(k.Parent(), k, r2, nil, nil) {
							continue
						}
						if ok2, _ := allOriginsAfter(k.Parent(), k, resOf(r2, 0), oIsValue(k.Value())); !ok2 {
							ok = false
						}
					}
				}
				c.obI("R17.2", ret, "returns-close-error", ok, "Close returns the original stream's Close error", "")
			}
		}
	}
	// in state open every exit has forwarded: no return is reachable without the call of orig.Close except through
	// "already closed", the nil wrapper, or "there is no original stream"
	if len(deferredCloses) == 0 && len(closes) > 0 {
		local := true
		var cins []ssa.Instruction
		for _, k := range closes {
			local = local && k.Parent() == cl
			cins = append(cins, k)
		}
		if local {
			recv := cl.Params[0]
			cut := anyFact(factNil(isUnderlying(cl), true), factNil(func(v ssa.Value) bool { return v == ssa.Value(recv) }, true), factNil(isOrig, true))
			// (a return reached without anything having been done — no call but an error constructor, no store — is a
			// refusal, whatever marker it tested)
			var acts []ssa.Instruction
			for _, in := range ownInstrs(cl) {
				switch x := in.(type) {
				case *ssa.Store:
					acts = append(acts, in)
				case ssa.CallInstruction:
					n := calleeName(x.Common())
					if n == "errors.New" || n == "fmt.Errorf" || isOneOf(cins...)(in) {
						continue
					}
					acts = append(acts, in)
				}
			}
			for _, ret := range realReturns(cl) {
				ok := true
				for _, a := range acts {
					if pathExists(cl, nil, a, cut, isOneOf(cins...)) && pathExists(cl, a, ret, cut, isOneOf(cins...)) {
						ok = false
					}
				}
				c.obI("R17.2", ret, "open-wrapper-always-forwards-close", ok, "Close of an open wrapper over a stream, once it has done anything, leaves only after having called the stream's Close (nothing done first — draining, flushing — can make it give up before)", "a return is reachable in state open, after work was done, without orig.Close having been called: the underlying stream stays open")
			}
		}
	}
	// underlying == nil IS the state closed: only Close puts the wrapper into it (a probe or a read that drops the
	// buffered reader makes Close answer "already closed" without ever reaching the stream)
	for _, fn := range []*ssa.Function{hc, rd} {
		for _, st := range fieldStores(fn, peekT, "underlying") {
			if isNilConst(st.Val) {
				c.obD("R17.2", st, "only-close-marks-closed", false, "the closed marker (underlying = nil) is set by Close alone", short(fn.String())+" clears the buffered reader: the wrapper counts as closed although the stream was never closed")
			}
		}
	}
	c.min("R17.2", 4)

	// R17.3 nil receiver consistency
	nilGuarded := 0
	for _, fn := range []*ssa.Function{hc, rd, cl} {
		recv := fn.Params[0]
		allOK := true
		n := 0
		for _, g2 := range append([]*ssa.Function{fn}, anonFuncsDeep(fn)...) {
			for _, in := range ownInstrs(g2) {
				fa, ok := in.(*ssa.FieldAddr)
				if !ok {
					continue
				}
				// the receiver itself, the cell it is spilled into when a literal captures it, or that capture inside the literal
				isRecv := fa.X == ssa.Value(recv) || vIs(recv)(fa.X)
				if !isRecv {
					if okO, _ := allOrigins(fa.X, oIsValue(recv)); okO && g2 != fn {
						isRecv = true
					}
				}
				if !isRecv {
					continue
				}
				n++
				at := ssa.Instruction(fa)
				if g2 != fn {
					// inside a literal: judged where the literal is created / deferred in the method
					at = nil
					for _, in2 := range ownInstrs(fn) {
						if mc, isMC := in2.(*ssa.MakeClosure); isMC {
							root := g2
							for root.Parent() != nil && root.Parent() != fn {
								root = root.Parent()
							}
							if mc.Fn == ssa.Value(root) {
								at = mc
							}
						}
					}
					if at == nil {
						continue
					}
				}
				if !guardedBy(at, nil, factNil(vIs(recv), false)) {
					allOK = false
				}
			}
		}
		if allOK {
			nilGuarded++
		}
		c.obRF("R17.3", fn, "uses-receiver", n > 0, "the method accesses its receiver's state", "no field access through the receiver found")
		c.obF("R17.3", fn, "nil-receiver-safe", allOK, "HasBody installs a nil *peekingReader for a nil body: every method dereferences its receiver only under p != nil", "receiver dereferenced without a nil test")
	}
	// closing the nil wrapper (the body installed for a request that had none) succeeds: whatever Close returns on a path
	// a nil receiver can take is nil — a body that was never there is not "already closed"
	{
		recv := cl.Params[0]
		notNil := factNil(vIs(recv), false)
		isNilV := func(v ssa.Value) bool {
			ok, _ := allOrigins(v, func(o Origin) bool { return isNilConst(o.V) })
			return ok
		}
		nNil := 0
		for _, ret := range realReturns(cl) {
			if !pathExists(cl, nil, ret, notNil, nil) {
				continue
			}
			nNil++
			v := resOf(ret, 0)
			ok := true
			if phi, isPhi := v.(*ssa.Phi); isPhi {
				for i, e := range phi.Edges {
					if pathExistsToEdge(cl, nil, phi.Block().Preds[i], phi.Block(), notNil) && !isNilV(e) {
						ok = false
					}
				}
			} else {
				ok = isNilV(v)
			}
			c.obI("R17.3", ret, "nil-wrapper-closes-quietly", ok, "Close on the nil wrapper (installed for a request without a body) returns nil", "a nil receiver can reach a return that reports an error")
		}
		c.obRF("R17.3", cl, "nil-wrapper-close-path", nNil >= 1, "Close has a path for the nil receiver", "")
	}
	// the premise: newPeekingReader(nil) returns nil (documented by its own nil test)
	okNil := false
	for _, ret := range returnsOf(np) {
		if isNilConst(ret.Results[0]) && guardedBy(ret, nil, factNil(vIs(np.Params[0]), true)) {
			okNil = true
		}
	}
	c.info("R17.3 premise: newPeekingReader returns a nil wrapper for a nil body: %v", okNil)
}

func negate(p EdgePred) EdgePred {
	return func(cond ssa.Value, branch bool) bool { return p(cond, !branch) }
}

// factContentLengthPositive: the edge establishes r.ContentLength > 0 for the request recognised by isReq.
func factContentLengthPositive(isReq VPred) EdgePred {
	return func(cond ssa.Value, branch bool) bool {
		cnd, b := stripNot(cond, branch)
		bo, ok := cnd.(*ssa.BinOp)
		if !ok {
			return false
		}
		isCL := vFieldLoad("net/http.Request", "ContentLength", isReq)
		k, isK := constInt(bo.Y)
		if isCL(bo.X) && isK {
			switch {
			case bo.Op == token.GTR && k == 0, bo.Op == token.GEQ && k == 1:
				return b
			case bo.Op == token.LEQ && k == 0, bo.Op == token.LSS && k == 1:
				return !b
			}
		}
		if k2, isK2 := constInt(bo.X); isK2 && isCL(bo.Y) {
			switch {
			case bo.Op == token.LSS && k2 == 0, bo.Op == token.LEQ && k2 == 1:
				return b
			case bo.Op == token.GEQ && k2 == 0, bo.Op == token.GTR && k2 == 1:
				return !b
			}
		}
		return false
	}
}

// factContentLengthDeclared: the edge establishes that the request carries a Content-Length header: Header.Get(..) != "",
// or len(r.Header["Content-Length"]) > 0 / len(r.Header["Content-Length"][0]) > 0 (the canonical key indexed directly).
func factContentLengthDeclared(isReq VPred, isCLHeaderGet VPred) EdgePred {
	isLookup := func(v ssa.Value) bool {
		lk, ok := v.(*ssa.Lookup)
		if !ok {
			if ex, isEx := v.(*ssa.Extract); isEx {
				lk, ok = ex.Tuple.(*ssa.Lookup)
			}
		}
		if !ok || lk == nil {
			return false
		}
		k, isK := constString(lk.Index)
		return isK && k == "Content-Length" && vFieldLoad("net/http.Request", "Header", isReq)(lk.X)
	}
	isLookupOrElem := func(v ssa.Value) bool {
		if isLookup(v) {
			return true
		}
		if ad, ok := derefLoad(v); ok {
			if ia, isIA := ad.(*ssa.IndexAddr); isIA {
				return isLookup(ia.X)
			}
		}
		return false
	}
	return anyFact(factEqString(isCLHeaderGet, "", false), factLenPositive(isLookupOrElem, true))
}

// factContentLengthNonEmpty: the edge establishes that the Content-Length header has a non-empty (first) value — what
// Header.Get(..) != "" says: Get != "", or len(r.Header["Content-Length"][0]) > 0 (NOT the mere presence of the key).
func factContentLengthNonEmpty(isReq VPred, isCLHeaderGet VPred) EdgePred {
	isElem := func(v ssa.Value) bool {
		ad, ok := derefLoad(v)
		if !ok {
			return false
		}
		ia, isIA := ad.(*ssa.IndexAddr)
		if !isIA {
			return false
		}
		lk, ok := ia.X.(*ssa.Lookup)
		if !ok {
			if ex, isEx := ia.X.(*ssa.Extract); isEx {
				lk, ok = ex.Tuple.(*ssa.Lookup)
			}
		}
		if !ok || lk == nil {
			return false
		}
		k, isK := constString(lk.Index)
		return isK && k == "Content-Length" && vFieldLoad("net/http.Request", "Header", isReq)(lk.X)
	}
	return anyFact(factEqString(isCLHeaderGet, "", false), factLenPositive(isElem, true))
}

// isContentLengthPositiveExpr: v is the comparison r.ContentLength > 0 (or >= 1) itself.
func isContentLengthPositiveExpr(v ssa.Value, isReq VPred) bool {
	bo, ok := v.(*ssa.BinOp)
	if !ok {
		return false
	}
	return factContentLengthPositive(isReq)(bo, true)
}
