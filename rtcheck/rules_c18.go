package main

import (
	"fmt"

	"golang.org/x/tools/go/ssa"
)

const (
	tlsConfigT = "crypto/tls.Config"
	tlsOptsT   = "rt/client.TLSClientOptions"
)

func init() {
	register(&Property{
		ID: "C18",
		Explanation: "Decides, for every combination of TLSClientOptions at once (TLSClientAuth is loop-free and its outputs are field stores), the field provenance of the produced tls.Config: " +
			"R18.1 MinVersion is a constant >= TLS1.2 on every tls.Config built by the library; R18.2 InsecureSkipVerify receives only opts.InsecureSkipVerify or constant false, and on every path to the success return on which ServerName != \"\" the last store is the constant false; " +
			"R18.3 ServerName/VerifyPeerCertificate/SessionTicketsDisabled/ClientSessionCache receive the same-named option on every success path; R18.4 RootCAs originates only from the supplied pool/CA material, is stored whenever a CA option is present, and no system pool is ever loaded; " +
			"R18.5 whenever a certificate option is present the success return is reached only after Certificates was stored from the key-pair loader's result, every loader error is returned, the key type switch has an error default, and TLSTransport/TLSClient install that very config and propagate the error. " +
			"R18.4 also: a given LoadedCA is added to the root pool on every success path. " +
			"R18.1 also: no field of the options is rewritten. " +
			"NOT decided: the handshake behaviour of crypto/tls for a given config; that the PEM/key material parses (crypto/x509).",
		Assumptions: []string{"crypto/tls honours the fields of tls.Config as documented"},
		Run:         runC18,
	})
}

func runC18(c *Ctx) {
	p := c.P
	f := p.Fn("rt/client.TLSClientAuth")
	opts := paramOf(f, 0)
	_ = opts
	succ := successReturns(f, 1)
	c.obRF("R18.0", f, "success-return", len(succ) >= 1, "TLSClientAuth has a success return (cfg, nil)", "no return with a nil error found")
	optField := func(field string) VPred { return vFieldLoadO(tlsOptsT, field) }

	// R18.1: MinVersion on every tls.Config allocated by library code
	for _, fn := range p.LibFuncs() {
		for _, in := range instrs(fn) {
			al, ok := in.(*ssa.Alloc)
			if !ok {
				continue
			}
			n, _ := structOf(al.Type())
			if typeFullName(n) != tlsConfigT {
				continue
			}
			var good, bad []*ssa.Store
			for _, st := range fieldStores(fn, tlsConfigT, "MinVersion") {
				fa := st.Addr.(*ssa.FieldAddr)
				if fa.X != al {
					continue
				}
				if k, ok := constInt(st.Val); ok && k >= 0x0303 {
					good = append(good, st)
				} else {
					bad = append(bad, st)
				}
			}
			okk := len(good) > 0 && len(bad) == 0
			if okk {
				// the good store must precede every return of the function (the config never escapes without it)
				for _, r := range returnsOf(fn) {
					if pathExists(fn, al, r, nil, func(i ssa.Instruction) bool { return i == ssa.Instruction(good[0]) }) && returnsValue(r, al) {
						okk = false
					}
				}
			}
			c.obI("R18.1", al, "tls.Config-literal", okk, "every tls.Config built by the library sets MinVersion to a constant >= tls.VersionTLS12 before it is returned",
				fmt.Sprintf("constant>=TLS1.2 stores: %d, other stores: %d", len(good), len(bad)))
		}
		// any store to MinVersion anywhere must be a constant >= TLS1.2
		for _, st := range fieldStores(fn, tlsConfigT, "MinVersion") {
			k, ok := constInt(st.Val)
			c.obI("R18.1", st, "MinVersion-store", ok && k >= 0x0303, "stores to tls.Config.MinVersion are constants >= tls.VersionTLS12", "value "+describe(st.Val))
		}
	}
	c.min("R18.1", 2)

	// R18.2 InsecureSkipVerify
	isv := fieldStores(f, tlsConfigT, "InsecureSkipVerify")
	serverNameEmptyOpt := factEqString(optField("ServerName"), "", true)
	// (the test may be made on the configuration's own ServerName once the option was copied into it: empty there means
	// empty in the options, provided the field only ever receives the option and the copy — or the option's emptiness —
	// precedes the test on every path)
	nameStores := fieldStores(f, tlsConfigT, "ServerName")
	nameOnlyFromOption := len(nameStores) > 0
	for _, st := range nameStores {
		if !optField("ServerName")(st.Val) {
			nameOnlyFromOption = false
		}
	}
	serverNameEmpty := func(cond ssa.Value, branch bool) bool {
		if serverNameEmptyOpt(cond, branch) {
			return true
		}
		if !nameOnlyFromOption {
			return false
		}
		isCfgName := func(v ssa.Value) bool {
			_, ok := fieldLoad(v, tlsConfigT, "ServerName")
			return ok
		}
		if !factEqString(isCfgName, "", true)(cond, branch) {
			return false
		}
		ci, isIn := cond.(ssa.Instruction)
		if !isIn || ci.Block() == nil {
			return false
		}
		var sts []ssa.Instruction
		for _, st := range nameStores {
			sts = append(sts, st)
		}
		return !pathExists(f, nil, ci, serverNameEmptyOpt, isOneOf(sts...))
	}
	optRequested := factBool(optField("InsecureSkipVerify"), true)
	// isvSafe evaluates a stored boolean symbolically: (v true => opts.InsecureSkipVerify is true, v true => ServerName == "")
	var isvSafe func(v ssa.Value, depth int) (bool, bool)
	isvSafe = func(v ssa.Value, depth int) (bool, bool) {
		if k, ok := constBool(v); ok {
			return !k, !k
		}
		if optField("InsecureSkipVerify")(v) {
			return true, false
		}
		if serverNameEmpty(v, true) {
			return false, true
		}
		if phi, ok := v.(*ssa.Phi); ok && depth > 0 {
			ra, rb := true, true
			for i, e := range phi.Edges {
				a, b := isvSafe(e, depth-1)
				pred := phi.Block().Preds[i]
				if !a && edgeGuarded(pred, phi.Block(), nil, optRequested) {
					a = true
				}
				if !b && edgeGuarded(pred, phi.Block(), nil, serverNameEmpty) {
					b = true
				}
				ra, rb = ra && a, rb && b
			}
			return ra, rb
		}
		return false, false
	}
	var falseStores, optStores []*ssa.Store
	safeName := map[*ssa.Store]bool{}
	for _, st := range isv {
		if b, ok := constBool(st.Val); ok && !b {
			falseStores = append(falseStores, st)
			c.obI("R18.2", st, "store-false", true, "InsecureSkipVerify stores are opts.InsecureSkipVerify or constant false", "")
			continue
		}
		fromOpt, noName := isvSafe(st.Val, 3)
		if !fromOpt && guardedBy(st, nil, optRequested) {
			fromOpt = true
		}
		if !noName && guardedBy(st, nil, serverNameEmpty) {
			noName = true
		}
		safeName[st] = noName
		c.obI("R18.2", st, "store-from-option", fromOpt, "InsecureSkipVerify is only ever enabled because opts.InsecureSkipVerify requested it (the stored value is the option, the constant false, or a conjunction with the option)", "value "+describe(st.Val))
		optStores = append(optStores, st)
	}
	// no store to InsecureSkipVerify outside TLSClientAuth in library code
	for _, fn := range p.LibFuncs() {
		if fn == f {
			continue
		}
		for _, st := range fieldStores(fn, tlsConfigT, "InsecureSkipVerify") {
			b, ok := constBool(st.Val)
			c.obI("R18.2", st, "foreign-store", ok && !b, "no library code outside TLSClientAuth enables InsecureSkipVerify", "value "+describe(st.Val))
		}
	}
	isFalseStore := func(in ssa.Instruction) bool {
		for _, s := range falseStores {
			if in == ssa.Instruction(s) {
				return true
			}
		}
		return false
	}
	for _, r := range succ {
		// from function entry (zero value false is fine) no obligation; from every store of a value that can be true:
		for _, st := range optStores {
			leak := !safeName[st] && pathExists(f, st, r, serverNameEmpty, isFalseStore)
			c.obI("R18.2", st, "servername-forces-verification", !leak,
				"a value that can enable InsecureSkipVerify is stored only under ServerName == \"\" (as a conjunction or under a test), or the constant false is stored afterwards on every path to the success return on which ServerName != \"\"",
				"a path reaches `return cfg, nil` with ServerName set and the option value still in place")
		}
	}
	c.obRF("R18.2", f, "option-store-exists", len(optStores) >= 1, "TLSClientAuth copies the InsecureSkipVerify option", fmt.Sprintf("false stores %d, option stores %d", len(falseStores), len(optStores)))

	// R18.3 pass-through fields
	for _, fld := range []string{"VerifyPeerCertificate", "SessionTicketsDisabled", "ClientSessionCache"} {
		sts := fieldStores(f, tlsConfigT, fld)
		for _, st := range sts {
			// a package-level value stored into the configuration is state shared by every client built in the process
			// (one session cache for differently configured clients, say): definite, whatever the variable is called
			sharedGlobal := ""
			for _, o := range originsOf(st.Val) {
				if ad, isLd := derefLoad(o.V); isLd {
					if g, isG := ad.(*ssa.Global); isG && g.Pkg != nil && isRepoPath(g.Pkg.Pkg.Path()) {
						sharedGlobal = short(g.String())
					}
				}
				if g, isG := o.V.(*ssa.Global); isG && g.Pkg != nil && isRepoPath(g.Pkg.Pkg.Path()) {
					sharedGlobal = short(g.String())
				}
			}
			if sharedGlobal != "" {
				c.obD("R18.3", st, fld+"-value", false, "tls.Config."+fld+" receives opts."+fld+" unchanged", "it can receive the package-level "+sharedGlobal+", shared by every configuration built in the process")
				continue
			}
			c.obI("R18.3", st, fld+"-value", optField(fld)(st.Val), "tls.Config."+fld+" receives opts."+fld+" unchanged", "value "+describe(st.Val))
		}
		for _, r := range succ {
			miss := pathExists(f, nil, r, nil, isFieldStore(tlsConfigT, fld))
			c.obI("R18.3", r, fld+"-always-set", !miss && len(sts) > 0, "every success path stores tls.Config."+fld, "a success path does not store the field")
		}
	}
	{
		sts := fieldStores(f, tlsConfigT, "ServerName")
		for _, st := range sts {
			c.obI("R18.3", st, "ServerName-value", optField("ServerName")(st.Val), "tls.Config.ServerName receives opts.ServerName unchanged", "value "+describe(st.Val))
		}
		for _, r := range succ {
			miss := pathExists(f, nil, r, serverNameEmpty, isFieldStore(tlsConfigT, "ServerName"))
			c.obI("R18.3", r, "ServerName-set-when-given", !miss && len(sts) > 0, "every success path with opts.ServerName != \"\" stores tls.Config.ServerName", "a success path with a server name does not store it")
		}
	}

	// R18.4 roots
	basePool := p.FnOpt("rt/client.basePool")
	if basePool == nil {
		basePool = p.lenientFn("rt/client.basePool")
	}
	var bpReturns []*ssa.Return
	if basePool != nil {
		bpReturns = returnsOf(basePool)
	} else {
		c.info("R18.4: basePool no longer exists; RootCAs origins are checked directly")
	}
	for _, r := range bpReturns {
		// (the supplied pool: the parameter itself, or the LoadedCAPool of the options the helper is handed)
		ok, bad := allOrigins(r.Results[0], oParam(basePool, 0), oCall(-1, "crypto/x509.NewCertPool"), oFieldLoad("rt/client.TLSClientOptions", "LoadedCAPool", nil))
		if !ok && bad != nil {
			if ad, isLd := derefLoad(bad.V); isLd {
				if g, isG := ad.(*ssa.Global); isG && isRepoPath(g.Pkg.Pkg.Path()) {
					// a package-level pool: every configuration adds its roots to the same object (definite, whatever else changed)
					c.obD("R18.4", r, "basePool-result", false, "basePool returns the supplied pool or a new empty pool", "the pool handed out is the package-level "+short(g.String())+": roots supplied to one call are trusted by every other configuration")
					continue
				}
			}
		}
		c.obI("R18.4", r, "basePool-result", ok, "basePool returns the supplied pool or a new empty pool", "origin "+describeOrigin(bad))
	}
	rootStores := fieldStores(f, tlsConfigT, "RootCAs")
	for _, st := range rootStores {
		ok, bad := allOrigins(st.Val,
			oFieldLoad(tlsOptsT, "LoadedCAPool", nil),
			oNil(), // (no CA option given: the system pool — checked path by path below)
			oCall(-1, "crypto/x509.NewCertPool"),
			oCallWhere(-1, "rt/client.basePool", func(call *ssa.Call) bool { return optField("LoadedCAPool")(call.Call.Args[0]) }))
		c.obI("R18.4", st, "RootCAs-origin", ok, "tls.Config.RootCAs originates only from opts.LoadedCAPool, a new empty pool, or basePool(opts.LoadedCAPool)", "origin "+describeOrigin(bad))
	}
	c.min("R18.4", 3)
	for _, fn := range p.LibFuncs() {
		for _, ci := range callsIn(fn, "crypto/x509.SystemCertPool") {
			c.obI("R18.4", ci, "system-pool", false, "the library never loads the system certificate pool", "call to x509.SystemCertPool")
		}
	}
	type caOpt struct {
		name   string
		absent EdgePred
	}
	for _, o := range []caOpt{
		{"LoadedCA", factNil(optField("LoadedCA"), true)},
		{"CA", factEqString(optField("CA"), "", true)},
		{"LoadedCAPool", factNil(optField("LoadedCAPool"), true)},
	} {
		for _, r := range succ {
			// a store of nil (what a helper returns when no CA option is given) does not count as setting the pool:
			// evaluated along the path, i.e. for the very return the helper came back through
			setsPool := func(in ssa.Instruction) bool {
				if !isFieldStore(tlsConfigT, "RootCAs")(in) {
					return false
				}
				allNil := true
				for _, og := range originsOf(in.(*ssa.Store).Val) {
					if !isNilConst(og.V) {
						allNil = false
					}
				}
				return !allNil
			}
			miss := pathExists(f, nil, r, o.absent, setsPool)
			c.obI("R18.4", r, "RootCAs-set-when-"+o.name, !miss, "every success path on which opts."+o.name+" is present stores tls.Config.RootCAs (never falls back to the system pool)", "a success path with the option present leaves RootCAs unset")
		}
	}
	// the options are used as given: TLSClientAuth never rewrites a field of its options before (or after) testing it —
	// a location is the text the caller supplied (no environment expansion, trimming or defaulting: an unusable location
	// has to fail as such, not turn into "not supplied")
	for _, in := range instrs(f) {
		st, ok := in.(*ssa.Store)
		if !ok {
			continue
		}
		fa, ok := st.Addr.(*ssa.FieldAddr)
		if !ok {
			continue
		}
		n, stt := structOf(fa.X.Type())
		if n == nil || typeFullName(n) != "rt/client.TLSClientOptions" {
			continue
		}
		c.obD("R18.1", st, "options-used-as-given", false, "no field of the TLSClientOptions is rewritten", "opts."+stt.Field(fa.Field).Name()+" is overwritten with "+describe(st.Val)+" before it is tested and used")
	}
	// every call builds its OWN configuration: what is returned is allocated by this call — never a package-level value
	// that later calls (and the callers' own edits of the returned config) would share
	for _, r := range succ {
		okOwn, bad := allOrigins(resOf(r, 0), func(o Origin) bool {
			al, isAl := o.V.(*ssa.Alloc)
			return isAl && (al.Parent() == f || isTransparent(al.Parent()))
		})
		shared := false
		if bad != nil {
			if _, isG := bad.V.(*ssa.Global); isG {
				shared = true
			}
		}
		if shared {
			c.obD("R18.1", r, "config-made-by-this-call", false, "TLSClientAuth returns a tls.Config allocated by this very call", "the configuration returned is the package-level variable "+describeOrigin(bad)+": every call edits and hands out the same object")
		} else {
			c.obI("R18.1", r, "config-made-by-this-call", okOwn, "TLSClientAuth returns a tls.Config allocated by this very call", "origin "+describeOrigin(bad))
		}
	}
	// a CA file given without an in-memory CA certificate is always read into the pool — whatever else is supplied (a
	// LoadedCAPool beside it is the base the file is added to, not a replacement)
	for _, r := range succ {
		skip := anyFact(factEqString(optField("CA"), "", true), factNil(optField("LoadedCA"), false))
		appends := isCallInstrTo("(*crypto/x509.CertPool).AppendCertsFromPEM")
		// the in-memory CA certificate likewise: given, it is added — whatever the base pool already holds (a pool that
		// carries another certificate of the same subject does not stand in for it)
		{
			adds := func(in ssa.Instruction) bool {
				if !isCallInstrTo("(*crypto/x509.CertPool).AddCert")(in) {
					return false
				}
				_, a := callArgs(in.(ssa.CallInstruction).Common())
				return len(a) == 1 && optField("LoadedCA")(a[0])
			}
			addsVia := func(in ssa.Instruction) bool {
				call, ok := in.(*ssa.Call)
				if !ok || call.Call.IsInvoke() {
					return false
				}
				if _, isPhi := call.Call.Value.(*ssa.Phi); !isPhi {
					return false
				}
				for _, og := range originsOf(call.Call.Value) {
					if mc, isMC := og.V.(*ssa.MakeClosure); isMC {
						for _, ci := range instrs(mc.Fn.(*ssa.Function)) {
							if isCallInstrTo("(*crypto/x509.CertPool).AddCert")(ci) {
								return true
							}
						}
					}
				}
				return false
			}
			missCA := pathExists(f, nil, r, factNil(optField("LoadedCA"), true), func(in ssa.Instruction) bool { return adds(in) || addsVia(in) })
			c.obI("R18.4", r, "LoadedCA-always-added", !missCA, "every success path with opts.LoadedCA set adds that certificate to the root pool, unconditionally", "a success path with an in-memory CA certificate given does not add it to the pool")
		}
		// (or a call of a locally selected closure, one of whose candidates appends the file)
		viaClosure := func(in ssa.Instruction) bool {
			call, ok := in.(*ssa.Call)
			if !ok || call.Call.IsInvoke() {
				return false
			}
			if _, isPhi := call.Call.Value.(*ssa.Phi); !isPhi {
				return false
			}
			for _, og := range originsOf(call.Call.Value) {
				if mc, isMC := og.V.(*ssa.MakeClosure); isMC {
					for _, ci := range instrs(mc.Fn.(*ssa.Function)) {
						if appends(ci) {
							return true
						}
					}
				}
			}
			return false
		}
		miss := pathExists(f, nil, r, skip, func(in ssa.Instruction) bool { return appends(in) || viaClosure(in) })
		c.obI("R18.4", r, "CA-file-always-added", !miss, "every success path with opts.CA set (and no opts.LoadedCA) appends the CA file's certificates to the pool: the file is never silently dropped in favour of a supplied pool", "a success path with a CA file given never reads it into the pool")
	}
	// the CA material is added to the pool that is stored
	for _, ci := range callsIn(f, "(*crypto/x509.CertPool).AddCert") {
		_, args := callArgs(ci.Common())
		c.obI("R18.4", ci, "AddCert-arg", len(args) == 1 && optField("LoadedCA")(args[0]), "AddCert receives opts.LoadedCA", "argument "+describe(args[0]))
	}
	for _, ci := range callsIn(f, "(*crypto/x509.CertPool).AppendCertsFromPEM") {
		_, args := callArgs(ci.Common())
		ok, bad := allOriginsAt(ci, args[0], oCallWhere(0, "os.ReadFile", func(call *ssa.Call) bool { return optField("CA")(call.Call.Args[0]) }))
		c.obI("R18.4", ci, "AppendCertsFromPEM-arg", ok, "AppendCertsFromPEM receives the content of the file opts.CA", "origin "+describeOrigin(bad))
	}
	c.info("R18.4 informational: the boolean result of AppendCertsFromPEM is ignored; an unusable CA file yields an empty (fail-closed) pool")

	// R18.5 identity
	certStores := fieldStores(f, tlsConfigT, "Certificates")
	for _, st := range certStores {
		// the value stored may be a local that was assigned the pair on some paths and left nil on the others
		var cands []ssa.Value
		var flat func(v ssa.Value, d int)
		flat = func(v ssa.Value, d int) {
			if phi, isPhi := v.(*ssa.Phi); isPhi && d < 4 {
				for _, e := range phi.Edges {
					flat(e, d+1)
				}
				return
			}
			cands = append(cands, v)
		}
		flat(st.Val, 0)
		good, nonNil := true, 0
		why := "value " + describe(st.Val)
		for _, cv := range cands {
			if isNilConst(cv) {
				continue
			}
			nonNil++
			elems, ok := sliceLitElems(cv)
			if ap := asCall(cv); !ok && ap != nil && calleeName(&ap.Call) == "builtin append" && len(ap.Call.Args) == 2 {
				// append(cfg.Certificates, pair): whatever the field held before was stored under this same rule
				if isNilConst(ap.Call.Args[0]) || vFieldLoad(tlsConfigT, "Certificates", nil)(ap.Call.Args[0]) || freshSlice(ap.Call.Args[0], 0) {
					elems, ok = sliceLitElems(ap.Call.Args[1])
				}
			}
			okC := ok && len(elems) == 1
			if okC {
				var badO *Origin
				okC, badO = allOrigins(elems[0], oCall(0, "crypto/tls.LoadX509KeyPair", "crypto/tls.X509KeyPair"), oNil()) // (zero value: a helper's result on its error path)
				if !okC {
					why += ": origin " + describeOrigin(badO)
				}
				okC = okC && someOrigin(elems[0], oCall(0, "crypto/tls.LoadX509KeyPair", "crypto/tls.X509KeyPair"))
			}
			if !okC {
				good = false
			}
		}
		c.obI("R18.5", st, "Certificates-origin", good && nonNil > 0, "tls.Config.Certificates holds exactly the certificate returned by LoadX509KeyPair / X509KeyPair for this call's files (not a remembered pair)", why)
	}
	for _, ci := range callsIn(f, "crypto/tls.LoadX509KeyPair") {
		_, args := callArgs(ci.Common())
		c.obI("R18.5", ci, "LoadX509KeyPair-args", optField("Certificate")(args[0]) && optField("Key")(args[1]), "the key pair is loaded from opts.Certificate and opts.Key", "")
	}
	for _, o := range []caOpt{
		{"Certificate", factEqString(optField("Certificate"), "", true)},
		{"LoadedCertificate", factNil(optField("LoadedCertificate"), true)},
	} {
		for _, r := range succ {
			miss := pathExists(f, nil, r, o.absent, isFieldStore(tlsConfigT, "Certificates"))
			c.obI("R18.5", r, "Certificates-set-when-"+o.name, !miss && len(certStores) > 0, "every success path on which opts."+o.name+" is present has stored tls.Config.Certificates (identity is never dropped silently)", "a success path with the option present does not store the client certificate")
		}
	}
	// exactly one certificate is presented: the sources exclude each other (file pair first, else the loaded pair) —
	// no path stores Certificates twice (two appended pairs would let the TLS stack pick either)
	for i, s1 := range certStores {
		for j, s2 := range certStores {
			if i == j {
				continue
			}
			c.obI("R18.5", s2, "one-certificate-source-per-config", !pathExistsAfter(f, s1, s2), "the certificate sources are alternatives: once Certificates was set from one source no later store adds another", "a path sets Certificates from one source and then from another: the configuration presents two certificates")
		}
	}
	// error discipline
	checkErrorsReturned(c, "R18.5", f, 1, nil)
	c.min("R18.5", 8)

	// wrappers
	tt := p.Fn("rt/client.TLSTransport")
	checkErrorsReturned(c, "R18.5", tt, 1, nil)
	for _, st := range fieldStoresAny(tt, "net/http.Transport", "TLSClientConfig") {
		ok, bad := allOrigins(st.Val, oCall(0, "rt/client.TLSClientAuth"))
		c.obI("R18.5", st, "transport-config", ok, "TLSTransport installs the config returned by TLSClientAuth unchanged", "origin "+describeOrigin(bad))
	}
	c.obRF("R18.5", tt, "transport-config-exists", len(fieldStoresAny(tt, "net/http.Transport", "TLSClientConfig")) == 1, "TLSTransport sets Transport.TLSClientConfig", "store not found")
	// … for every option set: what TLSTransport returns on success is a transport it has just built around that config
	// (a shared or default transport carries none of the options — server name, verification callback, session settings)
	for _, r := range realReturns(tt) {
		if len(r.Results) != 2 || !isNilConst(r.Results[1]) {
			continue
		}
		ok, bad := allOrigins(unboxed(r.Results[0]), func(o Origin) bool {
			al, isAl := o.V.(*ssa.Alloc)
			if !isAl || !al.Heap {
				return false
			}
			n, _ := structOf(al.Type())
			return n != nil && typeFullName(n) == "net/http.Transport"
		})
		c.obI("R18.5", r, "transport-built-for-these-options", ok, "every successful TLSTransport returns a transport made by this call (the one that carries the options' tls.Config)", "origin "+describeOrigin(bad))
	}
	tc := p.Fn("rt/client.TLSClient")
	checkErrorsReturned(c, "R18.5", tc, 1, nil)
	for _, st := range fieldStoresAny(tc, "net/http.Client", "Transport") {
		// the transport returned by TLSTransport, or a transport built here around the config TLSClientAuth returned
		ownTransport := func(o Origin) bool {
			al, isAl := o.V.(*ssa.Alloc)
			if n, _ := structOf(o.V.Type()); !isAl || n == nil || typeFullName(n) != "net/http.Transport" {
				return false
			}
			n := 0
			for _, cs := range fieldStoresAny(tc, "net/http.Transport", "TLSClientConfig") {
				if fa, isFA := cs.Addr.(*ssa.FieldAddr); isFA && fa.X == ssa.Value(al) {
					if okc, _ := allOrigins(cs.Val, oCall(0, "rt/client.TLSClientAuth")); !okc {
						return false
					}
					n++
				}
			}
			return n >= 1
		}
		ok, bad := allOrigins(st.Val, oCall(0, "rt/client.TLSTransport"), ownTransport)
		c.obI("R18.5", st, "client-transport", ok, "TLSClient installs the transport returned by TLSTransport (or one it builds around the config TLSClientAuth returned)", "origin "+describeOrigin(bad))
	}
	c.obRF("R18.5", tc, "client-transport-exists", len(fieldStoresAny(tc, "net/http.Client", "Transport")) == 1, "TLSClient sets Client.Transport", "store not found")
}

// returnsValue: the return mentions v among its results (directly).
func returnsValue(r *ssa.Return, v ssa.Value) bool {
	for _, x := range r.Results {
		if x == v {
			return true
		}
		for _, o := range originsOf(x) {
			if o.V == v {
				return true
			}
		}
	}
	return false
}

func fieldStoresAny(f *ssa.Function, typeName, field string) []*ssa.Store {
	return fieldStores(f, typeName, field)
}

// checkErrorsReturned is the error-discipline primitive (P-err) for functions whose result #errIdx is an error:
// for every call in f that yields an error, (a) the error value is not dropped, and (b) every success return
// (nil error) reachable after the call is reached only through the edge err == nil. skip may exempt calls.
func checkErrorsReturned(c *Ctx, rule string, f *ssa.Function, errIdx int, skip func(*ssa.Call) bool) {
	checkErrorsReturnedX(c, rule, f, errIdx, skip, nil)
}

// checkErrorsReturnedX additionally accepts edges on which the error is legitimately absorbed (e.g. errors.Is(err, io.EOF)).
func checkErrorsReturnedX(c *Ctx, rule string, f *ssa.Function, errIdx int, skip func(*ssa.Call) bool, absorbed func(ev ssa.Value) EdgePred) {
	succ := successReturns(f, errIdx)
	for _, in := range instrs(f) {
		call, ok := in.(*ssa.Call)
		if !ok {
			continue
		}
		if errorResultIndex(call.Call.Signature()) < 0 {
			continue
		}
		if skip != nil && skip(call) {
			continue
		}
		name := calleeName(&call.Call)
		if infallible[name] || writesIntoMemoryBuffer(call) {
			continue
		}
		ev := errValueOf(call)
		if ev == nil {
			c.obI(rule, call, "err-of-"+name, false, "the error result of every fallible call is examined", "error result of "+name+" is dropped")
			continue
		}
		ok = true
		why := ""
		for _, r := range succ {
			if !pathExists(f, call, r, nil, nil) {
				continue
			}
			// the test may be made on the error itself or on a variable that holds it (err = e)
			isErr := func(v ssa.Value) bool {
				if v == ev {
					return true
				}
				has := false
				for _, o := range originsOf(v) {
					if oIsValue(ev)(o) {
						has = true
					} else if !isNilConst(o.V) {
						return false
					}
				}
				return has
			}
			cut := factNil(isErr, true)
			if absorbed != nil {
				cut = anyFact(cut, absorbed(ev))
			}
			if pathExists(f, call, r, cut, nil) {
				ok = false
				why = "a success return is reachable after the call without passing the test err == nil (" + c.P.InstrPos(r) + ")"
			}
		}
		// a loop that runs the call again overwrites the error: going round without having passed err == nil (or an
		// absorbing test) drops it just the same
		if ok && len(succ) > 0 {
			isErr := func(v ssa.Value) bool {
				if v == ev {
					return true
				}
				has := false
				for _, o := range originsOf(v) {
					if oIsValue(ev)(o) {
						has = true
					} else if !isNilConst(o.V) {
						return false
					}
				}
				return has
			}
			cut := factNil(isErr, true)
			if absorbed != nil {
				cut = anyFact(cut, absorbed(ev))
			}
			if pathExists(f, call, call, cut, nil) {
				ok = false
				why = "the call can be executed again (next loop iteration) after it failed, without the error having been returned: the failure is swallowed"
			}
		}
		c.obI(rule, call, "err-of-"+name, ok, "after a fallible call the success return is reached only through err == nil (errors are returned, not swallowed)", why)
	}
}

// callees whose error result is documented to be always nil.
var infallible = map[string]bool{
	"(*bytes.Buffer).Write": true, "(*bytes.Buffer).WriteString": true, "(*bytes.Buffer).WriteByte": true, "(*bytes.Buffer).WriteRune": true,
	"(*strings.Builder).Write": true, "(*strings.Builder).WriteString": true, "(*strings.Builder).WriteByte": true, "(*strings.Builder).WriteRune": true,
}

// writesIntoMemoryBuffer: io.WriteString / fmt.Fprint* into a writer that is, on every path, a *bytes.Buffer or a
// *strings.Builder: their Write methods are documented never to fail.
func writesIntoMemoryBuffer(call *ssa.Call) bool {
	n := calleeName(&call.Call)
	if n != "io.WriteString" && n != "fmt.Fprintf" && n != "fmt.Fprint" && n != "fmt.Fprintln" {
		return false
	}
	if len(call.Call.Args) == 0 {
		return false
	}
	w := call.Call.Args[0]
	mi, ok := w.(*ssa.MakeInterface)
	if !ok {
		return false
	}
	t := typeStr(mi.X.Type())
	return t == "*bytes.Buffer" || t == "*strings.Builder"
}

// checkErrorNotOverwritten: a failure is not replaced by the outcome of a later call. For two fallible calls C1, C2 of
// f (errors e1, e2) where C2 can run after C1 without the test e1 == nil having been passed, e2 never flows
// into a merged error variable that also holds e1, from a block reached from C2 without that test. That would report
// C2's success for C1's failure. (Calls that are handed e1 — wrappers like fmt.Errorf("…: %w", e1) — are not "later outcomes".)
func checkErrorNotOverwritten(c *Ctx, rule string, f *ssa.Function, errIdx int) {
	type fc struct {
		call *ssa.Call
		ev   ssa.Value
	}
	var calls []fc
	for _, in := range instrs(f) {
		call, ok := in.(*ssa.Call)
		if !ok || in.Parent() != f || errorResultIndex(call.Call.Signature()) < 0 {
			continue
		}
		if infallible[calleeName(&call.Call)] || writesIntoMemoryBuffer(call) {
			continue
		}
		if ev := errValueOf(call); ev != nil {
			calls = append(calls, fc{call, ev})
		}
	}
	for _, c1 := range calls {
		isE1 := func(v ssa.Value) bool {
			if v == c1.ev {
				return true
			}
			has := false
			for _, o := range originsOf(v) {
				if oIsValue(c1.ev)(o) {
					has = true
				} else if !isNilConst(o.V) {
					return false
				}
			}
			return has
		}
		cut := factNil(isE1, true)
		for _, c2 := range calls {
			if c2.call == c1.call || !pathExists(f, c1.call, c2.call, cut, nil) {
				continue
			}
			wraps := false
			for _, a := range c2.call.Call.Args {
				if someOrigin(a, oIsValue(c1.ev)) {
					wraps = true
				}
			}
			if wraps {
				continue
			}
			bad := ""
			// (a) merged into the variable that holds e1
			for _, in := range instrs(f) {
				phi, ok := in.(*ssa.Phi)
				if !ok || in.Parent() != f || !isErrorType(phi.Type()) {
					continue
				}
				holdsE1 := false
				for _, e := range phi.Edges {
					if e == c1.ev {
						holdsE1 = true
					}
				}
				if !holdsE1 {
					continue
				}
				for i, e := range phi.Edges {
					if e != c2.ev {
						continue
					}
					pred := phi.Block().Preds[i]
					if _, isJump := lastInstr(pred).(*ssa.Jump); !isJump {
						continue
					}
					if pred == c2.call.Block() || pathExists(f, c2.call, lastInstr(pred), cut, nil) {
						bad = "its error replaces the one of " + calleeName(&c1.call.Call) + " in the same variable (" + c.P.InstrPos(phi) + ")"
					}
				}
			}
			if bad != "" {
				c.obD(rule, c2.call, "failure-not-replaced-by-later-outcome", false, "once a fallible call has failed, no later call's outcome takes the place of its error: the later error is kept apart or assigned only while the earlier one is nil", calleeName(&c2.call.Call)+" runs although "+calleeName(&c1.call.Call)+" may have failed, and "+bad)
			}
		}
	}
}
