package main

import (
	"fmt"
	"go/token"
	"sort"
	"strings"

	"golang.org/x/tools/go/ssa"
)

const apiT = "rt/middleware/untyped.API"

func init() {
	register(&Property{
		ID: "C19",
		Explanation: "Decides in middleware/untyped/api.go, AddRoute and buildAuthenticators: R19.1 validate compares the right pairs (keys of consumers / producers / authenticators / \"METHOD path\" of operations / security definitions against the analyzer's RequiredConsumes / RequiredProduces / RequiredSecuritySchemes / OperationMethodPaths), runs all five comparisons on every successful validation, returns every failure, and verify examines every registration and every expectation without early exit, reports both lists and fails iff either is non-empty; " +
			"Round 12: R19.1 no iteration over a registry skips the append that lists its key. " +
			"R19.2 validation and serving read the same tables: the Register* functions are the only writers of those tables besides the constructor/JSON defaults, they normalise media types (ToLower) and methods (ToUpper) exactly as the readers do, and the request-time tables of a route are built from those readers; each alternative's scheme list is a fresh slice (alternatives never share backing storage); " +
			"R19.3 the request-time failure sites for a missing registration are exactly the tabled ones (consumer miss x2 -> 500, producer miss x3 and produce error x2 -> panic in Respond), so a new one is reported. " +
			"R19.2 also: the per-route consumer/producer tables are built from the route's own consumes/produces lists, and WithoutJSONDefaults undoes exactly what WithJSONDefaults installs. " +
			"R19.2 also: the per-method handler table is keyed by the verbatim path the registry enumerates. " +
			"R19.2 also: the routable API's DefaultConsumes/DefaultProduces/ConsumersFor/ProducersFor answer from the registered API, each from its own field. " +
			"R19.2 also: Build ranges over the recorded methods themselves. " +
			"R19.1 also: validate reads the description through Document.Spec() only. " +
			"NOT decided: set arithmetic on concrete inputs; the analyzer's requirement lists (go-openapi/analysis).",
		Run: runC19,
	})
}

func runC19(c *Ctx) {
	p := c.P
	// a validated API answers its declared operations with the registered producers: the (possibly empty, for an API
	// built without JSON defaults) default producer type never leads the offers
	ruleOffersDefaultLast(c, "R19.2")
	ruleOperationLookedUpByRelativePath(c, "R19.2")
	// every security alternative the description declares — the anonymous one included — gets its group of
	// authenticators on the route (a validated API serves what its description allows)
	ruleRouteAuthenticatorsBuilt(c, "R19.2")
	// the request-time consumer lookup uses the parsed (lower-cased, parameter-free) media type: the form the tables the
	// API filled at registration are keyed by
	ruleContentTypeAccessorParses(c, "R19.2")
	ruleUntypedGateForEveryBody(c, "R19.2")
	ruleEveryRecordedMethodRouted(c, "R19.2")
	// the defaults the router adds to every route's lists are the API's own, each from its own field (validation judged
	// DefaultConsumes against the consumers and DefaultProduces against the producers)
	ruleRoutableAPIDelegates(c, "R19.2", "DefaultConsumes", "DefaultProduces", "ConsumersFor", "ProducersFor")
	// the routing tables are built when the HANDLER is built (NewRouter), i.e. after the registrations Validate() judged:
	// nothing builds them earlier (a context created before the last RegisterConsumer/Producer/Auth would serve with
	// tables that lack them)
	for _, fn := range p.LibFuncs("rt/middleware") {
		for _, ci := range callsIn(fn, "rt/middleware.DefaultRouter") {
			if ci.Parent() != fn {
				continue
			}
			root := fn
			for root.Parent() != nil {
				root = root.Parent()
			}
			c.obD("R19.2", ci, "router-built-with-the-handler", fnName(root) == "rt/middleware.NewRouter", "DefaultRouter is called by NewRouter only (lazily, when the handler chain is assembled): the per-route consumer/producer/authenticator tables reflect every registration made before serving", "the default router is built in "+fnName(fn))
		}
	}
	// validation, the handler table and the router all analyse the description AS IT IS when they are built
	// (analysis.New(doc.Spec())): none of them reuses the analysis the document cached when it was loaded, which does not
	// know operations added since — a validated operation would then not be routed
	nAn := 0
	for _, fn := range p.LibFuncs() {
		for _, ci := range callsIn(fn, "github.com/go-openapi/analysis.New") {
			if ci.Parent() == fn {
				nAn++
			}
		}
		for _, in := range instrs(fn) {
			var x ssa.Value
			var idx int
			switch fa := in.(type) {
			case *ssa.FieldAddr:
				x, idx = fa.X, fa.Field
			case *ssa.Field:
				x, idx = fa.X, fa.Field
			default:
				continue
			}
			if fieldIs(x.Type(), idx, "github.com/go-openapi/loads.Document", "Analyzer") {
				c.obD("R19.2", in, "description-analysed-as-it-stands", false, "the library never uses the analysis cached in the loaded document (Document.Analyzer): every table is built from a fresh analysis of the current description", "reads Document.Analyzer in "+fnName(fn))
			}
		}
	}
	c.obRF("R19.2", p.Fn("rt/middleware.newDefaultRouteBuilder"), "analyses-current-description", nAn >= 4, "the library analyses the current description where it builds its tables", fmt.Sprintf("%d calls of analysis.New", nAn))
	val := p.Fn("(*rt/middleware/untyped.API).validate")
	type pair struct{ name, field, required string }
	pairs := []pair{
		{"consumes", "consumers", "RequiredConsumes"},
		{"produces", "producers", "RequiredProduces"},
		{"operation", "operations", "OperationMethodPaths"},
		{"auth scheme", "authenticators", "RequiredSecuritySchemes"},
		{"security definitions", "", "RequiredSecuritySchemes"},
	}
	// the comparison helper: `verify`, or whatever function of that shape (.., name string, registrations, expectations
	// []string) error validate calls for its categories after a rename
	vf := p.lenientFn("(*rt/middleware/untyped.API).verify")
	if f0 := p.FnOpt("(*rt/middleware/untyped.API).verify"); f0 != nil {
		vf = f0
	}
	if vf == nil {
		count := map[*ssa.Function]int{}
		for _, ci := range allCallsShallow(val) {
			sc := ci.Common().StaticCallee()
			if sc == nil || sc.Blocks == nil || !isRepoPath(fnPkgPath(sc)) {
				continue
			}
			ps := sc.Signature.Params()
			if ps.Len() >= 3 && typeStr(ps.At(ps.Len()-1).Type()) == "[]string" && typeStr(ps.At(ps.Len()-2).Type()) == "[]string" && errorResultIndex(sc.Signature) >= 0 {
				count[sc]++
			}
		}
		for f, n := range count {
			if n >= 2 && (vf == nil || n > count[vf]) {
				vf = f
			}
		}
	}
	if vf == nil {
		fatalf("anchor: the comparison helper of API.validate (verify) cannot be identified")
	}
	var vcs []ssa.CallInstruction
	for _, ci := range allCallsShallow(val) {
		if ci.Common().StaticCallee() == vf {
			vcs = append(vcs, ci)
		}
	}
	c.obRF("R19.1", val, "five-comparisons", len(vcs) == 5, "validate compares five categories", fmt.Sprintf("%d verify calls", len(vcs)))
	// the lists compared are the registrations and the requirements AS THEY ARE: validate collects them (append) and
	// never rewrites an entry before the comparison (a name "adjusted" to its required spelling would pass validation
	// while the serving tables still hold the registered spelling)
	for _, in := range instrs(val) {
		st, ok := in.(*ssa.Store)
		if !ok || st.Parent() != val {
			continue
		}
		ia, isIA := st.Addr.(*ssa.IndexAddr)
		if !isIA || typeStr(ia.X.Type()) != "[]string" {
			continue
		}
		for _, vc := range vcs {
			for _, a := range vc.Common().Args {
				if typeStr(a.Type()) == "[]string" && (a == ia.X || sameOrigins(a, ia.X)) {
					c.obI("R19.1", st, "compared-lists-not-edited", false, "validate never overwrites an entry of a list it hands to the comparison", "an entry of a compared list is rewritten before the comparison")
				}
			}
		}
	}
	byName := map[string]*ssa.Call{}
	for _, vc := range vcs {
		_, a := callArgs(vc.Common())
		n, _ := constString(a[0])
		byName[n] = vc.(*ssa.Call)
	}
	// keysOf: the slice is built by appending the keys ranged over `m`
	keysOf := func(v ssa.Value, mapPred VPred, viaSprintf bool) bool {
		ok := false
		for _, o := range originsOf(v) {
			if _, isMk := o.V.(*ssa.MakeSlice); isMk {
				continue
			}
			ap := asCall(o.V)
			if ap == nil || calleeName(&ap.Call) != "builtin append" {
				return false
			}
			elems, isLit := sliceLitElems(ap.Call.Args[1])
			if !isLit || len(elems) != 1 {
				return false
			}
			e := elems[0]
			if bo, isBo := e.(*ssa.BinOp); viaSprintf && isBo && bo.Op == token.ADD {
				// strings.ToUpper(m) + " " + path, spelled as concatenation (possibly through a hoisted prefix)
				var pieces []ssa.Value
				var flat func(v ssa.Value)
				flat = func(v ssa.Value) {
					if b2, ok2 := v.(*ssa.BinOp); ok2 && b2.Op == token.ADD {
						flat(b2.X)
						flat(b2.Y)
						return
					}
					pieces = append(pieces, v)
				}
				flat(e)
				if len(pieces) != 3 {
					return false
				}
				okM, _ := allOrigins(pieces[0], oCall(-1, "strings.ToUpper"))
				sep, isSep := constString(pieces[1])
				if !okM || !isSep || sep != " " {
					return false
				}
				e = pieces[2]
			} else if viaSprintf {
				sp := asCall(e)
				if sp == nil || calleeName(&sp.Call) != "fmt.Sprintf" {
					return false
				}
				fm, _ := constString(sp.Call.Args[0])
				parts, _ := sliceLitElems(sp.Call.Args[1])
				if fm != "%s %s" || len(parts) != 2 {
					return false
				}
				okM, _ := allOrigins(unboxed(parts[0]), oCall(-1, "strings.ToUpper"))
				if !okM {
					return false
				}
				e = unboxed(parts[1])
			}
			ex, isEx := e.(*ssa.Extract)
			if !isEx || ex.Index != 1 {
				return false
			}
			nx, isNx := ex.Tuple.(*ssa.Next)
			if !isNx {
				return false
			}
			rg := nx.Iter.(*ssa.Range)
			// every key is taken: no iteration goes round without the append (a filter would hide registrations from
			// the comparison, and with them the superfluous ones)
			exhausted := func(cond ssa.Value, branch bool) bool {
				cv, b := stripNot(cond, branch)
				e0, isE := cv.(*ssa.Extract)
				return isE && e0.Tuple == ssa.Value(nx) && e0.Index == 0 && !b
			}
			if nx.Parent() == ap.Parent() && pathExists(ap.Parent(), nx, nx, exhausted, isOneOf(ap)) {
				return false
			}
			if viaSprintf {
				// inner range over the value of the outer range over d.operations
				ok = true
				continue
			}
			if !mapPred(rg.X) {
				return false
			}
			ok = true
		}
		return ok
	}
	for _, pr := range pairs {
		vc := byName[pr.name]
		if vc == nil {
			c.obRF("R19.1", val, "category-"+pr.name, false, "category "+pr.name+" is verified", "no verify call with that section name")
			continue
		}
		_, a := callArgs(&vc.Call)
		var okReg bool
		switch pr.name {
		case "operation":
			okReg = keysOf(a[1], nil, true)
		case "security definitions":
			okReg = keysOf(a[1], vFieldLoad("github.com/go-openapi/spec.SwaggerProps", "SecurityDefinitions", nil), false)
		default:
			okReg = keysOf(a[1], vFieldLoad(apiT, pr.field, nil), false)
		}
		okReq, _ := allOrigins(a[2], oCall(-1, "(*github.com/go-openapi/analysis.Spec)."+pr.required))
		c.obI("R19.1", vc, "pair-"+pr.name, okReg && okReq, "category '"+pr.name+"' compares the registered "+pr.name+" keys with analyzer."+pr.required+"()", fmt.Sprintf("registrations-from-own-table:%v expectations-from-%s:%v", okReg, pr.required, okReq))
		for _, r := range successReturns(val, 0) {
			c.obI("R19.1", r, "always-runs-"+pr.name, !pathExists(val, nil, r, nil, isOneOf(vc)), "a successful validation has run the '"+pr.name+"' comparison (no shortcut skips a category)", "validate can succeed without comparing this category")
		}
	}
	// the declared security definitions are those of the description AS SERVED — Document.Spec(), the one the analyzer
	// (and with it the required set) works on — not the document as first loaded (OrigSpec) or its raw bytes
	for _, ci := range allCalls(val) {
		switch n := calleeName(ci.Common()); n {
		case "(*github.com/go-openapi/loads.Document).OrigSpec", "(*github.com/go-openapi/loads.Document).Raw", "(*github.com/go-openapi/loads.Document).Pristine":
			c.obD("R19.1", ci, "definitions-of-the-served-description", false, "validate reads the description through Document.Spec() only: both sides of every comparison describe the same document", baseName(n)+"() is consulted: what is declared is read from another version of the document than what is required")
		}
	}
	checkErrorsReturned(c, "R19.1", val, 0, nil)
	vd := p.Fn("(*rt/middleware/untyped.API).Validate")
	for _, r := range returnsOf(vd) {
		ok, _ := allOrigins(r.Results[0], oCall(-1, "(*rt/middleware/untyped.API).validate"))
		c.obI("R19.1", r, "Validate-is-validate", ok, "Validate returns validate's verdict", "")
	}
	// verify
	regs, exps := vf.Params[len(vf.Params)-2], vf.Params[len(vf.Params)-1]
	for _, s := range []struct {
		x    *ssa.Parameter
		what string
	}{{regs, "registrations"}, {exps, "expectations"}} {
		ls := sliceLoops(vf, vIs(s.x))
		c.obRF("R19.1", vf, "scans-"+s.what, len(ls) >= 1, "verify scans the "+s.what, fmt.Sprintf("%d loops", len(ls)))
		for _, l := range ls {
			// no early exit: the loop is left only through its own test
			inLoop := map[*ssa.BasicBlock]bool{l.Header: true}
			for _, b := range vf.Blocks {
				if b != l.Header && l.Header.Dominates(b) && reachableFrom(b, l.Header) {
					inLoop[b] = true
				}
			}
			early := false
			for b := range inLoop {
				for _, sc := range b.Succs {
					if !inLoop[sc] && b != l.Header {
						early = true
					}
				}
			}
			c.obI("R19.1", l.Elem, "every-"+s.what+"-examined", !early, "every element of the "+s.what+" is examined (the scan has no early exit), so every missing and every superfluous item is reported", "the scan can stop early: later items are never compared")
		}
	}
	// unspecified: appended exactly when the registration is not expected
	nMember := 0
	defer func() {
		c.obRF("R19.1", vf, "membership-test-recognised", nMember >= 1, "verify decides 'is this registration expected' by a lookup in the table of expectations (the form the superfluous-item rule understands)", "no pass over the registrations tests membership by a map lookup: the rule cannot tell which registrations are reported as superfluous")
	}()
	for _, l := range sliceLoops(vf, vIs(regs)) {
		var expLk *ssa.Lookup
		for _, in := range instrs(vf) {
			if lk, ok := in.(*ssa.Lookup); ok && lk.CommaOk && l.Header.Dominates(lk.Block()) {
				if ad, isD := derefLoad(lk.Index); isD && ad == ssa.Value(l.Elem) {
					expLk = lk
				}
			}
		}
		if expLk == nil {
			// no map lookup: a pass that appends to a []string must still collect every registration that was not found
			// EQUAL to an expectation (whatever search it uses): a path from the start of an iteration to the next one
			// that appends nothing has crossed a comparison `expectation == registration` that held
			isApp := func(in ssa.Instruction) bool {
				call, ok := in.(*ssa.Call)
				return ok && calleeName(&call.Call) == "builtin append" && typeStr(call.Type()) == "[]string" && l.Header.Dominates(call.Block()) && reachableFrom(call.Block(), l.Header)
			}
			appends := false
			for _, in := range instrs(vf) {
				if isApp(in) {
					appends = true
				}
			}
			if !appends {
				continue // a pass over the registrations that collects nothing (e.g. one that only prunes the expectations)
			}
			isReg := func(v ssa.Value) bool {
				ad, ok := derefLoad(v)
				return ok && ad == ssa.Value(l.Elem)
			}
			isExp := func(v ssa.Value) bool {
				ad, ok := derefLoad(v)
				if !ok {
					return false
				}
				ia, ok := ad.(*ssa.IndexAddr)
				return ok && ia.X == ssa.Value(exps)
			}
			found := func(cond ssa.Value, branch bool) bool {
				cnd, b := stripNot(cond, branch)
				bo, ok := cnd.(*ssa.BinOp)
				if !ok || (bo.Op != token.EQL && bo.Op != token.NEQ) {
					return false
				}
				if !((isReg(bo.X) && isExp(bo.Y)) || (isReg(bo.Y) && isExp(bo.X))) {
					return false
				}
				return b == (bo.Op == token.EQL)
			}
			nMember++
			skipped := pathExists(vf, l.Body, l.Test, found, isApp)
			c.obI("R19.1", l.Elem, "superfluous-collected", !skipped, "every registration that is not expected is collected as superfluous: an iteration collects nothing only after the registration was found equal to an expectation", "an iteration can leave a registration uncollected without having found it among the expectations")
			continue
		}
		nMember++
		okU := true
		if okU {
			okv := extractOf(expLk, 1)
			isApp := func(in ssa.Instruction) bool {
				call, ok := in.(*ssa.Call)
				return ok && calleeName(&call.Call) == "builtin append" && typeStr(call.Type()) == "[]string"
			}
			skipped := pathExists(vf, expLk, l.Test, factBool(vIs(okv), true), isApp)
			okU = !skipped
		}
		c.obI("R19.1", l.Elem, "superfluous-collected", okU, "every registration that is not expected is collected as superfluous", "")
	}
	for _, r := range returnsOf(vf) {
		if isNilConst(r.Results[0]) {
			emptyBoth := guardedBy(r, nil, factLenPositive(func(v ssa.Value) bool { return typeStr(v.Type()) == "[]string" }, false))
			c.obI("R19.1", r, "passes-only-when-both-empty", emptyBoth, "verify succeeds only when nothing is missing and nothing is superfluous", "")
			// both lists must have been tested
			nTests := 0
			for _, in := range instrs(vf) {
				if bo, ok := in.(*ssa.BinOp); ok {
					if l, isLen := lenOf(bo.X); isLen && typeStr(l.Type()) == "[]string" {
						if k, isK := constInt(bo.Y); isK && k == 0 {
							nTests++
						}
					}
				}
			}
			c.obI("R19.1", r, "both-lists-tested", nTests >= 2, "both lists are tested", "")
		} else {
			okF := false
			for _, o := range originsOf(r.Results[0]) {
				if al, ok := o.V.(*ssa.Alloc); ok && typeStr(al.Type()) == "*github.com/go-openapi/errors.APIVerificationFailed" {
					nf := 0
					for _, fld := range []string{"Section", "MissingSpecification", "MissingRegistration"} {
						for _, st := range fieldStores(vf, "github.com/go-openapi/errors.APIVerificationFailed", fld) {
							if st.Addr.(*ssa.FieldAddr).X == ssa.Value(al) {
								nf++
							}
						}
					}
					okF = nf == 3
				}
			}
			c.obI("R19.1", r, "failure-reports-both-lists", okF, "a failure names the section, the superfluous and the missing items", "")
		}
	}
	c.min("R19.1", 22)

	// R19.2 tables
	writers := map[string]string{
		"consumers": "RegisterConsumer", "producers": "RegisterProducer", "authenticators": "RegisterAuth", "operations": "RegisterOperation",
	}
	allowedWriters := map[string]bool{"NewAPI": true, "WithJSONDefaults": true, "WithoutJSONDefaults": true}
	for _, fn := range p.LibFuncs("rt/middleware/untyped", "rt/middleware") {
		for _, in := range instrs(fn) {
			mu, ok := in.(*ssa.MapUpdate)
			if !ok {
				continue
			}
			for fld, w := range writers {
				isTab := vFieldLoad(apiT, fld, nil)(mu.Map)
				if fld == "operations" && !isTab {
					// d.operations[um][path] = handler: the inner map is a lookup of the table
					if lk, isLk := mu.Map.(*ssa.Lookup); isLk {
						isTab = vFieldLoad(apiT, fld, nil)(lk.X)
					}
				}
				if !isTab {
					continue
				}
				name := fn.Name()
				okW := name == w || allowedWriters[name]
				c.obI("R19.2", mu, "writer-of-"+fld, okW, "only Register* (and the constructor / JSON defaults) write the registration tables that validate enumerates", "table written in "+fnName(fn))
				if name == w {
					switch fld {
					case "consumers", "producers":
						okN, _ := allOrigins(mu.Key, oCallWhere(-1, "strings.ToLower", func(t *ssa.Call) bool { return t.Call.Args[0] == ssa.Value(paramOf(fn, 0)) }))
						c.obI("R19.2", mu, "media-type-lower-cased", okN, "media types are registered lower-cased (the lookups use the lower-cased, parameter-free type)", "")
					case "operations":
						if _, isLk := mu.Map.(*ssa.Lookup); isLk {
							c.obI("R19.2", mu, "path-verbatim", mu.Key == ssa.Value(paramOf(fn, 1)), "operations are registered under the verbatim path", "")
						} else {
							okN, _ := allOrigins(mu.Key, oCallWhere(-1, "strings.ToUpper", func(t *ssa.Call) bool { return t.Call.Args[0] == ssa.Value(paramOf(fn, 0)) }))
							c.obI("R19.2", mu, "method-upper-cased", okN, "methods are registered upper-cased", "")
						}
					case "authenticators":
						c.obI("R19.2", mu, "scheme-verbatim", mu.Key == ssa.Value(paramOf(fn, 0)), "authenticators are registered under the verbatim scheme name", "")
					}
				}
			}
		}
	}
	// readers
	type reader struct{ fn, field string }
	for _, rd := range []reader{
		{"(*rt/middleware/untyped.API).ConsumersFor", "consumers"}, {"(*rt/middleware/untyped.API).ProducersFor", "producers"},
		{"(*rt/middleware/untyped.API).AuthenticatorsFor", "authenticators"}, {"(*rt/middleware/untyped.API).OperationHandlerFor", "operations"},
	} {
		f := p.Fn(rd.fn)
		n := 0
		for _, in := range instrs(f) {
			lk, ok := in.(*ssa.Lookup)
			if !ok || !vFieldLoad(apiT, rd.field, nil)(lk.X) {
				continue
			}
			n++
			if rd.field == "operations" {
				okK, _ := allOrigins(lk.Index, oCallWhere(-1, "strings.ToUpper", func(t *ssa.Call) bool { return t.Call.Args[0] == ssa.Value(paramOf(f, 0)) }))
				c.obI("R19.2", lk, "handler-lookup-upper-cases", okK, "the handler lookup upper-cases the method like the registration does", "")
			}
		}
		c.obRF("R19.2", f, "reads-"+rd.field, n == 1, "the request-time reader reads the table validate enumerates", fmt.Sprintf("%d lookups", n))
		if rd.field != "operations" {
			// result keyed like the table
			for _, in := range instrs(f) {
				if mu, ok := in.(*ssa.MapUpdate); ok {
					var lkKey ssa.Value
					for _, i2 := range instrs(f) {
						if lk, isLk := i2.(*ssa.Lookup); isLk && vFieldLoad(apiT, rd.field, nil)(lk.X) {
							lkKey = lk.Index
						}
					}
					c.obI("R19.2", mu, "result-keyed-like-table", mu.Key == lkKey, "the per-route table is keyed by the same name the registration was found under", "")
				}
			}
		}
	}
	// routable API delegates
	for _, d := range []struct{ fn, callee string }{
		{"(*rt/middleware.routableUntypedAPI).ConsumersFor", "(*rt/middleware/untyped.API).ConsumersFor"},
		{"(*rt/middleware.routableUntypedAPI).ProducersFor", "(*rt/middleware/untyped.API).ProducersFor"},
		{"(*rt/middleware.routableUntypedAPI).AuthenticatorsFor", "(*rt/middleware/untyped.API).AuthenticatorsFor"},
	} {
		f := p.Fn(d.fn)
		for _, r := range returnsOf(f) {
			ok, _ := allOrigins(r.Results[0], oCallWhere(-1, d.callee, func(k *ssa.Call) bool { return k.Call.Args[1] == ssa.Value(paramOf(f, 0)) }))
			c.obI("R19.2", r, "delegates", ok, "the routable API delegates to the registry", "")
		}
	}
	ruleHandlerTableRead(c, "R19.2")
	ruleAlternativeStorageFresh(c, "R19.2")
	// the handler table served from is keyed exactly like the registry it is built from: by the verbatim path
	{
		nr := p.Fn("rt/middleware.newRoutableUntypedAPI")
		n := 0
		for _, in := range instrs(nr) {
			mu, ok := in.(*ssa.MapUpdate)
			if !ok || typeStr(mu.Map.Type()) != "map[string]net/http.Handler" {
				continue
			}
			n++
			okK := false
			if ex, isEx := mu.Key.(*ssa.Extract); isEx && ex.Index == 1 {
				_, okK = ex.Tuple.(*ssa.Next)
			}
			c.obI("R19.2", mu, "handler-table-path-verbatim", okK, "the per-method handler table is keyed by the operation's path exactly as the registry enumerates it (HandlerFor looks the router's path up verbatim)", "key "+describe(mu.Key))
		}
		c.obRF("R19.2", nr, "fills-handler-table", n >= 1, "newRoutableUntypedAPI fills the handler table", "")
	}
	// the request-time tables of a route are built from the route's own final lists (consumers from consumes, producers from produces)
	ruleAddRouteDefaults(c, "R19.2", "Consume")
	ruleAddRouteDefaults(c, "R19.2", "Produce")
	// sibling agreement: WithoutJSONDefaults undoes exactly what WithJSONDefaults does (a default media type left behind
	// without its registration is offered by every route and has no producer at request time)
	{
		with := p.Fn("(*rt/middleware/untyped.API).WithJSONDefaults")
		without := p.Fn("(*rt/middleware/untyped.API).WithoutJSONDefaults")
		set, cleared := map[string]bool{}, map[string]bool{}
		for _, in := range instrs(with) {
			switch x := in.(type) {
			case *ssa.Store:
				if _, _, immT, field := chainRoot(x.Addr); immT != nil && typeFullName(immT) == apiT {
					set["field "+field] = true
				}
			case *ssa.MapUpdate:
				for _, o := range originsOf(x.Map) {
					if ad, ok := derefLoad(o.V); ok {
						if _, _, immT, field := chainRoot(ad); immT != nil && typeFullName(immT) == apiT {
							k, _ := constString(x.Key)
							set["table "+field+"["+k+"]"] = true
						}
					}
				}
			}
		}
		for _, in := range instrs(without) {
			switch x := in.(type) {
			case *ssa.Store:
				if _, _, immT, field := chainRoot(x.Addr); immT != nil && typeFullName(immT) == apiT {
					if k, isK := constString(x.Val); isK && k == "" {
						cleared["field "+field] = true
					}
				}
			case *ssa.Call:
				if calleeName(&x.Call) == "builtin delete" {
					for _, o := range originsOf(x.Call.Args[0]) {
						if ad, ok := derefLoad(o.V); ok {
							if _, _, immT, field := chainRoot(ad); immT != nil && typeFullName(immT) == apiT {
								k, _ := constString(x.Call.Args[1])
								cleared["table "+field+"["+k+"]"] = true
							}
						}
					}
				}
			}
		}
		var keys []string
		for k := range set {
			keys = append(keys, k)
		}
		sort.Strings(keys)
		for _, k := range keys {
			c.obF("R19.2", without, "undoes-"+k, cleared[k], "WithoutJSONDefaults clears every default and registration WithJSONDefaults installs ("+k+")", "WithJSONDefaults sets "+k+" but WithoutJSONDefaults leaves it")
		}
		c.obRF("R19.2", with, "json-defaults-set", len(keys) == 4, "WithJSONDefaults installs two default media types and two registrations", fmt.Sprintf("%d", len(keys)))
	}
	c.min("R19.2", 30)

	// R19.3 request-time failure sites
	entries := c09Entries(c)
	reach := p.Reach(entries)
	nPanic, n500 := 0, 0
	for fn := range reach {
		if short(fnPkgPath(fn)) != "rt/middleware" || p.isTestFn(fn) {
			continue
		}
		for _, in := range ownInstrs(fn) { // helpers are reachable functions of their own
			if pn, ok := in.(*ssa.Panic); ok {
				nPanic++
				okP := false
				for _, rt := range rootsOf(fn) {
					if fnName(rt) == "(*rt/middleware.Context).Respond" {
						okP = true
					}
				}
				c.obI("R19.3", pn, "request-time-panic", okP, "request-reachable middleware code panics only at the tabled sites (Respond: missing producer x3, produce error x2)", "panic in "+fnName(fn))
			}
			if call, ok := in.(*ssa.Call); ok && calleeName(&call.Call) == "github.com/go-openapi/errors.New" {
				if k, isK := constInt(call.Call.Args[0]); isK && k == 500 {
					if s, isS := constString(call.Call.Args[1]); isS && strings.HasPrefix(s, "no consumer registered") {
						n500++
					}
				}
			}
		}
	}
	// (a count that differs from the table is a deviation to re-confirm, not a contradiction: each site outside Respond
	// is judged on its own above)
	c.obRF("R19.3", p.Fn("(*rt/middleware.Context).Respond"), "tabled-panic-sites", nPanic >= 3 && nPanic <= 5, "the tabled panic sites exist (missing producer, produce error)", fmt.Sprintf("%d request-reachable panics", nPanic))
	c.obF("R19.3", p.Fn("(*rt/middleware.Context).BindValidRequest"), "tabled-consumer-miss-sites", n500 >= 1 && n500 <= 2, "the consumer-miss sites are the tabled ones (one per gate, or one shared by both)", fmt.Sprintf("%d", n500))
}

// allCallsShallow lists the call instructions written in f itself (helpers are not looked through).
func allCallsShallow(f *ssa.Function) []ssa.CallInstruction {
	var out []ssa.CallInstruction
	for _, in := range ownInstrs(f) {
		if ci, ok := in.(ssa.CallInstruction); ok {
			out = append(out, ci)
		}
	}
	return out
}

// ruleAlternativeStorageFresh (shared by C02 and C19): the per-alternative scheme list and scopes table built by
// buildAuthenticators live in storage allocated inside that alternative's loop iteration.
func ruleAlternativeStorageFresh(c *Ctx, rule string) {
	p := c.P
	ba := p.Fn("(*rt/middleware.defaultRouteBuilder).buildAuthenticators")
	if alts, okAlts := requirementAlternatives(c, rule); okAlts {
		outer := sliceLoops(ba, vIs(alts))
		// the scheme->scopes table of an alternative is a map made inside that alternative's iteration
		for _, st := range fieldStores(ba, routeAuthT, "Scopes") {
			okM := len(outer) == 1
			if okM {
				os := originsOf(st.Val)
				okM = len(os) > 0
				for _, o := range os {
					mm, isMk := o.V.(*ssa.MakeMap)
					if !isMk || !outer[0].Header.Dominates(mm.Block()) || mm.Block() == outer[0].Header || !reachableFrom(mm.Block(), outer[0].Header) {
						okM = false
					}
				}
			}
			c.obI(rule, st, "scopes-table-fresh-per-alternative", okM, "each alternative's scheme->scopes table is a map made inside that alternative's iteration (a later alternative naming the same scheme cannot overwrite the scopes an earlier one requires)", "the scopes table outlives the iteration: alternatives share it")
		}
		for _, st := range fieldStores(ba, routeAuthT, "Schemes") {
			okF := len(outer) == 1
			if okF {
				okF = false
				// walk the append chain to its base allocation, looking through re-slicing
				seen := map[ssa.Value]bool{}
				var bases []ssa.Value
				var walk func(v ssa.Value)
				walk = func(v ssa.Value) {
					if seen[v] {
						return
					}
					seen[v] = true
					switch x := v.(type) {
					case *ssa.Phi:
						for _, e := range x.Edges {
							walk(e)
						}
					case *ssa.Call:
						if calleeName(&x.Call) == "builtin append" {
							walk(x.Call.Args[0])
							return
						}
						bases = append(bases, v)
					case *ssa.Slice:
						walk(x.X)
					default:
						bases = append(bases, v)
					}
				}
				walk(st.Val)
				okF = len(bases) > 0
				for _, b := range bases {
					ms, isMk := b.(*ssa.MakeSlice)
					if !isMk || !outer[0].Header.Dominates(ms.Block()) || ms.Block() == outer[0].Header || !reachableFrom(ms.Block(), outer[0].Header) {
						okF = false
					}
				}
			}
			c.obI(rule, st, "scheme-list-fresh-per-alternative", okF, "each alternative's Schemes list is built on a slice allocated inside that alternative's iteration (alternatives never share backing storage, so an earlier alternative's scheme names cannot be overwritten by a later one's)", "the scheme list is built on storage that outlives the iteration (hoisted / re-sliced buffer)")
		}
	}
}

// ruleRoutableAPIDelegates: the adapter the middleware asks (routableUntypedAPI) hands on what the registered API says
// at the time it is asked — its accessors are calls on / reads of r.api, and the two default media types it snapshots
// are taken from the fields of the same name. (An accessor answering from a snapshot taken when the context was made
// ignores what is registered afterwards; a snapshot taken from the wrong field swaps the defaults.) `which` selects the
// accessors relevant to the calling property.
func ruleRoutableAPIDelegates(c *Ctx, rule string, which ...string) {
	p := c.P
	const apiT = "rt/middleware/untyped.API"
	const adT = "rt/middleware.routableUntypedAPI"
	fromAPI := func(v ssa.Value) bool {
		return vFieldLoadO(adT, "api")(v) || vFieldLoad(adT, "api", nil)(v)
	}
	for _, m := range which {
		switch m {
		case "Authorizer", "ConsumersFor", "ProducersFor", "AuthenticatorsFor", "Formats":
			f := p.Fn("(*" + adT + ")." + m)
			for _, r := range realReturns(f) {
				if len(r.Results) != 1 {
					continue
				}
				ok, bad := allOrigins(r.Results[0], oCallWhere(-1, "(*"+apiT+")."+m, func(call *ssa.Call) bool {
					return len(call.Call.Args) >= 1 && fromAPI(call.Call.Args[0])
				}))
				c.obI(rule, r, "adapter-asks-api-"+m, ok, "the routable API's "+m+" asks the registered API when it is called (what is registered after the context was created still counts)", "origin "+describeOrigin(bad))
			}
		case "ServeErrorFor":
			f := p.Fn("(*" + adT + ").ServeErrorFor")
			for _, r := range realReturns(f) {
				if len(r.Results) != 1 {
					continue
				}
				ok, bad := allOrigins(r.Results[0], oFieldLoad(apiT, "ServeError", fromAPI))
				c.obI(rule, r, "adapter-reads-api-ServeError", ok, "the error responder handed out is the API's ServeError as it is when asked (a responder assigned after the context was created is the one invoked)", "origin "+describeOrigin(bad))
			}
		case "DefaultProduces", "DefaultConsumes":
			fld := "defaultProduces"
			if m == "DefaultConsumes" {
				fld = "defaultConsumes"
			}
			f := p.Fn("(*" + adT + ")." + m)
			for _, r := range realReturns(f) {
				if len(r.Results) != 1 {
					continue
				}
				ok, bad := allOrigins(r.Results[0], oFieldLoad(adT, fld, nil), oFieldLoad(apiT, m, fromAPI))
				if !ok {
					// the snapshot field under another name (both string fields renamed at once): it is the field every store of
					// which takes the API's own m
					if ad, isLd := derefLoad(r.Results[0]); isLd {
						if fa, isFA := ad.(*ssa.FieldAddr); isFA {
							if n, _ := structOf(fa.X.Type()); n != nil && typeFullName(n) == adT {
								nSt, okSt := 0, true
								for _, fn2 := range p.LibFuncs("rt/middleware") {
									for _, in := range ownInstrs(fn2) {
										st, isSt := in.(*ssa.Store)
										if !isSt {
											continue
										}
										fa2, isFA2 := st.Addr.(*ssa.FieldAddr)
										if !isFA2 || fa2.Field != fa.Field {
											continue
										}
										if n2, _ := structOf(fa2.X.Type()); n2 == nil || typeFullName(n2) != adT {
											continue
										}
										nSt++
										if okV, _ := allOrigins(st.Val, oFieldLoad(apiT, m, nil)); !okV {
											okSt = false
										}
									}
								}
								ok = nSt > 0 && okSt
							}
						}
					}
				}
				c.obI(rule, r, "adapter-answers-"+m, ok, "the routable API's "+m+" is the registered API's "+m, "origin "+describeOrigin(bad))
			}
			n := 0
			for _, fn := range p.LibFuncs("rt/middleware") {
				for _, st := range fieldStores(fn, adT, fld) {
					if st.Parent() != fn {
						continue
					}
					n++
					ok, bad := allOrigins(st.Val, oFieldLoad(apiT, m, nil))
					c.obI(rule, st, "adapter-snapshot-"+m, ok, "the "+fld+" the adapter keeps is taken from the API's "+m+" (not from its sibling field)", "origin "+describeOrigin(bad))
				}
			}
			c.obRF(rule, f, "adapter-keeps-"+m, n >= 1 || len(realReturns(f)) > 0, "the adapter answers "+m, "")
		}
	}
}

// ruleHandlerTableRead: HandlerFor answers with the handler registered for exactly the (method, path) it is asked about:
// the per-method table is read under the upper-cased method ARGUMENT (never another method's table — the security
// wrapper around a handler was decided from the operation it was registered for), the per-path table under the path
// argument. Shared by C19 and C02.
func ruleHandlerTableRead(c *Ctx, rule string) {
	p := c.P
	hf := p.Fn("(*rt/middleware.routableUntypedAPI).HandlerFor")
	n := 0
	for _, in := range instrs(hf) {
		lk, ok := in.(*ssa.Lookup)
		if !ok {
			continue
		}
		if vFieldLoad("rt/middleware.routableUntypedAPI", "handlers", nil)(lk.X) || vFieldLoadO("rt/middleware.routableUntypedAPI", "handlers")(lk.X) {
			n++
			okK, _ := allOrigins(lk.Index, oCallWhere(-1, "strings.ToUpper", func(t *ssa.Call) bool { return t.Call.Args[0] == ssa.Value(paramOf(hf, 0)) }))
			c.obI(rule, lk, "handler-table-upper-cases", okK, "the handler table is read with the upper-cased method it is asked about (a handler registered for another method is never handed out)", "key "+describe(lk.Index))
			continue
		}
		if typeStr(lk.X.Type()) == "map[string]net/http.Handler" {
			okP, _ := allOrigins(lk.Index, oIsValue(paramOf(hf, 1)))
			c.obI(rule, lk, "handler-table-by-asked-path", okP, "the per-method table is read under the path it is asked about", "key "+describe(lk.Index))
		}
	}
	c.obRF(rule, hf, "reads-handler-table", n >= 1, "HandlerFor reads the per-method handler table", fmt.Sprintf("%d", n))
}

// ruleRegistryEntriesByOwnKey (shared by C06 and C08): the per-route table the untyped API hands out maps each media
// type to the codec registered under THAT media type — an entry is never filled with the codec of another key (the API
// default, a family representative): a type nobody registered a codec for stays out of the table.
func ruleRegistryEntriesByOwnKey(c *Ctx, rule, fn, field string) {
	f := c.P.FnOpt(fn)
	if f == nil {
		return
	}
	const apiT = "rt/middleware/untyped.API"
	n := 0
	for _, in := range instrs(f) {
		mu, ok := in.(*ssa.MapUpdate)
		if !ok || in.Parent() != f {
			continue
		}
		n++
		okV, bad := allOrigins(mu.Value, func(o Origin) bool {
			lk, isLk := o.V.(*ssa.Lookup)
			if !isLk || !(vFieldLoad(apiT, field, nil)(lk.X) || vFieldLoadO(apiT, field)(lk.X)) {
				return false
			}
			return lk.Index == mu.Key || sameVal(lk.Index, mu.Key) || sameOrigins(lk.Index, mu.Key)
		})
		c.obI(rule, mu, "entry-is-the-codec-registered-under-its-own-key", okV, "each entry of the table handed to a route is "+field+"[that media type]", "the entry for a media type is filled from "+describeOrigin(bad)+": a type without a codec of its own is served by another type's codec")
	}
	c.obRF(rule, f, "fills-route-table", n >= 1, baseName(fn)+" fills the table it returns", "")
}
